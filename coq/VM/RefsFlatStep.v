(* Item accounting on compound-free states, state level: while a single script context runs and no Array/Struct/Map
   has been created, the item counter equals exactly what a walk of stacks and slots finds (reach_count). *)
From NG Require Import VM.Model VM.LimitsData VM.RefsFlat VM.RefsFlatOps VM.Reach VM.Total.
Open Scope Z_scope.

Definition frame_prim (f : frame) : Prop := slot_prim (f_local f) /\ slot_prim (f_args f).
Definition frame_cnt (f : frame) : Z := slen (f_local f) + slen (f_args f).
Fixpoint frames_cnt (fs : list frame) : Z := match fs with [] => 0 | f :: t => frame_cnt f + frames_cnt t end.

Definition flat_inv (s : state) : Prop :=
  flat_d (view s) /\ Forall frame_prim (s_frames s) /\ s_outer s = [] /\
  match s_exc s with Some e => prim e | None => True end /\
  nonneg_bytes (sc_prog (s_sc s)) /\
  excess (view s) = frames_cnt (s_frames s).

(* ---------- the walk on a flat state ---------- *)
Lemma reach_wl_prim : forall fuel h seen acc w, Forall prim w -> reach_wl fuel h seen acc w = (acc, seen).
Proof.
  induction fuel as [|f IH]; intros h seen acc w H; simpl; [reflexivity|].
  destruct w as [|it w]; [reflexivity|]. inv H. unfold prim in H2. rewrite H2. apply IH. assumption.
Qed.
Lemma reach_from_prim h rs : Forall prim rs -> reach_from h rs = zlen rs.
Proof. intros H. unfold reach_from. rewrite reach_wl_prim by assumption. simpl. lia. Qed.

Lemma slot_items_prim sl : slot_prim sl -> Forall prim (slot_items sl).
Proof. destruct sl; simpl; auto. Qed.
Lemma zlen_slot_items sl : zlen (slot_items sl) = slen sl.
Proof. destruct sl; reflexivity. Qed.
Lemma frames_roots_prim fs : Forall frame_prim fs -> Forall prim (flat_map frame_roots fs).
Proof.
  induction fs as [|f fs IH]; intros H; simpl; [constructor|]. inv H. destruct H2.
  apply Forall_app; split; [|auto]. unfold frame_roots. apply Forall_app; split; apply slot_items_prim; assumption.
Qed.
Lemma zlen_frames_roots fs : zlen (flat_map frame_roots fs) = frames_cnt fs.
Proof.
  induction fs as [|f fs IH]; simpl; [reflexivity|]. rewrite zlen_app, IH. unfold frame_roots, frame_cnt.
  rewrite zlen_app, !zlen_slot_items. lia.
Qed.

(* on a flat state the counter is exact *)
Theorem flat_inv_exact s : flat_inv s -> reach_count s = s_refs s.
Proof.
  intros ((A & B & C & D & E) & Fs & O & _ & _ & X). unfold reach_count, roots. rewrite O. cbn [outer_roots].
  simpl in A, B, C, D.
  rewrite reach_from_prim.
  - rewrite !zlen_app, zlen_frames_roots, zlen_nil. unfold frame_roots. rewrite zlen_app, !zlen_slot_items.
    unfold excess, droots in X. simpl in X. lia.
  - apply Forall_app'; [exact A|]. apply Forall_app'; [apply slot_items_prim; exact D|].
    apply Forall_app'; [unfold frame_roots; apply Forall_app'; apply slot_items_prim; assumption|].
    apply Forall_app'; [apply frames_roots_prim; assumption|constructor].
Qed.

(* ---------- control primitives ---------- *)
Lemma unview_flat s d : flat_inv s -> flat_d d -> excess d = excess (view s) -> flat_inv (unview s d).
Proof.
  intros (V & Fs & O & Ex & NN & X) F E. repeat split; try assumption; try apply F.
  destruct d; simpl in *. unfold excess, droots in *. simpl in *. lia.
Qed.
Lemma jump_flat s pos s' : flat_inv s -> jump s pos = Some s' -> flat_inv s'.
Proof. unfold jump. case_if; [|discriminate]. intros H E; inv E. exact H. Qed.
Lemma set_try_flat s t : flat_inv s -> flat_inv (set_try s t).
Proof. intros H. exact H. Qed.
Lemma set_gas_ip_flat s g n : flat_inv s -> flat_inv (set_ip (set_gas s g) n).
Proof. intros H. exact H. Qed.

Lemma call_flat s pos s' : flat_inv s -> call s pos = Some s' -> flat_inv s'.
Proof.
  unfold call. repeat case_if; try discriminate. intros ((A & B & C & D & E) & Fs & O & Ex & NN & X) Q; inv Q.
  repeat split; simpl; try assumption; try exact I.
  - constructor; [split; assumption|assumption].
  - unfold excess, droots, frame_cnt in *. simpl in *. lia.
Qed.

Lemma clear_slot_prim sl h r : slot_prim sl -> clear_slot sl (h, r) = (h, r - slen sl).
Proof.
  destruct sl as [l|]; simpl; intros H; [|f_equal; lia]. unfold ref_remove_list.
  rewrite ref_remove_wl_prim; [reflexivity|assumption|unfold ref_fuel; lia].
Qed.

Lemma unload_flat b s : flat_inv s ->
  match unload b s with UNext s' => flat_inv s' | ULast s' => flat_inv s' | UFault => True end.
Proof.
  intros ((A & B & C & D & E) & Fs & O & Ex & NN & X). unfold unload. simpl in A, B, C, D, E.
  unfold excess, droots in X. simpl in X.
  destruct (s_frames s) as [|f' fs] eqn:Ef.
  - rewrite O. rewrite (clear_slot_prim _ _ _ B), (clear_slot_prim _ _ _ C), (clear_slot_prim _ _ _ D).
    cbn [fst snd]. cbn [frames_cnt] in X. repeat split; simpl; try assumption; try constructor; try exact I.
    unfold excess, droots. simpl. lia.
  - rewrite (clear_slot_prim _ _ _ B), (clear_slot_prim _ _ _ C). cbn [fst snd]. inv Fs. destruct H1 as [L' A'].
    cbn [frames_cnt] in X. repeat split; simpl; try assumption.
    unfold excess, droots, frame_cnt in *. simpl in *. lia.
Qed.

Lemma unwind_flat fuel : forall s s', flat_inv s -> unwind fuel s = Some s' -> flat_inv s'.
Proof.
  induction fuel as [|f IH]; intros s s' K; simpl; [discriminate|].
  destruct (trim_try (f_try (s_fr s))) as [|t ts].
  - pose proof (unload_flat false (set_try s []) K) as U.
    destruct (unload false (set_try s [])); try discriminate. apply IH; assumption.
  - destruct (t_state t), (has_catch t), (s_exc s) eqn:Ex; intros E; try (eapply jump_flat; [|exact E]; exact K).
    eapply jump_flat; [|exact E].
    set (s1 := set_try s (mkTry (t_catch t) (t_finally t) (t_end t) ECatch :: ts)) in *.
    assert (K1 : flat_inv s1) by exact K.
    assert (Pi : prim i) by (destruct K as (_ & _ & _ & Pe & _); rewrite Ex in Pe; exact Pe).
    destruct (push_flat i (view s1) Pi (proj1 K1)) as [F X].
    pose proof (unview_flat s1 _ K1 F X) as U.
    destruct U as (V & Fs & O & _ & NN & Xx). repeat split; try assumption; try apply V; try exact I.
Qed.

Lemma throw_flat e s s' : flat_inv s -> prim e -> throw e s = Some s' -> flat_inv s'.
Proof.
  intros (V & Fs & O & Ex & NN & X) P. unfold throw. apply unwind_flat. repeat split; try assumption; apply V.
Qed.

(* ---------- decoding: operand bytes come from the script ---------- *)
Lemma take_sub n : forall l a r, take n l = Some (a, r) -> (forall x, In x a -> In x l) /\ (forall x, In x r -> In x l).
Proof.
  induction n as [|n IH]; intros l a r; simpl; [intros E; inv E; split; [intros x []|auto]|].
  destruct l as [|y l]; [discriminate|]. destruct (take n l) as [[a' r']|] eqn:E; [|discriminate].
  intros X; inv X. destruct (IH _ _ _ E) as [Ha Hr]. split; intros x Hx; simpl in *; [destruct Hx; auto|auto].
Qed.
Lemma In_skipn {A} n (l : list A) x : In x (skipn n l) -> In x l.
Proof. revert n; induction l as [|a l IH]; destruct n; simpl; auto. intros H. right. eapply IH; eauto. Qed.
Lemma decode_param_nonneg prog ip op p next : nonneg_bytes prog -> decode prog ip = DecOk op p next -> nonneg_bytes p.
Proof.
  unfold nonneg_bytes. rewrite !Forall_forall. intros H. unfold decode. case_if; [discriminate|].
  destruct (skipn (Z.to_nat ip) prog) as [|b rest] eqn:Sk; [discriminate|].
  assert (R : forall x, In x rest -> In x prog).
  { intros x Hx. apply (In_skipn (Z.to_nat ip)). rewrite Sk. right. assumption. }
  destruct (opcode_of_byte b); [|discriminate]. destruct (operand_of o) as [n|k].
  - destruct (take n rest) as [[a r]|] eqn:T; [|discriminate]. intros E; inv E.
    intros x Hx. apply H, R. exact (proj1 (take_sub _ _ _ _ T) x Hx).
  - destruct (take k rest) as [[lp rest']|] eqn:T1; [|discriminate]. case_if; [discriminate|].
    destruct (take (Z.to_nat (from_le lp)) rest') as [[a r]|] eqn:T2; [|discriminate]. intros E; inv E.
    intros x Hx. apply H, R. apply (proj2 (take_sub _ _ _ _ T1)). exact (proj1 (take_sub _ _ _ _ T2) x Hx).
Qed.

Lemma jump_cond_flat op d b d' : flat_d d -> jump_cond op d = Some (b, d') -> flat_d d' /\ excess d' = excess d.
Proof.
  intros H. unfold jump_cond.
  destruct op; try discriminate; intros E;
    repeat match goal with
    | E : Some _ = Some _ |- _ => inv E
    | E : match ?e with Some _ => _ | None => None end = Some _ |- _ =>
        let X := fresh "X" in destruct e as [[? ?]|] eqn:X; [|discriminate]
    end; learnf; split; try assumption; lia.
Qed.

(* ---------- one instruction ---------- *)
Definition xres_flat (r : xres) : Prop :=
  match r with XNext s' => flat_inv s' | XHalt s' => flat_inv s' | XFault => True end.

Lemma xopt_flat o : (forall s', o = Some s' -> flat_inv s') -> xres_flat (xopt o).
Proof. destruct o; simpl; auto. Qed.

Lemma exec_op_flat cip op p s :
  flat_inv s -> creator op = false -> nonneg_bytes p -> xres_flat (exec_op no_sys cip op p s).
Proof.
  intros K C NN.
  assert (V : flat_d (view s)) by apply K.
  assert (DD : xres_flat (match exec_data (mkEnv cip (prog_len s) (sc_sid (s_sc s))) op p (view s) with
               | DOk d => XNext (unview s d) | DThrow e d => xopt (throw e (unview s d)) | DFault => XFault end)).
  { pose proof (exec_data_flat (mkEnv cip (prog_len s) (sc_sid (s_sc s))) op p (view s) V C NN) as R.
    destruct (exec_data _ op p (view s)) as [d|e d|]; simpl in R; [|  |exact I].
    - destruct R. apply unview_flat; assumption.
    - destruct R as (Pe & F & X). apply xopt_flat. intros s' E. eapply throw_flat; [| |exact E]; [apply unview_flat|]; assumption. }
  assert (JC : xres_flat (match jump_offset cip (prog_len s) p with
                      | None => XFault
                      | Some off => match jump_cond op (view s) with
                                    | None => XFault
                                    | Some (c, d) => let s0 := unview s d in if c then xopt (jump s0 off) else XNext s0
                                    end end)).
  { destruct (jump_offset cip (prog_len s) p); [|exact I].
    destruct (jump_cond op (view s)) as [[c d]|] eqn:E; [|exact I]. cbv zeta.
    destruct (jump_cond_flat _ _ _ _ V E) as [F X].
    destruct c; [apply xopt_flat; intros s' J; eapply jump_flat; [|exact J]|]; apply unview_flat; assumption. }
  destruct op; try discriminate C; try exact DD; try exact JC; unfold exec_op.
  - (* CALL *) destruct (jump_offset cip (prog_len s) p); [|exact I]. apply xopt_flat. intros s' E. eapply call_flat; eauto.
  - (* CALLL *) destruct (jump_offset cip (prog_len s) p); [|exact I]. apply xopt_flat. intros s' E. eapply call_flat; eauto.
  - (* CALLA *) destruct (pop (view s)) as [[[] d]|] eqn:E; try exact I.
    case_if; [|exact I]. apply xopt_flat. intros s' Cl. eapply call_flat; [|exact Cl].
    destruct (pop_flat _ _ _ V E) as (_ & F & X & _). apply unview_flat; assumption.
  - (* TRY *) unfold xres_flat. destruct (try_params TRY p) as [cp fp]. peel. apply set_try_flat; assumption.
  - (* TRYL *) unfold xres_flat. destruct (try_params TRYL p) as [cp fp]. peel. apply set_try_flat; assumption.
  - (* ENDTRY *) destruct (f_try (s_fr s)) as [|t ts]; [exact I|].
    destruct (t_state t); try exact I; (destruct (jump_offset cip (prog_len s) p); [|exact I]); case_if;
      apply xopt_flat; intros s' J; (eapply jump_flat; [|exact J]); apply set_try_flat; assumption.
  - (* ENDTRYL *) destruct (f_try (s_fr s)) as [|t ts]; [exact I|].
    destruct (t_state t); try exact I; (destruct (jump_offset cip (prog_len s) p); [|exact I]); case_if;
      apply xopt_flat; intros s' J; (eapply jump_flat; [|exact J]); apply set_try_flat; assumption.
  - (* ENDFINALLY *) destruct (s_exc s) eqn:Ex.
    + apply xopt_flat. intros s' E. refine (throw_flat _ _ _ K _ E).
      destruct K as (_ & _ & _ & Pe & _). rewrite Ex in Pe. exact Pe.
    + destruct (f_try (s_fr s)) as [|t ts]; [exact I|].
      apply xopt_flat; intros s' J. eapply jump_flat; [|exact J]. apply set_try_flat; assumption.
  - (* RET *) unfold do_ret. pose proof (unload_flat true s K). destruct (unload true s); simpl; auto.
Qed.

(* the opcode about to be executed creates no compound *)
Definition no_creator_here (s : state) : Prop :=
  match decode (sc_prog (s_sc s)) (f_ip (s_fr s)) with DecOk op _ _ => creator op = false | _ => True end.

Theorem step_flat s :
  flat_inv s -> no_creator_here s ->
  match step s with Running s' => flat_inv s' | Halted s' => flat_inv s' | Faulted _ => True end.
Proof.
  intros K NC. unfold step, step_with. unfold no_creator_here in NC.
  assert (P : forall g r, xres_flat r ->
              match post g r with Running s' => flat_inv s' | Halted s' => flat_inv s' | Faulted _ => True end).
  { intros g r R. destruct r; simpl; try exact I; case_if; try exact I; assumption. }
  destruct (decode (sc_prog (s_sc s)) (f_ip (s_fr s))) as [| |op p next] eqn:D; [|exact I|].
  - apply P. unfold do_ret. pose proof (unload_flat true s K). destruct (unload true s); simpl; auto.
  - case_if; [exact I|]. apply P. apply exec_op_flat; [apply set_gas_ip_flat; assumption|assumption|].
    eapply decode_param_nonneg; [|exact D]. apply K.
Qed.

Lemma init_flat prog sid base limit : nonneg_bytes prog -> flat_inv (init_state prog sid base limit).
Proof. intros H. repeat split; simpl; try constructor; try exact I; assumption. Qed.

(* Partial result towards refs_never_undercount: along an execution of one script in which none of the nine
   compound-creating instructions (NEWARRAY0 NEWARRAY NEWARRAY_T NEWSTRUCT0 NEWSTRUCT NEWMAP PACK PACKSTRUCT PACKMAP)
   has been executed, the item counter equals what the walk finds, exactly, at every step and at HALT. *)
Fixpoint run_no_creator (n : nat) (s : state) : Prop :=
  match n with
  | O => True
  | S n' => no_creator_here s /\ match step s with Running s' => run_no_creator n' s' | _ => True end
  end.

Theorem refs_exact_flat : forall n s,
  flat_inv s -> run_no_creator n s ->
  match run n s with
  | Running s' => reach_count s' = s_refs s'
  | Halted s' => reach_count s' = s_refs s'
  | Faulted _ => True
  end.
Proof.
  induction n as [|n IH]; intros s K R; simpl; [apply flat_inv_exact; assumption|].
  destruct R as [NC R]. pose proof (step_flat s K NC) as S.
  destruct (step s) as [s1|s1|g]; [apply IH; assumption|apply flat_inv_exact; assumption|exact I].
Qed.
