(* No counts leak when the heap is acyclic: SETITEM (the only instruction whose soundness proof needs the leak list) preserves
   the in-degree invariant exactly when it starts on an acyclic heap, because un-counting the replaced element cannot reach
   the container it is stored in.  With it: [exec_data_E], every data instruction without leak. *)
From NG Require Import VM.Model VM.LimitsData VM.Reach VM.RefsInv VM.RefsMoves VM.RefsData VM.RefsOps VM.RefsStale VM.RefsComp
  VM.RefsExact.
Open Scope Z_scope.

(* ---------- old cells keep their children ---------- *)
Definition kids (h h' : heap) : Prop :=
  forall l c, hget h l = Some c -> exists c', hget h' l = Some c' /\ cell_children c' = cell_children c.
Lemma kids_refl h : kids h h. Proof. intros l c E. eauto. Qed.
Lemma kids_trans a b c : kids a b -> kids b c -> kids a c.
Proof. intros H1 H2 l x E. destruct (H1 l x E) as (y & Ey & Cy). destruct (H2 l y Ey) as (z & Ez & Cz). exists z. split; congruence. Qed.
Lemma kids_rc_only h h' : rc_only h h' -> kids h h'.
Proof. intros [_ H] l c E. destruct (H l c E) as (r & E'). exists (cell_set_rc c r). split; [assumption|apply set_rc_children]. Qed.
Lemma kids_app h t : kids h (h ++ t).
Proof.
  intros l c E. exists c. split; [|reflexivity]. unfold hget in *. rewrite nth_error_app1; [assumption|].
  apply nth_error_Some. congruence.
Qed.

Lemma clone_struct_app fuel : forall h l lim h' l' lim', clone_struct fuel h l lim = Some (h', l', lim') -> exists t, h' = h ++ t.
Proof.
  induction fuel as [|f IH]; intros h l lim h' l' lim'; simpl; [discriminate|].
  destruct (get_seq h l) as [[rc xs]|]; [|discriminate].
  match goal with |- match ?go xs h lim [] with _ => _ end = _ -> _ => set (GO := go) end.
  assert (K : forall xs h0 lim0 acc h1 ys lim1, GO xs h0 lim0 acc = Some (h1, ys, lim1) -> exists t, h1 = h0 ++ t).
  { clear - IH. induction xs as [|x xs IHxs]; intros h0 lim0 acc h1 ys lim1; simpl.
    - intros Q; inv Q. exists []. rewrite app_nil_r. reflexivity.
    - case_if; [discriminate|]. destruct x; try (apply IHxs; fail).
      destruct (clone_struct f h0 l (lim0 - 1)) as [[[h2 l2] lim2]|] eqn:C; [|discriminate].
      intros Q. destruct (IH _ _ _ _ _ _ C) as (t1 & ->). destruct (IHxs _ _ _ _ _ _ Q) as (t2 & ->).
      exists (t1 ++ t2). rewrite app_assoc. reflexivity. }
  destruct (GO xs h lim []) as [[[h1 ys] lim1]|] eqn:Eg; [|discriminate].
  unfold halloc. intros Q; inv Q. destruct (K _ _ _ _ _ _ _ Eg) as (t & ->). exists (t ++ [CSeq 0 ys]). rewrite app_assoc. reflexivity.
Qed.
Lemma clone_if_struct_kids h it h' it' b : clone_if_struct h it = Some (h', it', b) -> kids h h'.
Proof.
  unfold clone_if_struct. destruct it; try (intros Q; inv Q; apply kids_refl).
  destruct (clone_struct clone_fuel h l (MaxClonableNumOfItems - 1)) as [[[h1 l1] lim1]|] eqn:C; [|discriminate].
  intros Q; inv Q. destruct (clone_struct_app _ _ _ _ _ _ _ C) as (t & ->). apply kids_app.
Qed.

Lemma d_remove_kids it d : kids (d_heap d) (d_heap (d_remove it d)).
Proof.
  unfold d_remove. pose proof (ref_remove_rc_only (d_heap d) (d_refs d) it) as R.
  destruct (ref_remove (d_heap d) (d_refs d) it). apply kids_rc_only. exact R.
Qed.
Lemma d_add_kids it d : kids (d_heap d) (d_heap (d_add it d)).
Proof.
  unfold d_add. pose proof (ref_add_rc_only (d_heap d) (d_refs d) it) as R.
  destruct (ref_add (d_heap d) (d_refs d) it). apply kids_rc_only. exact R.
Qed.
Lemma d_remove_es it d : d_es (d_remove it d) = d_es d.
Proof. unfold d_remove. destruct (ref_remove (d_heap d) (d_refs d) it). reflexivity. Qed.
Lemma d_add_es it d : d_es (d_add it d) = d_es d.
Proof. unfold d_add. destruct (ref_add (d_heap d) (d_refs d) it). reflexivity. Qed.
Lemma pop_noref_es d it d' : pop_noref d = Some (it, d') -> d_es d = it :: d_es d' /\ d_heap d' = d_heap d.
Proof. unfold pop_noref. destruct (d_es d) as [|x es]; [discriminate|]. intros Q; inv Q. split; reflexivity. Qed.
Lemma pop_es d it d' : pop d = Some (it, d') -> d_es d = it :: d_es d' /\ kids (d_heap d) (d_heap d').
Proof.
  unfold pop. destruct (pop_noref d) as [[i d1]|] eqn:P; [|discriminate]. intros Q; inv Q.
  destruct (pop_noref_es _ _ _ P) as [Es Eh]. rewrite d_remove_es. split; [assumption|]. rewrite <- Eh. apply d_remove_kids.
Qed.

(* ---------- a path in the later heap that starts at an old value is a path in the old heap ---------- *)
Lemma reaches_back h0 h : kids h0 h -> wfh h0 -> forall it l, reaches h it l -> valid h0 it -> reaches h0 it l.
Proof.
  intros K W it l H. induction H as [it l E|it l0 c ch l E Ec Hin Hr IH]; intros V; [apply reaches_here; assumption|].
  unfold valid in V. rewrite E in V. destruct V as (c0 & E0 & _).
  destruct (K _ _ E0) as (c' & E' & Ch). rewrite Ec in E'. inv E'. rewrite Ch in Hin.
  eapply reaches_step; eauto. apply IH. pose proof (wfh_children _ _ _ W E0) as Vc. rewrite Forall_forall in Vc. auto.
Qed.

(* the element stored in a container of the acyclic heap h0 does not lead back to the container, also later *)
Lemma no_way_back h0 h l c old :
  acyc h0 -> wfh h0 -> kids h0 h -> (exists c0, hget h0 l = Some c0) -> hget h l = Some c -> In old (cell_children c) ->
  ~ reaches h old l.
Proof.
  intros Ac W K (c0 & E0) Ec Hin Hr. destruct (K _ _ E0) as (c' & E' & Ch). rewrite Ec in E'. inv E'. rewrite Ch in Hin.
  apply (acyc_child_not_back h0 l c0 old Ac E0 Hin). eapply reaches_back; eauto.
  pose proof (wfh_children _ _ _ W E0) as Vc. rewrite Forall_forall in Vc. auto.
Qed.

Lemma d_remove_frame d it l c :
  hget (d_heap d) l = Some c -> ~ reaches (d_heap d) it l -> hget (d_heap (d_remove it d)) l = Some c.
Proof.
  intros E NR. pose proof (ref_remove_frame (d_heap d) (d_refs d) it l c E NR) as K. unfold d_remove.
  destruct (ref_remove (d_heap d) (d_refs d) it). exact K.
Qed.

(* ---------- SETITEM without leak ---------- *)
Section SetItemE.
Variable Ex : list item.
Variable h0 : heap.
Hypothesis Ac : acyc h0.
Hypothesis W0 : wfh h0.

Lemma setitem_seq_E key cloned d U l :
  dI (cloned :: Ex) [] U d -> valid (d_heap d) cloned -> kids h0 (d_heap d) -> (exists c0, hget h0 l = Some c0) ->
  res_I Ex (do (rc, its) <- get_seq (d_heap d) l;
            do i <- try_int key; do i <- to_i32 i;
            if (i <? 0) || (zlen its <=? i) then throw_bytes (msg_out_of_range i) (d_remove cloned d)
            else do old <- nth_error its (Z.to_nat i);
                 let d := if rc =? 0 then d_remove cloned d else d_remove old d in
                 do (rc', its') <- get_seq (d_heap d) l;
                 ok (set_heap d (hset (d_heap d) l (CSeq rc' (set_nth (Z.to_nat i) its' cloned))))).
Proof.
  intros H Vcl Kd Hl. destruct (get_seq (d_heap d) l) as [[rc its]|] eqn:Gs; [|exact I]. pose proof (get_seq_hget _ _ _ _ Gs) as Gh.
  destruct (try_int key); [|exact I]. destruct (to_i32 z) as [i|]; [|exact I].
  pose proof (dI_remove _ _ _ _ H) as Hr.
  case_if; [eapply throw_bytes_I; exact Hr|].
  destruct (nth_error its (Z.to_nat i)) as [old|] eqn:N; [|exact I]. cbv zeta.
  assert (Vits : Forall (valid (d_heap d)) its) by exact (wfh_children _ _ _ (dI_wfh _ _ _ _ H) Gh).
  destruct (set_nth_meq _ _ _ cloned N) as (M & Si).
  destruct (rc =? 0) eqn:Z.
  - assert (Z0 : rc = 0) by lia. subst rc.
    pose proof (d_remove_dead d cloned l _ Gh eq_refl) as Gd. unfold get_seq. rewrite Gd.
    unfold ok. cbn [res_I].
    eapply (dead_edit_I _ _ _ l _ (CSeq 0 (set_nth (Z.to_nat i) its cloned)) Hr Gd); try reflexivity; try exact I.
    cbn [cell_children]. apply Forall_set_nth.
    + eapply Forall_valid_shape; [apply d_remove_shape|assumption].
    + eapply valid_shape; [apply d_remove_shape|assumption].
  - (* un-counting the old element cannot reach the container: its count is untouched *)
    assert (NB : ~ reaches (d_heap d) old l).
    { eapply (no_way_back h0 (d_heap d) l (CSeq rc its) old); eauto. cbn [cell_children]. eapply nth_error_In; eauto. }
    pose proof (d_remove_frame d old l _ Gh NB) as Gd. unfold get_seq at 1. rewrite Gd.
    unfold ok.
    pose proof (dI_remove_then_edit (cloned :: Ex) U d l (CSeq rc its) old (CSeq rc (set_nth (Z.to_nat i) its cloned)) [cloned] H Gh) as K.
    rewrite live_seq, Z in K. specialize (K eq_refl I (nth_error_In _ _ N) _ Gd I I eq_refl).
    cbn [cell_children] in K. specialize (K M). rewrite live_seq, Z in K. cbn [negb] in K.
    cbn [res_I]. eapply dI0_intro. apply (dI_cancel _ _ _ _ cloned). apply K.
    + apply Forall_set_nth; assumption.
    + constructor; [assumption|constructor].
Qed.

Lemma setitem_map_E key cloned d U l :
  dI (cloned :: Ex) [] U d -> valid (d_heap d) cloned -> valid_key key = true -> kids h0 (d_heap d) -> (exists c0, hget h0 l = Some c0) ->
  res_I Ex (do (rc, es) <- get_map (d_heap d) l;
            let d := if rc =? 0 then d_remove cloned d
                     else match map_index es key with
                          | Some i => match nth_error es i with Some (_, old) => d_remove old d | None => d end
                          | None => d_add key d
                          end in
            do (rc', es') <- get_map (d_heap d) l;
            ok (set_heap d (hset (d_heap d) l (CMap rc' (map_add es' key cloned))))).
Proof.
  intros H Vcl Vk Kd Hl. pose proof (valid_key_prim _ Vk) as Pk.
  destruct (get_map (d_heap d) l) as [[rc es]|] eqn:Gm; [|exact I]. pose proof (get_map_hget _ _ _ _ Gm) as Gh.
  cbv zeta.
  assert (Vfl : Forall (valid (d_heap d)) (flat_entries es)) by exact (wfh_children _ _ _ (dI_wfh _ _ _ _ H) Gh).
  pose proof (keys_prim_get _ _ _ (di_kp _ _ _ _ H) Gh) as Kp. simpl in Kp.
  destruct (rc =? 0) eqn:Z.
  - assert (Z0 : rc = 0) by lia. subst rc. pose proof (dI_remove _ _ _ _ H) as Hr.
    pose proof (d_remove_dead d cloned l _ Gh eq_refl) as Gd. unfold get_map. rewrite Gd.
    unfold ok. cbn [res_I].
    eapply (dead_edit_I _ _ _ l _ (CMap 0 (map_add es key cloned)) Hr Gd); try reflexivity; try exact I.
    + simpl. apply map_add_kp; assumption.
    + cbn [cell_children]. apply map_add_valid.
      * eapply Forall_valid_shape; [apply d_remove_shape|assumption].
      * apply valid_prim. assumption.
      * eapply valid_shape; [apply d_remove_shape|assumption].
  - destruct (map_index es key) as [i|] eqn:Mi.
    + destruct (map_index_nth _ _ _ Mi) as (k0 & old & N). rewrite N.
      destruct (map_add_found es key cloned i k0 old Mi N) as (Ho & Hl' & Hi & Hin & Hf).
      assert (NB : ~ reaches (d_heap d) old l).
      { eapply (no_way_back h0 (d_heap d) l (CMap rc es) old); eauto. }
      pose proof (d_remove_frame d old l _ Gh NB) as Gd. unfold get_map at 1. rewrite Gd. unfold ok.
      pose proof (dI_remove_then_edit (cloned :: Ex) U d l (CMap rc es) old (CMap rc (map_add es key cloned)) [cloned] H Gh) as K.
      rewrite live_map, Z in K. cbn [cell_children] in K. specialize (K eq_refl I Hin _ Gd I).
      rewrite live_map, Z in K. cbn [negb] in K.
      cbn [res_I]. eapply dI0_intro. apply (dI_cancel _ _ _ _ cloned). apply K; try reflexivity.
      * simpl. apply map_add_kp; assumption.
      * split; [intros x; specialize (Ho x); rewrite !occ_app; cbn [occ]; lia|rewrite !zlen_app, !zlen_cons', zlen_nil; lia].
      * apply map_add_valid; [assumption|apply valid_prim; assumption|assumption].
      * constructor; [assumption|constructor].
    + assert (Ha : dI (key :: cloned :: Ex) [] U (d_add key d)).
      { apply dI_hold_added; [exact H|apply valid_prim; assumption]. }
      assert (Eh : d_heap (d_add key d) = d_heap d).
      { unfold d_add, ref_add. rewrite Pk. reflexivity. }
      unfold get_map. rewrite Eh, Gh. unfold ok. cbn [res_I].
      rewrite (map_add_new _ _ _ Mi).
      pose proof (dI_edit _ _ _ _ l (CMap rc es) (CMap rc (es ++ [(key, cloned)])) [key; cloned] [] Ha) as Ed.
      rewrite Eh in Ed. specialize (Ed Gh I I eq_refl). rewrite live_map, Z in Ed. cbn [negb app cell_children] in Ed.
      eapply dI0_intro. apply (dI_cancel _ _ _ _ cloned). apply (dI_cancel _ _ _ _ key).
      eapply dI_rearr; [apply Ed| | | | | | |]; try reflexivity; try apply meq_refl; try tauto.
      * simpl. apply Forall_app; split; [assumption|constructor; [assumption|constructor]].
      * rewrite flat_entries_app, app_nil_r. apply meq_refl.
      * rewrite flat_entries_app. apply Forall_app; split; [assumption|].
        simpl. constructor; [apply valid_prim; assumption|constructor; [assumption|constructor]].
      * constructor.
      * intros a Hin. left. exact Hin.
Qed.

Lemma setitem_buf_E key cloned d U l :
  dI (cloned :: Ex) [] U d ->
  res_I Ex (let d := d_remove cloned d in
            do bs <- get_buf (d_heap d) l;
            do i <- try_int key; do i <- to_i32 i;
            if (i <? 0) || (zlen bs <=? i) then throw_bytes (msg_out_of_range i) d
            else do b <- try_int cloned; do b <- to_i32 b;
                 if (b <? -128) || (255 <? b) then None
                 else ok (set_heap d (hset (d_heap d) l (CBuf (set_nth (Z.to_nat i) bs (b mod 256)))))).
Proof.
  intros H. pose proof (dI_remove _ _ _ _ H) as Hr. cbv zeta.
  destruct (get_buf (d_heap (d_remove cloned d)) l) as [bs|] eqn:Gb; [|exact I].
  destruct (try_int key); [|exact I]. destruct (to_i32 z); [|exact I].
  case_if; [eapply throw_bytes_I; exact Hr|].
  destruct (try_int cloned); [|exact I]. destruct (to_i32 z1); [|exact I]. case_if; [exact I|].
  unfold ok. cbn [res_I]. eapply dI0_intro. eapply dI_set_buf; eassumption.
Qed.
End SetItemE.

Lemma op_setitem_E Ex d : acyc (d_heap d) -> dI0 Ex d -> res_I Ex (op_setitem d).
Proof.
  intros Ac [U H]. unfold op_setitem. pose proof (dI_wfh _ _ _ _ H) as W0.
  destruct (pop_noref d) as [[itm d1]|] eqn:P1; [|exact I]. pose proof (dI_pop_noref _ _ _ _ _ _ H P1) as H1.
  destruct (pop_noref_es _ _ _ P1) as [Es1 Eh1].
  assert (Vitm : valid (d_heap d1) itm) by (eapply dI_valid_E; [exact H1|simpl; tauto]).
  destruct (clone_if_struct (d_heap d1) itm) as [[[h cloned] b]|] eqn:C; [|exact I].
  destruct (dI_clone _ _ _ _ _ _ _ _ H1 Vitm C) as [H2 Vcl]. cbv zeta.
  assert (K1 : kids (d_heap d) h) by (rewrite <- Eh1; eapply clone_if_struct_kids; eauto).
  assert (HA : exists UA dA, (if b then d_add cloned (d_remove itm (set_heap d1 h)) else set_heap d1 h) = dA /\
                             dI (cloned :: Ex) [] UA dA /\ valid (d_heap dA) cloned /\ kids (d_heap d) (d_heap dA) /\ d_es dA = d_es d1).
  { destruct b.
    - eexists _, _. split; [reflexivity|]. split; [|split; [|split]].
      + apply dI_hold_added; [apply dI_remove; exact H2|]. eapply valid_shape; [apply d_remove_shape|exact Vcl].
      + eapply valid_shape; [apply d_add_shape|]. eapply valid_shape; [apply d_remove_shape|exact Vcl].
      + eapply kids_trans; [|apply d_add_kids]. eapply kids_trans; [|apply d_remove_kids]. exact K1.
      + rewrite d_add_es, d_remove_es. reflexivity.
    - destruct (clone_if_struct_false _ _ _ _ C) as [-> ->]. eexists _, _. split; [reflexivity|]. split; [exact H2|].
      split; [exact Vcl|]. split; [exact K1|reflexivity]. }
  destruct HA as (UA & dA & -> & HA & VA & KA & EsA).
  destruct (pop dA) as [[key d2]|] eqn:P2; [|exact I]. pose proof (dI_pop _ _ _ _ _ HA P2) as H3.
  destruct (pop_es _ _ _ P2) as [Es2 K2].
  destruct (valid_key key) eqn:Vk; cbn [negb]; [|exact I].
  destruct (pop d2) as [[obj d3]|] eqn:P3; [|exact I]. pose proof (dI_pop _ _ _ _ _ H3 P3) as H4.
  destruct (pop_es _ _ _ P3) as [Es3 K3].
  assert (V3 : valid (d_heap d3) cloned).
  { eapply dI_valid_E; [exact H4|simpl; tauto]. }
  assert (K : kids (d_heap d) (d_heap d3)) by (eapply kids_trans; [eapply kids_trans; [exact KA|exact K2]|exact K3]).
  assert (Vobj : valid (d_heap d) obj).
  { destruct H as [[_ _ Vx _] _ _]. rewrite Forall_forall in Vx. apply Vx. apply in_or_app. left. unfold droots_l. apply in_or_app. left.
    rewrite Es1. right. rewrite <- EsA, Es2. right. rewrite Es3. left. reflexivity. }
  destruct obj; try exact I.
  - eapply setitem_buf_E; exact H4.
  - eapply (setitem_seq_E Ex (d_heap d)); try eassumption. unfold valid in Vobj. simpl in Vobj. destruct Vobj as (c0 & E0 & _). eauto.
  - eapply (setitem_seq_E Ex (d_heap d)); try eassumption. unfold valid in Vobj. simpl in Vobj. destruct Vobj as (c0 & E0 & _). eauto.
  - eapply (setitem_map_E Ex (d_heap d)); try eassumption. unfold valid in Vobj. simpl in Vobj. destruct Vobj as (c0 & E0 & _). eauto.
Qed.

(* ================= all data instructions, exactly ================= *)
Theorem exec_data_E e op p d E : nonneg_bytes p -> acyc (d_heap d) -> dI0 E d -> dres_I E (exec_data e op p d).
Proof.
  intros NN Ac HI. destruct (is_compound_op op) eqn:C.
  - apply res_dres. destruct op; try discriminate C; cbn [exec_data_opt].
    + apply op_packmap_I; assumption.
    + apply op_pack_I; assumption.
    + apply op_pack_I; assumption.
    + apply op_unpack_I; assumption.
    + apply new_empty_I; try assumption; try reflexivity; try exact I.
    + apply new_seq_I; assumption.
    + destruct (param0 p); [apply new_seq_I; assumption|exact I].
    + apply new_empty_I; try assumption; try reflexivity; try exact I.
    + apply new_seq_I; assumption.
    + apply new_empty_I; try assumption; try reflexivity; try exact I. constructor.
    + apply op_size_I; assumption.
    + apply op_haskey_I; assumption.
    + apply op_keys_I; assumption.
    + apply op_values_I; assumption.
    + apply op_pickitem_I; assumption.
    + apply op_append_I; assumption.
    + apply op_setitem_E; assumption.
    + apply op_reverseitems_I; assumption.
    + apply op_remove_I; assumption.
    + apply op_clearitems_I; assumption.
    + apply op_popitem_I; assumption.
    + destruct (param0 p); [apply op_convert_I; assumption|exact I].
  - apply exec_data_I_basic; assumption.
Qed.

(* every compound instruction other than SETITEM: no leak on any heap *)
Theorem exec_data_noleak e op p d E :
  op <> SETITEM -> nonneg_bytes p -> dI0 E d -> dres_I E (exec_data e op p d).
Proof.
  intros NS NN HI. destruct (is_compound_op op) eqn:C; [|apply exec_data_I_basic; assumption].
  apply res_dres. destruct op; try discriminate C; try congruence; cbn [exec_data_opt].
  - apply op_packmap_I; assumption.
  - apply op_pack_I; assumption.
  - apply op_pack_I; assumption.
  - apply op_unpack_I; assumption.
  - apply new_empty_I; try assumption; try reflexivity; try exact I.
  - apply new_seq_I; assumption.
  - destruct (param0 p); [apply new_seq_I; assumption|exact I].
  - apply new_empty_I; try assumption; try reflexivity; try exact I.
  - apply new_seq_I; assumption.
  - apply new_empty_I; try assumption; try reflexivity; try exact I. constructor.
  - apply op_size_I; assumption.
  - apply op_haskey_I; assumption.
  - apply op_keys_I; assumption.
  - apply op_values_I; assumption.
  - apply op_pickitem_I; assumption.
  - apply op_append_I; assumption.
  - apply op_reverseitems_I; assumption.
  - apply op_remove_I; assumption.
  - apply op_clearitems_I; assumption.
  - apply op_popitem_I; assumption.
  - destruct (param0 p); [apply op_convert_I; assumption|exact I].
Qed.
