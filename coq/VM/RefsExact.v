(* Exactness of the item accounting on acyclic heaps.

     acyc h       no compound of h is reachable from itself (a strictly increasing rank along child references exists)
     G_exact      G h refs [] X (the in-degree invariant with nothing pending and NO leaked counts) and acyc h give
                  reach_from h X = refs: on an acyclic heap every compound with a count > 0 is reachable from a root,
                  so the walk (which visits every reachable compound exactly once) adds up exactly the children of the
                  live compounds - the quantity the counter holds.
     ref_remove_wl_frame   Remove leaves every compound untouched that is not reachable from the removed items. *)
From NG Require Import VM.Model VM.LimitsData VM.Reach VM.RefsInv VM.RefsMoves.
Open Scope Z_scope.

Definition acyc (h : heap) : Prop :=
  exists rk : loc -> nat, forall l c it l',
    hget h l = Some c -> In it (cell_children c) -> item_cloc it = Some l' -> (rk l < rk l')%nat.

Inductive reaches (h : heap) : item -> loc -> Prop :=
| reaches_here it l : item_cloc it = Some l -> reaches h it l
| reaches_step it l0 c ch l :
    item_cloc it = Some l0 -> hget h l0 = Some c -> In ch (cell_children c) -> reaches h ch l -> reaches h it l.

Lemma reaches_rank h rk :
  (forall l c it l', hget h l = Some c -> In it (cell_children c) -> item_cloc it = Some l' -> (rk l < rk l')%nat) ->
  forall it l, reaches h it l -> forall l0, item_cloc it = Some l0 -> (rk l0 <= rk l)%nat.
Proof.
  intros R it l H. induction H as [it l E|it l0 c ch l E Ec Hin Hr IH]; intros l1 E1.
  - rewrite E in E1. inv E1. lia.
  - rewrite E in E1. inv E1. inversion Hr as [? ? Ech|? l2 ? ? ? Ech]; subst.
    + pose proof (R _ _ _ _ Ec Hin Ech). specialize (IH _ Ech). lia.
    + pose proof (R _ _ _ _ Ec Hin Ech). specialize (IH _ Ech). lia.
Qed.

(* on an acyclic heap a child of a compound does not lead back to it *)
Lemma acyc_child_not_back h l c ch : acyc h -> hget h l = Some c -> In ch (cell_children c) -> ~ reaches h ch l.
Proof.
  intros [rk R] Ec Hin Hr.
  assert (exists l', item_cloc ch = Some l') as [l' E] by (inversion Hr; eauto).
  pose proof (reaches_rank h rk R _ _ Hr _ E). pose proof (R _ _ _ _ Ec Hin E). lia.
Qed.

(* ---------- occurrences and sums: the converse directions ---------- *)
Lemma occ_pos_in l its : 0 < occ l its -> exists it, In it its /\ item_cloc it = Some l.
Proof.
  induction its as [|a t IH]; simpl; [lia|]. intros H. unfold hit in H.
  destruct (item_cloc a) as [l'|] eqn:E.
  - destruct (Nat.eqb l' l) eqn:Q.
    + apply Nat.eqb_eq in Q. subst. exists a. split; [left; reflexivity|assumption].
    + destruct IH as (it & Hin & Ei); [lia|]. exists it. split; [right|]; assumption.
  - destruct IH as (it & Hin & Ei); [lia|]. exists it. split; [right|]; assumption.
Qed.
Lemma sumf_pos_term f : forall h, 0 < sumf f h -> exists l c, hget h l = Some c /\ 0 < f c.
Proof.
  induction h as [|x h IH]; simpl; [lia|]. intros H. destruct (Z_lt_le_dec 0 (f x)) as [P|N].
  - exists O, x. split; [reflexivity|assumption].
  - destruct IH as (l & c & E & Pc); [lia|]. exists (S l), c. split; assumption.
Qed.
Lemma sumf_zero f : forall h, (forall l c, hget h l = Some c -> f c = 0) -> sumf f h = 0.
Proof.
  induction h as [|x h IH]; intros H; simpl; [reflexivity|].
  rewrite (H O x eq_refl). rewrite IH; [reflexivity|]. intros l c E. apply (H (S l) c). exact E.
Qed.

(* ---------- the walk, to the end ---------- *)
Section Walk.
Variables (h : heap) (refs : Z) (X R0 : list item).
Hypothesis Hg : G h refs [] X.
Hypothesis RX : forall it, In it R0 -> In it X.
Hypothesis XR : forall it, In it X -> In it R0.

Definition Pw (seen : list loc) (w : list item) (l : loc) : Prop :=
  In l seen \/ exists it, In it w /\ item_cloc it = Some l.
Definition Cl (seen : list loc) (w : list item) : Prop :=
  (forall it l, In it R0 -> item_cloc it = Some l -> Pw seen w l) /\
  (forall l0 c it l, In l0 seen -> hget h l0 = Some c -> In it (cell_children c) -> item_cloc it = Some l -> Pw seen w l).

Lemma Pw_drop_prim seen it w x : item_cloc it = None -> Pw seen (it :: w) x -> Pw seen w x.
Proof. intros E [H|(a & [->|Ha] & Ea)]; [left; assumption|congruence|right; eauto]. Qed.
Lemma Pw_drop_seen seen it w l x : item_cloc it = Some l -> In l seen -> Pw seen (it :: w) x -> Pw seen w x.
Proof. intros E S [H|(a & [->|Ha] & Ea)]; [left; assumption|left; congruence|right; eauto]. Qed.
Lemma Pw_expand seen it w l cs x : item_cloc it = Some l -> Pw seen (it :: w) x -> Pw (l :: seen) (cs ++ w) x.
Proof.
  intros E [H|(a & [->|Ha] & Ea)]; [left; right; assumption|left; left; congruence|].
  right. exists a. split; [apply in_or_app; right; assumption|assumption].
Qed.

Lemma reach_wl_exact : forall fuel g seen acc w,
  (forall l, ~ In l seen -> hget g l = hget h l) ->
  (forall l c, In l seen -> hget g l = Some c -> live c = false) ->
  (forall it l, In it w -> item_cloc it = Some l -> live_at h l) ->
  zlen w + live_size g < Z.of_nat fuel ->
  acc + live_size g = live_size h ->
  Cl seen w ->
  exists g',
    (forall l, ~ In l (snd (reach_wl fuel h seen acc w)) -> hget g' l = hget h l) /\
    (forall l c, In l (snd (reach_wl fuel h seen acc w)) -> hget g' l = Some c -> live c = false) /\
    fst (reach_wl fuel h seen acc w) + live_size g' = live_size h /\
    Cl (snd (reach_wl fuel h seen acc w)) [].
Proof.
  induction fuel as [|f IH]; intros g seen acc w U Zd Wl F B C.
  - pose proof (live_size_nonneg g). pose proof (zlen_ge0 w). simpl in F. lia.
  - simpl. destruct w as [|it w]; [exists g; simpl; auto|].
    rewrite zlen_cons' in F.
    destruct (item_cloc it) as [l|] eqn:E.
    + destruct (mem_loc l seen) eqn:M.
      * apply mem_loc_In in M. apply (IH g); try assumption; try lia.
        -- intros a la Ha. apply Wl. right. assumption.
        -- destruct C as [C1 C2]. split; intros; (eapply (Pw_drop_seen seen it w l); [exact E|exact M|]); eauto.
      * destruct (Wl it l (or_introl eq_refl) E) as (c & Ec & Lc). rewrite Ec.
        assert (Nin : ~ In l seen) by (intros K; apply mem_loc_In in K; congruence).
        assert (Eg : hget g l = Some c) by (rewrite U; assumption).
        assert (Cc : is_comp c).
        { apply rc_pos_comp. unfold live in Lc. destruct (cell_rc c =? 0) eqn:Q; [discriminate|lia]. }
        pose proof (live_size_set_rc _ _ _ 0 Eg Cc) as LS. rewrite Lc in LS. simpl in LS.
        apply (IH (hset g l (cell_set_rc c 0))).
        -- intros l' N'. simpl in N'. rewrite hget_hset_other by tauto. apply U. tauto.
        -- intros l' c' [<-|Hin] E'.
           ++ rewrite (hget_hset_same _ _ _ _ Eg) in E'. inv E'. unfold live. rewrite (set_rc_rc _ _ Cc). reflexivity.
           ++ assert (l <> l') by (intros ->; tauto). rewrite hget_hset_other in E' by assumption. eapply Zd; eauto.
        -- intros a la Ha Ea. apply in_app_or in Ha. destruct Ha as [Ha|Ha]; [|eapply Wl; [right|]; eauto].
           eapply G_child_live; eauto.
        -- rewrite zlen_app. lia.
        -- lia.
        -- destruct C as [C1 C2]. split.
           ++ intros a la Ha Ea. eapply (Pw_expand seen it w l); [exact E|]. eauto.
           ++ intros l0 c0 a la [<-|Hin] E0 Ha Ea.
              ** rewrite Ec in E0. inv E0. right. exists a. split; [apply in_or_app; left; assumption|assumption].
              ** eapply (Pw_expand seen it w l); [exact E|]. eauto.
    + apply (IH g); try assumption; try lia.
      * intros a la Ha. apply Wl. right. assumption.
      * destruct C as [C1 C2]. split; intros; (eapply (Pw_drop_prim seen it w); [exact E|]); eauto.
Qed.

(* when the walk is complete, every live compound has been visited - if the heap is acyclic *)
Lemma closed_all_live seen : Cl seen [] -> acyc h -> forall l, live_at h l -> In l seen.
Proof.
  intros [C1 C2] [rk Rk].
  assert (K : forall n l, (rk l < n)%nat -> live_at h l -> In l seen).
  { induction n as [|n IHn]; intros l Hn (c & Ec & Lc); [lia|].
    destruct Hg as [_ O _]. specialize (O l). cbn [occ] in O. unfold rc_of in O. rewrite Ec in O.
    assert (0 < cell_rc c).
    { destruct Hg as [Rn _ _]. unfold rc_nonneg in Rn. rewrite Forall_forall in Rn.
      assert (In c h) by (eapply nth_error_In; exact Ec). specialize (Rn c H).
      unfold live in Lc. destruct (cell_rc c =? 0) eqn:Q; [discriminate|lia]. }
    pose proof (occ_nonneg l X). pose proof (live_occ_nonneg h l).
    destruct (Z_lt_le_dec 0 (occ l X)) as [Px|Nx].
    - destruct (occ_pos_in _ _ Px) as (it & Hin & Ei).
      destruct (C1 it l (XR _ Hin) Ei) as [S|(a & [] & _)]. exact S.
    - assert (Pl : 0 < live_occ h l) by lia. unfold live_occ in Pl.
      destruct (sumf_pos_term _ _ Pl) as (l0 & c0 & E0 & P0). unfold kocc in P0.
      destruct (live c0) eqn:L0; [|lia]. destruct (occ_pos_in _ _ P0) as (it & Hin & Ei).
      pose proof (Rk _ _ _ _ E0 Hin Ei) as Lt.
      assert (S0 : In l0 seen) by (apply IHn; [lia|exists c0; split; assumption]).
      destruct (C2 l0 c0 it l S0 E0 Hin Ei) as [S|(a & [] & _)]. exact S. }
  intros l Hl. apply (K (S (rk l))); [lia|assumption].
Qed.

Theorem walk_exact : acyc h -> zlen R0 = zlen X -> reach_from h R0 = refs.
Proof.
  intros Ac Len. unfold reach_from.
  destruct (reach_wl_exact (ref_fuel h R0) h [] 0 R0) as (g' & U & Zd & B & C).
  - reflexivity.
  - intros l c [].
  - intros it l Hin E. eapply G_root_live; eauto.
  - apply ref_fuel_remove.
  - lia.
  - split; [|intros l0 c it l []]. intros it l Hin E. right. exists it. split; assumption.
  - set (r := reach_wl (ref_fuel h R0) h [] 0 R0) in *.
    assert (Z0 : live_size g' = 0).
    { apply sumf_zero. intros l c E. unfold ksize. destruct (live c) eqn:L; [|reflexivity]. exfalso.
      destruct (in_dec Nat.eq_dec l (snd r)) as [S|N].
      - rewrite (Zd l c S E) in L. discriminate.
      - rewrite (U l N) in E. apply N. eapply closed_all_live; eauto. exists c. split; assumption. }
    destruct Hg as [_ _ T]. rewrite zlen_nil in T. lia.
Qed.
End Walk.

Theorem G_exact h refs X R :
  G h refs [] X -> acyc h -> (forall it, In it R -> In it X) -> (forall it, In it X -> In it R) -> zlen R = zlen X ->
  reach_from h R = refs.
Proof. intros Hg Ac RX XR Len. eapply walk_exact; eauto. Qed.

(* ---------- Remove only touches what is reachable from the removed items ---------- *)
Lemma reaches_set_rc h l0 c0 r it l :
  hget h l0 = Some c0 -> reaches (hset h l0 (cell_set_rc c0 r)) it l -> reaches h it l.
Proof.
  intros E0 H. induction H as [it l E|it l1 c ch l E Ec Hin Hr IH]; [apply reaches_here; assumption|].
  destruct (Nat.eq_dec l0 l1) as [->|N].
  - rewrite (hget_hset_same _ _ _ _ E0) in Ec. inv Ec. rewrite set_rc_children in Hin.
    eapply reaches_step; eauto.
  - rewrite hget_hset_other in Ec by assumption. eapply reaches_step; eauto.
Qed.

Lemma ref_remove_wl_frame : forall fuel h refs w l c,
  hget h l = Some c -> (forall it, In it w -> ~ reaches h it l) ->
  hget (fst (ref_remove_wl fuel h refs w)) l = Some c.
Proof.
  induction fuel as [|f IH]; intros h refs w l c E NR; simpl; [assumption|].
  destruct w as [|it w]; [assumption|].
  assert (NRw : forall a, In a w -> ~ reaches h a l) by (intros a Ha; apply NR; right; assumption).
  destruct (item_cloc it) as [l0|] eqn:E0; [|apply IH; assumption].
  destruct (hget h l0) as [c0|] eqn:Ec0; [|apply IH; assumption].
  destruct (cell_rc c0 =? 0) eqn:Q; [apply IH; assumption|].
  assert (N : l0 <> l) by (intros ->; apply (NR it (or_introl eq_refl)); apply reaches_here; assumption).
  case_if; apply IH; try (rewrite hget_hset_other by assumption; assumption).
  - intros a Ha Hr. apply reaches_set_rc in Hr; [|assumption]. apply in_app_or in Ha. destruct Ha as [Ha|Ha]; [|eapply NRw; eauto].
    apply (NR it (or_introl eq_refl)). eapply reaches_step; eauto.
  - intros a Ha Hr. apply reaches_set_rc in Hr; [|assumption]. eapply NRw; eauto.
Qed.

Lemma ref_remove_frame h refs it l c :
  hget h l = Some c -> ~ reaches h it l -> hget (fst (ref_remove h refs it)) l = Some c.
Proof.
  intros E NR. unfold ref_remove. destruct (item_cloc it); [|assumption].
  apply ref_remove_wl_frame; [assumption|]. intros a [<-|[]]. assumption.
Qed.

(* ---------- a decision procedure that is sound for [acyc] ----------
   ranks by relaxation (a child gets at least the rank of its parent + 1; |h| rounds reach the longest-path depth of an
   acyclic heap), then the certificate check [rank_ok]: only the check is trusted by the proof. *)
Definition rk_of (rk : list nat) (l : loc) : nat := nth l rk O.
Fixpoint set_rk (l : nat) (rk : list nat) (v : nat) : list nat :=
  match rk, l with
  | [], _ => []
  | _ :: t, O => v :: t
  | x :: t, S l' => x :: set_rk l' t v
  end.
Definition cell_rank_ok (rk : list nat) (l : loc) (c : cell) : bool :=
  forallb (fun it => match item_cloc it with Some l' => Nat.ltb (rk_of rk l) (rk_of rk l') | None => true end) (cell_children c).
Fixpoint rank_ok_from (rk : list nat) (l : loc) (h : heap) : bool :=
  match h with [] => true | c :: t => cell_rank_ok rk l c && rank_ok_from rk (S l) t end.
Definition rank_ok (rk : list nat) (h : heap) : bool := rank_ok_from rk O h.

Lemma rank_ok_from_get rk : forall h base l c,
  rank_ok_from rk base h = true -> nth_error h l = Some c -> cell_rank_ok rk (base + l)%nat c = true.
Proof.
  induction h as [|x h IH]; intros base [|l] c; simpl; try discriminate; rewrite andb_true_iff; intros [H1 H2] E.
  - inv E. rewrite Nat.add_0_r. assumption.
  - replace (base + S l)%nat with (S base + l)%nat by lia. eapply IH; eauto.
Qed.
Lemma rank_ok_acyc rk h : rank_ok rk h = true -> acyc h.
Proof.
  intros H. exists (rk_of rk). intros l c it l' Ec Hin E.
  pose proof (rank_ok_from_get rk h O l c H Ec) as K. simpl in K. unfold cell_rank_ok in K.
  rewrite forallb_forall in K. specialize (K it Hin). rewrite E in K. apply Nat.ltb_lt in K. exact K.
Qed.

Definition relax_cell (rk : list nat) (l : loc) (c : cell) : list nat :=
  fold_left (fun rk it => match item_cloc it with
                          | Some l' => set_rk l' rk (Nat.max (rk_of rk l') (S (rk_of rk l)))
                          | None => rk
                          end) (cell_children c) rk.
Fixpoint relax_from (rk : list nat) (l : loc) (h : heap) : list nat :=
  match h with [] => rk | c :: t => relax_from (relax_cell rk l c) (S l) t end.
Definition ranks (h : heap) : list nat := Nat.iter (length h) (fun rk => relax_from rk O h) (repeat O (length h)).
Definition acycb (h : heap) : bool := rank_ok (ranks h) h.

Theorem acycb_sound h : acycb h = true -> acyc h.
Proof. apply rank_ok_acyc. Qed.
