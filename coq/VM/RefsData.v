(* The in-degree invariant at the level of the data state: primitives (pop, push, slots, ...) preserve it.
     dI E A U d :  GI on d's heap and counter with X = stack ++ slots of d ++ E
       E  counted references outside d (other contexts' slots and stacks, values an instruction holds counted)
       A  references that exist but are not counted yet
       U  values held uncounted that must stay well-formed (popped operands) *)
From NG Require Import VM.Model VM.LimitsData VM.Reach VM.RefsInv VM.RefsMoves.
Open Scope Z_scope.

Definition slots_items (d : dstate) : list item :=
  slot_items (d_local d) ++ slot_items (d_args d) ++ slot_items (d_static d).
Definition droots_l (d : dstate) : list item := d_es d ++ slots_items d.

Record dI (E A U : list item) (d : dstate) : Prop := mkdI {
  di_gi : GI (d_heap d) (d_refs d) A (droots_l d ++ E);
  di_u : Forall (valid (d_heap d)) U;
  di_kp : keys_prim (d_heap d)
}.

Lemma droots_l_set_mem d h r : droots_l (set_mem d h r) = droots_l d. Proof. reflexivity. Qed.
Lemma droots_l_set_heap d h : droots_l (set_heap d h) = droots_l d. Proof. reflexivity. Qed.
Lemma droots_l_set_refs d r : droots_l (set_refs d r) = droots_l d. Proof. reflexivity. Qed.

(* ---------- solving multiset equalities ---------- *)
Ltac dcbn := cbn [d_es d_local d_args d_static d_heap d_refs set_es set_mem set_heap set_refs set_local set_args set_static
                  push_noref slot_items] in *.
Ltac meq_solve :=
  unfold meq, droots_l, slots_items; split;
  [ intros ?l; dcbn; repeat rewrite ?occ_app, ?occ_cons, ?occ_nil, ?occ_rev; try lia
  | dcbn; repeat rewrite ?zlen_app, ?zlen_cons', ?zlen_nil, ?zlen_rev; try lia ].

Ltac in_solve := let a := fresh "a" in intros a; unfold droots_l, slots_items; dcbn; repeat (rewrite ?in_app_iff; simpl); tauto.

Lemma meq_refl a : meq a a. Proof. split; auto. Qed.

Lemma Forall_valid_perm h a b : (forall it, In it b -> In it a) -> Forall (valid h) a -> Forall (valid h) b.
Proof. intros S H. rewrite Forall_forall in *. auto. Qed.

(* re-arranging what is where, heap and counter untouched *)
Lemma dI_rearr E A U d E' A' U' d' :
  dI E A U d -> d_heap d' = d_heap d -> d_refs d' = d_refs d ->
  meq (droots_l d ++ E) (droots_l d' ++ E') -> meq A A' ->
  (forall it, In it (droots_l d' ++ E') -> In it (droots_l d ++ E)) ->
  (forall it, In it A' -> In it A) -> (forall it, In it U' -> In it U \/ In it (droots_l d ++ E)) ->
  dI E' A' U' d'.
Proof.
  intros [Hgi Hu Hk] Eh Er Mx Ma Sx Sa Su. destruct Hgi as [Hg W Vx Va]. constructor; [| |rewrite Eh; exact Hk].
  - rewrite Eh, Er. constructor; [eapply G_meq; eauto|assumption|exact (Forall_valid_perm _ _ _ Sx Vx)|exact (Forall_valid_perm _ _ _ Sa Va)].
  - rewrite Eh. rewrite Forall_forall in *. intros it Hin. destruct (Su it Hin) as [K|K]; [apply Hu|apply Vx]; exact K.
Qed.

Lemma in_app_swap {A} (x : A) a b : In x (a ++ b) <-> In x a \/ In x b.
Proof. apply in_app_iff. Qed.

(* ---------- primitives ---------- *)
Lemma dI_pop_noref E A U d it d' : dI E A U d -> pop_noref d = Some (it, d') -> dI (it :: E) A U d'.
Proof.
  unfold pop_noref. intros H. destruct (d_es d) as [|x es] eqn:Es; [discriminate|]. intros Q; inv Q.
  eapply dI_rearr; try exact H; try reflexivity; try apply meq_refl; try tauto.
  - unfold droots_l. rewrite Es. cbn [set_es d_es d_local d_args d_static slots_items]. meq_solve.
  - unfold droots_l, slots_items. rewrite Es. in_solve.
Qed.

Lemma dI_remove E U d it : dI (it :: E) [] U d -> dI E [] (it :: U) (d_remove it d).
Proof.
  intros [Hgi Hu Hk]. unfold d_remove. pose proof (ref_remove_rc_only (d_heap d) (d_refs d) it) as Ro.
  assert (M : GI (d_heap d) (d_refs d) [] (it :: droots_l d ++ E)).
  { eapply GI_meq; try exact Hgi; try apply meq_refl.
    - split; [intros l; repeat rewrite ?occ_app, ?occ_cons; lia|repeat rewrite ?zlen_app, ?zlen_cons'; lia].
    - destruct Hgi as [_ _ Vx _]. eapply Forall_valid_perm; [|exact Vx]. in_solve.
    - constructor. }
  assert (Vit : valid (d_heap d) it) by (destruct M as [_ _ Vx _]; inv Vx; assumption).
  destruct (GI_remove _ _ _ _ M) as [K (Pw & Ps & Pl)].
  destruct (ref_remove (d_heap d) (d_refs d) it) as [h' r']. simpl in *.
  constructor; [exact K| |eapply keys_prim_rc_only; eauto]. constructor; [eapply valid_shape; eauto|eapply Forall_valid_shape; eauto].
Qed.

Lemma dI_add E A U d it : dI E (it :: A) U d -> dI E A U (d_add it d).
Proof.
  intros [Hgi Hu Hk]. unfold d_add. destruct (GI_add _ _ _ _ _ Hgi) as [K (Pw & Ps & Pl)].
  pose proof (ref_add_rc_only (d_heap d) (d_refs d) it) as Ro.
  destruct (ref_add (d_heap d) (d_refs d) it) as [h' r']. simpl in *.
  constructor; [exact K|eapply Forall_valid_shape; eauto|eapply keys_prim_rc_only; eauto].
Qed.

Lemma dI_add_list E A U d w : dI E (w ++ A) U d -> dI E A U (d_add_list w d).
Proof.
  intros [Hgi Hu Hk]. unfold d_add_list. destruct (GI_add_list _ _ _ _ _ Hgi) as [K (Pw & Ps & Pl)].
  pose proof (ref_add_wl_rc_only (ref_fuel (d_heap d) w) (d_heap d) (d_refs d) w) as Ro. fold (ref_add_list (d_heap d) (d_refs d) w) in Ro.
  destruct (ref_add_list (d_heap d) (d_refs d) w) as [h' r']. simpl in *.
  constructor; [exact K|eapply Forall_valid_shape; eauto|eapply keys_prim_rc_only; eauto].
Qed.

Lemma dI_remove_list E U d w : dI (w ++ E) [] U d -> dI E [] (w ++ U) (d_remove_list w d).
Proof.
  intros [Hgi Hu Hk]. unfold d_remove_list.
  pose proof (ref_remove_wl_rc_only (ref_fuel (d_heap d) w) (d_heap d) (d_refs d) w) as Ro. fold (ref_remove_list (d_heap d) (d_refs d) w) in Ro.
  assert (M : GI (d_heap d) (d_refs d) [] (w ++ droots_l d ++ E)).
  { eapply GI_meq; try exact Hgi; try apply meq_refl.
    - split; [intros l; repeat rewrite ?occ_app; lia|repeat rewrite ?zlen_app; lia].
    - destruct Hgi as [_ _ Vx _]. eapply Forall_valid_perm; [|exact Vx]. in_solve.
    - constructor. }
  assert (Vw : Forall (valid (d_heap d)) w) by (destruct M as [_ _ Vx _]; apply Forall_app in Vx; tauto).
  destruct (GI_remove_list _ _ _ _ M) as [K (Pw & Ps & Pl)].
  destruct (ref_remove_list (d_heap d) (d_refs d) w) as [h' r']. simpl in *.
  constructor; [exact K| |eapply keys_prim_rc_only; eauto]. apply Forall_app; split; eapply Forall_valid_shape; eauto.
Qed.

Lemma dI_pop E U d it d' : dI E [] U d -> pop d = Some (it, d') -> dI E [] (it :: U) d'.
Proof.
  unfold pop. intros H. destruct (pop_noref d) as [[i d1]|] eqn:P; [|discriminate]. intros Q; inv Q.
  apply dI_remove. eapply dI_pop_noref; eauto.
Qed.

(* an item that is known well-formed: among the uncounted values, the roots or the extra references *)
Definition known (E U : list item) (d : dstate) (it : item) : Prop :=
  item_cloc it = None \/ In it U \/ In it (droots_l d ++ E).
Lemma known_valid E A U d it : dI E A U d -> known E U d it -> valid (d_heap d) it.
Proof.
  intros [[_ _ Vx _] Hu _] [K|[K|K]]; [apply valid_prim; assumption| |]; rewrite Forall_forall in *; auto.
Qed.

Lemma GI_new_root h refs A X it : GI h refs A X -> valid h it -> GI h refs (it :: A) (it :: X).
Proof.
  intros [[R O T] W Vx Va] V. constructor; [constructor| | |]; try assumption; try (constructor; assumption).
  - intros l. specialize (O l). cbn [occ]. lia.
  - rewrite !zlen_cons'. lia.
Qed.
Lemma dI_push_noref_new E A U d it : dI E A U d -> known E U d it -> dI E (it :: A) U (push_noref it d).
Proof.
  intros H K. pose proof (known_valid _ _ _ _ _ H K) as V. destruct H as [Hgi Hu Hk].
  constructor; [|exact Hu|exact Hk]. cbn [push_noref set_es d_heap d_refs].
  pose proof (GI_new_root _ _ _ _ it Hgi V) as N.
  exact N.
Qed.
Lemma dI_push E A U d it : dI E A U d -> known E U d it -> dI E A U (push it d).
Proof. intros H K. unfold push. apply dI_add. apply dI_push_noref_new; assumption. Qed.

(* putting a held (counted) item back on the stack *)
Lemma dI_push_noref_held E A U d it : dI (it :: E) A U d -> dI E A U (push_noref it d).
Proof.
  intros H. eapply dI_rearr; try exact H; try reflexivity; try apply meq_refl; try tauto.
  - unfold droots_l. cbn [push_noref set_es d_es slots_items d_local d_args d_static]. meq_solve.
  - in_solve.
Qed.

(* stack permutations *)
Lemma dI_set_es E A U d es :
  dI E A U d -> meq (d_es d) es -> (forall it, In it es -> In it (d_es d)) -> dI E A U (set_es d es).
Proof.
  intros H [Mo Ml] S. eapply dI_rearr; try exact H; try reflexivity; try apply meq_refl; try tauto.
  - unfold droots_l, slots_items. dcbn. split.
    + intros l. rewrite !occ_app. rewrite Mo. reflexivity.
    + rewrite !zlen_app. lia.
  - unfold droots_l, slots_items. dcbn. intros a. rewrite !in_app_iff.
    intros [[K|K]|K]; [left; left; auto|tauto|tauto].
Qed.

Lemma dI_weaken_U E A U U' d : dI E A U d -> (forall it, In it U' -> In it U) -> dI E A U' d.
Proof. intros [Hgi Hu Hk] S. constructor; [assumption| |assumption]. rewrite Forall_forall in *. auto. Qed.

(* typed pops *)
Lemma dI_pop_int E U d z d' : dI E [] U d -> pop_int d = Some (z, d') -> dI E [] U d'.
Proof.
  unfold pop_int. intros H. destruct (pop d) as [[i d1]|] eqn:P; [|discriminate].
  destruct (try_int i); [|discriminate]. intros Q; inv Q.
  eapply dI_weaken_U; [eapply dI_pop; eauto|]. intros; right; assumption.
Qed.
Lemma dI_pop_i32 E U d z d' : dI E [] U d -> pop_i32 d = Some (z, d') -> dI E [] U d'.
Proof.
  unfold pop_i32. intros H. destruct (pop_int d) as [[i d1]|] eqn:P; [|discriminate].
  destruct (to_i32 i); [|discriminate]. intros Q; inv Q. eapply dI_pop_int; eauto.
Qed.
Lemma dI_pop_bool E U d z d' : dI E [] U d -> pop_bool d = Some (z, d') -> dI E [] U d'.
Proof.
  unfold pop_bool. intros H. destruct (pop d) as [[i d1]|] eqn:P; [|discriminate].
  destruct (try_bool i); [|discriminate]. intros Q; inv Q.
  eapply dI_weaken_U; [eapply dI_pop; eauto|]. intros; right; assumption.
Qed.
Lemma dI_pop_bytes E U d z d' : dI E [] U d -> pop_bytes d = Some (z, d') -> dI E [] U d'.
Proof.
  unfold pop_bytes. intros H. destruct (pop d) as [[i d1]|] eqn:P; [|discriminate].
  destruct (try_bytes (d_heap d1) i); [|discriminate]. intros Q; inv Q.
  eapply dI_weaken_U; [eapply dI_pop; eauto|]. intros; right; assumption.
Qed.
Lemma dI_push_int E A U d z d' : dI E A U d -> push_int z d = Some d' -> dI E A U d'.
Proof.
  unfold push_int. intros H. destruct (mk_int256 z); [|discriminate]. intros Q; inv Q.
  apply dI_push; [assumption|left; reflexivity].
Qed.

(* allocation of a cell nobody refers to yet *)
Lemma dI_alloc_dead E A U d c :
  dI E A U d -> cell_rc c = 0 -> Forall (valid (d_heap d)) (cell_children c) -> cell_kp c ->
  dI E A U (set_heap d (d_heap d ++ [c])).
Proof.
  intros [Hgi Hu Hk] Z V Kc. constructor.
  - cbn [set_heap set_mem d_heap d_refs]. apply (GI_alloc_dead _ _ _ _ c Hgi Z V).
  - cbn [set_heap set_mem d_heap]. apply Forall_valid_app. assumption.
  - cbn [set_heap set_mem d_heap]. apply keys_prim_app; assumption.
Qed.
Lemma dI_push_new_buffer E A U d bs : dI E A U d -> dI E A U (push_new_buffer bs d).
Proof.
  intros H. unfold push_new_buffer, alloc, halloc. cbn [fst snd].
  apply dI_push; [apply dI_alloc_dead; [assumption|reflexivity|constructor|exact I]|left; reflexivity].
Qed.

Lemma kocc_buf l b : kocc l (CBuf b) = 0. Proof. reflexivity. Qed.
Lemma ksize_buf b : ksize (CBuf b) = 0. Proof. reflexivity. Qed.

(* changing a buffer's content *)
Lemma dI_set_buf E A U d l bs bs' :
  dI E A U d -> get_buf (d_heap d) l = Some bs -> dI E A U (set_heap d (hset (d_heap d) l (CBuf bs'))).
Proof.
  intros [[Hg W Vx Va] Hu Hk] Eb. unfold get_buf in Eb. destruct (hget (d_heap d) l) as [[b| |]|] eqn:Ec; try discriminate.
  assert (S : same_shape (d_heap d) (hset (d_heap d) l (CBuf bs'))).
  { eapply same_shape_hset; eauto. }
  constructor; [|cbn [set_heap set_mem d_heap]; eapply Forall_valid_shape; eauto|cbn [set_heap set_mem d_heap]; apply keys_prim_hset; [assumption|exact I]].
  rewrite droots_l_set_heap. cbn [set_heap set_mem d_heap d_refs].
  destruct Hg as [R O T]. constructor; [constructor| | |].
  - apply rc_nonneg_hset; [assumption|simpl; lia].
  - intros l1. specialize (O l1). unfold live_occ. rewrite (sumf_hset _ _ _ _ _ Ec). fold (live_occ (d_heap d) l1).
    rewrite !kocc_buf.
    assert (Rl : rc_of (hset (d_heap d) l (CBuf bs')) l1 = rc_of (d_heap d) l1).
    { destruct (Nat.eq_dec l l1) as [->|N]; [rewrite (rc_of_hset_same _ _ _ _ Ec); unfold rc_of; rewrite Ec; reflexivity|
        apply rc_of_hset_other; assumption]. }
    rewrite Rl. lia.
  - unfold live_size. rewrite (sumf_hset _ _ _ _ _ Ec). fold (live_size (d_heap d)). rewrite !ksize_buf. lia.
  - unfold wfh in *.
    assert (K : forall h0 j, Forall (fun c0 => Forall (valid (d_heap d)) (cell_children c0)) h0 ->
                Forall (fun c0 => Forall (valid (hset (d_heap d) l (CBuf bs'))) (cell_children c0)) (hset h0 j (CBuf bs'))).
    { induction h0 as [|x h0 IH]; intros [|j] F; simpl; inv F; constructor;
        try (eapply Forall_valid_shape; [exact S|assumption]); auto; try constructor.
      eapply Forall_impl; [|exact H2]. intros a. apply Forall_valid_shape. exact S. }
    apply K. assumption.
  - eapply Forall_valid_shape; eauto.
  - eapply Forall_valid_shape; eauto.
Qed.
