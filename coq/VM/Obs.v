(* Observation of VM values for the correspondence: a canonical serialisation (list of numerals) of a list of
   items that keeps sharing and cycles: every Buffer/Array/Struct/Map is numbered in order of first visit
   (depth first, in element order) and later occurrences are emitted as references to that number.
   The Go harness prints the same serialisation of the real VM's stack (harness/c13obs.go). *)
From NG Require Import VM.Model.
Open Scope Z_scope.

Fixpoint find_loc (l : loc) (seen : list loc) (k : Z) : option Z :=
  match seen with
  | [] => None
  | x :: t => if Nat.eqb x l then Some k else find_loc l t (k + 1)
  end.

(* tags: 0 Null, 1 Bool b, 2 Int z, 3 ByteString n bytes.., 4 Buffer n bytes.., 5 Array n items.., 6 Struct n items..,
   7 Map n (key value).., 8 Pointer pos, 9 Ref k, 10 dangling *)
Fixpoint ser (fuel : nat) (h : heap) (seen : list loc) (it : item) {struct fuel} : list Z * list loc :=
  match it with
  | INull => ([0], seen)
  | IBool b => ([1; bool_z b], seen)
  | IInt z => ([2; z], seen)
  | IBytes bs => (3 :: zlen bs :: bs, seen)
  | IPtr pos _ => ([8; pos], seen)
  | IBuf l =>
      match find_loc l seen 0 with
      | Some k => ([9; k], seen)
      | None => match get_buf h l with
                | Some bs => (4 :: zlen bs :: bs, seen ++ [l])
                | None => ([10], seen)
                end
      end
  | IArr l | IStruct l | IMap l =>
      match find_loc l seen 0 with
      | Some k => ([9; k], seen)
      | None =>
          match fuel with
          | O => ([10], seen)
          | S f =>
              let ser_list :=
                (fix go (its : list item) (seen : list loc) {struct its} : list Z * list loc :=
                   match its with
                   | [] => ([], seen)
                   | x :: t => let (a, seen1) := ser f h seen x in
                               let (b, seen2) := go t seen1 in (a ++ b, seen2)
                   end) in
              match it, hget h l with
              | IMap _, Some (CMap _ es) =>
                  let (body, seen') := ser_list (flat_entries es) (seen ++ [l]) in
                  (7 :: zlen es :: body, seen')
              | IArr _, Some (CSeq _ its) =>
                  let (body, seen') := ser_list its (seen ++ [l]) in (5 :: zlen its :: body, seen')
              | IStruct _, Some (CSeq _ its) =>
                  let (body, seen') := ser_list its (seen ++ [l]) in (6 :: zlen its :: body, seen')
              | _, _ => ([10], seen)
              end
          end
      end
  end.

Fixpoint ser_items (h : heap) (seen : list loc) (its : list item) : list Z :=
  match its with
  | [] => []
  | x :: t => let (a, seen') := ser (S (length h)) h seen x in a ++ ser_items h seen' t
  end.

(* the stack, top first *)
Definition ser_stack (h : heap) (es : list item) : list Z := zlen es :: ser_items h [] es.

Definition datoshi (pico : Z) : Z := (pico + ExecFeeFactorMultiplier - 1) / ExecFeeFactorMultiplier.

(* what the harness observes of a finished run *)
Inductive outcome :=
| OHalt (gas_datoshi : Z) (stack : list Z)     (* GasConsumed(), serialised Estack (VM/Obs.v) *)
| OFault (gas_datoshi : Z).


Definition outcome_of (r : result) : option outcome :=
  match r with
  | Halted s => Some (OHalt (datoshi (s_gas s)) (ser_stack (s_heap s) (final_stack s)))
  | Faulted g => Some (OFault (datoshi g))
  | Running _ => None
  end.

Definition outcome_eqb (a b : outcome) : bool :=
  match a, b with
  | OHalt g s, OHalt g' s' => (g =? g') && zlist_eqb s s'
  | OFault g, OFault g' => g =? g'
  | _, _ => false
  end.

