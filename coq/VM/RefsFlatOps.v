(* every non-creating data instruction keeps a flat state flat and the excess (counter minus entries) unchanged *)
From NG Require Import VM.Model VM.LimitsData VM.RefsFlat.
Open Scope Z_scope.

Lemma push_back it d x : prim it -> flat_d d /\ excess d = x -> flat_d (push it d) /\ excess (push it d) = x.
Proof. intros P [F X]. destruct (push_flat it d P F). split; [assumption|lia]. Qed.
Lemma push_new_buffer_back bs d x : flat_d d /\ excess d = x -> flat_d (push_new_buffer bs d) /\ excess (push_new_buffer bs d) = x.
Proof. intros [F X]. destruct (push_new_buffer_flat bs d F). split; [assumption|lia]. Qed.
Lemma d_remove_back it d x : prim it -> flat_d d /\ excess d = x + 1 -> flat_d (d_remove it d) /\ excess (d_remove it d) = x.
Proof. intros P [F X]. destruct (d_remove_flat it d P F). split; [assumption|lia]. Qed.
Lemma d_add_back it d x : prim it -> flat_d d /\ excess d = x - 1 -> flat_d (d_add it d) /\ excess (d_add it d) = x.
Proof. intros P [F X]. destruct (d_add_flat it d P F). split; [assumption|lia]. Qed.
Lemma set_es_back d es x : Forall prim es -> flat_d d /\ excess d = x - zlen (d_es d) + zlen es ->
  flat_d (set_es d es) /\ excess (set_es d es) = x.
Proof. intros P [F X]. destruct (set_es_flat d es F P). split; [assumption|lia]. Qed.
Lemma set_buf_back d l bs x : flat_d d /\ excess d = x ->
  flat_d (set_heap d (hset (d_heap d) l (CBuf bs))) /\ excess (set_heap d (hset (d_heap d) l (CBuf bs))) = x.
Proof. intros [F X]. destruct (set_buf_flat d l bs F). split; [assumption|lia]. Qed.
Lemma set_refs_back d r x : flat_d d /\ excess d = x - r + d_refs d -> flat_d (set_refs d r) /\ excess (set_refs d r) = x.
Proof. intros [(A & B & C & D & E) X]. split; [repeat split; assumption|]. unfold excess, droots in *. dsimp. lia. Qed.
Lemma set_slot_back k d v x : Forall prim v -> flat_d d /\ excess d = x - slen (get_slot k d) + zlen v ->
  flat_d (put_slot k d v) /\ excess (put_slot k d v) = x.
Proof.
  intros P [(A & B & C & D & E) X]. destruct k; (split; [repeat split; assumption|]); unfold excess, droots in *;
    cbn [put_slot get_slot slen] in *; dsimp; cbn [slen]; lia.
Qed.
Lemma d_remove_list_back its d x : Forall prim its -> flat_d d /\ excess d = x + zlen its ->
  flat_d (d_remove_list its d) /\ excess (d_remove_list its d) = x.
Proof.
  intros P [(A & B & C & D & E) X]. rewrite d_remove_list_prim by assumption. split; [repeat split; assumption|].
  unfold excess, droots in *. dsimp. lia.
Qed.

Ltac zfacts :=
  repeat match goal with
  | H : d_es ?d = _ :: _ |- _ => apply (f_equal (@zlen item)) in H; rewrite ?zlen_cons' in H
  | H : _ :: _ = d_es ?d |- _ => apply (f_equal (@zlen item)) in H; rewrite ?zlen_cons' in H
  end.

Ltac znorm :=
  dsimp; cbn [get_slot slen put_slot] in *;
  repeat match goal with
  | E : d_static _ = _ |- _ => rewrite E in *; clear E
  | E : d_local _ = _ |- _ => rewrite E in *; clear E
  | E : d_args _ = _ |- _ => rewrite E in *; clear E
  end;
  cbn [slen] in *;
  repeat match goal with
  | E : nth_error ?l ?n = Some _ |- context [zlen (remove_nth ?n ?l)] => rewrite (zlen_remove_nth n l _ E)
  end;
  unfold excess, droots in *; dsimp; cbn [slen] in *;
  repeat rewrite zlen_cons' in *;
  rewrite ?zlen_rev, ?zlen_nil, ?zlen_insert_at, ?zlen_set_nth', ?zlen_repeat, ?zlen_app in *;
  repeat rewrite zlen_cons' in *;
  try (rewrite zlen_firstn_Z by lia); try (rewrite zlen_skipn_Z by lia).

Ltac fin :=
  lazymatch goal with
  | |- prim _ /\ _ => split; [fk | fin]
  | |- flat_d (push _ _) /\ _ => apply push_back; [fk | fin]
  | |- flat_d (push_new_buffer _ _) /\ _ => apply push_new_buffer_back; fin
  | |- flat_d (d_remove _ _) /\ _ => apply d_remove_back; [fk | fin]
  | |- flat_d (d_add _ _) /\ _ => apply d_add_back; [fk | fin]
  | |- flat_d (d_remove_list _ _) /\ _ => apply d_remove_list_back; [fk | fin]
  | |- flat_d (set_es _ _) /\ _ => apply set_es_back; [fk | fin]
  | |- flat_d (set_heap ?d (hset (d_heap ?d) _ (CBuf _))) /\ _ => apply set_buf_back; fin
  | |- flat_d (set_refs _ _) /\ _ => apply set_refs_back; fin
  | |- flat_d (put_slot _ _ _) /\ _ => apply set_slot_back; [fk | fin]
  | |- flat_d (set_static ?d (Some ?v)) /\ _ => change (set_static d (Some v)) with (put_slot KStatic d v); fin
  | |- flat_d (set_local ?d (Some ?v)) /\ _ => change (set_local d (Some v)) with (put_slot KLocal d v); fin
  | |- flat_d (set_args ?d (Some ?v)) /\ _ => change (set_args d (Some v)) with (put_slot KArg d v); fin
  | |- flat_d (if _ then _ else _) /\ _ => case_if; fin
  | |- flat_d _ /\ _ => split; [try assumption | zfacts; znorm; try lia]
  | |- _ => idtac
  end.

Ltac tf := intros; opensf; fin.

Section Ops.
Variable x0 : Z.

Lemma un_int_flat f d : flat_d d -> excess d = x0 -> res_flat x0 (un_int f d).
Proof. unfold un_int. tf. Qed.
Lemma bin_int_flat f d : flat_d d -> excess d = x0 -> res_flat x0 (bin_int f d).
Proof. unfold bin_int. tf. Qed.
Lemma bin_cmp_flat f d : flat_d d -> excess d = x0 -> res_flat x0 (bin_cmp f d).
Proof. unfold bin_cmp. tf. Qed.
Lemma cmp_null_flat f d : flat_d d -> excess d = x0 -> res_flat x0 (cmp_null f d).
Proof. unfold cmp_null. tf. Qed.

Lemma slot_load_flat sl i d : flat_d d -> excess d = x0 -> slot_prim sl -> res_flat x0 (slot_load sl i d).
Proof. unfold slot_load. intros. destruct sl as [l|]; [|exact I]. simpl in *. tf. Qed.
Lemma get_slot_prim k d : flat_d d -> slot_prim (get_slot k d).
Proof. intros (A & B & C & D & E). destruct k; assumption. Qed.
Lemma ld_flat k i d : flat_d d -> excess d = x0 -> res_flat x0 (ld k i d).
Proof. intros. unfold ld. apply slot_load_flat; try assumption. apply get_slot_prim; assumption. Qed.
Lemma st_flat k i d : flat_d d -> excess d = x0 -> res_flat x0 (st k i d).
Proof.
  intros H X. unfold st, slot_store. pose proof (get_slot_prim k d H) as S.
  destruct (get_slot k d) as [l|] eqn:G; [|exact I]. simpl in S.
  destruct (nth_error l (Z.to_nat i)) as [old|] eqn:E1; [|exact I].
  destruct (pop_noref d) as [[it d1]|] eqn:E2; [|exact I].
  destruct (pop_noref_flat _ _ _ H E2) as (P & F & X1 & Es).
  pose proof (Forall_nth_error _ _ _ _ S E1) as Po.
  unfold ok. cbn [res_flat]. apply set_slot_back; [fk|].
  apply d_remove_back; [assumption|]. split; [assumption|].
  assert (G1 : get_slot k (d_remove old d1) = Some l).
  { rewrite d_remove_prim by assumption. unfold pop_noref in E2. destruct (d_es d); [discriminate|]. inv E2.
    destruct k; exact G. }
  rewrite G1. cbn [slen]. rewrite zlen_set_nth'. lia.
Qed.

Lemma op_unpack_flat d : flat_d d -> excess d = x0 -> res_flat x0 (op_unpack d).
Proof. unfold op_unpack. tf. Qed.
Lemma op_pickitem_flat d : flat_d d -> excess d = x0 -> res_flat x0 (op_pickitem d).
Proof. unfold op_pickitem. tf. Qed.
Lemma op_append_flat d : flat_d d -> excess d = x0 -> res_flat x0 (op_append d).
Proof. unfold op_append. tf. Qed.
Lemma op_reverseitems_flat d : flat_d d -> excess d = x0 -> res_flat x0 (op_reverseitems d).
Proof. unfold op_reverseitems. tf. Qed.
Lemma op_remove_flat d : flat_d d -> excess d = x0 -> res_flat x0 (op_remove d).
Proof. unfold op_remove. tf. Qed.
Lemma op_clearitems_flat d : flat_d d -> excess d = x0 -> res_flat x0 (op_clearitems d).
Proof. unfold op_clearitems. tf. Qed.
Lemma op_popitem_flat d : flat_d d -> excess d = x0 -> res_flat x0 (op_popitem d).
Proof. unfold op_popitem. tf. Qed.
Lemma op_size_flat d : flat_d d -> excess d = x0 -> res_flat x0 (op_size d).
Proof. unfold op_size. tf. Qed.
Lemma op_keys_flat d : flat_d d -> excess d = x0 -> res_flat x0 (op_keys d).
Proof. unfold op_keys. tf. Qed.
Lemma op_values_flat d : flat_d d -> excess d = x0 -> res_flat x0 (op_values d).
Proof. unfold op_values. tf. Qed.
Lemma op_haskey_flat d : flat_d d -> excess d = x0 -> res_flat x0 (op_haskey d).
Proof. unfold op_haskey. tf. Qed.
Lemma op_memcpy_flat d : flat_d d -> excess d = x0 -> res_flat x0 (op_memcpy d).
Proof. unfold op_memcpy. tf. Qed.
Lemma op_convert_flat t d : flat_d d -> excess d = x0 -> res_flat x0 (op_convert t d).
Proof. unfold op_convert. tf. Qed.
End Ops.

Definition dres_flat (x0 : Z) (r : dres) : Prop :=
  match r with DOk d => flat_d d /\ excess d = x0 | DThrow e d => prim e /\ flat_d d /\ excess d = x0 | DFault => True end.

Lemma initslot_local_flat d nl : flat_d d -> d_local d = None -> 0 <= nl ->
  let d1 := if 0 <? nl then set_refs (set_local d (Some (repeat INull (Z.to_nat nl)))) (d_refs d + nl) else d in
  flat_d d1 /\ excess d1 = excess d /\ d_es d1 = d_es d /\ d_args d1 = d_args d.
Proof.
  intros (A & B & C & D & E) L N. cbv zeta. case_if; [|repeat split; assumption].
  repeat split; dsimp; try assumption; try (apply Forall_repeat; reflexivity).
  unfold excess, droots. dsimp. rewrite L. cbn [slen]. rewrite zlen_repeat. lia.
Qed.
Lemma initslot_args_flat d na : flat_d d -> d_args d = None -> 0 <= na <= zlen (d_es d) ->
  let d2 := set_es (set_args d (Some (firstn (Z.to_nat na) (d_es d)))) (skipn (Z.to_nat na) (d_es d)) in
  flat_d d2 /\ excess d2 = excess d.
Proof.
  intros (A & B & C & D & E) L N. cbv zeta. split.
  - repeat split; dsimp; try assumption; [apply Forall_skipn|apply Forall_firstn]; assumption.
  - unfold excess, droots. dsimp. rewrite L. cbn [slen]. rewrite zlen_firstn_Z, zlen_skipn_Z by lia. lia.
Qed.

Definition nonneg_bytes (p : list Z) : Prop := Forall (fun b => 0 <= b) p.

Theorem exec_data_flat e op p d :
  flat_d d -> creator op = false -> nonneg_bytes p -> dres_flat (excess d) (exec_data e op p d).
Proof.
  intros H C NN. unfold exec_data.
  enough (R : res_flat (excess d) (exec_data_opt e op p d)).
  { destruct (exec_data_opt e op p d) as [[]|]; exact R || exact I. }
  assert (X : excess d = excess d) by reflexivity. revert X. generalize (excess d) at 2 3 as x0. intros x0 X.
  destruct op; try discriminate C; cbn [exec_data_opt]; try exact I;
  first
    [ solve [apply un_int_flat; assumption]
    | solve [apply bin_int_flat; assumption]
    | solve [apply bin_cmp_flat; assumption]
    | solve [apply cmp_null_flat; assumption]
    | solve [apply ld_flat; assumption]
    | solve [apply st_flat; assumption]
    | solve [apply op_append_flat; assumption]
    | solve [apply op_unpack_flat; assumption]
    | solve [apply op_pickitem_flat; assumption]
    | solve [apply op_reverseitems_flat; assumption]
    | solve [apply op_remove_flat; assumption]
    | solve [apply op_clearitems_flat; assumption]
    | solve [apply op_popitem_flat; assumption]
    | solve [apply op_size_flat; assumption]
    | solve [apply op_keys_flat; assumption]
    | solve [apply op_values_flat; assumption]
    | solve [apply op_haskey_flat; assumption]
    | solve [apply op_memcpy_flat; assumption]
    | solve [opensf; first [apply ld_flat | apply st_flat | apply op_convert_flat]; assumption]
    | solve [unfold op_setitem; tf]
    | solve [tf]
    | idtac ].
  - (* INITSSLOT *) destruct p as [|n p']; [exact I|]. inv NN. cbn [param0]. tf.
  - (* INITSLOT *) destruct p as [|nl [|na [|? ?]]]; try exact I. inv NN. inv H3.
    destruct (d_local d) eqn:EL; [exact I|]. destruct (d_args d) eqn:EA; [exact I|].
    case_if; [exact I|].
    destruct (initslot_local_flat d nl H EL H2) as (F1 & X1 & Es1 & Ar1). cbv zeta in F1, X1, Es1, Ar1.
    set (d1 := if 0 <? nl then set_refs (set_local d (Some (repeat INull (Z.to_nat nl)))) (d_refs d + nl) else d) in *.
    case_if; [|unfold ok; cbn [res_flat]; split; [assumption|lia]].
    case_if; [exact I|]. unfold ok; cbn [res_flat].
    assert (EA1 : d_args d1 = None) by congruence.
    destruct (initslot_args_flat d1 na F1 EA1 ltac:(lia)) as [F2 X2]. cbv zeta in F2, X2.
    split; [exact F2|lia].
Qed.
