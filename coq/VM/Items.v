(* NeoVM stack items, the heap of mutable/shared values, conversions, equality, struct cloning and the
   reference counter.  Anchors: pkg/vm/stackitem/{item.go,type.go,reference.go}, pkg/vm/ref_counter.go.
   Definitions only (must run under vm_compute). *)
From NG Require Import Common.Tactics Common.HarnessLib Codec.Bigint gen.VMLimits VM.Arith.
Open Scope Z_scope.

(* ------------------------------------------------------------------------------------------------
   Items.  Buffers, arrays, structs and maps are references (heap locations): Go holds them by pointer,
   they are mutated in place and compared by identity.  Everything else is a value.
   ------------------------------------------------------------------------------------------------ *)
Definition loc := nat.

Inductive item : Set :=
| INull
| IBool (b : bool)
| IInt (z : Z)
| IBytes (bs : list Z)          (* ByteString (stackitem.ByteArray): immutable *)
| IBuf (l : loc)                (* Buffer *)
| IArr (l : loc)
| IStruct (l : loc)
| IMap (l : loc)
| IPtr (pos : Z) (sid : N).     (* Pointer: position + identity of the script (stands for its hash) *)

Inductive cell : Set :=
| CBuf (bs : list Z)
| CSeq (rc : Z) (items : list item)               (* Array or Struct: stackitem.rc.count + value *)
| CMap (rc : Z) (entries : list (item * item)).   (* Map: insertion-ordered key/value pairs *)

Definition heap := list cell.

Definition hget (h : heap) (l : loc) : option cell := nth_error h l.
Fixpoint hset (h : heap) (l : loc) (c : cell) : heap :=
  match h, l with
  | [], _ => []
  | _ :: t, O => c :: t
  | x :: t, S l' => x :: hset t l' c
  end.
Definition halloc (h : heap) (c : cell) : heap * loc := (h ++ [c], length h).

Definition get_seq (h : heap) (l : loc) : option (Z * list item) :=
  match hget h l with Some (CSeq rc its) => Some (rc, its) | _ => None end.
Definition get_map (h : heap) (l : loc) : option (Z * list (item * item)) :=
  match hget h l with Some (CMap rc es) => Some (rc, es) | _ => None end.
Definition get_buf (h : heap) (l : loc) : option (list Z) :=
  match hget h l with Some (CBuf bs) => Some bs | _ => None end.

Fixpoint flat_entries (es : list (item * item)) : list item :=
  match es with [] => [] | (k, v) :: t => k :: v :: flat_entries t end.

(* children references of a cell, in the order Go iterates them *)
Definition cell_children (c : cell) : list item :=
  match c with CBuf _ => [] | CSeq _ its => its | CMap _ es => flat_entries es end.
Definition cell_rc (c : cell) : Z :=
  match c with CBuf _ => 0 | CSeq rc _ => rc | CMap rc _ => rc end.
Definition cell_set_rc (c : cell) (rc : Z) : cell :=
  match c with CBuf b => CBuf b | CSeq _ its => CSeq rc its | CMap _ es => CMap rc es end.
(* the location of a counted compound (Array/Struct/Map) *)
Definition item_cloc (it : item) : option loc :=
  match it with IArr l | IStruct l | IMap l => Some l | _ => None end.

Definition zlen {A} (l : list A) : Z := Z.of_nat (length l).
Arguments zlen : simpl never.

(* ---------- types (stackitem.Type) ---------- *)
Definition item_type (it : item) : Z :=
  match it with
  | INull => T_Any | IBool _ => T_Boolean | IInt _ => T_Integer | IBytes _ => T_ByteArray
  | IBuf _ => T_Buffer | IArr _ => T_Array | IStruct _ => T_Struct | IMap _ => T_Map | IPtr _ _ => T_Pointer
  end.

(* ---------- TryInteger / TryBool / TryBytes ---------- *)
Definition max_int_bytes : Z := MaxBigIntegerSizeBits / 8.

Definition try_int (it : item) : option Z :=
  match it with
  | IInt z => Some z
  | IBool b => Some (bool_z b)
  | IBytes bs => if max_int_bytes <? zlen bs then None else Some (from_bytes bs)
  | _ => None
  end.

Definition any_nonzero (bs : list Z) : bool := existsb (fun b => negb (b =? 0)) bs.

Definition try_bool (it : item) : option bool :=
  match it with
  | INull => Some false
  | IBool b => Some b
  | IInt z => Some (negb (z =? 0))
  | IBytes bs => if max_int_bytes <? zlen bs then None else Some (any_nonzero bs)
  | _ => Some true
  end.

Definition try_bytes (h : heap) (it : item) : option (list Z) :=
  match it with
  | IBool b => Some [bool_z b]
  | IInt z => Some (to_bytes z)
  | IBytes bs => Some bs
  | IBuf l => get_buf h l
  | _ => None
  end.

(* ---------- map keys (stackitem.IsValidMapKey, hashCode = type byte ++ bytes) ---------- *)
Definition valid_key (it : item) : bool :=
  match it with
  | IBool _ | IInt _ => true
  | IBytes bs => zlen bs <=? MaxKeySize
  | _ => false
  end.

Definition zlist_eqb : list Z -> list Z -> bool := list_eqb Z.eqb.

Definition key_eqb (a b : item) : bool :=
  match a, b with
  | IBool x, IBool y => Bool.eqb x y
  | IInt x, IInt y => x =? y
  | IBytes x, IBytes y => zlist_eqb x y
  | _, _ => false
  end.

Fixpoint map_index (es : list (item * item)) (k : item) : option nat :=
  match es with
  | [] => None
  | (k', _) :: t => if key_eqb k' k then Some O else option_map S (map_index t k)
  end.
(* Map.Add: replace the value under an existing key (the key object stays), else append *)
Fixpoint map_add (es : list (item * item)) (k v : item) : list (item * item) :=
  match es with
  | [] => [(k, v)]
  | (k', v') :: t => if key_eqb k' k then (k', v) :: t else (k', v') :: map_add t k v
  end.
Fixpoint remove_nth {A} (n : nat) (l : list A) : list A :=
  match l, n with
  | [], _ => []
  | _ :: t, O => t
  | x :: t, S n' => x :: remove_nth n' t
  end.
Fixpoint set_nth {A} (n : nat) (l : list A) (v : A) : list A :=
  match l, n with
  | [], _ => []
  | _ :: t, O => v :: t
  | x :: t, S n' => x :: set_nth n' t v
  end.

(* ---------- Equals ---------- *)
(* ByteArray.equalsLimited: [None] = panic; returns the verdict and the remaining size allowance *)
Definition bytes_eq_limited (a : list Z) (b : item) (limit : Z) : option (bool * Z) :=
  let la := zlen a in
  if (limit <? la) || (limit =? 0) then None
  else match b with
       | IBytes bb =>
           let lb := zlen bb in
           if limit <? lb then None
           else Some (zlist_eqb a bb, limit - Z.max la lb)
       | _ => Some (false, limit - 1)
       end.

(* Equals for every receiver except Struct-vs-Struct *)
Definition item_eq_shallow (a b : item) : option bool :=
  match a with
  | INull => Some (match b with INull => true | _ => false end)
  | IBool x => Some (match b with IBool y => Bool.eqb x y | _ => false end)
  | IInt x => Some (match b with IInt y => x =? y | _ => false end)
  | IBytes x => option_map fst (bytes_eq_limited x b MaxByteArrayComparableSize)
  | IBuf l => Some (match b with IBuf l' => Nat.eqb l l' | _ => false end)
  | IArr l => Some (match b with IArr l' => Nat.eqb l l' | _ => false end)
  | IMap l => Some (match b with IMap l' => Nat.eqb l l' | _ => false end)
  | IPtr p s => Some (match b with IPtr p' s' => (p =? p') && N.eqb s s' | _ => false end)
  | IStruct _ => Some false      (* Struct receiver, other side not a Struct *)
  end.

(* Struct.equalStruct: [limit] counts compared elements over the whole nesting (panic when it reaches 0),
   [msz] is the per-struct-level byte allowance.  [None] = panic.  Returns verdict and remaining [limit]. *)
Fixpoint struct_eq (fuel : nat) (h : heap) (la lb : loc) (limit : Z) : option (bool * Z) :=
  match fuel with
  | O => None
  | S f =>
      if Nat.eqb la lb then Some (true, limit)
      else
        match get_seq h la, get_seq h lb with
        | Some (_, xs), Some (_, ys) =>
            if negb (Nat.eqb (length xs) (length ys)) then Some (false, limit)
            else
              (fix go (xs ys : list item) (limit msz : Z) {struct xs} : option (bool * Z) :=
                 match xs, ys with
                 | x :: xs', y :: ys' =>
                     let limit := limit - 1 in
                     if limit =? 0 then None
                     else
                       match x with
                       | IBytes bx =>
                           match bytes_eq_limited bx y msz with
                           | None => None
                           | Some (false, _) => Some (false, limit)
                           | Some (true, msz') => go xs' ys' limit msz'
                           end
                       | _ =>
                           if msz =? 0 then None
                           else
                             let msz := msz - 1 in
                             match x, y with
                             | IStruct sx, IStruct sy =>
                                 match struct_eq f h sx sy limit with
                                 | None => None
                                 | Some (false, l') => Some (false, l')
                                 | Some (true, l') => go xs' ys' l' msz
                                 end
                             | _, _ =>
                                 match item_eq_shallow x y with
                                 | None => None
                                 | Some false => Some (false, limit)
                                 | Some true => go xs' ys' limit msz
                                 end
                             end
                       end
                 | _, _ => Some (true, limit)
                 end) xs ys limit MaxByteArrayComparableSize
        | _, _ => None
        end
  end.

Definition struct_fuel : nat := Z.to_nat MaxComparableNumOfItems + 1.

(* a.Equals(b) as used by EQUAL / NOTEQUAL *)
Definition item_equals (h : heap) (a b : item) : option bool :=
  match a, b with
  | IStruct la, IStruct lb => option_map fst (struct_eq struct_fuel h la lb (MaxComparableNumOfItems - 1))
  | _, _ => item_eq_shallow a b
  end.

(* ---------- Struct.Clone: nested structs are copied, everything else is shared; at most
   MaxClonableNumOfItems elements in total.  [None] = ErrTooBig (or a dangling reference). ---------- *)
Fixpoint clone_struct (fuel : nat) (h : heap) (l : loc) (limit : Z) : option (heap * loc * Z) :=
  match fuel with
  | O => None
  | S f =>
      match get_seq h l with
      | Some (_, xs) =>
          match
            (fix go (xs : list item) (h : heap) (limit : Z) (acc : list item) {struct xs}
               : option (heap * list item * Z) :=
               match xs with
               | [] => Some (h, rev acc, limit)
               | x :: xs' =>
                   let limit := limit - 1 in
                   if limit <? 0 then None
                   else match x with
                        | IStruct sl =>
                            match clone_struct f h sl limit with
                            | Some (h', sl', limit') => go xs' h' limit' (IStruct sl' :: acc)
                            | None => None
                            end
                        | _ => go xs' h limit (x :: acc)
                        end
               end) xs h limit []
          with
          | Some (h', ys, limit') => let (h'', l') := halloc h' (CSeq 0 ys) in Some (h'', l', limit')
          | None => None
          end
      | None => None
      end
  end.

Definition clone_fuel : nat := Z.to_nat MaxClonableNumOfItems + 1.

(* vm.cloneIfStruct: (heap, item to store, was it a struct) *)
Definition clone_if_struct (h : heap) (it : item) : option (heap * item * bool) :=
  match it with
  | IStruct l =>
      match clone_struct clone_fuel h l (MaxClonableNumOfItems - 1) with
      | Some (h', l', _) => Some (h', IStruct l', true)
      | None => None
      end
  | _ => Some (h, it, false)
  end.

(* ------------------------------------------------------------------------------------------------
   The reference counter (ref_counter.go).  [refs] is VM.refs, [rc] the per-compound count.
   Add: refs++; a compound has its rc incremented and, when that makes it 1, its children are added.
   Remove: a compound that is referenced (rc <> 0) gives refs--, rc-- and, reaching 0, has its children
   removed; a compound with rc = 0 is left alone; anything else gives refs--.
   The Go recursion is depth-first in element order; here it is a work list (a stack) processed in the
   same order.  Every compound is expanded at most once per call, so [length work + total number of
   child references in the heap + 1] iterations always suffice (ref_fuel).
   ------------------------------------------------------------------------------------------------ *)
Fixpoint heap_weight (h : heap) : nat :=
  match h with [] => O | c :: t => (length (cell_children c) + heap_weight t)%nat end.
Definition ref_fuel (h : heap) (work : list item) : nat := S (length work + heap_weight h).

Fixpoint ref_add_wl (fuel : nat) (h : heap) (refs : Z) (work : list item) : heap * Z :=
  match fuel with
  | O => (h, refs)
  | S f =>
      match work with
      | [] => (h, refs)
      | it :: w =>
          match item_cloc it with
          | Some l =>
              match hget h l with
              | Some c =>
                  let rc := cell_rc c in
                  let h' := hset h l (cell_set_rc c (rc + 1)) in
                  if rc + 1 =? 1 then ref_add_wl f h' (refs + 1) (cell_children c ++ w)
                  else ref_add_wl f h' (refs + 1) w
              | None => ref_add_wl f h (refs + 1) w
              end
          | None => ref_add_wl f h (refs + 1) w
          end
      end
  end.

Fixpoint ref_remove_wl (fuel : nat) (h : heap) (refs : Z) (work : list item) : heap * Z :=
  match fuel with
  | O => (h, refs)
  | S f =>
      match work with
      | [] => (h, refs)
      | it :: w =>
          match item_cloc it with
          | Some l =>
              match hget h l with
              | Some c =>
                  let rc := cell_rc c in
                  if rc =? 0 then ref_remove_wl f h refs w
                  else
                    let h' := hset h l (cell_set_rc c (rc - 1)) in
                    if rc - 1 =? 0 then ref_remove_wl f h' (refs - 1) (cell_children c ++ w)
                    else ref_remove_wl f h' (refs - 1) w
              | None => ref_remove_wl f h refs w
              end
          | None => ref_remove_wl f h (refs - 1) w
          end
      end
  end.

(* refCounter.Add / Remove with a fast path for the common cases *)
Definition ref_add (h : heap) (refs : Z) (it : item) : heap * Z :=
  match item_cloc it with
  | None => (h, refs + 1)
  | Some _ => ref_add_wl (ref_fuel h [it]) h refs [it]
  end.
Definition ref_remove (h : heap) (refs : Z) (it : item) : heap * Z :=
  match item_cloc it with
  | None => (h, refs - 1)
  | Some _ => ref_remove_wl (ref_fuel h [it]) h refs [it]
  end.
(* Remove applied to a sequence of items, one after the other (Slot.clearRefs, Stack.Clear, CLEARITEMS) *)
Definition ref_remove_list (h : heap) (refs : Z) (its : list item) : heap * Z :=
  ref_remove_wl (ref_fuel h its) h refs its.
Definition ref_add_list (h : heap) (refs : Z) (its : list item) : heap * Z :=
  ref_add_wl (ref_fuel h its) h refs its.

(* rc.IsReferenced / IncRC / DecRC on a compound *)
Definition is_referenced (h : heap) (l : loc) : bool :=
  match hget h l with Some c => negb (cell_rc c =? 0) | None => false end.
Definition rc_adjust (h : heap) (l : loc) (d : Z) : heap :=
  match hget h l with Some c => hset h l (cell_set_rc c (cell_rc c + d)) | None => h end.

(* ---------- decimal printing of an int (fmt %d), for the messages of catchable exceptions ---------- *)
Fixpoint dec_digits (fuel : nat) (n : Z) (acc : list Z) : list Z :=
  match fuel with
  | O => acc
  | S f => let acc' := (48 + n mod 10) :: acc in
           if n <? 10 then acc' else dec_digits f (n / 10) acc'
  end.
Definition dec_bytes (z : Z) : list Z :=
  if z <? 0 then 45 :: dec_digits 80 (- z) [] else dec_digits 80 z [].

(* "The value %d is out of range." *)
Definition msg_out_of_range (index : Z) : list Z :=
  [84;104;101;32;118;97;108;117;101;32] ++ dec_bytes index ++ [32;105;115;32;111;117;116;32;111;102;32;114;97;110;103;101;46].
(* "Key not found in Map" *)
Definition msg_key_not_found : list Z :=
  [75;101;121;32;110;111;116;32;102;111;117;110;100;32;105;110;32;77;97;112].

(* ---------- unicode/utf8.Valid (ASSERTMSG / ABORTMSG take their message through stackitem.ToString) ------- *)
Definition is_cont (b : Z) : bool := (128 <=? b) && (b <=? 191).
Fixpoint utf8_valid (fuel : nat) (bs : list Z) : bool :=
  match fuel with
  | O => true
  | S f =>
      match bs with
      | [] => true
      | b0 :: t =>
          if b0 <? 128 then utf8_valid f t
          else if (194 <=? b0) && (b0 <=? 223) then
            match t with b1 :: t' => is_cont b1 && utf8_valid f t' | _ => false end
          else if (224 <=? b0) && (b0 <=? 239) then
            match t with
            | b1 :: b2 :: t' =>
                let lo := if b0 =? 224 then 160 else 128 in
                let hi := if b0 =? 237 then 159 else 191 in
                (lo <=? b1) && (b1 <=? hi) && is_cont b2 && utf8_valid f t'
            | _ => false
            end
          else if (240 <=? b0) && (b0 <=? 244) then
            match t with
            | b1 :: b2 :: b3 :: t' =>
                let lo := if b0 =? 240 then 144 else 128 in
                let hi := if b0 =? 244 then 143 else 191 in
                (lo <=? b1) && (b1 <=? hi) && is_cont b2 && is_cont b3 && utf8_valid f t'
            | _ => false
            end
          else false
      end
  end.
Definition is_utf8 (bs : list Z) : bool := utf8_valid (S (length bs)) bs.
