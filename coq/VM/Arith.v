(* NeoVM integer arithmetic over unbounded Z with explicit 256-bit range checks.
   Pure functions: [None] = the instruction FAULTs.  Anchors: pkg/vm/vm.go (INVERT..WITHIN cases of [execute]),
   stackitem.NewBigInteger / CheckIntegerSize (range check on every constructed integer), toInt (int32 check).
   Definitions only (must run under vm_compute); proofs are in ArithProofs.v. *)
From NG Require Import Common.Tactics Codec.Bigint gen.VMLimits.
Open Scope Z_scope.

(* stackitem.NewBigInteger: panics unless -2^255 <= z < 2^255 *)
Definition mk_int256 (z : Z) : option Z := if in_int256 z then Some z else None.

(* vm.toInt: the value must fit int64 and then int32 *)
Definition to_i32 (z : Z) : option Z :=
  if (- 2147483648 <=? z) && (z <=? 2147483647) then Some z else None.

(* ---------- POW: a^e by e multiplications, abandoning as soon as the accumulator leaves the
   257-bit envelope (for |a| >= 2 it can never come back; proved equal to [mk_int256 (a^e)]) ---------- *)
Definition pow_envelope : Z := 2 ^ 256.
Fixpoint pow_cut (n : nat) (a acc : Z) : option Z :=
  match n with
  | O => Some acc
  | S n' => let acc' := acc * a in
            if pow_envelope <? Z.abs acc' then None else pow_cut n' a acc'
  end.

Definition ar_pow (a e : Z) : option Z :=
  if (0 <=? e) && (e <=? MaxBigIntegerSizeBits) then
    match pow_cut (Z.to_nat e) a 1 with
    | Some r => mk_int256 r
    | None => None
    end
  else None.

(* ---------- modular exponentiation (big.Int.Exp with a non-zero modulus): result in [0, |m|) ---------- *)
Fixpoint powmod_pos (a : Z) (e : positive) (m : Z) : Z :=
  match e with
  | xH => a mod m
  | xO e' => let r := powmod_pos a e' m in (r * r) mod m
  | xI e' => let r := powmod_pos a e' m in ((r * r) mod m * (a mod m)) mod m
  end.
Definition powmod (a e m : Z) : Z :=    (* m > 0, e >= 0 *)
  match e with
  | Zpos p => powmod_pos a p m
  | _ => 1 mod m
  end.

(* ---------- modular inverse (big.Int.ModInverse): extended Euclid; the Bezout identity makes the answer
   correct whenever one is returned ---------- *)
Fixpoint egcd (fuel : nat) (a b : Z) : Z * Z * Z :=   (* (g, x, y) with a*x + b*y = g *)
  match fuel with
  | O => (a, 1, 0)
  | S f => if b =? 0 then (a, 1, 0)
           else let '(g, x, y) := egcd f b (a mod b) in (g, y, x - (a / b) * y)
  end.
Definition egcd_fuel : nat := 1000.   (* Euclid on 256-bit operands needs < 400 rounds *)
Definition modinv (a n : Z) : option Z :=   (* n >= 2 *)
  let '(g, x, _) := egcd egcd_fuel (a mod n) n in
  if g =? 1 then Some (x mod n) else None.

(* MODPOW (vm.go:1142-1173) *)
Definition ar_modpow (base e m : Z) : option Z :=
  if e <? -1 then None
  else if e =? -1 then
    if base <=? 0 then None
    else if m <? 2 then None
    else match modinv base m with Some r => mk_int256 r | None => None end
  else
    if m =? 0 then None
    else
      let am := Z.abs m in
      let r := powmod base e am in                       (* Exp: residue in [0,|m|) *)
      let r' := if (base <? 0) && Z.odd e && negb (r =? 0) then r - am else r in   (* issue #3612 *)
      mk_int256 r'.

(* MODMUL *)
Definition ar_modmul (x1 x2 m : Z) : option Z :=
  if m =? 0 then None else mk_int256 (Z.rem (x1 * x2) m).

Definition ar_div (a b : Z) : option Z := if b =? 0 then None else mk_int256 (Z.quot a b).
Definition ar_mod (a b : Z) : option Z := if b =? 0 then None else mk_int256 (Z.rem a b).
Definition ar_sqrt (a : Z) : option Z := if a <? 0 then None else mk_int256 (Z.sqrt a).

(* SHL / SHR: the shift count went through toInt already *)
Definition ar_shift (left : bool) (a b : Z) : option Z :=
  if (b <? 0) || (MaxBigIntegerSizeBits <? b) then None
  else mk_int256 (if left then Z.shiftl a b else Z.shiftr a b).

Definition bool_z (b : bool) : Z := if b then 1 else 0.
