(* Totality and gas bound of the VM model: every execution under a finite gas limit with a price getter of
   factor >= 1 ends in HALT or FAULT; HALT implies consumed <= limit.  The measure is
   2 * (limit - consumed) + invocation depth: an instruction with price >= 1 lowers it even if it pushes a
   context, and the zero-priced opcodes (checked over the generated table) pop a context or stop the VM. *)
From NG Require Import VM.Model.
Open Scope Z_scope.

(* ---------- the premise on the generated price table ---------- *)
Definition stops_or_pops (o : opcode) : bool :=
  match o with RET | ABORT | ABORTMSG | SYSCALL => true | _ => false end.
Definition price_ok (o : opcode) : bool := (1 <=? opcode_coeff o) || stops_or_pops o.

Lemma price_table_ok : forall o, price_ok o = true.
Proof. destruct o; vm_compute; reflexivity. Qed.

(* ---------- what an instruction body may do to control and gas ---------- *)
Definition same_gas (s s' : state) : Prop :=
  s_gas s' = s_gas s /\ s_limit s' = s_limit s /\ s_base s' = s_base s.

Lemma same_gas_refl s : same_gas s s. Proof. repeat split. Qed.
Lemma same_gas_trans a b c : same_gas a b -> same_gas b c -> same_gas a c.
Proof. unfold same_gas; intuition congruence. Qed.

Lemma zlen_nonneg {A} (l : list A) : 0 <= zlen l. Proof. unfold zlen; lia. Qed.
Lemma zlen_cons {A} (x : A) l : zlen (x :: l) = 1 + zlen l.
Proof. unfold zlen; simpl length; lia. Qed.
Lemma outer_depth_nonneg o : 0 <= outer_depth o.
Proof. induction o as [|[sc [f fs]] t IH]; cbn [outer_depth]; [lia|]. pose proof (zlen_nonneg fs). lia. Qed.
Lemma depth_pos s : 1 <= depth s.
Proof. unfold depth. pose proof (zlen_nonneg (s_frames s)). pose proof (outer_depth_nonneg (s_outer s)). lia. Qed.

Lemma unview_ctl s d : same_gas s (unview s d) /\ depth (unview s d) = depth s.
Proof. split; [repeat split|reflexivity]. Qed.
Lemma set_try_ctl s t : same_gas s (set_try s t) /\ depth (set_try s t) = depth s.
Proof. split; [repeat split|reflexivity]. Qed.
Lemma set_exc_ctl s e : same_gas s (set_exc s e) /\ depth (set_exc s e) = depth s.
Proof. split; [repeat split|reflexivity]. Qed.

Lemma jump_ctl s p s' : jump s p = Some s' -> same_gas s s' /\ depth s' = depth s.
Proof. unfold jump. case_if; [|discriminate]. intros E; inv E. split; [repeat split|reflexivity]. Qed.

Lemma call_ctl s p s' : call s p = Some s' -> same_gas s s' /\ depth s' = depth s + 1.
Proof.
  unfold call. repeat case_if; try discriminate. intros E; inv E. split; [repeat split|].
  unfold depth; cbn [s_frames s_outer]. rewrite zlen_cons. lia.
Qed.

Lemma unload_ctl b s :
  match unload b s with
  | UNext s' => same_gas s s' /\ depth s' = depth s - 1
  | ULast s' => same_gas s s' /\ depth s' = depth s /\ depth s = 1
  | UFault => True
  end.
Proof.
  unfold unload. destruct (s_frames s) as [|f' fs] eqn:Ef.
  - destruct (s_outer s) as [|[sc' [f' fs']] o'] eqn:Eo.
    + split; [repeat split|]. unfold depth; cbn [s_frames s_outer outer_depth]. rewrite Ef, Eo.
      cbn [outer_depth]. change (zlen (@nil frame)) with 0. split; reflexivity.
    + match goal with |- match (match ?x with _ => _ end) with _ => _ end => destruct x end; [|exact I].
      split; [repeat split|]. unfold depth; cbn [s_frames s_outer outer_depth]. rewrite Ef, Eo.
      cbn [outer_depth]. change (zlen (@nil frame)) with 0. lia.
  - split; [repeat split|]. unfold depth; cbn [s_frames s_outer]. rewrite Ef. rewrite zlen_cons. lia.
Qed.

Lemma unwind_ctl fuel : forall s s', unwind fuel s = Some s' -> same_gas s s' /\ depth s' <= depth s.
Proof.
  induction fuel as [|f IH]; intros s s'; simpl; [discriminate|].
  destruct (trim_try (f_try (s_fr s))) as [|t ts].
  - pose proof (unload_ctl false (set_try s [])) as U.
    destruct (unload false (set_try s [])) as [s1| |]; try discriminate.
    intros H. apply IH in H. destruct U as [G D]. destruct H as [G' D'].
    split; [|change (depth (set_try s [])) with (depth s) in D; lia].
    eapply same_gas_trans; [|exact G']. exact G.
  - destruct (t_state t), (has_catch t), (s_exc s); intros H; apply jump_ctl in H; destruct H as [G D];
      (split; [exact G | rewrite D; simpl; reflexivity || lia]).
Qed.

Lemma throw_ctl e s s' : throw e s = Some s' -> same_gas s s' /\ depth s' <= depth s.
Proof. unfold throw. intros H. apply unwind_ctl in H. exact H. Qed.

Lemma do_ret_ctl s :
  match do_ret s with
  | XNext s' => same_gas s s' /\ depth s' = depth s - 1
  | XHalt s' => same_gas s s'
  | XFault => True
  end.
Proof.
  unfold do_ret. pose proof (unload_ctl true s) as U. destruct (unload true s); intuition.
Qed.

(* destruct the scrutinee of the outermost match until a constructor shows *)
Ltac peel :=
  repeat (match goal with
          | |- match (if ?b then _ else _) with _ => _ end => destruct b
          | |- match (match ?x with _ => _ end) with _ => _ end => destruct x
          end; try exact I).

(* every instruction body: gas untouched, depth grows by at most one *)
Lemma exec_op_ctl cip op p s :
  match exec_op no_sys cip op p s with
  | XNext s' => same_gas s s' /\ depth s' <= depth s + 1
  | XHalt s' => same_gas s s'
  | XFault => True
  end.
Proof.
  assert (J : forall s0 pos, same_gas s s0 -> depth s0 = depth s ->
              match xopt (jump s0 pos) with
              | XNext s' => same_gas s s' /\ depth s' <= depth s + 1 | XHalt s' => same_gas s s' | XFault => True end).
  { intros s0 pos G D. destruct (jump s0 pos) eqn:E; simpl; [|exact I].
    apply jump_ctl in E. destruct E as [G' D']. split; [eapply same_gas_trans; eauto|lia]. }
  assert (C : forall s0 pos, same_gas s s0 -> depth s0 = depth s ->
              match xopt (call s0 pos) with
              | XNext s' => same_gas s s' /\ depth s' <= depth s + 1 | XHalt s' => same_gas s s' | XFault => True end).
  { intros s0 pos G D. destruct (call s0 pos) eqn:E; simpl; [|exact I].
    apply call_ctl in E. destruct E as [G' D']. split; [eapply same_gas_trans; eauto|lia]. }
  assert (T : forall e s0, same_gas s s0 -> depth s0 = depth s ->
              match xopt (throw e s0) with
              | XNext s' => same_gas s s' /\ depth s' <= depth s + 1 | XHalt s' => same_gas s s' | XFault => True end).
  { intros e s0 G D. destruct (throw e s0) eqn:E; simpl; [|exact I].
    apply throw_ctl in E. destruct E as [G' D']. split; [eapply same_gas_trans; eauto|lia]. }
  assert (Dt : match exec_data (mkEnv cip (prog_len s) (sc_sid (s_sc s))) op p (view s) with
               | DOk d => XNext (unview s d) | DThrow e d => xopt (throw e (unview s d)) | DFault => XFault end
               = match exec_data (mkEnv cip (prog_len s) (sc_sid (s_sc s))) op p (view s) with
               | DOk d => XNext (unview s d) | DThrow e d => xopt (throw e (unview s d)) | DFault => XFault end) by reflexivity.
  assert (DD : match (match exec_data (mkEnv cip (prog_len s) (sc_sid (s_sc s))) op p (view s) with
               | DOk d => XNext (unview s d) | DThrow e d => xopt (throw e (unview s d)) | DFault => XFault end) with
              | XNext s' => same_gas s s' /\ depth s' <= depth s + 1 | XHalt s' => same_gas s s' | XFault => True end).
  { destruct (exec_data _ op p (view s)) as [d|e d|]; [|apply T; [apply unview_ctl|reflexivity]|exact I].
    split; [apply unview_ctl|]. change (depth (unview s d)) with (depth s). lia. }
  clear Dt.
  assert (JC : match (match jump_offset cip (prog_len s) p with
                      | None => XFault
                      | Some off => match jump_cond op (view s) with
                                    | None => XFault
                                    | Some (c, d) => let s0 := unview s d in if c then xopt (jump s0 off) else XNext s0
                                    end end) with
               | XNext s' => same_gas s s' /\ depth s' <= depth s + 1 | XHalt s' => same_gas s s' | XFault => True end).
  { destruct (jump_offset cip (prog_len s) p); [|exact I].
    destruct (jump_cond op (view s)) as [[c d]|]; [|exact I]. cbv zeta.
    destruct c; [apply J; [apply unview_ctl|reflexivity]|].
    split; [apply unview_ctl|]. change (depth (unview s d)) with (depth s). lia. }
  destruct op; try exact DD; try exact JC; unfold exec_op.
  - (* CALL *) destruct (jump_offset cip (prog_len s) p); [apply C; [apply same_gas_refl|reflexivity]|exact I].
  - (* CALLL *) destruct (jump_offset cip (prog_len s) p); [apply C; [apply same_gas_refl|reflexivity]|exact I].
  - (* CALLA *) destruct (pop (view s)) as [[[] d]|]; try exact I.
    case_if; [|exact I]. apply C; [apply unview_ctl|reflexivity].
  - (* TRY *) destruct (try_params TRY p) as [cp fp]. peel.
    split; [apply set_try_ctl|]. rewrite (proj2 (set_try_ctl s _)). lia.
  - (* TRYL *) destruct (try_params TRYL p) as [cp fp]. peel.
    split; [apply set_try_ctl|]. rewrite (proj2 (set_try_ctl s _)). lia.
  - (* ENDTRY *) destruct (f_try (s_fr s)) as [|t ts]; [exact I|]. destruct (t_state t); try exact I;
      (destruct (jump_offset cip (prog_len s) p); [|exact I]); case_if; apply J; try apply set_try_ctl; reflexivity.
  - (* ENDTRYL *) destruct (f_try (s_fr s)) as [|t ts]; [exact I|]. destruct (t_state t); try exact I;
      (destruct (jump_offset cip (prog_len s) p); [|exact I]); case_if; apply J; try apply set_try_ctl; reflexivity.
  - (* ENDFINALLY *) destruct (s_exc s); [apply T; [apply same_gas_refl|reflexivity]|].
    destruct (f_try (s_fr s)) as [|t ts]; [exact I|]. apply J; [apply set_try_ctl|reflexivity].
  - (* RET *) pose proof (do_ret_ctl s) as R. destruct (do_ret s); intuition; try lia.
Qed.

(* the zero-priced opcodes never continue at the same depth *)
Lemma exec_op_stops cip op p s :
  stops_or_pops op = true ->
  match exec_op no_sys cip op p s with
  | XNext s' => depth s' = depth s - 1
  | _ => True
  end.
Proof.
  destruct op; try discriminate; intros _; unfold exec_op.
  - (* ABORT *) unfold exec_data; simpl. exact I.
  - (* RET *) pose proof (do_ret_ctl s) as R. destruct (do_ret s); intuition.
  - (* SYSCALL *) exact I.
  - (* ABORTMSG *) unfold exec_data; simpl. exact I.
Qed.

(* ---------- the measure ---------- *)
Definition measure (s : state) : Z := 2 * (s_limit s - s_gas s) + depth s.

Definition gas_inv (s : state) : Prop := 0 <= s_limit s /\ 1 <= s_base s /\ s_gas s <= s_limit s.

Lemma set_gas_ip_ctl s g n : depth (set_ip (set_gas s g) n) = depth s /\ s_gas (set_ip (set_gas s g) n) = g
  /\ s_limit (set_ip (set_gas s g) n) = s_limit s /\ s_base (set_ip (set_gas s g) n) = s_base s.
Proof. repeat split. Qed.

Lemma post_running g r s' : post g r = Running s' -> r = XNext s'.
Proof. destruct r; simpl; try discriminate; case_if; try discriminate. intros E; inv E. reflexivity. Qed.
Lemma post_halted g r s' : post g r = Halted s' -> r = XHalt s'.
Proof. destruct r; simpl; try discriminate; case_if; try discriminate. intros E; inv E. reflexivity. Qed.

Lemma step_running s s' :
  gas_inv s -> step s = Running s' -> gas_inv s' /\ measure s' < measure s /\ s_limit s' = s_limit s.
Proof.
  intros (L & B & G). unfold step, step_with.
  destruct (decode (sc_prog (s_sc s)) (f_ip (s_fr s))) as [| |op p next]; [|discriminate|].
  - intros H. apply post_running in H. pose proof (do_ret_ctl s) as R. rewrite H in R.
    destruct R as [(Eg & El & Eb) D]. unfold gas_inv, measure. rewrite Eg, El, Eb. lia.
  - case_if; [discriminate|]. intros H. apply post_running in H.
    set (s0 := set_ip (set_gas s (s_gas s + price (s_base s) op)) next) in *.
    pose proof (exec_op_ctl (f_ip (s_fr s)) op p s0) as C. rewrite H in C. destruct C as [(Eg & El & Eb) D].
    pose proof (price_table_ok op) as P. unfold price_ok in P.
    assert (Hd : depth s0 = depth s) by reflexivity.
    assert (Hg : s_gas s0 = s_gas s + price (s_base s) op) by reflexivity.
    assert (Hl : s_limit s0 = s_limit s) by reflexivity.
    assert (Hb : s_base s0 = s_base s) by reflexivity.
    unfold gas_inv, measure. rewrite Eg, El, Eb, Hg, Hl, Hb.
    assert (0 <= opcode_coeff op) by (destruct op; vm_compute; discriminate).
    unfold price in *.
    destruct (1 <=? opcode_coeff op) eqn:E1.
    + assert (1 <= opcode_coeff op * s_base s) by nia. lia.
    + simpl in P. pose proof (exec_op_stops (f_ip (s_fr s)) op p s0 P) as S. rewrite H in S.
      assert (opcode_coeff op = 0) by lia. nia.
Qed.

Lemma step_halted s s' : gas_inv s -> step s = Halted s' -> s_gas s' <= s_limit s' /\ s_limit s' = s_limit s.
Proof.
  intros (L & B & G). unfold step, step_with.
  destruct (decode (sc_prog (s_sc s)) (f_ip (s_fr s))) as [| |op p next]; [|discriminate|].
  - intros H. apply post_halted in H. pose proof (do_ret_ctl s) as R. rewrite H in R.
    destruct R as (Eg & El & Eb). rewrite Eg, El. lia.
  - case_if; [discriminate|]. intros H. apply post_halted in H.
    pose proof (exec_op_ctl (f_ip (s_fr s)) op p (set_ip (set_gas s (s_gas s + price (s_base s) op)) next)) as C.
    rewrite H in C. destruct C as (Eg & El & Eb). rewrite Eg, El. simpl. lia.
Qed.

Definition finished (r : result) : Prop := match r with Running _ => False | _ => True end.

(* every execution with a finite limit ends: the fuel needed is bounded by the measure *)
Lemma run_total_aux : forall n s, gas_inv s -> measure s < Z.of_nat n -> finished (run n s).
Proof.
  induction n as [|n IH]; intros s Inv M.
  - pose proof (depth_pos s). destruct Inv as (L & B & G). unfold measure in M. lia.
  - simpl. destruct (step s) as [s'| |] eqn:E; simpl; trivial.
    apply step_running in E; [|exact Inv]. destruct E as (I' & M' & _). apply IH; [exact I'|lia].
Qed.

Theorem run_total s :
  gas_inv s -> finished (run (Z.to_nat (measure s) + 1) s).
Proof.
  intros Inv. apply run_total_aux; [exact Inv|].
  destruct Inv as (L & B & G). pose proof (depth_pos s). unfold measure in *. lia.
Qed.

Lemma run_gas_inv : forall n s r, gas_inv s -> run n s = r ->
  match r with
  | Halted s' => s_gas s' <= s_limit s' /\ s_limit s' = s_limit s
  | Running s' => gas_inv s' /\ s_limit s' = s_limit s
  | Faulted _ => True
  end.
Proof.
  induction n as [|n IH]; intros s r Inv E; simpl in E.
  - subst r. split; [exact Inv|reflexivity].
  - destruct (step s) as [s1|s1|g] eqn:S.
    + apply step_running in S; [|exact Inv]. destruct S as (I1 & _ & L1).
      specialize (IH s1 r I1 E). destruct r; trivial; destruct IH as [X Y]; (split; [exact X|congruence]).
    + subst r. apply step_halted in S; [exact S|exact Inv].
    + subst r. trivial.
Qed.

Theorem gas_bound n s s' : gas_inv s -> run n s = Halted s' -> s_gas s' <= s_limit s /\ s_limit s' = s_limit s.
Proof.
  intros Inv E. pose proof (run_gas_inv n s _ Inv E) as H. simpl in H. destruct H as [A B]. split; [lia|exact B].
Qed.

(* binary-fuel runner = unary-fuel runner *)
Lemma run_add : forall a b s, run (a + b) s = match run a s with Running s' => run b s' | r => r end.
Proof.
  induction a as [|a IH]; intros b s; simpl; [reflexivity|].
  destruct (step s); try reflexivity. apply IH.
Qed.
Lemma runp_run : forall p s, runp p s = run (Pos.to_nat p) s.
Proof.
  induction p as [q IH|q IH|]; intros s; simpl runp.
  - rewrite Pos2Nat.inj_xI. change (S (2 * Pos.to_nat q)) with (1 + 2 * Pos.to_nat q)%nat.
    rewrite run_add. simpl run at 1. destruct (step s) as [s1| |]; try reflexivity.
    replace (2 * Pos.to_nat q)%nat with (Pos.to_nat q + Pos.to_nat q)%nat by lia.
    rewrite run_add, IH. destruct (run (Pos.to_nat q) s1); try reflexivity. apply IH.
  - rewrite Pos2Nat.inj_xO. replace (2 * Pos.to_nat q)%nat with (Pos.to_nat q + Pos.to_nat q)%nat by lia.
    rewrite run_add, IH. destruct (run (Pos.to_nat q) s); try reflexivity. apply IH.
  - simpl. destruct (step s); reflexivity.
Qed.
