(* The data instructions of NeoVM: everything [execute] (pkg/vm/vm.go) does to the evaluation stack, the
   slots, the heap and the reference counter, for the opcodes that do not change the flow of control.
   They work on a [dstate] (the data visible to the executing context), so they cannot touch instruction
   pointers, invocation stack or gas.  Outcome: next data state, a catchable exception, or FAULT.
   Definitions only (must run under vm_compute). *)
From NG Require Import Common.Tactics Codec.Bigint gen.Opcodes gen.VMLimits VM.Arith VM.Items VM.Decode.
Open Scope Z_scope.

Notation "'do' p <- e ; k" := (match e with Some p => k | None => None end)
  (at level 200, p pattern, e at level 100, k at level 200, right associativity).

Record dstate := mkD {
  d_es : list item;                 (* evaluation stack, top first *)
  d_local : option (list item);     (* Context.local (None = nil slot) *)
  d_args : option (list item);      (* Context.arguments *)
  d_static : option (list item);    (* scriptContext.static *)
  d_heap : heap;
  d_refs : Z                        (* VM.refs *)
}.

(* what a data instruction may read of the executing context *)
Record env := mkEnv { e_ip : Z; e_len : Z; e_sid : N }.

Inductive dres :=
| DOk (d : dstate)
| DThrow (exc : item) (d : dstate)     (* VM.throw: catchable *)
| DFault.                              (* Go panic: FAULT *)

Definition set_es (d : dstate) (es : list item) : dstate :=
  mkD es (d_local d) (d_args d) (d_static d) (d_heap d) (d_refs d).
Definition set_mem (d : dstate) (h : heap) (r : Z) : dstate :=
  mkD (d_es d) (d_local d) (d_args d) (d_static d) h r.
Definition set_heap (d : dstate) (h : heap) : dstate := set_mem d h (d_refs d).
Definition set_refs (d : dstate) (r : Z) : dstate := set_mem d (d_heap d) r.
Definition set_local (d : dstate) (v : option (list item)) : dstate :=
  mkD (d_es d) v (d_args d) (d_static d) (d_heap d) (d_refs d).
Definition set_args (d : dstate) (v : option (list item)) : dstate :=
  mkD (d_es d) (d_local d) v (d_static d) (d_heap d) (d_refs d).
Definition set_static (d : dstate) (v : option (list item)) : dstate :=
  mkD (d_es d) (d_local d) (d_args d) v (d_heap d) (d_refs d).

(* refCounter.Add / Remove on the data state *)
Definition d_add (it : item) (d : dstate) : dstate :=
  let (h, r) := ref_add (d_heap d) (d_refs d) it in set_mem d h r.
Definition d_remove (it : item) (d : dstate) : dstate :=
  let (h, r) := ref_remove (d_heap d) (d_refs d) it in set_mem d h r.
Definition d_remove_list (its : list item) (d : dstate) : dstate :=
  let (h, r) := ref_remove_list (d_heap d) (d_refs d) its in set_mem d h r.
Definition d_add_list (its : list item) (d : dstate) : dstate :=
  let (h, r) := ref_add_list (d_heap d) (d_refs d) its in set_mem d h r.

(* Stack.popNoRef / Pop / PushItem / pushItemCounted *)
Definition pop_noref (d : dstate) : option (item * dstate) :=
  match d_es d with [] => None | it :: es => Some (it, set_es d es) end.
Definition pop (d : dstate) : option (item * dstate) :=
  do (it, d') <- pop_noref d; Some (it, d_remove it d').
Definition push_noref (it : item) (d : dstate) : dstate := set_es d (it :: d_es d).
Definition push (it : item) (d : dstate) : dstate := d_add it (push_noref it d).
Definition push_counted (it : item) (n : Z) (d : dstate) : dstate :=
  set_refs (push_noref it d) (d_refs d + n).

Definition pop_int (d : dstate) : option (Z * dstate) :=
  do (it, d') <- pop d; do z <- try_int it; Some (z, d').
Definition pop_i32 (d : dstate) : option (Z * dstate) :=
  do (z, d') <- pop_int d; do n <- to_i32 z; Some (n, d').
Definition pop_bool (d : dstate) : option (bool * dstate) :=
  do (it, d') <- pop d; do b <- try_bool it; Some (b, d').
Definition pop_bytes (d : dstate) : option (list Z * dstate) :=
  do (it, d') <- pop d; do bs <- try_bytes (d_heap d') it; Some (bs, d').

(* every integer goes through NewBigInteger *)
Definition push_int (z : Z) (d : dstate) : option dstate :=
  do z' <- mk_int256 z; Some (push (IInt z') d).
Definition alloc (c : cell) (d : dstate) : loc * dstate :=
  let (h, l) := halloc (d_heap d) c in (l, set_heap d h).
Definition push_new_buffer (bs : list Z) (d : dstate) : dstate :=
  let (l, d') := alloc (CBuf bs) d in push (IBuf l) d'.

Definition ok (d : dstate) : option dres := Some (DOk d).
Definition okd (od : option dstate) : option dres := do d <- od; ok d.

Definition un_int (f : Z -> option Z) (d : dstate) : option dres :=
  do (a, d) <- pop_int d; do r <- f a; okd (push_int r d).
Definition bin_int (f : Z -> Z -> option Z) (d : dstate) : option dres :=   (* f a b, b on top *)
  do (b, d) <- pop_int d; do (a, d) <- pop_int d; do r <- f a b; okd (push_int r d).
Definition bin_cmp (f : Z -> Z -> bool) (d : dstate) : option dres :=
  do (b, d) <- pop_int d; do (a, d) <- pop_int d; ok (push (IBool (f a b)) d).
Definition total2 (f : Z -> Z -> Z) (a b : Z) : option Z := Some (f a b).

Definition is_null (it : item) : bool := match it with INull => true | _ => false end.

(* LT LE GT GE: false when either side is Null, else integer comparison *)
Definition cmp_null (f : Z -> Z -> bool) (d : dstate) : option dres :=
  do (b, d) <- pop d; do (a, d) <- pop d;
  if is_null a || is_null b then ok (push (IBool false) d)
  else do x <- try_int a; do y <- try_int b; ok (push (IBool (f x y)) d).

(* ---------- slots ---------- *)
Definition slot_load (sl : option (list item)) (i : Z) (d : dstate) : option dres :=
  do s <- sl; do it <- nth_error s (Z.to_nat i); ok (push it d).
(* Slot.store: checks, popNoRef, Remove(old), assign *)
Definition slot_store (sl : option (list item)) (i : Z) (d : dstate) : option (list item * dstate) :=
  do s <- sl; do old <- nth_error s (Z.to_nat i);
  do (it, d) <- pop_noref d;
  Some (set_nth (Z.to_nat i) s it, d_remove old d).

Inductive slot_kind := KStatic | KLocal | KArg.
Definition get_slot (k : slot_kind) (d : dstate) : option (list item) :=
  match k with KStatic => d_static d | KLocal => d_local d | KArg => d_args d end.
Definition put_slot (k : slot_kind) (d : dstate) (v : list item) : dstate :=
  match k with KStatic => set_static d (Some v) | KLocal => set_local d (Some v) | KArg => set_args d (Some v) end.
Definition ld (k : slot_kind) (i : Z) (d : dstate) : option dres := slot_load (get_slot k d) i d.
Definition st (k : slot_kind) (i : Z) (d : dstate) : option dres :=
  do (s', d') <- slot_store (get_slot k d) i d; ok (put_slot k d' s').

(* a stack index popped from the stack, as nat: indices beyond the stack are cut to length + 1 first, so that evaluating
   the model never builds a unary number of the size of an arbitrary 32-bit operand (same result: lemmas sidx_nth, sidx_roll, sidx_reverse_top in VM/ExecSpec.v) *)
Definition sidx (n : Z) (es : list item) : nat := Z.to_nat (Z.min n (zlen es + 1)).

Definition param0 (p : list Z) : option Z := match p with b :: _ => Some b | [] => None end.

(* ---------- stack shuffles (stack.go) ---------- *)
(* Roll(n): element n from the top moves to the top *)
Definition roll (n : nat) (es : list item) : option (list item) :=
  do x <- nth_error es n; Some (x :: remove_nth n es).
Definition reverse_top (n : nat) (es : list item) : option (list item) :=
  if (length es <? n)%nat then None else Some (rev (firstn n es) ++ skipn n es).
(* InsertAt(e, n): n elements stay above the inserted one *)
Definition insert_at (n : nat) (it : item) (es : list item) : list item := firstn n es ++ it :: skipn n es.

(* ---------- compound construction ---------- *)
Definition default_of (t : Z) : item :=
  if t =? T_Boolean then IBool false
  else if t =? T_Integer then IInt 0
  else if t =? T_ByteArray then IBytes []
  else INull.

(* NEWARRAY / NEWARRAY_T / NEWSTRUCT *)
Definition new_seq (is_struct : bool) (t : Z) (d : dstate) : option dres :=
  do (n, d) <- pop_i32 d;
  if (n <? 0) || (MaxStackSize <? n) then None
  else if negb (type_is_valid t) then None
  else
    let (l, d) := alloc (CSeq 1 (repeat (default_of t) (Z.to_nat n))) d in
    ok (push_counted (if is_struct then IStruct l else IArr l) (n + 1) d).

Definition new_empty (c : cell) (mk : loc -> item) (d : dstate) : option dres :=
  let (l, d) := alloc c d in ok (push (mk l) d).

Definition seq_loc (it : item) : option loc := match it with IArr l | IStruct l => Some l | _ => None end.

(* APPEND *)
Definition op_append (d : dstate) : option dres :=
  do (itm, d) <- pop d; do (arr, d) <- pop d;
  do (h, val, _) <- clone_if_struct (d_heap d) itm;
  do l <- seq_loc arr;
  do (rc, its) <- get_seq h l;
  let d := set_heap d (hset h l (CSeq rc (its ++ [val]))) in
  ok (if rc =? 0 then d else d_add val d).

(* PACKMAP: n times key := popNoRef, value := popNoRef, Map.Add; a replaced value gives refs-- (the key) and Remove(old) *)
Fixpoint packmap_loop (n : nat) (es : list (item * item)) (d : dstate) : option (list (item * item) * dstate) :=
  match n with
  | O => Some (es, d)
  | S n' =>
      do (k, d) <- pop_noref d; do (v, d) <- pop_noref d;
      if negb (valid_key k) then None
      else match map_index es k with
           | Some i =>
               do (_, old) <- nth_error es i;
               packmap_loop n' (map_add es k v) (d_remove old (set_refs d (d_refs d - 1)))
           | None => packmap_loop n' (map_add es k v) d
           end
  end.
Definition op_packmap (d : dstate) : option dres :=
  do (n, d) <- pop_i32 d;
  if (n <? 0) || (zlen (d_es d) <? n * 2) then None
  else do (es, d) <- packmap_loop (Z.to_nat n) [] d;
       let (l, d) := alloc (CMap 1 es) d in ok (push_counted (IMap l) 1 d).

(* PACK / PACKSTRUCT *)
Definition op_pack (is_struct : bool) (d : dstate) : option dres :=
  do (n, d) <- pop_i32 d;
  if (n <? 0) || (zlen (d_es d) <? n) then None
  else
    let k := Z.to_nat n in
    let its := firstn k (d_es d) in
    let (l, d) := alloc (CSeq 1 its) (set_es d (skipn k (d_es d))) in
    ok (push_counted (if is_struct then IStruct l else IArr l) 1 d).

(* UNPACK *)
Definition op_unpack (d : dstate) : option dres :=
  do (e, d) <- pop_noref d;
  let d := set_refs d (d_refs d - 1) in
  match e with
  | IArr l | IStruct l =>
      do (rc, its) <- get_seq (d_heap d) l;
      let d := set_heap d (hset (d_heap d) l (CSeq (rc - 1) its)) in
      let d := if rc - 1 =? 0 then d else d_add_list (rev its) d in
      okd (push_int (zlen its) (set_es d (its ++ d_es d)))
  | IMap l =>
      do (rc, es) <- get_map (d_heap d) l;
      let d := set_heap d (hset (d_heap d) l (CMap (rc - 1) es)) in
      let d := if rc - 1 =? 0 then d
               else let d := d_add_list (rev (map snd es)) d in set_refs d (d_refs d + zlen es) in
      okd (push_int (zlen es) (set_es d (flat_entries es ++ d_es d)))
  | _ => None
  end.

Definition throw_bytes (msg : list Z) (d : dstate) : option dres := Some (DThrow (IBytes msg) d).

(* PICKITEM *)
Definition op_pickitem (d : dstate) : option dres :=
  do (key, d) <- pop d;
  if negb (valid_key key) then None else
  do (obj, d) <- pop d;
  match obj with
  | IArr l | IStruct l =>
      do i <- try_int key; do i <- to_i32 i;
      do (_, its) <- get_seq (d_heap d) l;
      if (i <? 0) || (zlen its <=? i) then throw_bytes (msg_out_of_range i) d
      else do it <- nth_error its (Z.to_nat i); ok (push it d)
  | IMap l =>
      do (_, es) <- get_map (d_heap d) l;
      match map_index es key with
      | None => throw_bytes msg_key_not_found d
      | Some i => do (_, v) <- nth_error es i; ok (push v d)
      end
  | _ =>
      do i <- try_int key; do i <- to_i32 i;
      do bs <- try_bytes (d_heap d) obj;
      if (i <? 0) || (zlen bs <=? i) then throw_bytes (msg_out_of_range i) d
      else do b <- nth_error bs (Z.to_nat i); okd (push_int b d)
  end.

(* SETITEM *)
Definition op_setitem (d : dstate) : option dres :=
  do (itm, d) <- pop_noref d;
  do (h, cloned, is_struct) <- clone_if_struct (d_heap d) itm;
  let d := set_heap d h in
  let d := if is_struct then d_add cloned (d_remove itm d) else d in
  do (key, d) <- pop d;
  if negb (valid_key key) then None else
  do (obj, d) <- pop d;
  match obj with
  | IArr l | IStruct l =>
      do (rc, its) <- get_seq (d_heap d) l;
      do i <- try_int key; do i <- to_i32 i;
      if (i <? 0) || (zlen its <=? i) then throw_bytes (msg_out_of_range i) (d_remove cloned d)
      else
        do old <- nth_error its (Z.to_nat i);
        let d := if rc =? 0 then d_remove cloned d else d_remove old d in
        do (rc', its') <- get_seq (d_heap d) l;
        ok (set_heap d (hset (d_heap d) l (CSeq rc' (set_nth (Z.to_nat i) its' cloned))))
  | IMap l =>
      do (rc, es) <- get_map (d_heap d) l;
      let d := if rc =? 0 then d_remove cloned d
               else match map_index es key with
                    | Some i => match nth_error es i with Some (_, old) => d_remove old d | None => d end
                    | None => d_add key d
                    end in
      do (rc', es') <- get_map (d_heap d) l;
      ok (set_heap d (hset (d_heap d) l (CMap rc' (map_add es' key cloned))))
  | IBuf l =>
      let d := d_remove cloned d in
      do bs <- get_buf (d_heap d) l;
      do i <- try_int key; do i <- to_i32 i;
      if (i <? 0) || (zlen bs <=? i) then throw_bytes (msg_out_of_range i) d
      else
        do b <- try_int cloned; do b <- to_i32 b;
        if (b <? -128) || (255 <? b) then None
        else ok (set_heap d (hset (d_heap d) l (CBuf (set_nth (Z.to_nat i) bs (b mod 256)))))
  | _ => None
  end.

(* REVERSEITEMS *)
Definition op_reverseitems (d : dstate) : option dres :=
  do (it, d) <- pop d;
  match it with
  | IArr l | IStruct l =>
      do (rc, its) <- get_seq (d_heap d) l; ok (set_heap d (hset (d_heap d) l (CSeq rc (rev its))))
  | IBuf l =>
      do bs <- get_buf (d_heap d) l; ok (set_heap d (hset (d_heap d) l (CBuf (rev bs))))
  | _ => None
  end.

(* REMOVE *)
Definition op_remove (d : dstate) : option dres :=
  do (key, d) <- pop d;
  if negb (valid_key key) then None else
  do (elem, d) <- pop d;
  match elem with
  | IArr l | IStruct l =>
      do (rc, its) <- get_seq (d_heap d) l;
      do k <- try_int key; do k <- to_i32 k;
      if (k <? 0) || (zlen its <=? k) then None
      else
        do old <- nth_error its (Z.to_nat k);
        let d := if rc =? 0 then d else d_remove old d in
        do (rc', its') <- get_seq (d_heap d) l;
        ok (set_heap d (hset (d_heap d) l (CSeq rc' (remove_nth (Z.to_nat k) its'))))
  | IMap l =>
      do (rc, es) <- get_map (d_heap d) l;
      match map_index es key with
      | None => ok d
      | Some i =>
          do (k, v) <- nth_error es i;
          (* the entry is dropped first, then key and value are un-counted (the order of the repair F50; vm.go as
             found un-counts first, which un-counts the key twice when the value's removal frees the map itself) *)
          let d := set_heap d (hset (d_heap d) l (CMap rc (remove_nth i es))) in
          ok (if rc =? 0 then d else d_remove v (d_remove k d))
      end
  | _ => None
  end.

(* CLEARITEMS: the container is emptied first, then its former elements are removed *)
Definition op_clearitems (d : dstate) : option dres :=
  do (elem, d) <- pop d;
  match elem with
  | IArr l | IStruct l =>
      do (rc, its) <- get_seq (d_heap d) l;
      let d := set_heap d (hset (d_heap d) l (CSeq rc [])) in
      ok (if rc =? 0 then d else d_remove_list its d)
  | IMap l =>
      do (rc, es) <- get_map (d_heap d) l;
      let d := set_heap d (hset (d_heap d) l (CMap rc [])) in
      ok (if rc =? 0 then d else d_remove_list (flat_entries es) d)
  | _ => None
  end.

(* POPITEM: push the last element first, then drop it from the container, then Remove if the container is referenced *)
Definition op_popitem (d : dstate) : option dres :=
  do (arr, d) <- pop d;
  do l <- seq_loc arr;
  do (_, its) <- get_seq (d_heap d) l;
  match rev its with
  | [] => None
  | e :: _ =>
      let d := push e d in
      do (rc, its') <- get_seq (d_heap d) l;
      let d := set_heap d (hset (d_heap d) l (CSeq rc (removelast its'))) in
      ok (if rc =? 0 then d else d_remove e d)
  end.

(* SIZE *)
Definition op_size (d : dstate) : option dres :=
  do (e, d) <- pop d;
  match e with
  | IArr l | IStruct l => do (_, its) <- get_seq (d_heap d) l; okd (push_int (zlen its) d)
  | IMap l => do (_, es) <- get_map (d_heap d) l; okd (push_int (zlen es) d)
  | _ => do bs <- try_bytes (d_heap d) e; okd (push_int (zlen bs) d)
  end.

(* KEYS *)
Definition op_keys (d : dstate) : option dres :=
  do (it, d) <- pop d;
  match it with
  | IMap l =>
      do (_, es) <- get_map (d_heap d) l;
      let (l', d) := alloc (CSeq 1 (map fst es)) d in
      ok (push_counted (IArr l') (zlen es + 1) d)
  | _ => None
  end.

(* VM.cpValues *)
Fixpoint cp_values (referenced : bool) (src : list item) (acc : list item) (d : dstate) : option (list item * dstate) :=
  match src with
  | [] => Some (rev acc, d)
  | it :: t =>
      do (h, cloned, is_struct) <- clone_if_struct (d_heap d) it;
      let d := set_heap d h in
      let d := if referenced then d_add cloned d
               else if is_struct then d_add cloned (d_remove it d) else d in
      cp_values referenced t (cloned :: acc) d
  end.

(* VALUES *)
Definition op_values (d : dstate) : option dres :=
  do (it, d) <- pop_noref d;
  match it with
  | IArr l | IStruct l =>
      do (rc, its) <- get_seq (d_heap d) l;
      let d := set_heap d (hset (d_heap d) l (CSeq (rc - 1) its)) in
      do (arr, d) <- cp_values (negb (rc - 1 =? 0)) its [] d;
      let (l', d) := alloc (CSeq 1 arr) d in ok (push_counted (IArr l') 0 d)
  | IMap l =>
      do (rc, es) <- get_map (d_heap d) l;
      let d := set_heap d (hset (d_heap d) l (CMap (rc - 1) es)) in
      let d := if rc - 1 =? 0 then set_refs d (d_refs d - zlen es) else d in
      do (arr, d) <- cp_values (negb (rc - 1 =? 0)) (map snd es) [] d;
      let (l', d) := alloc (CSeq 1 arr) d in ok (push_counted (IArr l') 0 d)
  | _ => None
  end.

(* HASKEY *)
Definition op_haskey (d : dstate) : option dres :=
  match d_es d with
  | _ :: _ :: _ =>
      do (key, d) <- pop d;
      if negb (valid_key key) then None else
      do (c, d) <- pop d;
      let by_index (n : Z) :=
        do i <- try_int key; do i <- to_i32 i;
        if (i <? 0) || (MaxItemSize <=? i) then None else ok (push (IBool (i <? n)) d) in
      match c with
      | IArr l | IStruct l => do (_, its) <- get_seq (d_heap d) l; by_index (zlen its)
      | IMap l => do (_, es) <- get_map (d_heap d) l;
                  ok (push (IBool (match map_index es key with Some _ => true | None => false end)) d)
      | IBuf l => do bs <- get_buf (d_heap d) l; by_index (zlen bs)
      | IBytes bs => by_index (zlen bs)
      | _ => None
      end
  | _ => None
  end.

(* CONVERT (Item.Convert) *)
Definition op_convert (t : Z) (d : dstate) : option dres :=
  do (it, d) <- pop d;
  let h := d_heap d in
  let primitive :=
    if item_type it =? t then ok (push it d)
    else if t =? T_Integer then do z <- try_int it; okd (push_int z d)
    else if t =? T_ByteArray then do bs <- try_bytes h it; ok (push (IBytes bs) d)
    else if t =? T_Buffer then do bs <- try_bytes h it; ok (push_new_buffer bs d)
    else if t =? T_Boolean then do b <- try_bool it; ok (push (IBool b) d)
    else None in
  match it with
  | INull => if (t =? T_Any) || negb (type_is_valid t) then None else ok (push INull d)
  | IBool _ | IInt _ | IBytes _ => primitive
  | IArr l =>
      if t =? T_Array then ok (push it d)
      else if t =? T_Struct then
        do (_, its) <- get_seq h l; let (l', d) := alloc (CSeq 0 its) d in ok (push (IStruct l') d)
      else if t =? T_Boolean then ok (push (IBool true) d) else None
  | IStruct l =>
      if t =? T_Struct then ok (push it d)
      else if t =? T_Array then
        do (_, its) <- get_seq h l; let (l', d) := alloc (CSeq 0 its) d in ok (push (IArr l') d)
      else if t =? T_Boolean then ok (push (IBool true) d) else None
  | IMap _ =>
      if t =? T_Map then ok (push it d) else if t =? T_Boolean then ok (push (IBool true) d) else None
  | IPtr _ _ =>
      if t =? T_Pointer then ok (push it d) else if t =? T_Boolean then ok (push (IBool true) d) else None
  | IBuf l =>
      do bs <- get_buf h l;
      if t =? T_Boolean then ok (push (IBool true) d)
      else if t =? T_Buffer then ok (push it d)
      else if t =? T_ByteArray then ok (push (IBytes bs) d)
      else if t =? T_Integer then
        if max_int_bytes <? zlen bs then None else okd (push_int (from_bytes bs) d)
      else None
  end.

(* splice *)
Definition slice (o n : Z) (bs : list Z) : list Z := firstn (Z.to_nat n) (skipn (Z.to_nat o) bs).

Definition op_memcpy (d : dstate) : option dres :=
  do (n, d) <- pop_i32 d; if n <? 0 then None else
  do (si, d) <- pop_i32 d; if si <? 0 then None else
  do (src, d) <- pop_bytes d; if zlen src <? si + n then None else
  do (di, d) <- pop_i32 d; if di <? 0 then None else
  do (dst, d) <- pop d;
  match dst with
  | IBuf l =>
      do bs <- get_buf (d_heap d) l;
      if zlen bs <? di + n then None
      else ok (set_heap d (hset (d_heap d) l
                 (CBuf (firstn (Z.to_nat di) bs ++ slice si n src ++ skipn (Z.to_nat (di + n)) bs))))
  | _ => None
  end.

(* conditions of the conditional jumps (the jump itself is done by the control layer) *)
Definition jump_cond (op : opcode) (d : dstate) : option (bool * dstate) :=
  let cmp (f : Z -> Z -> bool) := do (b, d) <- pop_int d; do (a, d) <- pop_int d; Some (f a b, d) in
  match op with
  | JMP | JMPL => Some (true, d)
  | JMPIF | JMPIFL => pop_bool d
  | JMPIFNOT | JMPIFNOTL => do (b, d) <- pop_bool d; Some (negb b, d)
  | JMPEQ | JMPEQL => cmp Z.eqb
  | JMPNE | JMPNEL => cmp (fun a b => negb (a =? b))
  | JMPGT | JMPGTL => cmp Z.gtb
  | JMPGE | JMPGEL => cmp Z.geb
  | JMPLT | JMPLTL => cmp Z.ltb
  | JMPLE | JMPLEL => cmp Z.leb
  | _ => None
  end.

(* ------------------------------------------------------------------------------------------------
   exec_data: one data instruction.  Control-flow opcodes are not handled here (None -> DFault).
   ------------------------------------------------------------------------------------------------ *)
Definition exec_data_opt (e : env) (op : opcode) (p : list Z) (d : dstate) : option dres :=
  match op with
  (* constants *)
  | PUSHINT8 | PUSHINT16 | PUSHINT32 | PUSHINT64 | PUSHINT128 | PUSHINT256 => okd (push_int (from_bytes p) d)
  | PUSHT => ok (push (IBool true) d)
  | PUSHF => ok (push (IBool false) d)
  | PUSHA => do off <- jump_offset (e_ip e) (e_len e) p; ok (push (IPtr off (e_sid e)) d)
  | PUSHNULL => ok (push INull d)
  | PUSHDATA1 | PUSHDATA2 | PUSHDATA4 => ok (push (IBytes p) d)
  | PUSHM1 | PUSH0 | PUSH1 | PUSH2 | PUSH3 | PUSH4 | PUSH5 | PUSH6 | PUSH7 | PUSH8 | PUSH9 | PUSH10
  | PUSH11 | PUSH12 | PUSH13 | PUSH14 | PUSH15 | PUSH16 =>
      okd (push_int (byte_of_opcode op - byte_of_opcode PUSH0) d)
  | NOP => ok d
  (* exceptions that are decided by data alone *)
  | ABORT => None
  | ABORTMSG => None
  | ASSERT => do (b, d) <- pop_bool d; if b then ok d else None
  | ASSERTMSG =>
      do (msg, d) <- pop_bytes d;
      if negb (is_utf8 msg) then None else
      do (b, d) <- pop_bool d; if b then ok d else None
  | THROW => do (it, d) <- pop d; Some (DThrow it d)
  (* stack *)
  | DEPTH => okd (push_int (zlen (d_es d)) d)
  | DROP => do (_, d) <- pop d; ok d
  | NIP => match d_es d with
           | a :: b :: es => ok (d_remove b (set_es d (a :: es)))
           | _ => None
           end
  | XDROP =>
      do (n, d) <- pop_i32 d;
      if n <? 0 then None else
      do it <- nth_error (d_es d) (sidx n (d_es d));
      ok (d_remove it (set_es d (remove_nth (sidx n (d_es d)) (d_es d))))
  | CLEAR => ok (d_remove_list (rev (d_es d)) (set_es d []))
  | DUP => do it <- nth_error (d_es d) 0; ok (push it d)
  | OVER => do it <- nth_error (d_es d) 1; ok (push it d)
  | PICK =>
      do (n, d) <- pop_i32 d;
      if n <? 0 then None else do it <- nth_error (d_es d) (sidx n (d_es d)); ok (push it d)
  | TUCK => match d_es d with
            | a :: _ :: _ => ok (d_add a (set_es d (insert_at 2 a (d_es d))))
            | _ => None
            end
  | SWAP => match d_es d with a :: b :: es => ok (set_es d (b :: a :: es)) | _ => None end
  | ROT => do es <- roll 2 (d_es d); ok (set_es d es)
  | ROLL =>
      do (n, d) <- pop_i32 d;
      if n <? 0 then None else do es <- roll (sidx n (d_es d)) (d_es d); ok (set_es d es)
  | REVERSE3 => do es <- reverse_top 3 (d_es d); ok (set_es d es)
  | REVERSE4 => do es <- reverse_top 4 (d_es d); ok (set_es d es)
  | REVERSEN =>
      do (n, d) <- pop_i32 d;
      if n <? 0 then None else do es <- reverse_top (sidx n (d_es d)) (d_es d); ok (set_es d es)
  (* slots *)
  | INITSSLOT =>
      do n <- param0 p;
      if n =? 0 then None else
      match d_static d with
      | Some _ => None
      | None => ok (set_refs (set_static d (Some (repeat INull (Z.to_nat n)))) (d_refs d + n))
      end
  | INITSLOT =>
      match p, d_local d, d_args d with
      | [nl; na], None, None =>
          if (nl =? 0) && (na =? 0) then None else
          let d := if 0 <? nl then set_refs (set_local d (Some (repeat INull (Z.to_nat nl)))) (d_refs d + nl) else d in
          if 0 <? na then
            if zlen (d_es d) <? na then None
            else ok (set_es (set_args d (Some (firstn (Z.to_nat na) (d_es d)))) (skipn (Z.to_nat na) (d_es d)))
          else ok d
      | _, _, _ => None
      end
  | LDSFLD0 | LDSFLD1 | LDSFLD2 | LDSFLD3 | LDSFLD4 | LDSFLD5 | LDSFLD6 =>
      ld KStatic (byte_of_opcode op - byte_of_opcode LDSFLD0) d
  | LDSFLD => do i <- param0 p; ld KStatic i d
  | STSFLD0 | STSFLD1 | STSFLD2 | STSFLD3 | STSFLD4 | STSFLD5 | STSFLD6 =>
      st KStatic (byte_of_opcode op - byte_of_opcode STSFLD0) d
  | STSFLD => do i <- param0 p; st KStatic i d
  | LDLOC0 | LDLOC1 | LDLOC2 | LDLOC3 | LDLOC4 | LDLOC5 | LDLOC6 =>
      ld KLocal (byte_of_opcode op - byte_of_opcode LDLOC0) d
  | LDLOC => do i <- param0 p; ld KLocal i d
  | STLOC0 | STLOC1 | STLOC2 | STLOC3 | STLOC4 | STLOC5 | STLOC6 =>
      st KLocal (byte_of_opcode op - byte_of_opcode STLOC0) d
  | STLOC => do i <- param0 p; st KLocal i d
  | LDARG0 | LDARG1 | LDARG2 | LDARG3 | LDARG4 | LDARG5 | LDARG6 =>
      ld KArg (byte_of_opcode op - byte_of_opcode LDARG0) d
  | LDARG => do i <- param0 p; ld KArg i d
  | STARG0 | STARG1 | STARG2 | STARG3 | STARG4 | STARG5 | STARG6 =>
      st KArg (byte_of_opcode op - byte_of_opcode STARG0) d
  | STARG => do i <- param0 p; st KArg i d
  (* splice *)
  | NEWBUFFER =>
      do (n, d) <- pop_i32 d;
      if (n <? 0) || (MaxItemSize <? n) then None else ok (push_new_buffer (repeat 0 (Z.to_nat n)) d)
  | MEMCPY => op_memcpy d
  | CAT =>
      do (b, d) <- pop_bytes d; do (a, d) <- pop_bytes d;
      if MaxItemSize <? zlen a + zlen b then None else ok (push_new_buffer (a ++ b) d)
  | SUBSTR =>
      do (l, d) <- pop_i32 d; if l <? 0 then None else
      do (o, d) <- pop_i32 d; if o <? 0 then None else
      do (s, d) <- pop_bytes d;
      if zlen s <? l + o then None else ok (push_new_buffer (slice o l s) d)
  | LEFT =>
      do (l, d) <- pop_i32 d; if l <? 0 then None else
      do (s, d) <- pop_bytes d;
      if zlen s <? l then None else ok (push_new_buffer (firstn (Z.to_nat l) s) d)
  | RIGHT =>
      do (l, d) <- pop_i32 d; if l <? 0 then None else
      do (s, d) <- pop_bytes d;
      if zlen s <? l then None else ok (push_new_buffer (skipn (Z.to_nat (zlen s - l)) s) d)
  (* bitwise *)
  | INVERT => un_int (fun a => Some (Z.lnot a)) d
  | AND => bin_int (total2 Z.land) d
  | OR => bin_int (total2 Z.lor) d
  | XOR => bin_int (total2 Z.lxor) d
  | EQUAL | NOTEQUAL =>
      match d_es d with
      | _ :: _ :: _ =>
          do (b, d) <- pop d; do (a, d) <- pop d;
          do r <- item_equals (d_heap d) a b;
          ok (push (IBool (match op with EQUAL => r | _ => negb r end)) d)
      | _ => None
      end
  (* arithmetic *)
  | SIGN => un_int (fun a => Some (Z.sgn a)) d
  | ABS => un_int (fun a => Some (Z.abs a)) d
  | NEGATE => un_int (fun a => Some (- a)) d
  | INC => un_int (fun a => Some (a + 1)) d
  | DEC => un_int (fun a => Some (a - 1)) d
  | ADD => bin_int (total2 Z.add) d
  | SUB => bin_int (total2 Z.sub) d
  | MUL => bin_int (total2 Z.mul) d
  | DIV => bin_int ar_div d
  | MOD => bin_int ar_mod d
  | POW => bin_int ar_pow d
  | SQRT => un_int ar_sqrt d
  | MODMUL =>
      do (m, d) <- pop_int d; do (x2, d) <- pop_int d; do (x1, d) <- pop_int d;
      do r <- ar_modmul x1 x2 m; okd (push_int r d)
  | MODPOW =>
      do (m, d) <- pop_int d; do (ex, d) <- pop_int d; do (b, d) <- pop_int d;
      do r <- ar_modpow b ex m; okd (push_int r d)
  | SHL | SHR =>
      do (b, d) <- pop_i32 d;
      if (b <? 0) || (MaxBigIntegerSizeBits <? b) then None else
      do (a, d) <- pop_int d;
      do r <- ar_shift (match op with SHL => true | _ => false end) a b; okd (push_int r d)
  | NOT => do (x, d) <- pop_bool d; ok (push (IBool (negb x)) d)
  | BOOLAND => do (b, d) <- pop_bool d; do (a, d) <- pop_bool d; ok (push (IBool (a && b)) d)
  | BOOLOR => do (b, d) <- pop_bool d; do (a, d) <- pop_bool d; ok (push (IBool (a || b)) d)
  | NZ => do (x, d) <- pop_int d; ok (push (IBool (negb (x =? 0))) d)
  | NUMEQUAL => bin_cmp Z.eqb d
  | NUMNOTEQUAL => bin_cmp (fun a b => negb (a =? b)) d
  | LT => cmp_null Z.ltb d
  | LE => cmp_null Z.leb d
  | GT => cmp_null Z.gtb d
  | GE => cmp_null Z.geb d
  | MIN => bin_int (total2 Z.min) d
  | MAX => bin_int (total2 Z.max) d
  | WITHIN =>
      do (b, d) <- pop_int d; do (a, d) <- pop_int d; do (x, d) <- pop_int d;
      ok (push (IBool ((a <=? x) && (x <? b))) d)
  (* compound types *)
  | PACKMAP => op_packmap d
  | PACKSTRUCT => op_pack true d
  | PACK => op_pack false d
  | UNPACK => op_unpack d
  | NEWARRAY0 => new_empty (CSeq 0 []) IArr d
  | NEWARRAY => new_seq false T_Any d
  | NEWARRAYT => do t <- param0 p; new_seq false t d
  | NEWSTRUCT0 => new_empty (CSeq 0 []) IStruct d
  | NEWSTRUCT => new_seq true T_Any d
  | NEWMAP => new_empty (CMap 0 []) IMap d
  | SIZE => op_size d
  | HASKEY => op_haskey d
  | KEYS => op_keys d
  | VALUES => op_values d
  | PICKITEM => op_pickitem d
  | APPEND => op_append d
  | SETITEM => op_setitem d
  | REVERSEITEMS => op_reverseitems d
  | REMOVE => op_remove d
  | CLEARITEMS => op_clearitems d
  | POPITEM => op_popitem d
  (* types *)
  | ISNULL => do (it, d) <- pop d; ok (push (IBool (is_null it)) d)
  | ISTYPE =>
      do (it, d) <- pop d; do t <- param0 p;
      if (t =? T_Any) || negb (type_is_valid t) then None else ok (push (IBool (item_type it =? t)) d)
  | CONVERT => do t <- param0 p; op_convert t d
  | _ => None
  end.

Definition exec_data (e : env) (op : opcode) (p : list Z) (d : dstate) : dres :=
  match exec_data_opt e op p d with Some r => r | None => DFault end.
