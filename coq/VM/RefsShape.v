(* The heap only grows and a location never changes between buffer and compound: every data instruction leaves
   [same_shape (heap before) (heap after)], so a value that was well-formed stays well-formed (needed for the pending
   exception, which is held uncounted while a finally block runs). *)
From NG Require Import VM.Model VM.LimitsData VM.Reach VM.RefsInv VM.RefsMoves.
Open Scope Z_scope.

Lemma rc_only_shape' h h' : rc_only h h' -> same_shape h h'.
Proof. intros [_ H] l c E C. destruct (H l c E) as (r & E'). eexists. split; [exact E'|apply set_rc_comp; assumption]. Qed.

Definition shp (d d' : dstate) : Prop := same_shape (d_heap d) (d_heap d').
Lemma shp_refl d : shp d d. Proof. apply same_shape_refl. Qed.
Lemma shp_trans a b c : shp a b -> shp b c -> shp a c. Proof. apply same_shape_trans. Qed.

Lemma shp_add it d : shp d (d_add it d).
Proof.
  unfold shp, d_add. pose proof (ref_add_rc_only (d_heap d) (d_refs d) it) as R.
  destruct (ref_add (d_heap d) (d_refs d) it). apply rc_only_shape'. exact R.
Qed.
Lemma shp_remove it d : shp d (d_remove it d).
Proof.
  unfold shp, d_remove. pose proof (ref_remove_rc_only (d_heap d) (d_refs d) it) as R.
  destruct (ref_remove (d_heap d) (d_refs d) it). apply rc_only_shape'. exact R.
Qed.
Lemma shp_add_list w d : shp d (d_add_list w d).
Proof.
  unfold shp, d_add_list, ref_add_list. pose proof (ref_add_wl_rc_only (ref_fuel (d_heap d) w) (d_heap d) (d_refs d) w) as R.
  destruct (ref_add_wl _ (d_heap d) (d_refs d) w). apply rc_only_shape'. exact R.
Qed.
Lemma shp_remove_list w d : shp d (d_remove_list w d).
Proof.
  unfold shp, d_remove_list, ref_remove_list. pose proof (ref_remove_wl_rc_only (ref_fuel (d_heap d) w) (d_heap d) (d_refs d) w) as R.
  destruct (ref_remove_wl _ (d_heap d) (d_refs d) w). apply rc_only_shape'. exact R.
Qed.
Lemma shp_push it d : shp d (push it d).
Proof. unfold push. apply (shp_trans _ (push_noref it d)); [apply same_shape_refl|apply shp_add]. Qed.
Lemma shp_pop_noref d it d' : pop_noref d = Some (it, d') -> shp d d'.
Proof. unfold pop_noref. destruct (d_es d); [discriminate|]. intros Q; inv Q. (unfold shp; apply same_shape_refl). Qed.
Lemma shp_pop d it d' : pop d = Some (it, d') -> shp d d'.
Proof.
  unfold pop. destruct (pop_noref d) as [[i d1]|] eqn:E; [|discriminate]. intros Q; inv Q.
  eapply shp_trans; [eapply shp_pop_noref; eauto|apply shp_remove].
Qed.
Lemma shp_pop_int d z d' : pop_int d = Some (z, d') -> shp d d'.
Proof. unfold pop_int. destruct (pop d) as [[i d1]|] eqn:E; [|discriminate]. destruct (try_int i); [|discriminate]. intros Q; inv Q. eapply shp_pop; eauto. Qed.
Lemma shp_pop_i32 d z d' : pop_i32 d = Some (z, d') -> shp d d'.
Proof. unfold pop_i32. destruct (pop_int d) as [[i d1]|] eqn:E; [|discriminate]. destruct (to_i32 i); [|discriminate]. intros Q; inv Q. eapply shp_pop_int; eauto. Qed.
Lemma shp_pop_bool d z d' : pop_bool d = Some (z, d') -> shp d d'.
Proof. unfold pop_bool. destruct (pop d) as [[i d1]|] eqn:E; [|discriminate]. destruct (try_bool i); [|discriminate]. intros Q; inv Q. eapply shp_pop; eauto. Qed.
Lemma shp_pop_bytes d z d' : pop_bytes d = Some (z, d') -> shp d d'.
Proof. unfold pop_bytes. destruct (pop d) as [[i d1]|] eqn:E; [|discriminate]. destruct (try_bytes (d_heap d1) i); [|discriminate]. intros Q; inv Q. eapply shp_pop; eauto. Qed.
Lemma shp_push_int z d d' : push_int z d = Some d' -> shp d d'.
Proof. unfold push_int. destruct (mk_int256 z); [|discriminate]. intros Q; inv Q. apply shp_push. Qed.
Lemma shp_alloc d c : shp d (set_heap d (d_heap d ++ [c])).
Proof. unfold shp. cbn. apply same_shape_app. Qed.
Lemma shp_push_new_buffer bs d : shp d (push_new_buffer bs d).
Proof. unfold push_new_buffer, alloc, halloc. cbn [fst snd]. eapply shp_trans; [apply shp_alloc|apply shp_push]. Qed.

Lemma shp_hset_seq d l rc its c' : get_seq (d_heap d) l = Some (rc, its) -> is_comp c' -> shp d (set_heap d (hset (d_heap d) l c')).
Proof.
  unfold get_seq, shp. destruct (hget (d_heap d) l) as [[| |]|] eqn:E; try discriminate. intros _ C. cbn.
  eapply same_shape_hset; eauto.
Qed.
Lemma shp_hset_map d l rc es c' : get_map (d_heap d) l = Some (rc, es) -> is_comp c' -> shp d (set_heap d (hset (d_heap d) l c')).
Proof.
  unfold get_map, shp. destruct (hget (d_heap d) l) as [[| |]|] eqn:E; try discriminate. intros _ C. cbn.
  eapply same_shape_hset; eauto.
Qed.
Lemma shp_hset_buf d l bs c' : get_buf (d_heap d) l = Some bs -> shp d (set_heap d (hset (d_heap d) l c')).
Proof.
  unfold get_buf, shp. destruct (hget (d_heap d) l) as [[| |]|] eqn:E; try discriminate. intros _. cbn.
  eapply same_shape_hset; eauto. simpl. tauto.
Qed.

Lemma shp_slot_store sl i d s' d' : slot_store sl i d = Some (s', d') -> shp d d'.
Proof.
  unfold slot_store. destruct sl as [s|]; [|discriminate]. destruct (nth_error s (Z.to_nat i)); [|discriminate].
  destruct (pop_noref d) as [[it d1]|] eqn:P; [|discriminate]. intros Q; inv Q.
  eapply shp_trans; [eapply shp_pop_noref; eauto|apply shp_remove].
Qed.

(* Struct.Clone only appends *)
Lemma clone_struct_shape fuel : forall h l lim h' l' lim', clone_struct fuel h l lim = Some (h', l', lim') -> same_shape h h'.
Proof.
  induction fuel as [|f IH]; intros h l lim h' l' lim'; simpl; [discriminate|].
  destruct (get_seq h l) as [[rc xs]|]; [|discriminate].
  match goal with |- match ?go xs h lim [] with _ => _ end = _ -> _ => set (GO := go) end.
  assert (K : forall xs h0 lim0 acc h1 ys lim1, GO xs h0 lim0 acc = Some (h1, ys, lim1) -> same_shape h0 h1).
  { clear - IH. induction xs as [|x xs IHxs]; intros h0 lim0 acc h1 ys lim1; simpl.
    - intros Q; inv Q. apply same_shape_refl.
    - case_if; [discriminate|]. destruct x; try (apply IHxs; fail).
      destruct (clone_struct f h0 l (lim0 - 1)) as [[[h2 l2] lim2]|] eqn:C; [|discriminate].
      intros Q. eapply same_shape_trans; [eapply IH; eauto|eapply IHxs; eauto]. }
  destruct (GO xs h lim []) as [[[h1 ys] lim1]|] eqn:Eg; [|discriminate].
  unfold halloc. intros Q; inv Q. eapply same_shape_trans; [eapply K; eauto|apply same_shape_app].
Qed.
Lemma clone_if_struct_shape h it h' it' b : clone_if_struct h it = Some (h', it', b) -> same_shape h h'.
Proof.
  unfold clone_if_struct. destruct it; try (intros Q; inv Q; apply same_shape_refl).
  destruct (clone_struct clone_fuel h l (MaxClonableNumOfItems - 1)) as [[[h1 l1] lim1]|] eqn:C; [|discriminate].
  intros Q; inv Q. eapply clone_struct_shape; eauto.
Qed.
Lemma shp_clone d it h' it' b : clone_if_struct (d_heap d) it = Some (h', it', b) -> shp d (set_heap d h').
Proof. intros C. unfold shp. cbn. eapply clone_if_struct_shape; eauto. Qed.

Lemma shp_packmap n : forall es d es' d', packmap_loop n es d = Some (es', d') -> shp d d'.
Proof.
  induction n as [|n IH]; intros es d es' d'; simpl; [intros Q; inv Q; (unfold shp; apply same_shape_refl)|].
  destruct (pop_noref d) as [[k d1]|] eqn:P1; [|discriminate].
  destruct (pop_noref d1) as [[v d2]|] eqn:P2; [|discriminate]. case_if; [discriminate|].
  pose proof (shp_trans _ _ _ (shp_pop_noref _ _ _ P1) (shp_pop_noref _ _ _ P2)) as S.
  destruct (map_index es k).
  - destruct (nth_error es n0) as [[? old]|]; [|discriminate]. intros Q. eapply shp_trans; [exact S|].
    eapply shp_trans; [|eapply IH; exact Q]. eapply shp_trans; [|apply shp_remove]. (unfold shp; apply same_shape_refl).
  - intros Q. eapply shp_trans; [exact S|eapply IH; exact Q].
Qed.
Lemma shp_cp_values b : forall src acc d arr d', cp_values b src acc d = Some (arr, d') -> shp d d'.
Proof.
  induction src as [|it src IH]; intros acc d arr d'; simpl; [intros Q; inv Q; (unfold shp; apply same_shape_refl)|].
  destruct (clone_if_struct (d_heap d) it) as [[[h cl] s]|] eqn:C; [|discriminate]. intros Q.
  eapply shp_trans; [apply (shp_clone _ _ _ _ _ C)|]. eapply shp_trans; [|eapply IH; exact Q].
  destruct b; [apply shp_add|]. destruct s; [|(unfold shp; apply same_shape_refl)]. eapply shp_trans; [apply shp_remove|apply shp_add].
Qed.

(* ---------- all data instructions ---------- *)
Definition res_S (d0 : dstate) (r : option dres) : Prop :=
  match r with Some (DOk d) => shp d0 d | Some (DThrow _ d) => shp d0 d | _ => True end.

Ltac openS :=
  match goal with
  | |- res_S _ (match ?e with Some _ => _ | None => None end) =>
      let E := fresh "E" in destruct e as [?|] eqn:E; [|exact I]
  | |- res_S _ (let (_, _) := alloc _ _ in _) => unfold alloc, halloc; cbv beta iota zeta
  | |- res_S _ (let (_, _) := ?p in _) => destruct p
  | |- res_S _ (let _ := _ in _) => cbv zeta
  | |- res_S _ (if ?b then _ else _) => let E := fresh "C" in destruct b eqn:E
  | |- res_S _ None => exact I
  | |- res_S _ (ok _) => unfold ok
  | |- res_S _ (okd _) => unfold okd
  | |- res_S _ (Some (DOk _)) => cbn [res_S]
  | |- res_S _ (Some (DThrow _ _)) => cbn [res_S]
  | |- res_S _ (match ?x with _ => _ end) => is_var x; destruct x
  | |- res_S _ (match ?e with _ => _ end) => let E := fresh "E" in destruct e eqn:E
  end.

Ltac shn := cbn [d_heap set_es set_mem set_heap set_refs set_local set_args set_static push_noref push_counted put_slot
                 alloc halloc fst snd] in *.

Lemma hs_seq h l rc its c' : get_seq h l = Some (rc, its) -> is_comp c' -> same_shape h (hset h l c').
Proof. unfold get_seq. destruct (hget h l) as [[| |]|] eqn:E; try discriminate. intros _ C. eapply same_shape_hset; eauto. Qed.
Lemma hs_map h l rc es c' : get_map h l = Some (rc, es) -> is_comp c' -> same_shape h (hset h l c').
Proof. unfold get_map. destruct (hget h l) as [[| |]|] eqn:E; try discriminate. intros _ C. eapply same_shape_hset; eauto. Qed.
Lemma hs_buf h l bs c' : get_buf h l = Some bs -> same_shape h (hset h l c').
Proof. unfold get_buf. destruct (hget h l) as [[| |]|] eqn:E; try discriminate. intros _. eapply same_shape_hset; eauto. simpl. tauto. Qed.

Ltac sh :=
  unfold shp; shn;
  lazymatch goal with
  | |- same_shape ?a ?a => apply same_shape_refl
  | |- same_shape _ (d_heap (if _ then _ else _)) => case_if; sh
  | |- same_shape _ (d_heap (match ?x with _ => _ end)) => destruct x; sh
  | |- same_shape _ (d_heap (d_add _ _)) => eapply same_shape_trans; [|apply shp_add]; sh
  | |- same_shape _ (d_heap (d_remove _ _)) => eapply same_shape_trans; [|apply shp_remove]; sh
  | |- same_shape _ (d_heap (d_add_list _ _)) => eapply same_shape_trans; [|apply shp_add_list]; sh
  | |- same_shape _ (d_heap (d_remove_list _ _)) => eapply same_shape_trans; [|apply shp_remove_list]; sh
  | |- same_shape _ (d_heap (push _ _)) => eapply same_shape_trans; [|apply shp_push]; sh
  | |- same_shape _ (d_heap (push_new_buffer _ _)) => eapply same_shape_trans; [|apply shp_push_new_buffer]; sh
  | |- same_shape _ (hset ?H _ _) =>
      eapply same_shape_trans;
      [|first [eapply hs_seq; [eassumption|exact I] | eapply hs_map; [eassumption|exact I] | eapply hs_buf; eassumption]]; sh
  | |- same_shape _ (?H ++ [_]) => eapply same_shape_trans; [|apply same_shape_app]; sh
  | |- same_shape _ (d_heap ?d) =>
      is_var d;
      match goal with
      | X : pop _ = Some (_, d) |- _ => eapply same_shape_trans; [|exact (shp_pop _ _ _ X)]; clear X; sh
      | X : pop_noref _ = Some (_, d) |- _ => eapply same_shape_trans; [|exact (shp_pop_noref _ _ _ X)]; clear X; sh
      | X : pop_int _ = Some (_, d) |- _ => eapply same_shape_trans; [|exact (shp_pop_int _ _ _ X)]; clear X; sh
      | X : pop_i32 _ = Some (_, d) |- _ => eapply same_shape_trans; [|exact (shp_pop_i32 _ _ _ X)]; clear X; sh
      | X : pop_bool _ = Some (_, d) |- _ => eapply same_shape_trans; [|exact (shp_pop_bool _ _ _ X)]; clear X; sh
      | X : pop_bytes _ = Some (_, d) |- _ => eapply same_shape_trans; [|exact (shp_pop_bytes _ _ _ X)]; clear X; sh
      | X : slot_store _ _ _ = Some (_, d) |- _ => eapply same_shape_trans; [|exact (shp_slot_store _ _ _ _ _ X)]; clear X; sh
      | X : push_int _ _ = Some d |- _ => eapply same_shape_trans; [|exact (shp_push_int _ _ _ X)]; clear X; sh
      | X : packmap_loop _ _ _ = Some (_, d) |- _ => eapply same_shape_trans; [|exact (shp_packmap _ _ _ _ _ X)]; clear X; sh
      | X : cp_values _ _ _ _ = Some (_, d) |- _ => eapply same_shape_trans; [|exact (shp_cp_values _ _ _ _ _ _ X)]; clear X; sh
      end
  | |- same_shape _ ?h =>
      is_var h;
      match goal with
      | X : clone_if_struct _ _ = Some (h, _, _) |- _ => eapply same_shape_trans; [|exact (clone_if_struct_shape _ _ _ _ _ X)]; clear X; sh
      end
  end.

Ltac unf := unfold un_int, bin_int, bin_cmp, cmp_null, ld, st; unfold slot_load, new_seq, new_empty, op_append,
  op_packmap, op_pack, op_unpack, throw_bytes, op_pickitem, op_setitem, op_reverseitems, op_remove, op_clearitems, op_popitem,
  op_size, op_keys, op_values, op_haskey, op_convert, op_memcpy, throw_bytes, okd, ok.

Theorem exec_data_opt_shape e op p d : res_S d (exec_data_opt e op p d).
Proof. destruct op; cbn [exec_data_opt]; try exact I; unf; repeat openS; sh. Qed.

Theorem exec_data_shape e op p d :
  match exec_data e op p d with DOk d' => shp d d' | DThrow _ d' => shp d d' | DFault => True end.
Proof. unfold exec_data. pose proof (exec_data_opt_shape e op p d) as H. destruct (exec_data_opt e op p d) as [[]|]; exact H. Qed.

Lemma jump_cond_shape op d b d' : jump_cond op d = Some (b, d') -> shp d d'.
Proof.
  unfold jump_cond. destruct op; try discriminate; intros Q;
  repeat match type of Q with
         | match ?e with Some _ => _ | None => None end = _ => let E := fresh "E" in destruct e as [[? ?]|] eqn:E; [|discriminate]
         end; inv Q; sh.
Qed.
