(* exec_data preserves the size limits ([d_ok]); see LimitsData.v for the predicates. *)
From NG Require Import VM.Model Codec.BigintProofs VM.LimitsData.
Open Scope Z_scope.

Section WithPtr.
Context {PS : PtrSpec}.

(* ---------- projections and setters ---------- *)
Lemma d_ok_es d : d_ok d -> Forall item_ok (d_es d). Proof. intros H; apply H. Qed.
Lemma d_ok_heap d : d_ok d -> heap_ok (d_heap d). Proof. intros H; apply H. Qed.
Lemma d_ok_local d : d_ok d -> slot_ok (d_local d). Proof. intros H; apply H. Qed.
Lemma d_ok_args d : d_ok d -> slot_ok (d_args d). Proof. intros H; apply H. Qed.
Lemma d_ok_static d : d_ok d -> slot_ok (d_static d). Proof. intros H; apply H. Qed.

Lemma set_es_ok d es : d_ok d -> Forall item_ok es -> d_ok (set_es d es).
Proof. intros (A & B & C & D & E) H. repeat split; assumption. Qed.
Lemma set_mem_ok d h r : d_ok d -> heap_ok h -> d_ok (set_mem d h r).
Proof. intros (A & B & C & D & E) H. repeat split; assumption. Qed.
Lemma set_heap_ok d h : d_ok d -> heap_ok h -> d_ok (set_heap d h).
Proof. intros. apply set_mem_ok; assumption. Qed.
Lemma set_refs_ok d r : d_ok d -> d_ok (set_refs d r).
Proof. intros. apply set_mem_ok; [assumption|apply d_ok_heap; assumption]. Qed.
Lemma set_local_ok d v : d_ok d -> slot_ok v -> d_ok (set_local d v).
Proof. intros (A & B & C & D & E) H. repeat split; assumption. Qed.
Lemma set_args_ok d v : d_ok d -> slot_ok v -> d_ok (set_args d v).
Proof. intros (A & B & C & D & E) H. repeat split; assumption. Qed.
Lemma set_static_ok d v : d_ok d -> slot_ok v -> d_ok (set_static d v).
Proof. intros (A & B & C & D & E) H. repeat split; assumption. Qed.

Lemma d_add_ok it d : d_ok d -> d_ok (d_add it d).
Proof.
  intros H. unfold d_add. pose proof (ref_add_ok (d_heap d) (d_refs d) it (d_ok_heap _ H)) as K.
  destruct (ref_add (d_heap d) (d_refs d) it). apply set_mem_ok; assumption.
Qed.
Lemma d_remove_ok it d : d_ok d -> d_ok (d_remove it d).
Proof.
  intros H. unfold d_remove. pose proof (ref_remove_ok (d_heap d) (d_refs d) it (d_ok_heap _ H)) as K.
  destruct (ref_remove (d_heap d) (d_refs d) it). apply set_mem_ok; assumption.
Qed.
Lemma d_remove_list_ok its d : d_ok d -> d_ok (d_remove_list its d).
Proof.
  intros H. unfold d_remove_list, ref_remove_list.
  pose proof (ref_remove_wl_ok (ref_fuel (d_heap d) its) (d_heap d) (d_refs d) its (d_ok_heap _ H)) as K.
  destruct (ref_remove_wl _ (d_heap d) (d_refs d) its). apply set_mem_ok; assumption.
Qed.
Lemma d_add_list_ok its d : d_ok d -> d_ok (d_add_list its d).
Proof.
  intros H. unfold d_add_list, ref_add_list.
  pose proof (ref_add_wl_ok (ref_fuel (d_heap d) its) (d_heap d) (d_refs d) its (d_ok_heap _ H)) as K.
  destruct (ref_add_wl _ (d_heap d) (d_refs d) its). apply set_mem_ok; assumption.
Qed.

Lemma pop_noref_ok d it d' : d_ok d -> pop_noref d = Some (it, d') -> item_ok it /\ d_ok d'.
Proof.
  unfold pop_noref. intros H. pose proof (d_ok_es _ H) as F. destruct (d_es d); [discriminate|].
  intros E; inv E. inv F. split; [assumption|apply set_es_ok; assumption].
Qed.
Lemma pop_ok d it d' : d_ok d -> pop d = Some (it, d') -> item_ok it /\ d_ok d'.
Proof.
  unfold pop. intros H. destruct (pop_noref d) as [[i d1]|] eqn:E; [|discriminate].
  intros X; inv X. destruct (pop_noref_ok _ _ _ H E). split; [assumption|apply d_remove_ok; assumption].
Qed.
Lemma push_noref_ok it d : item_ok it -> d_ok d -> d_ok (push_noref it d).
Proof. intros. apply set_es_ok; [assumption|]. constructor; [assumption|apply d_ok_es; assumption]. Qed.
Lemma push_ok it d : item_ok it -> d_ok d -> d_ok (push it d).
Proof. intros. apply d_add_ok, push_noref_ok; assumption. Qed.
Lemma push_counted_ok it n d : item_ok it -> d_ok d -> d_ok (push_counted it n d).
Proof. intros. apply set_refs_ok, push_noref_ok; assumption. Qed.

Lemma pop_int_ok d z d' : d_ok d -> pop_int d = Some (z, d') -> d_ok d'.
Proof.
  unfold pop_int. intros H. destruct (pop d) as [[i d1]|] eqn:E; [|discriminate].
  destruct (try_int i); [|discriminate]. intros X; inv X. eapply pop_ok; eauto.
Qed.
Lemma pop_i32_ok d z d' : d_ok d -> pop_i32 d = Some (z, d') -> d_ok d'.
Proof.
  unfold pop_i32. intros H. destruct (pop_int d) as [[i d1]|] eqn:E; [|discriminate].
  destruct (to_i32 i); [|discriminate]. intros X; inv X. eapply pop_int_ok; eauto.
Qed.
Lemma pop_bool_ok d z d' : d_ok d -> pop_bool d = Some (z, d') -> d_ok d'.
Proof.
  unfold pop_bool. intros H. destruct (pop d) as [[i d1]|] eqn:E; [|discriminate].
  destruct (try_bool i); [|discriminate]. intros X; inv X. eapply pop_ok; eauto.
Qed.
Lemma pop_bytes_ok d bs d' : d_ok d -> pop_bytes d = Some (bs, d') -> zlen bs <= MaxItemSize /\ d_ok d'.
Proof.
  unfold pop_bytes. intros H. destruct (pop d) as [[i d1]|] eqn:E; [|discriminate].
  destruct (pop_ok _ _ _ H E) as [Hi Hd].
  destruct (try_bytes (d_heap d1) i) eqn:T; [|discriminate]. intros X; inv X.
  split; [|assumption]. eapply try_bytes_ok; eauto. apply d_ok_heap; assumption.
Qed.
Lemma push_int_ok z d d' : d_ok d -> push_int z d = Some d' -> d_ok d'.
Proof.
  unfold push_int. intros H. destruct (mk_int256 z) eqn:M; [|discriminate]. intros X; inv X.
  apply push_ok; [|assumption]. simpl. eapply mk_int256_ok; eauto.
Qed.
Lemma alloc_eq c d : alloc c d = (length (d_heap d), set_heap d (d_heap d ++ [c])).
Proof. reflexivity. Qed.
Lemma alloc_ok c d : cell_ok c -> d_ok d -> d_ok (set_heap d (d_heap d ++ [c])).
Proof. intros. apply set_heap_ok; [assumption|]. apply Forall_app; split; [apply d_ok_heap; assumption|auto]. Qed.
Lemma push_new_buffer_ok bs d : zlen bs <= MaxItemSize -> d_ok d -> d_ok (push_new_buffer bs d).
Proof. intros. unfold push_new_buffer. rewrite alloc_eq. apply push_ok; [exact I|]. apply alloc_ok; assumption. Qed.

(* ---------- maps ---------- *)
Lemma map_add_ok es k v : Forall item_ok (flat_entries es) -> item_ok k -> item_ok v ->
  Forall item_ok (flat_entries (map_add es k v)).
Proof.
  induction es as [|[k' v'] t IH]; simpl; intros H Hk Hv; [repeat constructor; assumption|].
  inv H. inv H3. case_if; simpl; repeat constructor; auto.
Qed.
Lemma entries_nth_ok es i k v : Forall item_ok (flat_entries es) -> nth_error es i = Some (k, v) -> item_ok k /\ item_ok v.
Proof.
  revert i; induction es as [|[k' v'] t IH]; intros [|i] H E; simpl in *; try discriminate.
  - inv E. inv H. inv H3. auto.
  - inv H. inv H3. eauto.
Qed.
Lemma entries_remove_ok es i : Forall item_ok (flat_entries es) -> Forall item_ok (flat_entries (remove_nth i es)).
Proof.
  revert i; induction es as [|[k' v'] t IH]; intros [|i] H; simpl in *; auto; inv H; inv H3; auto;
  repeat constructor; auto.
Qed.
Lemma entries_fst_ok es : Forall item_ok (flat_entries es) -> Forall item_ok (map fst es).
Proof. induction es as [|[k v] t IH]; simpl; intros H; auto. inv H. inv H3. constructor; auto. Qed.
Lemma entries_snd_ok es : Forall item_ok (flat_entries es) -> Forall item_ok (map snd es).
Proof. induction es as [|[k v] t IH]; simpl; intros H; auto. inv H. inv H3. constructor; auto. Qed.

Lemma roll_ok n es es' : Forall item_ok es -> roll n es = Some es' -> Forall item_ok es'.
Proof.
  unfold roll. intros H. destruct (nth_error es n) eqn:E; [|discriminate]. intros X; inv X.
  constructor; [eapply Forall_nth_error; eauto|apply Forall_remove_nth; assumption].
Qed.
Lemma reverse_top_ok n es es' : Forall item_ok es -> reverse_top n es = Some es' -> Forall item_ok es'.
Proof.
  unfold reverse_top. intros H. case_if; [discriminate|]. intros X; inv X.
  apply Forall_app; split; [apply Forall_rev, Forall_firstn|apply Forall_skipn]; assumption.
Qed.
Lemma insert_at_ok n it es : Forall item_ok es -> item_ok it -> Forall item_ok (insert_at n it es).
Proof.
  intros. unfold insert_at. apply Forall_app; split; [apply Forall_firstn; assumption|].
  constructor; [assumption|apply Forall_skipn; assumption].
Qed.
Lemma flat_entries_ok_nil : Forall item_ok (flat_entries []).
Proof. constructor. Qed.

Lemma zlen_set_nth {A} n (l : list A) v : zlen (set_nth n l v) = zlen l.
Proof. unfold zlen. rewrite set_nth_length. reflexivity. Qed.
Lemma default_of_ok t : item_ok (default_of t).
Proof. unfold default_of. repeat case_if; simpl; try exact I; vm_compute; congruence. Qed.

(* ---------- the postcondition ---------- *)
Definition res_ok (r : option dres) : Prop :=
  match r with
  | Some (DOk d) => d_ok d
  | Some (DThrow e d) => item_ok e /\ d_ok d
  | _ => True
  end.

End WithPtr.


Ltac dok :=
  lazymatch goal with
  | |- _ /\ _ => split; dok
  | |- d_ok (push _ _) => apply push_ok; dok
  | |- d_ok (push_counted _ _ _) => apply push_counted_ok; dok
  | |- d_ok (push_noref _ _) => apply push_noref_ok; dok
  | |- d_ok (push_new_buffer _ _) => apply push_new_buffer_ok; dok
  | |- d_ok (d_add _ _) => apply d_add_ok; dok
  | |- d_ok (d_remove _ _) => apply d_remove_ok; dok
  | |- d_ok (d_remove_list _ _) => apply d_remove_list_ok; dok
  | |- d_ok (d_add_list _ _) => apply d_add_list_ok; dok
  | |- d_ok (set_heap ?d (d_heap ?d ++ [_])) => apply alloc_ok; dok
  | |- d_ok (set_es _ _) => apply set_es_ok; dok
  | |- d_ok (set_heap _ _) => apply set_heap_ok; dok
  | |- d_ok (set_refs _ _) => apply set_refs_ok; dok
  | |- d_ok (set_mem _ _ _) => apply set_mem_ok; dok
  | |- d_ok (set_local _ _) => apply set_local_ok; dok
  | |- d_ok (set_args _ _) => apply set_args_ok; dok
  | |- d_ok (set_static _ _) => apply set_static_ok; dok
  | |- d_ok (if _ then _ else _) => case_if; dok
  | |- d_ok (match ?x with _ => _ end) => destruct x; dok
  | |- d_ok _ => try assumption
  | |- heap_ok (hset _ _ _) => apply hset_ok; dok
  | |- heap_ok (d_heap _) => apply d_ok_heap; dok
  | |- heap_ok _ => try assumption
  | |- cell_ok (CBuf _) => cbn [cell_ok]; dok
  | |- cell_ok (CSeq _ _) => cbn [cell_ok]; dok
  | |- cell_ok (CMap _ _) => cbn [cell_ok]; dok
  | |- slot_ok (Some _) => cbn [slot_ok]; dok
  | |- slot_ok None => exact I
  | |- slot_ok (d_local _) => apply d_ok_local; dok
  | |- slot_ok (d_args _) => apply d_ok_args; dok
  | |- slot_ok (d_static _) => apply d_ok_static; dok
  | |- item_ok (default_of _) => apply default_of_ok
  | |- item_ok (if _ then _ else _) => case_if; dok
  | |- item_ok (IBytes _) => cbn [item_ok]; dok
  | |- item_ok (IInt _) => first [assumption | cbn [item_ok]; first [assumption | vm_compute; reflexivity | idtac]]
  | |- item_ok _ => first [assumption | exact I | idtac]
  | |- Forall item_ok (_ ++ _) => apply Forall_app'; dok
  | |- Forall item_ok (_ :: _) => constructor; dok
  | |- Forall item_ok [] => constructor
  | |- Forall item_ok (firstn _ _) => apply Forall_firstn; dok
  | |- Forall item_ok (skipn _ _) => apply Forall_skipn; dok
  | |- Forall item_ok (rev _) => apply Forall_rev'; dok
  | |- Forall item_ok (remove_nth _ _) => apply Forall_remove_nth; dok
  | |- Forall item_ok (set_nth _ _ _) => apply Forall_set_nth; dok
  | |- Forall item_ok (repeat _ _) => apply Forall_repeat; dok
  | |- Forall item_ok (removelast _) => apply Forall_removelast; dok
  | |- Forall item_ok (insert_at _ _ _) => apply insert_at_ok; dok
  | |- Forall item_ok (flat_entries (map_add _ _ _)) => apply map_add_ok; dok
  | |- Forall item_ok (flat_entries (remove_nth _ _)) => apply entries_remove_ok; dok
  | |- Forall item_ok (flat_entries []) => constructor
  | |- Forall item_ok (map fst _) => apply entries_fst_ok; dok
  | |- Forall item_ok (map snd _) => apply entries_snd_ok; dok
  | |- Forall item_ok (d_es _) => apply d_ok_es; dok
  | |- Forall item_ok _ => try assumption
  | |- zlen (msg_out_of_range _) <= MaxItemSize => apply msg_out_of_range_ok
  | |- zlen (set_nth _ _ _) <= MaxItemSize => rewrite zlen_set_nth; dok
  | |- zlen (rev _) <= MaxItemSize => rewrite zlen_rev; dok
  | |- zlen (firstn _ _) <= MaxItemSize => etransitivity; [apply zlen_firstn|]; dok
  | |- zlen (skipn _ _) <= MaxItemSize => etransitivity; [apply zlen_skipn|]; dok
  | |- zlen (repeat _ _) <= MaxItemSize => rewrite zlen_repeat; try lia
  | |- zlen (_ ++ _) <= MaxItemSize => rewrite zlen_app; try lia
  | |- zlen (slice _ _ _) <= MaxItemSize => unfold slice; dok
  | |- zlen _ <= MaxItemSize => first [assumption | lia | vm_compute; discriminate | idtac]
  | |- _ => idtac
  end.

Ltac notknown P := lazymatch goal with H : P |- _ => fail | _ => idtac end.

(* learn what the monadic primitives give *)
Ltac learn :=
  repeat match goal with
  | E : pop ?d = Some (_, _) |- _ =>
      let K := fresh "K" in assert (K : d_ok d) by dok; destruct (pop_ok _ _ _ K E); clear E; try clear K
  | E : pop_noref ?d = Some (_, _) |- _ =>
      let K := fresh "K" in assert (K : d_ok d) by dok; destruct (pop_noref_ok _ _ _ K E); clear E
  | E : pop_int ?d = Some (_, _) |- _ =>
      let K := fresh "K" in assert (K : d_ok d) by dok; pose proof (pop_int_ok _ _ _ K E); clear E
  | E : pop_i32 ?d = Some (_, _) |- _ =>
      let K := fresh "K" in assert (K : d_ok d) by dok; pose proof (pop_i32_ok _ _ _ K E); clear E
  | E : pop_bool ?d = Some (_, _) |- _ =>
      let K := fresh "K" in assert (K : d_ok d) by dok; pose proof (pop_bool_ok _ _ _ K E); clear E
  | E : pop_bytes ?d = Some (_, _) |- _ =>
      let K := fresh "K" in assert (K : d_ok d) by dok; destruct (pop_bytes_ok _ _ _ K E); clear E
  | E : push_int _ ?d = Some _ |- _ =>
      let K := fresh "K" in assert (K : d_ok d) by dok; pose proof (push_int_ok _ _ _ K E); clear E
  | E : get_seq ?h _ = Some (_, ?its) |- _ =>
      assert (Forall item_ok its) by (eapply get_seq_ok; [|exact E]; dok); clear E
  | E : get_map ?h _ = Some (_, ?es) |- _ =>
      assert (Forall item_ok (flat_entries es)) by (eapply get_map_ok; [|exact E]; dok); clear E
  | E : get_buf ?h _ = Some ?bs |- _ =>
      assert (zlen bs <= MaxItemSize) by (eapply get_buf_ok; [|exact E]; dok); clear E
  | E : try_bytes ?h ?it = Some ?bs |- _ =>
      assert (zlen bs <= MaxItemSize) by (eapply try_bytes_ok; [| |exact E]; dok); clear E
  | F : Forall item_ok (_ :: _) |- _ => inv F
  | H : Forall item_ok ?l, E : nth_error ?l _ = Some ?x |- _ =>
      pose proof (Forall_nth_error _ _ _ _ H E); clear E
  | E : nth_error (d_es ?d) _ = Some ?x |- _ =>
      let K := fresh "K" in assert (K : Forall item_ok (d_es d)) by dok;
      pose proof (Forall_nth_error _ _ _ _ K E); clear E K
  | E : roll _ (d_es ?d) = Some _ |- _ =>
      let K := fresh "K" in assert (K : Forall item_ok (d_es d)) by dok; pose proof (roll_ok _ _ _ K E); clear E K
  | E : reverse_top _ (d_es ?d) = Some _ |- _ =>
      let K := fresh "K" in assert (K : Forall item_ok (d_es d)) by dok; pose proof (reverse_top_ok _ _ _ K E); clear E K
  | H : Forall item_ok (flat_entries ?es), E : nth_error ?es _ = Some (_, _) |- _ =>
      destruct (entries_nth_ok _ _ _ _ H E); clear E
  | E : clone_if_struct ?h ?it = Some (_, _, _) |- _ =>
      let K := fresh "K" in
      assert (K : heap_ok h /\ item_ok it) by (split; dok);
      destruct (clone_if_struct_ok _ _ _ _ _ (proj1 K) (proj2 K) E); clear E K
  | H : Forall item_ok ?es, E : roll _ ?es = Some _ |- _ => pose proof (roll_ok _ _ _ H E); clear E
  | H : Forall item_ok ?es, E : reverse_top _ ?es = Some _ |- _ => pose proof (reverse_top_ok _ _ _ H E); clear E
  | H : d_ok ?d, E : d_es ?d = _ |- _ =>
      let F := fresh "F" in pose proof (d_ok_es _ H) as F; rewrite E in F; clear E;
      repeat match goal with F : Forall item_ok (_ :: _) |- _ => inv F end
  | H : Forall item_ok ?l, E : rev ?l = _ :: _ |- _ =>
      let F := fresh "F" in pose proof (Forall_rev' _ _ H) as F; rewrite E in F; clear E; inv F
  | E : mk_int256 _ = Some _ |- _ => apply mk_int256_ok in E
  end.

(* open the next bind / conditional of the program in the goal *)
Ltac open1 :=
  match goal with
  | |- res_ok (match ?e with Some _ => _ | None => None end) =>
      let E := fresh "E" in destruct e as [?|] eqn:E; [|exact I]
  | |- res_ok (let (_, _) := alloc _ _ in _) => rewrite alloc_eq
  | |- res_ok (let (_, _) := ?p in _) => destruct p
  | |- res_ok (if ?b then _ else _) => let E := fresh "C" in destruct b eqn:E
  | |- res_ok None => exact I
  | |- res_ok (ok _) => unfold ok; cbn [res_ok]
  | |- res_ok (okd ?x) => unfold okd
  | |- res_ok (Some (DOk _)) => cbn [res_ok]
  | |- res_ok (throw_bytes _ _) => unfold throw_bytes; cbn [res_ok]; split
  | |- res_ok (Some (DThrow _ _)) => cbn [res_ok]; split
  | |- res_ok (match ?x with _ => _ end) => is_var x; destruct x
  | |- res_ok (match ?e with _ => _ end) => let E := fresh "E" in destruct e eqn:E
  end.
Ltac opens := repeat (open1; learn).
