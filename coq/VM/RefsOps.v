(* The in-degree invariant through the data instructions, family by family. *)
From NG Require Import VM.Model VM.LimitsData VM.Reach VM.RefsInv VM.RefsMoves VM.RefsData.
Open Scope Z_scope.

(* the postcondition of a data instruction: the invariant holds again with nothing held; a thrown item is well-formed *)
Definition dI0 (E : list item) (d : dstate) : Prop := exists U, dI E [] U d.
Definition res_I (E : list item) (r : option dres) : Prop :=
  match r with
  | Some (DOk d) => dI0 E d
  | Some (DThrow e d) => dI0 E d /\ valid (d_heap d) e
  | _ => True
  end.

Lemma dI0_intro E U d : dI E [] U d -> dI0 E d.
Proof. intros H. exists U. exact H. Qed.

(* ---------- more primitives ---------- *)
Lemma nth_error_In' {A} (l : list A) n x : nth_error l n = Some x -> In x l.
Proof. apply nth_error_In. Qed.

Lemma known_es E U d it : In it (d_es d) -> known E U d it.
Proof. intros H. right. right. unfold droots_l. rewrite !in_app_iff. tauto. Qed.
Lemma known_U E U d it : In it U -> known E U d it.
Proof. intros H. right. left. assumption. Qed.
Lemma known_prim E U d it : item_cloc it = None -> known E U d it.
Proof. intros H. left. assumption. Qed.
Lemma known_slot E U d it : In it (slots_items d) -> known E U d it.
Proof. intros H. right. right. unfold droots_l. rewrite !in_app_iff. tauto. Qed.

(* a new (uncounted) root inserted anywhere in the stack *)
Lemma dI_insert_root E A U d it es' :
  dI E A U d -> known E U d it -> meq (it :: d_es d) es' -> (forall a, In a es' -> In a (it :: d_es d)) ->
  dI E (it :: A) U (set_es d es').
Proof.
  intros H K M S. pose proof (dI_push_noref_new _ _ _ _ _ H K) as P.
  change (set_es d es') with (set_es (push_noref it d) es'). apply dI_set_es; assumption.
Qed.

(* taking entries off the stack and holding them counted *)
Lemma dI_hold E A U d es' held :
  dI E A U d -> meq (d_es d) (es' ++ held) -> (forall a, In a (es' ++ held) -> In a (d_es d)) ->
  dI (held ++ E) A U (set_es d es').
Proof.
  intros H [Mo Ml] S. eapply dI_rearr; try exact H; try reflexivity; try apply meq_refl; try tauto.
  - unfold droots_l, slots_items. dcbn. split.
    + intros l. specialize (Mo l). repeat rewrite ?occ_app in *. lia.
    + repeat rewrite ?zlen_app in *. lia.
  - unfold droots_l, slots_items. dcbn. intros a. repeat rewrite ?in_app_iff.
    intros K. assert (Q : In a (es' ++ held) -> In a (d_es d)) by apply S. rewrite in_app_iff in Q. tauto.
Qed.
(* and the converse: held entries go (back) onto the stack *)
Lemma dI_unhold E A U d es' held :
  dI (held ++ E) A U d -> meq (d_es d ++ held) es' -> (forall a, In a es' -> In a (d_es d ++ held)) ->
  dI E A U (set_es d es').
Proof.
  intros H [Mo Ml] S. eapply dI_rearr; try exact H; try reflexivity; try apply meq_refl; try tauto.
  - unfold droots_l, slots_items. dcbn. split.
    + intros l. specialize (Mo l). repeat rewrite ?occ_app in *. lia.
    + repeat rewrite ?zlen_app in *. lia.
  - unfold droots_l, slots_items. dcbn. intros a. repeat rewrite ?in_app_iff.
    intros K. assert (Q : In a es' -> In a (d_es d ++ held)) by apply S. rewrite in_app_iff in Q. tauto.
Qed.

(* counting primitive roots by hand *)
Lemma GI_tokens h refs A X ps : GI h refs A X -> Forall (fun p => item_cloc p = None) ps -> GI h (refs + zlen ps) A (ps ++ X).
Proof.
  intros H P. induction P as [|p ps Hp _ IH]; [rewrite zlen_nil, Z.add_0_r; exact H|].
  destruct IH as [Hg W Vx Va]. rewrite zlen_cons'. replace (refs + (1 + zlen ps)) with (refs + zlen ps + 1) by lia.
  constructor; try assumption; [apply G_token; assumption|]. constructor; [apply valid_prim; assumption|assumption].
Qed.

Lemma roll_meq n es es' : roll n es = Some es' -> meq es es' /\ (forall a, In a es' -> In a es).
Proof.
  unfold roll. destruct (nth_error es n) as [x|] eqn:E; [|discriminate]. intros Q; inv Q.
  revert n E. induction es as [|y es IH]; intros [|n] E; simpl in *; try discriminate.
  - inv E. split; [apply meq_refl|auto].
  - destruct (IH n E) as [[Mo Ml] S]. split; [split|].
    + intros l. specialize (Mo l). cbn [occ] in *. lia.
    + rewrite !zlen_cons' in *. lia.
    + intros a [->|[->|H]]; [right; apply S; left; reflexivity|left; reflexivity|right; apply S; right; assumption].
Qed.
Lemma reverse_top_meq n es es' : reverse_top n es = Some es' -> meq es es' /\ (forall a, In a es' -> In a es).
Proof.
  unfold reverse_top. case_if; [discriminate|]. intros Q; inv Q. split; [split|].
  - intros l. rewrite <- (firstn_skipn n es) at 1. rewrite !occ_app, occ_rev. reflexivity.
  - rewrite <- (firstn_skipn n es) at 1. rewrite !zlen_app, zlen_rev. reflexivity.
  - intros a Ha. rewrite <- (firstn_skipn n es). rewrite in_app_iff in *. rewrite <- in_rev in Ha. exact Ha.
Qed.
Lemma occ_remove_nth l n es x : nth_error es n = Some x -> occ l es = hit l x + occ l (remove_nth n es).
Proof.
  revert n; induction es as [|y es IH]; intros [|n] E; simpl in *; try discriminate.
  - inv E. reflexivity.
  - rewrite (IH n E). lia.
Qed.
Lemma zlen_remove_nth' {A} n (es : list A) x : nth_error es n = Some x -> zlen es = 1 + zlen (remove_nth n es).
Proof.
  revert n; induction es as [|y es IH]; intros [|n] E; cbn [nth_error remove_nth] in *; try discriminate.
  - rewrite zlen_cons'. reflexivity.
  - rewrite !zlen_cons'. rewrite (IH n E). reflexivity.
Qed.
Lemma In_remove_nth {A} n (es : list A) a : In a (remove_nth n es) -> In a es.
Proof. revert n; induction es as [|y es IH]; intros [|n]; simpl; auto. intros [->|H]; eauto. Qed.
Lemma remove_nth_meq n es x : nth_error es n = Some x -> meq es (remove_nth n es ++ [x]) /\ (forall a, In a (remove_nth n es ++ [x]) -> In a es).
Proof.
  intros E. split; [split|].
  - intros l. rewrite occ_app, (occ_remove_nth l n es x E). cbn [occ]. lia.
  - rewrite zlen_app, (zlen_remove_nth' n es x E), zlen_cons', zlen_nil. lia.
  - intros a. rewrite in_app_iff. simpl. intros [H|[->|[]]]; [eapply In_remove_nth; eauto|eapply nth_error_In; eauto].
Qed.

(* ---------- tactics ---------- *)
Ltac learnI :=
  repeat match goal with
  | H : dI ?E [] ?U ?d, X : pop ?d = Some (_, _) |- _ => pose proof (dI_pop _ _ _ _ _ H X); clear H X
  | H : dI ?E ?A ?U ?d, X : pop_noref ?d = Some (_, _) |- _ => pose proof (dI_pop_noref _ _ _ _ _ _ H X); clear H X
  | H : dI ?E [] ?U ?d, X : pop_int ?d = Some (_, _) |- _ => pose proof (dI_pop_int _ _ _ _ _ H X); clear H X
  | H : dI ?E [] ?U ?d, X : pop_i32 ?d = Some (_, _) |- _ => pose proof (dI_pop_i32 _ _ _ _ _ H X); clear H X
  | H : dI ?E [] ?U ?d, X : pop_bool ?d = Some (_, _) |- _ => pose proof (dI_pop_bool _ _ _ _ _ H X); clear H X
  | H : dI ?E [] ?U ?d, X : pop_bytes ?d = Some (_, _) |- _ => pose proof (dI_pop_bytes _ _ _ _ _ H X); clear H X
  | H : dI ?E ?A ?U ?d, X : push_int _ ?d = Some _ |- _ => pose proof (dI_push_int _ _ _ _ _ _ H X); clear H X
  end.

Ltac openI :=
  match goal with
  | |- res_I _ (match ?e with Some _ => _ | None => None end) =>
      let E := fresh "E" in destruct e as [?|] eqn:E; [|exact I]
  | |- res_I _ (let (_, _) := ?p in _) => destruct p
  | |- res_I _ (if ?b then _ else _) => let E := fresh "C" in destruct b eqn:E
  | |- res_I _ None => exact I
  | |- res_I _ (ok _) => unfold ok; cbn [res_I]
  | |- res_I _ (okd ?x) => unfold okd
  | |- res_I _ (Some (DOk _)) => cbn [res_I]
  | |- res_I _ (match ?x with _ => _ end) => is_var x; destruct x
  | |- res_I _ (match ?e with _ => _ end) => let E := fresh "E" in destruct e eqn:E
  end.
Ltac opensI := repeat (openI; learnI).

(* membership in explicit lists *)
Ltac kn :=
  lazymatch goal with
  | |- known _ _ _ (IBool _) => apply known_prim; reflexivity
  | |- known _ _ _ (IInt _) => apply known_prim; reflexivity
  | |- known _ _ _ (IBytes _) => apply known_prim; reflexivity
  | |- known _ _ _ (IBuf _) => apply known_prim; reflexivity
  | |- known _ _ _ INull => apply known_prim; reflexivity
  | |- known _ _ _ (IPtr _ _) => apply known_prim; reflexivity
  | |- known _ _ _ _ => first [ apply known_U; simpl; tauto | idtac ]
  end.

Ltac fI :=
  lazymatch goal with
  | |- dI0 _ _ => eapply dI0_intro; fI
  | |- dI _ _ _ (push _ _) => apply dI_push; [fI | kn]
  | |- dI _ _ _ (push_new_buffer _ _) => apply dI_push_new_buffer; fI
  | |- dI _ _ _ _ => first [eassumption | idtac]
  | |- _ => idtac
  end.

Ltac tI := intros; opensI; fI.

(* ---------- arithmetic, comparison, constants: pops of operands, one push ---------- *)
Section Simple.
Variable E : list item.

Lemma un_int_I f d : dI0 E d -> res_I E (un_int f d).
Proof. intros [U H]. unfold un_int. tI. Qed.
Lemma bin_int_I f d : dI0 E d -> res_I E (bin_int f d).
Proof. intros [U H]. unfold bin_int. tI. Qed.
Lemma bin_cmp_I f d : dI0 E d -> res_I E (bin_cmp f d).
Proof. intros [U H]. unfold bin_cmp. tI. Qed.
Lemma cmp_null_I f d : dI0 E d -> res_I E (cmp_null f d).
Proof. intros [U H]. unfold cmp_null. tI. Qed.
End Simple.

(* ---------- stack shuffles ---------- *)
Section Stack.
Variable E : list item.

Lemma throw_I d : dI0 E d -> res_I E (do (it, d0) <- pop d; Some (DThrow it d0)).
Proof.
  intros [U H]. opensI. cbn [res_I]. split; [eexists; eassumption|].
  destruct H0 as [_ Hu _]. inv Hu. assumption.
Qed.

Lemma nip_I d : dI0 E d ->
  res_I E match d_es d with a :: b :: es => ok (d_remove b (set_es d (a :: es))) | _ => None end.
Proof.
  intros [U H]. destruct (d_es d) as [|a [|b es]] eqn:Es; try exact I. unfold ok. cbn [res_I].
  eapply dI0_intro. apply dI_remove. change (b :: E) with ([b] ++ E). apply dI_hold; [eassumption| |]; rewrite Es.
  - meq_solve.
  - in_solve.
Qed.

Lemma xdrop_I d : dI0 E d ->
  res_I E (do (n, d0) <- pop_i32 d; if n <? 0 then None else
           do it <- nth_error (d_es d0) (sidx n (d_es d0)); ok (d_remove it (set_es d0 (remove_nth (sidx n (d_es d0)) (d_es d0))))).
Proof.
  intros [U H]. opensI. eapply dI0_intro. apply dI_remove. change (i :: E) with ([i] ++ E).
  match goal with X : nth_error _ _ = Some _ |- _ => destruct (remove_nth_meq _ _ _ X) as [M S] end. apply dI_hold; eassumption.
Qed.

Lemma clear_I d : dI0 E d -> res_I E (ok (d_remove_list (rev (d_es d)) (set_es d []))).
Proof.
  intros [U H]. unfold ok. cbn [res_I]. eapply dI0_intro. apply dI_remove_list. apply dI_hold; [eassumption| |].
  - split; [intros l; cbn [app]; rewrite occ_rev; reflexivity|cbn [app]; rewrite zlen_rev; reflexivity].
  - intros a. cbn [app]. rewrite <- in_rev. tauto.
Qed.

Lemma pick_I n d : dI0 E d -> res_I E (do it <- nth_error (d_es d) n; ok (push it d)).
Proof.
  intros [U H]. opensI. eapply dI0_intro. apply dI_push; [eassumption|]. apply known_es. eapply nth_error_In; eauto.
Qed.
Lemma pickn_I d : dI0 E d ->
  res_I E (do (n, d0) <- pop_i32 d; if n <? 0 then None else do it <- nth_error (d_es d0) (sidx n (d_es d0)); ok (push it d0)).
Proof.
  intros [U H]. opensI. eapply dI0_intro. apply dI_push; [eassumption|]. apply known_es. eapply nth_error_In; eauto.
Qed.

Lemma tuck_I d : dI0 E d ->
  res_I E match d_es d with a :: _ :: _ => ok (d_add a (set_es d (insert_at 2 a (d_es d)))) | _ => None end.
Proof.
  intros [U H]. destruct (d_es d) as [|a [|b es]] eqn:Es; try exact I. unfold ok. cbn [res_I].
  eapply dI0_intro. apply dI_add. apply dI_insert_root; [eassumption| | |].
  - apply known_es. rewrite Es. left. reflexivity.
  - rewrite Es. unfold insert_at. cbn [firstn skipn app]. meq_solve.
  - rewrite Es. unfold insert_at. cbn [firstn skipn app]. intros x. simpl. tauto.
Qed.

Lemma swap_I d : dI0 E d -> res_I E match d_es d with a :: b :: es => ok (set_es d (b :: a :: es)) | _ => None end.
Proof.
  intros [U H]. destruct (d_es d) as [|a [|b es]] eqn:Es; try exact I. unfold ok. cbn [res_I].
  eapply dI0_intro. apply dI_set_es; [eassumption| |]; rewrite Es; [meq_solve|intros x; simpl; tauto].
Qed.

Lemma roll_I n d : dI0 E d -> res_I E (do es <- roll n (d_es d); ok (set_es d es)).
Proof.
  intros [U H]. opensI. match goal with X : roll _ _ = Some _ |- _ => destruct (roll_meq _ _ _ X) as [M S] end. eapply dI0_intro. apply dI_set_es; eassumption.
Qed.
Lemma rolln_I d : dI0 E d ->
  res_I E (do (n, d0) <- pop_i32 d; if n <? 0 then None else do es <- roll (sidx n (d_es d0)) (d_es d0); ok (set_es d0 es)).
Proof.
  intros [U H]. opensI. match goal with X : roll _ _ = Some _ |- _ => destruct (roll_meq _ _ _ X) as [M S] end. eapply dI0_intro. apply dI_set_es; eassumption.
Qed.
Lemma rev_I n d : dI0 E d -> res_I E (do es <- reverse_top n (d_es d); ok (set_es d es)).
Proof.
  intros [U H]. opensI. match goal with X : reverse_top _ _ = Some _ |- _ => destruct (reverse_top_meq _ _ _ X) as [M S] end. eapply dI0_intro. apply dI_set_es; eassumption.
Qed.
Lemma revn_I d : dI0 E d ->
  res_I E (do (n, d0) <- pop_i32 d; if n <? 0 then None else do es <- reverse_top (sidx n (d_es d0)) (d_es d0); ok (set_es d0 es)).
Proof.
  intros [U H]. opensI. match goal with X : reverse_top _ _ = Some _ |- _ => destruct (reverse_top_meq _ _ _ X) as [M S] end. eapply dI0_intro. apply dI_set_es; eassumption.
Qed.

Lemma memcpy_I d : dI0 E d -> res_I E (op_memcpy d).
Proof.
  intros [U H]. unfold op_memcpy. opensI. eapply dI0_intro. eapply dI_set_buf; eassumption.
Qed.
End Stack.

(* ---------- slots ---------- *)
Lemma occ_set_nth l i s old it : nth_error s i = Some old -> occ l (set_nth i s it) + hit l old = occ l s + hit l it.
Proof.
  revert i; induction s as [|y s IH]; intros [|i] E; simpl in *; try discriminate.
  - inv E. lia.
  - specialize (IH i E). lia.
Qed.
Lemma In_set_nth {A} i (s : list A) it a : In a (set_nth i s it) -> a = it \/ In a s.
Proof.
  revert i; induction s as [|y s IH]; intros [|i]; simpl; auto.
  - intros [->|H]; auto.
  - intros [->|H]; auto. destruct (IH i H); auto.
Qed.
Lemma zlen_set_nth' {A} n (l : list A) v : zlen (set_nth n l v) = zlen l.
Proof. unfold zlen. rewrite set_nth_length. reflexivity. Qed.
Lemma put_slot_remove k d it s : put_slot k (d_remove it d) s = d_remove it (put_slot k d s).
Proof. unfold d_remove. destruct k; cbn; destruct (ref_remove (d_heap d) (d_refs d) it); reflexivity. Qed.
Lemma In_get_slot k d s it : get_slot k d = Some s -> In it s -> In it (slots_items d).
Proof.
  unfold slots_items. destruct k; simpl; intros ->; simpl; rewrite !in_app_iff; tauto.
Qed.

Definition nonneg_bytes (p : list Z) : Prop := Forall (fun b => 0 <= b) p.

Section Slots.
Variable Ex : list item.

Lemma ld_I k i d : dI0 Ex d -> res_I Ex (ld k i d).
Proof.
  intros [U H]. unfold ld, slot_load. destruct (get_slot k d) as [s|] eqn:G; [|exact I].
  destruct (nth_error s (Z.to_nat i)) as [it|] eqn:N; [|exact I]. unfold ok. cbn [res_I].
  eapply dI0_intro. apply dI_push; [eassumption|]. apply known_slot. eapply In_get_slot; eauto. eapply nth_error_In; eauto.
Qed.

Lemma slots_put k d s s' :
  get_slot k d = Some s ->
  (forall l, occ l (slots_items (put_slot k d s')) + occ l s = occ l (slots_items d) + occ l s') /\
  zlen (slots_items (put_slot k d s')) + zlen s = zlen (slots_items d) + zlen s' /\
  (forall a, In a (slots_items (put_slot k d s')) -> In a s' \/ In a (slots_items d)) /\
  d_es (put_slot k d s') = d_es d /\ d_heap (put_slot k d s') = d_heap d /\ d_refs (put_slot k d s') = d_refs d.
Proof.
  unfold slots_items. destruct k; simpl; intros ->; simpl;
    (split; [intros l; repeat rewrite ?occ_app; lia|]); (split; [repeat rewrite ?zlen_app; lia|]);
    (split; [intros a; repeat rewrite ?in_app_iff; tauto|auto]).
Qed.

Lemma st_I k i d : dI0 Ex d -> res_I Ex (st k i d).
Proof.
  intros [U H]. unfold st, slot_store. destruct (get_slot k d) as [s|] eqn:G; [|exact I].
  destruct (nth_error s (Z.to_nat i)) as [old|] eqn:N; [|exact I].
  destruct (pop_noref d) as [[it d1]|] eqn:P; [|exact I]. unfold ok. cbn [res_I].
  pose proof (dI_pop_noref _ _ _ _ _ _ H P) as H1.
  assert (G1 : get_slot k d1 = Some s).
  { unfold pop_noref in P. destruct (d_es d); [discriminate|]. inv P. destruct k; exact G. }
  rewrite put_slot_remove. eapply dI0_intro. apply dI_remove.
  destruct (slots_put k d1 s (set_nth (Z.to_nat i) s it) G1) as (So & Sl & Si & Ees & Eh & Er).
  eapply dI_rearr; try exact H1; try assumption; try apply meq_refl; try tauto.
  - unfold droots_l. rewrite Ees. split.
    + intros l. specialize (So l). pose proof (occ_set_nth l _ _ _ it N). repeat rewrite ?occ_app, ?occ_cons. lia.
    + pose proof (zlen_set_nth' (Z.to_nat i) s it). repeat rewrite ?zlen_app, ?zlen_cons'. lia.
  - unfold droots_l. rewrite Ees. intros a. repeat rewrite ?in_app_iff. simpl. intros [[K|K]|[K|K]]; try tauto.
    + destruct (Si a K) as [Q|Q]; [|tauto]. destruct (In_set_nth _ _ _ _ Q) as [->|Q']; [tauto|].
      left. right. eapply In_get_slot; eauto.
    + subst a. left. right. eapply In_get_slot; eauto. eapply nth_error_In; eauto.
  - intros a Ha. left. exact Ha.
Qed.

Lemma tokens_meq n : Forall (fun p => item_cloc p = None) (repeat INull n).
Proof. apply Forall_repeat. reflexivity. Qed.

(* a fresh slot of Nulls, counted by hand *)
Lemma new_slot_I k d n U :
  dI Ex [] U d -> get_slot k d = None -> 0 <= n ->
  dI Ex [] U (set_refs (put_slot k d (repeat INull (Z.to_nat n))) (d_refs d + n)).
Proof.
  intros [Hgi Hu Hk] G N. constructor.
  - pose proof (GI_tokens _ _ _ _ (repeat INull (Z.to_nat n)) Hgi (tokens_meq _)) as T.
    rewrite zlen_repeat, Z2Nat.id in T by assumption.
    assert (Eh : d_heap (set_refs (put_slot k d (repeat INull (Z.to_nat n))) (d_refs d + n)) = d_heap d) by (destruct k; reflexivity).
    assert (Er : d_refs (set_refs (put_slot k d (repeat INull (Z.to_nat n))) (d_refs d + n)) = d_refs d + n) by (destruct k; reflexivity).
    rewrite Eh, Er. eapply GI_meq; try exact T; try apply meq_refl; [| |constructor].
    + unfold droots_l, slots_items. destruct k; simpl in G; rewrite G; dcbn; cbn [put_slot]; dcbn; meq_solve.
    + destruct T as [_ _ Vx _]. eapply Forall_valid_perm; [|exact Vx].
      unfold droots_l, slots_items. destruct k; simpl in G; rewrite G; cbn [put_slot]; in_solve.
  - destruct k; exact Hu.
  - destruct k; exact Hk.
Qed.

Lemma initsslot_I p d : nonneg_bytes p -> dI0 Ex d ->
  res_I Ex (do n <- param0 p; if n =? 0 then None else
            match d_static d with Some _ => None
            | None => ok (set_refs (set_static d (Some (repeat INull (Z.to_nat n)))) (d_refs d + n)) end).
Proof.
  intros NN [U H]. destruct p as [|n p']; [exact I|]. inv NN. cbn [param0]. case_if; [exact I|].
  destruct (d_static d) eqn:S; [exact I|]. unfold ok. cbn [res_I]. eapply dI0_intro.
  exact (new_slot_I KStatic d n U H S H2).
Qed.

Lemma initslot_I p d : nonneg_bytes p -> dI0 Ex d ->
  res_I Ex (match p, d_local d, d_args d with
            | [nl; na], None, None =>
                if (nl =? 0) && (na =? 0) then None else
                let d := if 0 <? nl then set_refs (set_local d (Some (repeat INull (Z.to_nat nl)))) (d_refs d + nl) else d in
                if 0 <? na then
                  if zlen (d_es d) <? na then None
                  else ok (set_es (set_args d (Some (firstn (Z.to_nat na) (d_es d)))) (skipn (Z.to_nat na) (d_es d)))
                else ok d
            | _, _, _ => None end).
Proof.
  intros NN [U H]. destruct p as [|nl [|na [|? ?]]]; try exact I. inv NN. inv H3.
  destruct (d_local d) eqn:L; [exact I|]. destruct (d_args d) eqn:A; [exact I|]. case_if; [exact I|].
  set (d1 := if 0 <? nl then set_refs (set_local d (Some (repeat INull (Z.to_nat nl)))) (d_refs d + nl) else d).
  assert (H1 : dI Ex [] U d1 /\ d_args d1 = None).
  { unfold d1. case_if; [|auto]. split; [exact (new_slot_I KLocal d nl U H L H2)|exact A]. }
  destruct H1 as [H1 A1]. cbv zeta. fold d1. case_if; [|unfold ok; cbn [res_I]; eexists; exact H1].
  case_if; [exact I|]. unfold ok. cbn [res_I]. eapply dI0_intro.
  eapply dI_rearr; try exact H1; try reflexivity; try apply meq_refl; try tauto.
  - unfold droots_l, slots_items. dcbn. rewrite A1. cbn [slot_items].
    rewrite <- (firstn_skipn (Z.to_nat na) (d_es d1)) at 1. meq_solve.
  - unfold droots_l, slots_items. dcbn. rewrite A1. cbn [slot_items]. intros a.
    rewrite <- (firstn_skipn (Z.to_nat na) (d_es d1)) at 3. repeat rewrite ?in_app_iff. simpl. tauto.
  - intros a Ha. left. exact Ha.
Qed.
End Slots.

Definition dres_I (E : list item) (r : dres) : Prop :=
  match r with DOk d => dI0 E d | DThrow e d => dI0 E d /\ valid (d_heap d) e | DFault => True end.

Definition is_compound_op (op : opcode) : bool :=
  match op with
  | PACKMAP | PACKSTRUCT | PACK | UNPACK | NEWARRAY0 | NEWARRAY | NEWARRAYT | NEWSTRUCT0 | NEWSTRUCT | NEWMAP
  | SIZE | HASKEY | KEYS | VALUES | PICKITEM | APPEND | SETITEM | REVERSEITEMS | REMOVE | CLEARITEMS | POPITEM
  | CONVERT => true
  | _ => false
  end.

Lemma res_dres E e op p d : res_I E (exec_data_opt e op p d) -> dres_I E (exec_data e op p d).
Proof. unfold exec_data. destruct (exec_data_opt e op p d) as [[]|]; simpl; auto. Qed.

(* FAMILY 1: every data instruction that does not work on a compound item (constants, arithmetic, bitwise,
   comparison, splice, types, asserts, THROW, stack manipulation, slots) *)
Theorem exec_data_I_basic e op p d E :
  is_compound_op op = false -> nonneg_bytes p -> dI0 E d -> dres_I E (exec_data e op p d).
Proof.
  intros C NN HI. apply res_dres. pose proof HI as [U H].
  destruct op; try discriminate C; cbn [exec_data_opt]; try exact I;
  first
    [ solve [apply un_int_I; exact HI]
    | solve [apply bin_int_I; exact HI]
    | solve [apply bin_cmp_I; exact HI]
    | solve [apply cmp_null_I; exact HI]
    | solve [apply ld_I; exact HI]
    | solve [apply st_I; exact HI]
    | solve [apply throw_I; exact HI]
    | solve [apply nip_I; exact HI]
    | solve [apply xdrop_I; exact HI]
    | solve [apply clear_I; exact HI]
    | solve [apply pick_I; exact HI]
    | solve [apply pickn_I; exact HI]
    | solve [apply tuck_I; exact HI]
    | solve [apply swap_I; exact HI]
    | solve [apply roll_I; exact HI]
    | solve [apply rolln_I; exact HI]
    | solve [apply rev_I; exact HI]
    | solve [apply revn_I; exact HI]
    | solve [apply memcpy_I; exact HI]
    | solve [apply initsslot_I; assumption]
    | solve [apply initslot_I; assumption]
    | solve [opensI; first [apply ld_I | apply st_I]; exact HI]
    | solve [tI]
    | idtac ].
Qed.
