(* Size limits as an invariant of the data instructions: every integer anywhere in the data state is within
   256 bits, every byte string and buffer within MaxItemSize.  (exec_data preserves [d_ok].) *)
From NG Require Import VM.Model Codec.BigintProofs.
Open Scope Z_scope.
#[global] Opaque clone_fuel struct_fuel egcd_fuel.

(* what a Pointer item has to satisfy is left open (a class parameter): trivial for the size limits (Limits.v), "points
   at an instruction boundary" for the soundness of the static script check (StaticProofs.v) *)
Class PtrSpec := ptr_ok : Z -> N -> Prop.

Section WithPtr.
Context {PS : PtrSpec}.

Definition item_ok (it : item) : Prop :=
  match it with
  | IInt z => in_int256 z = true
  | IBytes bs => zlen bs <= MaxItemSize
  | IPtr pos sid => ptr_ok pos sid
  | _ => True
  end.
Definition cell_ok (c : cell) : Prop :=
  match c with
  | CBuf bs => zlen bs <= MaxItemSize
  | CSeq _ its => Forall item_ok its
  | CMap _ es => Forall item_ok (flat_entries es)
  end.
Definition heap_ok (h : heap) : Prop := Forall cell_ok h.
Definition slot_ok (sl : option (list item)) : Prop := match sl with Some l => Forall item_ok l | None => True end.
Definition d_ok (d : dstate) : Prop :=
  Forall item_ok (d_es d) /\ slot_ok (d_local d) /\ slot_ok (d_args d) /\ slot_ok (d_static d) /\ heap_ok (d_heap d).

(* ---------- lists ---------- *)
Lemma zlen_app {A} (a b : list A) : zlen (a ++ b) = zlen a + zlen b.
Proof. unfold zlen. rewrite app_length. lia. Qed.
Lemma zlen_nil {A} : zlen (@nil A) = 0. Proof. reflexivity. Qed.
Lemma zlen_cons' {A} (x : A) l : zlen (x :: l) = 1 + zlen l.
Proof. unfold zlen; simpl length; lia. Qed.
Lemma zlen_ge0 {A} (l : list A) : 0 <= zlen l. Proof. unfold zlen; lia. Qed.
Lemma zlen_firstn {A} n (l : list A) : zlen (firstn n l) <= zlen l.
Proof. unfold zlen. rewrite firstn_length. lia. Qed.
Lemma zlen_skipn {A} n (l : list A) : zlen (skipn n l) <= zlen l.
Proof. unfold zlen. rewrite skipn_length. lia. Qed.
Lemma zlen_rev {A} (l : list A) : zlen (rev l) = zlen l.
Proof. unfold zlen. rewrite rev_length. reflexivity. Qed.
Lemma zlen_repeat {A} (x : A) n : zlen (repeat x n) = Z.of_nat n.
Proof. unfold zlen. rewrite repeat_length. reflexivity. Qed.
Lemma set_nth_length {A} n (l : list A) v : length (set_nth n l v) = length l.
Proof. revert n; induction l; destruct n; simpl; auto. Qed.

Lemma Forall_firstn {A} (P : A -> Prop) n l : Forall P l -> Forall P (firstn n l).
Proof. revert n; induction l; destruct n; simpl; intros H; auto. inv H. constructor; auto. Qed.
Lemma Forall_skipn {A} (P : A -> Prop) n l : Forall P l -> Forall P (skipn n l).
Proof. revert n; induction l; destruct n; simpl; intros H; auto. inv H. auto. Qed.
Lemma Forall_remove_nth {A} (P : A -> Prop) n l : Forall P l -> Forall P (remove_nth n l).
Proof. revert n; induction l; destruct n; simpl; intros H; auto; inv H; auto. Qed.
Lemma Forall_set_nth {A} (P : A -> Prop) n l v : Forall P l -> P v -> Forall P (set_nth n l v).
Proof. revert n; induction l; destruct n; simpl; intros H Hv; auto; inv H; auto. Qed.
Lemma Forall_nth_error {A} (P : A -> Prop) n l x : Forall P l -> nth_error l n = Some x -> P x.
Proof. intros H E. apply nth_error_In in E. rewrite Forall_forall in H. auto. Qed.
Lemma Forall_repeat {A} (P : A -> Prop) x n : P x -> Forall P (repeat x n).
Proof. intros; induction n; simpl; auto. Qed.
Lemma Forall_removelast {A} (P : A -> Prop) l : Forall P l -> Forall P (removelast l).
Proof. induction l as [|a [|b l] IH]; simpl; intros H; auto. inv H. constructor; auto. Qed.
Lemma Forall_rev' {A} (P : A -> Prop) l : Forall P l -> Forall P (rev l).
Proof. intros. apply Forall_rev. assumption. Qed.
Lemma Forall_app' {A} (P : A -> Prop) a b : Forall P a -> Forall P b -> Forall P (a ++ b).
Proof. intros. apply Forall_app. auto. Qed.

(* ---------- heap ---------- *)
Lemma hget_ok h l c : heap_ok h -> hget h l = Some c -> cell_ok c.
Proof. intros H E. eapply Forall_nth_error; eauto. Qed.
Lemma hset_ok h l c : heap_ok h -> cell_ok c -> heap_ok (hset h l c).
Proof.
  unfold heap_ok. revert l; induction h as [|x h IH]; intros l H C; simpl; [constructor|].
  inv H. destruct l; constructor; auto.
Qed.
Lemma halloc_ok h c : heap_ok h -> cell_ok c -> heap_ok (fst (halloc h c)).
Proof. intros. simpl. apply Forall_app; auto. Qed.
Lemma set_rc_ok c rc : cell_ok c -> cell_ok (cell_set_rc c rc).
Proof. destruct c; simpl; auto. Qed.
Lemma children_ok c : cell_ok c -> Forall item_ok (cell_children c).
Proof. destruct c; simpl; auto. Qed.

Lemma get_seq_ok h l rc its : heap_ok h -> get_seq h l = Some (rc, its) -> Forall item_ok its.
Proof.
  unfold get_seq. intros H E. destruct (hget h l) as [[]|] eqn:G; try discriminate. inv E.
  apply (hget_ok _ _ _ H G).
Qed.
Lemma get_map_ok h l rc es : heap_ok h -> get_map h l = Some (rc, es) -> Forall item_ok (flat_entries es).
Proof.
  unfold get_map. intros H E. destruct (hget h l) as [[]|] eqn:G; try discriminate. inv E.
  apply (hget_ok _ _ _ H G).
Qed.
Lemma get_buf_ok h l bs : heap_ok h -> get_buf h l = Some bs -> zlen bs <= MaxItemSize.
Proof.
  unfold get_buf. intros H E. destruct (hget h l) as [[]|] eqn:G; try discriminate. inv E.
  apply (hget_ok _ _ _ H G).
Qed.

Lemma ref_add_wl_ok fuel : forall h r w, heap_ok h -> heap_ok (fst (ref_add_wl fuel h r w)).
Proof.
  induction fuel as [|f IH]; intros h r w H; simpl; [exact H|].
  destruct w as [|it w]; [exact H|].
  destruct (item_cloc it) as [l|]; [|apply IH; exact H].
  destruct (hget h l) as [c|] eqn:G; [|apply IH; exact H].
  assert (heap_ok (hset h l (cell_set_rc c (cell_rc c + 1)))).
  { apply hset_ok; [exact H|]. apply set_rc_ok. eapply hget_ok; eauto. }
  case_if; apply IH; assumption.
Qed.
Lemma ref_remove_wl_ok fuel : forall h r w, heap_ok h -> heap_ok (fst (ref_remove_wl fuel h r w)).
Proof.
  induction fuel as [|f IH]; intros h r w H; simpl; [exact H|].
  destruct w as [|it w]; [exact H|].
  destruct (item_cloc it) as [l|]; [|apply IH; exact H].
  destruct (hget h l) as [c|] eqn:G; [|apply IH; exact H].
  case_if; [apply IH; exact H|].
  assert (heap_ok (hset h l (cell_set_rc c (cell_rc c - 1)))).
  { apply hset_ok; [exact H|]. apply set_rc_ok. eapply hget_ok; eauto. }
  case_if; apply IH; assumption.
Qed.
Lemma ref_add_ok h r it : heap_ok h -> heap_ok (fst (ref_add h r it)).
Proof. unfold ref_add. intros. destruct (item_cloc it); [apply ref_add_wl_ok|]; assumption. Qed.
Lemma ref_remove_ok h r it : heap_ok h -> heap_ok (fst (ref_remove h r it)).
Proof. unfold ref_remove. intros. destruct (item_cloc it); [apply ref_remove_wl_ok|]; assumption. Qed.

(* ---------- Struct.Clone ---------- *)
Lemma clone_struct_ok fuel : forall h l lim h' l' lim',
  heap_ok h -> clone_struct fuel h l lim = Some (h', l', lim') -> heap_ok h'.
Proof.
  induction fuel as [|f IH]; intros h l lim h' l' lim' H; simpl; [discriminate|].
  destruct (get_seq h l) as [[rc xs]|] eqn:G; [|discriminate].
  pose proof (get_seq_ok _ _ _ _ H G) as Hxs.
  match goal with |- match ?go xs h lim [] with _ => _ end = _ -> _ => set (GO := go) end.
  assert (K : forall xs h lim acc h1 ys lim1, heap_ok h -> Forall item_ok xs -> Forall item_ok acc ->
            GO xs h lim acc = Some (h1, ys, lim1) -> heap_ok h1 /\ Forall item_ok ys).
  { clear - IH. induction xs as [|x xs IHxs]; intros h lim acc h1 ys lim1 Hh Hx Ha; simpl.
    - intros E; inv E. split; [exact Hh|apply Forall_rev; exact Ha].
    - inv Hx. case_if; [discriminate|].
      destruct x; try (apply IHxs; auto; fail).
      destruct (clone_struct f h l (lim - 1)) as [[[h2 l2] lim2]|] eqn:C; [|discriminate].
      apply IHxs; [eapply IH; eauto|assumption|constructor; [exact I|assumption]]. }
  destruct (GO xs h lim []) as [[[h1 ys] lim1]|] eqn:E; [|discriminate].
  apply K in E; auto. destruct E as [H1 Hy]. intros X; inv X.
  apply Forall_app; split; [exact H1|]. constructor; [exact Hy|constructor].
Qed.

Lemma clone_if_struct_ok h it h' it' b :
  heap_ok h -> item_ok it -> clone_if_struct h it = Some (h', it', b) -> heap_ok h' /\ item_ok it'.
Proof.
  intros H Hi. destruct it; simpl; try (intros E; inv E; auto; fail).
  destruct (clone_struct _ h l _) as [[[h1 l1] lim1]|] eqn:C; [|discriminate].
  intros E; inv E. split; [eapply clone_struct_ok; eauto|exact I].
Qed.

(* ---------- byte results ---------- *)
Lemma to_bytes_len_ok z : in_int256 z = true -> zlen (to_bytes z) <= MaxItemSize.
Proof.
  intros H. apply fits256_iff_len in H. unfold zlen, MaxItemSize. lia.
Qed.
Lemma try_bytes_ok h it bs : heap_ok h -> item_ok it -> try_bytes h it = Some bs -> zlen bs <= MaxItemSize.
Proof.
  intros H Hi. destruct it; simpl; try discriminate; intros E; try (inv E).
  - destruct b; vm_compute; discriminate.
  - apply to_bytes_len_ok. exact Hi.
  - exact Hi.
  - eapply get_buf_ok; eauto.
Qed.
Lemma mk_int256_ok z z' : mk_int256 z = Some z' -> in_int256 z' = true.
Proof. unfold mk_int256. case_if; [|discriminate]. intros E; inv E. assumption. Qed.

Lemma dec_digits_len fuel : forall n acc, (length (dec_digits fuel n acc) <= fuel + length acc)%nat.
Proof.
  induction fuel as [|f IH]; intros n acc; simpl; [lia|].
  case_if; simpl; [lia|]. specialize (IH (n / 10) ((48 + n mod 10) :: acc)). simpl in IH. lia.
Qed.
Lemma dec_bytes_len i : (length (dec_bytes i) <= 81)%nat.
Proof.
  unfold dec_bytes. case_if; cbn [length].
  - pose proof (dec_digits_len 80 (- i) []) as L. cbn [length] in L. lia.
  - pose proof (dec_digits_len 80 i []) as L. cbn [length] in L. lia.
Qed.
Lemma msg_out_of_range_ok i : zlen (msg_out_of_range i) <= MaxItemSize.
Proof.
  unfold msg_out_of_range, zlen. rewrite !app_length. pose proof (dec_bytes_len i).
  cbn [length]. unfold MaxItemSize. lia.
Qed.

End WithPtr.
