(* The in-degree invariant at the level of the machine state: every instruction of [step] (data instructions through
   [exec_data_IL], jumps, CALL/CALLA, RET and unloading, TRY/ENDTRY/ENDFINALLY, THROW and unwinding) preserves

     sI s :  GI (s_heap s) (s_refs s) [] (stack ++ slots of all contexts ++ Lk)      for some list Lk of leaked counts

   and [sI] gives reach_count s <= s_refs s ([G_sound]).  The bare VM runs one script context (s_outer = []). *)
From NG Require Import VM.Model VM.LimitsData VM.Reach VM.Total VM.RefsFlatStep VM.RefsInv VM.RefsMoves VM.RefsData VM.RefsOps
  VM.RefsStale VM.RefsComp VM.RefsShape.
Open Scope Z_scope.

Definition fr_roots (fs : list frame) : list item := flat_map frame_roots fs.

Record sI (s : state) : Prop := mksI {
  si_outer : s_outer s = [];
  si_prog : nonneg_bytes (sc_prog (s_sc s));
  si_exc : match s_exc s with Some e => valid (s_heap s) e | None => True end;
  si_d : exists Lk, dI0 (fr_roots (s_frames s) ++ Lk) (view s)
}.

Ltac meq_app := split; [intros ?l; repeat rewrite ?occ_app, ?occ_cons, ?occ_nil; lia
                       |repeat rewrite ?zlen_app, ?zlen_cons', ?zlen_nil; lia].
Ltac in_app := let a := fresh "a" in intros a; repeat (rewrite ?in_app_iff; simpl); tauto.

(* ---------- what the invariant is for ---------- *)
Theorem sI_sound s : sI s -> reach_count s <= s_refs s.
Proof.
  intros [O _ _ (Lk & U & [Hgi _ _])]. destruct Hgi as [Hg _ _ _].
  unfold reach_count. eapply G_sound; [exact Hg| |].
  - unfold roots. rewrite O. cbn [outer_roots]. unfold droots_l, slots_items, fr_roots, frame_roots, view.
    cbn [d_es d_local d_args d_static]. in_app.
  - unfold roots. rewrite O. cbn [outer_roots]. unfold droots_l, slots_items, fr_roots, frame_roots, view.
    cbn [d_es d_local d_args d_static]. pose proof (zlen_nonneg Lk). repeat rewrite ?zlen_app, ?zlen_nil. lia.
Qed.

(* ---------- small tools ---------- *)
Lemma view_unview s d : view (unview s d) = d.
Proof. destruct d; reflexivity. Qed.

Lemma dI0_meq E E' d : dI0 E d -> meq E E' -> (forall a, In a E' -> In a E) -> dI0 E' d.
Proof. intros [U H] M S. exists U. eapply dI_E_meq; eauto. Qed.

Lemma sI_unview s d Lk : sI s -> shp (view s) d -> dI0 (fr_roots (s_frames s) ++ Lk) d -> sI (unview s d).
Proof.
  intros [O P X _] S H. constructor.
  - exact O.
  - exact P.
  - change (s_exc (unview s d)) with (s_exc s). change (s_heap (unview s d)) with (d_heap d).
    destruct (s_exc s); [|exact I]. eapply valid_shape; [exact S|exact X].
  - exists Lk. rewrite view_unview. exact H.
Qed.

Lemma sI_same_data s s' :
  sI s -> s_outer s' = s_outer s -> sc_prog (s_sc s') = sc_prog (s_sc s) -> s_exc s' = s_exc s -> s_heap s' = s_heap s ->
  s_frames s' = s_frames s -> view s' = view s -> sI s'.
Proof.
  intros [O P X D] E1 E2 E3 E4 E5 E6. constructor.
  - rewrite E1; exact O.
  - rewrite E2; exact P.
  - rewrite E3, E4; exact X.
  - rewrite E5, E6; exact D.
Qed.

Lemma jump_sI s pos s' : sI s -> jump s pos = Some s' -> sI s'.
Proof. unfold jump. case_if; [|discriminate]. intros H E; inv E. eapply sI_same_data; [exact H|reflexivity..]. Qed.
Lemma set_try_sI s t : sI s -> sI (set_try s t).
Proof. intros H. eapply sI_same_data; [exact H|reflexivity..]. Qed.
Lemma set_gas_ip_sI s g n : sI s -> sI (set_ip (set_gas s g) n).
Proof. intros H. eapply sI_same_data; [exact H|reflexivity..]. Qed.

(* ---------- CALL ---------- *)
Lemma call_sI s pos s' : sI s -> call s pos = Some s' -> sI s'.
Proof.
  unfold call. repeat case_if; try discriminate. intros [O P X (Lk & U & H)] Q; inv Q. constructor; cbn [s_outer s_sc s_exc s_heap s_frames].
  - exact O.
  - exact P.
  - exact X.
  - exists Lk. exists U. eapply dI_rearr; try exact H; try reflexivity; try apply meq_refl; try tauto.
    + unfold droots_l, slots_items, fr_roots, frame_roots, view. cbn [flat_map d_es d_local d_args d_static f_local f_args s_fr s_sc slot_items].
      meq_app.
    + unfold droots_l, slots_items, fr_roots, frame_roots, view. cbn [flat_map d_es d_local d_args d_static f_local f_args s_fr s_sc slot_items].
      in_app.
Qed.

(* ---------- unloading ---------- *)
Lemma clear_slot_shape sl h r : same_shape h (fst (clear_slot sl (h, r))).
Proof.
  destruct sl as [its|]; cbn [clear_slot fst snd]; [|apply same_shape_refl].
  apply rc_only_shape. unfold ref_remove_list. apply ref_remove_wl_rc_only.
Qed.

Lemma dI_clear_slot sl E U d :
  dI (slot_items sl ++ E) [] U d ->
  exists U', dI E [] U' (set_mem d (fst (clear_slot sl (d_heap d, d_refs d))) (snd (clear_slot sl (d_heap d, d_refs d)))).
Proof.
  destruct sl as [its|]; cbn [clear_slot slot_items fst snd]; intros H.
  - apply dI_remove_list in H. unfold d_remove_list in H. exists (its ++ U).
    destruct (ref_remove_list (d_heap d) (d_refs d) its) as [h' r']. exact H.
  - exists U. eapply dI_rearr; try exact H; try reflexivity; try apply meq_refl; try tauto.
Qed.

(* the data state with the slots of the executing context emptied, their content held in E *)
Lemma unload_sI b s : sI s -> match unload b s with UNext s' => sI s' | ULast s' => sI s' | UFault => True end.
Proof.
  intros [O P X (Lk & U & H)]. unfold unload. rewrite O.
  set (d0 := mkD (sc_es (s_sc s)) None None (sc_static (s_sc s)) (s_heap s) (s_refs s)).
  destruct (s_frames s) as [|f' fs] eqn:Ef.
  - (* last context *)
    set (d1 := mkD (sc_es (s_sc s)) None None None (s_heap s) (s_refs s)).
    assert (H1 : dI (slot_items (f_local (s_fr s)) ++ slot_items (f_args (s_fr s)) ++ slot_items (sc_static (s_sc s)) ++ Lk) [] U d1).
    { eapply dI_rearr; try exact H; try reflexivity; try apply meq_refl; try tauto.
      - unfold droots_l, slots_items, fr_roots, view, d1. cbn [flat_map d_es d_local d_args d_static slot_items app]. meq_app.
      - unfold droots_l, slots_items, fr_roots, view, d1. cbn [flat_map d_es d_local d_args d_static slot_items app]. in_app. }
    destruct (dI_clear_slot _ _ _ _ H1) as (U2 & H2). cbn [d_heap d_refs d1] in H2.
    set (hr1 := clear_slot (f_local (s_fr s)) (s_heap s, s_refs s)) in *.
    destruct (dI_clear_slot _ _ _ _ H2) as (U3 & H3). cbn [d_heap d_refs set_mem] in H3.
    assert (Q1 : (fst hr1, snd hr1) = hr1) by (destruct hr1; reflexivity). rewrite Q1 in H3.
    set (hr2 := clear_slot (f_args (s_fr s)) hr1) in *.
    destruct (dI_clear_slot _ _ _ _ H3) as (U4 & H4). cbn [d_heap d_refs set_mem] in H4.
    assert (Q2 : (fst hr2, snd hr2) = hr2) by (destruct hr2; reflexivity). rewrite Q2 in H4.
    set (hr3 := clear_slot (sc_static (s_sc s)) hr2) in *.
    constructor; cbn [s_outer s_sc s_exc s_heap s_frames sc_prog].
    + reflexivity.
    + exact P.
    + destruct (s_exc s); [|exact I].
      assert (S : same_shape (s_heap s) (fst hr3)).
      { eapply same_shape_trans; [apply (clear_slot_shape (f_local (s_fr s)) (s_heap s) (s_refs s))|]. fold hr1.
        eapply same_shape_trans; [apply (clear_slot_shape (f_args (s_fr s)) (fst hr1) (snd hr1))|]. rewrite Q1. fold hr2.
        pose proof (clear_slot_shape (sc_static (s_sc s)) (fst hr2) (snd hr2)) as S3. rewrite Q2 in S3. exact S3. }
      eapply valid_shape; [exact S|exact X].
    + exists Lk. exists U4. exact H4.
  - (* back to the caller in the same script *)
    set (d1 := mkD (sc_es (s_sc s)) None None (sc_static (s_sc s)) (s_heap s) (s_refs s)).
    assert (H1 : dI (slot_items (f_local (s_fr s)) ++ slot_items (f_args (s_fr s)) ++ frame_roots f' ++ fr_roots fs ++ Lk) [] U d1).
    { eapply dI_rearr; try exact H; try reflexivity; try apply meq_refl; try tauto.
      - unfold droots_l, slots_items, fr_roots, view, d1. cbn [flat_map d_es d_local d_args d_static slot_items app]. meq_app.
      - unfold droots_l, slots_items, fr_roots, view, d1. cbn [flat_map d_es d_local d_args d_static slot_items app]. in_app. }
    destruct (dI_clear_slot _ _ _ _ H1) as (U2 & H2). cbn [d_heap d_refs d1] in H2.
    set (hr1 := clear_slot (f_local (s_fr s)) (s_heap s, s_refs s)) in *.
    destruct (dI_clear_slot _ _ _ _ H2) as (U3 & H3). cbn [d_heap d_refs set_mem] in H3.
    assert (Q1 : (fst hr1, snd hr1) = hr1) by (destruct hr1; reflexivity). rewrite Q1 in H3.
    set (hr2 := clear_slot (f_args (s_fr s)) hr1) in *.
    constructor; cbn [s_outer s_sc s_exc s_heap s_frames sc_prog].
    + reflexivity.
    + exact P.
    + destruct (s_exc s); [|exact I].
      assert (S : same_shape (s_heap s) (fst hr2)).
      { eapply same_shape_trans; [apply (clear_slot_shape (f_local (s_fr s)) (s_heap s) (s_refs s))|]. fold hr1.
        pose proof (clear_slot_shape (f_args (s_fr s)) (fst hr1) (snd hr1)) as S2. rewrite Q1 in S2. exact S2. }
      eapply valid_shape; [exact S|exact X].
    + exists Lk. exists U3. eapply dI_rearr; try exact H3; try reflexivity; try apply meq_refl; try tauto.
      * unfold droots_l, slots_items, fr_roots, frame_roots, view, d1.
        cbn [flat_map d_es d_local d_args d_static slot_items app set_mem s_fr s_sc]. meq_app.
      * unfold droots_l, slots_items, fr_roots, frame_roots, view, d1.
        cbn [flat_map d_es d_local d_args d_static slot_items app set_mem s_fr s_sc]. in_app.
Qed.

(* ---------- exceptions ---------- *)
Lemma unwind_sI fuel : forall s s', sI s -> unwind fuel s = Some s' -> sI s'.
Proof.
  induction fuel as [|f IH]; intros s s' K; simpl; [discriminate|].
  destruct (trim_try (f_try (s_fr s))) as [|t ts].
  - pose proof (unload_sI false (set_try s []) (set_try_sI s [] K)) as Un.
    destruct (unload false (set_try s [])); try discriminate. apply IH; assumption.
  - destruct (t_state t), (has_catch t), (s_exc s) eqn:Ex; intros E;
      try (eapply jump_sI; [|exact E]; apply set_try_sI; exact K).
    eapply jump_sI; [|exact E].
    set (s1 := set_try s (mkTry (t_catch t) (t_finally t) (t_end t) ECatch :: ts)) in *.
    assert (K1 : sI s1) by (apply set_try_sI; exact K).
    assert (Vi : valid (s_heap s) i) by (destruct K as [_ _ Xe _]; rewrite Ex in Xe; exact Xe).
    pose proof K1 as [O1 P1 X1 (Lk & U & H1)].
    assert (K2 : sI (unview s1 (push i (view s1)))).
    { eapply (sI_unview s1 _ Lk); [exact K1|apply shp_push|].
      exists U. apply dI_push_v; [exact H1|exact Vi]. }
    destruct K2 as [O2 P2 _ D2]. constructor; [exact O2|exact P2|exact I|exact D2].
Qed.

Lemma throw_sI e s s' : sI s -> valid (s_heap s) e -> throw e s = Some s' -> sI s'.
Proof.
  intros [O P X D] V. unfold throw. apply unwind_sI. constructor; [exact O|exact P|exact V|exact D].
Qed.

(* ---------- conditional jumps pop their operands ---------- *)
Lemma jump_cond_I E op d b d' : dI0 E d -> jump_cond op d = Some (b, d') -> dI0 E d'.
Proof.
  intros [U H]. unfold jump_cond.
  destruct op; try discriminate; intros Q;
    repeat match type of Q with
    | match ?e with Some _ => _ | None => None end = Some _ =>
        let X := fresh "X" in destruct e as [[? ?]|] eqn:X; [|discriminate]
    end; inv Q;
    repeat match goal with
    | H : dI _ [] _ ?d, X : pop_int ?d = Some _ |- _ => pose proof (dI_pop_int _ _ _ _ _ H X); clear H X
    | H : dI _ [] _ ?d, X : pop_bool ?d = Some _ |- _ => pose proof (dI_pop_bool _ _ _ _ _ H X); clear H X
    end; eexists; eassumption.
Qed.

(* ---------- one instruction ---------- *)
Definition xres_sI (r : xres) : Prop :=
  match r with XNext s' => sI s' | XHalt s' => sI s' | XFault => True end.

Lemma xopt_sI o : (forall s', o = Some s' -> sI s') -> xres_sI (xopt o).
Proof. destruct o; simpl; auto. Qed.

Lemma exec_op_sI cip op p s : sI s -> nonneg_bytes p -> xres_sI (exec_op no_sys cip op p s).
Proof.
  intros K NN. pose proof K as [O P X (Lk & V)].
  assert (DD : xres_sI (match exec_data (mkEnv cip (prog_len s) (sc_sid (s_sc s))) op p (view s) with
               | DOk d => XNext (unview s d) | DThrow e d => xopt (throw e (unview s d)) | DFault => XFault end)).
  { destruct (exec_data_IL (mkEnv cip (prog_len s) (sc_sid (s_sc s))) op p (view s) _ NN V) as (Lk' & R).
    pose proof (exec_data_shape (mkEnv cip (prog_len s) (sc_sid (s_sc s))) op p (view s)) as S.
    destruct (exec_data _ op p (view s)) as [d|e d|]; cbn [dres_I] in R; [| |exact I].
    - cbn [xres_sI]. apply (sI_unview s d (Lk' ++ Lk)); [exact K|exact S|].
      eapply dI0_meq; [exact R|meq_app|in_app].
    - destruct R as [R Ve]. apply xopt_sI. intros s' E. eapply throw_sI; [| |exact E].
      + apply (sI_unview s d (Lk' ++ Lk)); [exact K|exact S|]. eapply dI0_meq; [exact R|meq_app|in_app].
      + exact Ve. }
  assert (JC : xres_sI (match jump_offset cip (prog_len s) p with
                      | None => XFault
                      | Some off => match jump_cond op (view s) with
                                    | None => XFault
                                    | Some (c, d) => let s0 := unview s d in if c then xopt (jump s0 off) else XNext s0
                                    end end)).
  { destruct (jump_offset cip (prog_len s) p); [|exact I].
    destruct (jump_cond op (view s)) as [[c d]|] eqn:E; [|exact I]. cbv zeta.
    assert (K' : sI (unview s d)).
    { apply (sI_unview s d Lk); [exact K|eapply jump_cond_shape; eauto|eapply jump_cond_I; eauto]. }
    destruct c; [apply xopt_sI; intros s' J; eapply jump_sI; [|exact J]|]; exact K'. }
  destruct op; try exact DD; try exact JC; unfold exec_op.
  - (* CALL *) destruct (jump_offset cip (prog_len s) p); [|exact I]. apply xopt_sI. intros s' E. eapply call_sI; eauto.
  - (* CALLL *) destruct (jump_offset cip (prog_len s) p); [|exact I]. apply xopt_sI. intros s' E. eapply call_sI; eauto.
  - (* CALLA *) destruct (pop (view s)) as [[[] d]|] eqn:E; try exact I.
    case_if; [|exact I]. apply xopt_sI. intros s' Cl. eapply call_sI; [|exact Cl].
    apply (sI_unview s d Lk); [exact K|eapply shp_pop; eauto|].
    destruct V as [U H]. eexists. eapply dI_pop; eauto.
  - (* TRY *) unfold xres_sI. destruct (try_params TRY p) as [cp fp]. peel. apply set_try_sI; assumption.
  - (* TRYL *) unfold xres_sI. destruct (try_params TRYL p) as [cp fp]. peel. apply set_try_sI; assumption.
  - (* ENDTRY *) destruct (f_try (s_fr s)) as [|t ts]; [exact I|].
    destruct (t_state t); try exact I; (destruct (jump_offset cip (prog_len s) p); [|exact I]); case_if;
      apply xopt_sI; intros s' J; (eapply jump_sI; [|exact J]); apply set_try_sI; assumption.
  - (* ENDTRYL *) destruct (f_try (s_fr s)) as [|t ts]; [exact I|].
    destruct (t_state t); try exact I; (destruct (jump_offset cip (prog_len s) p); [|exact I]); case_if;
      apply xopt_sI; intros s' J; (eapply jump_sI; [|exact J]); apply set_try_sI; assumption.
  - (* ENDFINALLY *) destruct (s_exc s) eqn:Ex.
    + apply xopt_sI. intros s' E. refine (throw_sI _ _ _ K _ E). exact X.
    + destruct (f_try (s_fr s)) as [|t ts]; [exact I|].
      apply xopt_sI; intros s' J. eapply jump_sI; [|exact J]. apply set_try_sI; assumption.
  - (* RET *) unfold do_ret. pose proof (unload_sI true s K). destruct (unload true s); simpl; auto.
Qed.

Theorem step_sI s :
  sI s -> match step s with Running s' => sI s' | Halted s' => sI s' | Faulted _ => True end.
Proof.
  intros K. unfold step, step_with.
  assert (Pp : forall g r, xres_sI r ->
              match post g r with Running s' => sI s' | Halted s' => sI s' | Faulted _ => True end).
  { intros g r R. destruct r; simpl; try exact I; case_if; try exact I; assumption. }
  destruct (decode (sc_prog (s_sc s)) (f_ip (s_fr s))) as [| |op p next] eqn:D; [|exact I|].
  - apply Pp. unfold do_ret. pose proof (unload_sI true s K). destruct (unload true s); simpl; auto.
  - case_if; [exact I|]. apply Pp. apply exec_op_sI; [apply set_gas_ip_sI; assumption|].
    exact (decode_param_nonneg _ _ _ _ _ (si_prog s K) D).
Qed.

Lemma init_sI prog sid base limit : nonneg_bytes prog -> sI (init_state prog sid base limit).
Proof.
  intros H. constructor; cbn; [reflexivity|exact H|exact I|]. exists []. exists [].
  constructor; [|constructor|constructor]. constructor; [|constructor|constructor|constructor].
  constructor; [constructor|intros l; destruct l; reflexivity|reflexivity].
Qed.

Theorem run_sI : forall n s, sI s ->
  match run n s with Running s' => sI s' | Halted s' => sI s' | Faulted _ => True end.
Proof.
  induction n as [|n IH]; intros s K; simpl; [exact K|].
  pose proof (step_sI s K) as S. destruct (step s) as [s1|s1|g]; [apply IH; assumption|assumption|exact I].
Qed.

(* The item counter never under-counts: after every instruction of every execution of a script (whose bytes are
   non-negative, i.e. a byte string) and at HALT, what a walk of stacks and slots finds is at most the counter. *)
Theorem refs_never_undercount n prog sid base limit s :
  nonneg_bytes prog ->
  (run n (init_state prog sid base limit) = Running s \/ run n (init_state prog sid base limit) = Halted s) ->
  reach_count s <= s_refs s.
Proof.
  intros NN R. pose proof (run_sI n _ (init_sI prog sid base limit NN)) as K.
  destruct R as [R|R]; rewrite R in K; apply sI_sound; exact K.
Qed.
