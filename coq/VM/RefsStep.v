(* The in-degree invariant at the level of the machine state: every instruction of [step] (data instructions through
   [exec_data_IL], jumps, CALL/CALLA, RET and unloading, TRY/ENDTRY/ENDFINALLY, THROW and unwinding) preserves

     sI s :  GI (s_heap s) (s_refs s) [] (stack ++ slots of all contexts ++ Lk)      for some list Lk of leaked counts

   and [sI] gives reach_count s <= s_refs s ([G_sound]).  The bare VM runs one script context (s_outer = []). *)
From NG Require Import VM.Model VM.LimitsData VM.Reach VM.Total VM.RefsFlatStep VM.RefsInv VM.RefsMoves VM.RefsData VM.RefsOps
  VM.RefsStale VM.RefsComp VM.RefsShape VM.RefsExact VM.RefsExactOps VM.Loader.
Open Scope Z_scope.

Definition fr_roots (fs : list frame) : list item := flat_map frame_roots fs.
(* what the suspended script contexts hold (VM/Reach.v: a stack shared with the script above is counted once) *)
Definition oroots (s : state) : list item := outer_roots (sc_shared (s_sc s)) (s_outer s).
Definition outer_progs_ok (o : list (script * (frame * list frame))) : Prop :=
  Forall (fun x => nonneg_bytes (sc_prog (fst x))) o.

(* [sIk Lk s]: the invariant with the leaked counts Lk made explicit (Lk = [] : the counter is exact up to cycles);
   any number of script contexts *)
Record sIk (Lk : list item) (s : state) : Prop := mksIk {
  si_prog : nonneg_bytes (sc_prog (s_sc s));
  si_outer : outer_progs_ok (s_outer s);
  si_exc : match s_exc s with Some e => valid (s_heap s) e | None => True end;
  si_d : dI0 (fr_roots (s_frames s) ++ oroots s ++ Lk) (view s)
}.
Definition sI (s : state) : Prop := exists Lk, sIk Lk s.

Ltac meq_app := split; [intros ?l; repeat rewrite ?occ_app, ?occ_cons, ?occ_nil; lia
                       |repeat rewrite ?zlen_app, ?zlen_cons', ?zlen_nil; lia].
Ltac in_app := let a := fresh "a" in intros a; repeat (rewrite ?in_app_iff; simpl); tauto.
Ltac unroots := unfold roots, oroots, droots_l, slots_items, fr_roots, frame_roots, view;
                cbn [d_es d_local d_args d_static].

(* ---------- what the invariant is for ---------- *)
Theorem sIk_sound Lk s : sIk Lk s -> reach_count s <= s_refs s.
Proof.
  intros [_ _ _ (U & [Hgi _ _])]. destruct Hgi as [Hg _ _ _].
  unfold reach_count. eapply G_sound; [exact Hg| |].
  - unroots. in_app.
  - unroots. pose proof (zlen_nonneg Lk). repeat rewrite ?zlen_app, ?zlen_nil. lia.
Qed.

Theorem sI_sound s : sI s -> reach_count s <= s_refs s.
Proof. intros [Lk H]. eapply sIk_sound; eauto. Qed.

(* without leaked counts and on an acyclic heap the counter is exact *)
Theorem sIk_exact s : sIk [] s -> acyc (s_heap s) -> reach_count s = s_refs s.
Proof.
  intros [_ _ _ (U & [Hgi _ _])] Ac. destruct Hgi as [Hg _ _ _].
  unfold reach_count. eapply G_exact; [exact Hg|exact Ac| | |].
  - unroots. in_app.
  - unroots. in_app.
  - unroots. repeat rewrite ?zlen_app, ?zlen_nil. lia.
Qed.

(* ---------- small tools ---------- *)
Lemma view_unview s d : view (unview s d) = d.
Proof. destruct d; reflexivity. Qed.

Lemma dI0_meq E E' d : dI0 E d -> meq E E' -> (forall a, In a E' -> In a E) -> dI0 E' d.
Proof. intros [U H] M S. exists U. eapply dI_E_meq; eauto. Qed.

Lemma sI_unview s d Lk0 Lk : sIk Lk0 s -> shp (view s) d -> dI0 (fr_roots (s_frames s) ++ oroots s ++ Lk) d -> sIk Lk (unview s d).
Proof.
  intros [P O X _] S H. constructor.
  - exact P.
  - exact O.
  - change (s_exc (unview s d)) with (s_exc s). change (s_heap (unview s d)) with (d_heap d).
    destruct (s_exc s); [|exact I]. eapply valid_shape; [exact S|exact X].
  - rewrite view_unview. exact H.
Qed.

Lemma sI_same_data Lk s s' :
  sIk Lk s -> s_outer s' = s_outer s -> sc_prog (s_sc s') = sc_prog (s_sc s) -> sc_shared (s_sc s') = sc_shared (s_sc s) ->
  s_exc s' = s_exc s -> s_heap s' = s_heap s -> s_frames s' = s_frames s -> view s' = view s -> sIk Lk s'.
Proof.
  intros [P O X D] E1 E2 Es E3 E4 E5 E6. constructor.
  - rewrite E2; exact P.
  - rewrite E1; exact O.
  - rewrite E3, E4; exact X.
  - unfold oroots. rewrite E5, E6, E1, Es. exact D.
Qed.

Lemma jump_sI Lk s pos s' : sIk Lk s -> jump s pos = Some s' -> sIk Lk s'.
Proof. unfold jump. case_if; [|discriminate]. intros H E; inv E. eapply sI_same_data; [exact H|reflexivity..]. Qed.
Lemma set_try_sI Lk s t : sIk Lk s -> sIk Lk (set_try s t).
Proof. intros H. eapply sI_same_data; [exact H|reflexivity..]. Qed.
Lemma set_gas_ip_sI Lk s g n : sIk Lk s -> sIk Lk (set_ip (set_gas s g) n).
Proof. intros H. eapply sI_same_data; [exact H|reflexivity..]. Qed.

(* ---------- CALL ---------- *)
Lemma call_sI Lk s pos s' : sIk Lk s -> call s pos = Some s' -> sIk Lk s'.
Proof.
  unfold call. repeat case_if; try discriminate. intros [P O X (U & H)] Q; inv Q. constructor; cbn [s_outer s_sc s_exc s_heap s_frames].
  - exact P.
  - exact O.
  - exact X.
  - exists U. eapply dI_rearr; try exact H; try reflexivity; try apply meq_refl; try tauto.
    + unfold oroots, droots_l, slots_items, fr_roots, view. cbn [flat_map d_es d_local d_args d_static f_local f_args s_fr s_sc s_outer slot_items]. unfold frame_roots.
      meq_app.
    + unfold oroots, droots_l, slots_items, fr_roots, view. cbn [flat_map d_es d_local d_args d_static f_local f_args s_fr s_sc s_outer slot_items]. unfold frame_roots.
      in_app.
Qed.

(* ---------- loading another script on top (contract call) ---------- *)
Lemma load_script_sI Lk s prog sid rv : sIk Lk s -> nonneg_bytes prog -> sIk Lk (load_script s prog sid rv).
Proof.
  intros [P O X (U & H)] NP. unfold load_script. constructor; cbn [s_outer s_sc s_exc s_heap s_frames sc_prog].
  - exact NP.
  - constructor; [exact P|exact O].
  - exact X.
  - exists U. eapply dI_rearr; try exact H; try reflexivity; try apply meq_refl; try tauto.
    + unfold oroots, droots_l, slots_items, fr_roots, frame_roots, view.
      cbn [flat_map d_es d_local d_args d_static f_local f_args s_fr s_sc s_outer s_frames slot_items sc_shared sc_es sc_static empty_frame outer_roots app].
      unfold frame_roots. destruct (sc_es (s_sc s)) eqn:Es; destruct (rv =? -1); cbn [andb app]; meq_app.
    + unfold oroots, droots_l, slots_items, fr_roots, frame_roots, view.
      cbn [flat_map d_es d_local d_args d_static f_local f_args s_fr s_sc s_outer s_frames slot_items sc_shared sc_es sc_static empty_frame outer_roots app].
      unfold frame_roots. destruct (sc_es (s_sc s)) eqn:Es; destruct (rv =? -1); cbn [andb app]; in_app.
Qed.

(* ---------- unloading ---------- *)
Lemma clear_slot_shape sl h r : same_shape h (fst (clear_slot sl (h, r))).
Proof.
  destruct sl as [its|]; cbn [clear_slot fst snd]; [|apply same_shape_refl].
  apply rc_only_shape. unfold ref_remove_list. apply ref_remove_wl_rc_only.
Qed.

Definition dclear (sl : option (list item)) (d : dstate) : dstate :=
  set_mem d (fst (clear_slot sl (d_heap d, d_refs d))) (snd (clear_slot sl (d_heap d, d_refs d))).
Fixpoint dclears (sls : list (option (list item))) (d : dstate) : dstate :=
  match sls with [] => d | sl :: t => dclears t (dclear sl d) end.
Lemma dclear_pair sl d : (d_heap (dclear sl d), d_refs (dclear sl d)) = clear_slot sl (d_heap d, d_refs d).
Proof. unfold dclear. destruct (clear_slot sl (d_heap d, d_refs d)). reflexivity. Qed.
Lemma dclears_pair : forall sls d,
  (d_heap (dclears sls d), d_refs (dclears sls d)) = fold_left (fun hr sl => clear_slot sl hr) sls (d_heap d, d_refs d).
Proof. induction sls as [|sl t IH]; intros d; simpl; [reflexivity|]. rewrite IH, dclear_pair. reflexivity. Qed.
Lemma dclears_roots : forall sls d, droots_l (dclears sls d) = droots_l d.
Proof. induction sls as [|sl t IH]; intros d; simpl; [reflexivity|]. rewrite IH. reflexivity. Qed.

Lemma dI_clear_slot sl E U d :
  dI (slot_items sl ++ E) [] U d -> exists U', dI E [] U' (dclear sl d).
Proof.
  unfold dclear. destruct sl as [its|]; cbn [clear_slot slot_items fst snd]; intros H.
  - apply dI_remove_list in H. unfold d_remove_list in H. exists (its ++ U).
    destruct (ref_remove_list (d_heap d) (d_refs d) its) as [h' r']. exact H.
  - exists U. eapply dI_rearr; try exact H; try reflexivity; try apply meq_refl; try tauto.
Qed.
Lemma dclear_shape sl d : same_shape (d_heap d) (d_heap (dclear sl d)).
Proof. unfold dclear. cbn [set_mem d_heap]. apply clear_slot_shape. Qed.
Lemma dI_clears : forall sls E U d,
  dI (flat_map slot_items sls ++ E) [] U d ->
  exists U', dI E [] U' (dclears sls d) /\ same_shape (d_heap d) (d_heap (dclears sls d)).
Proof.
  induction sls as [|sl t IH]; intros E U d H; simpl in *.
  - exists U. split; [exact H|apply same_shape_refl].
  - rewrite <- app_assoc in H. destruct (dI_clear_slot _ _ _ _ H) as (U1 & H1).
    destruct (IH _ _ _ H1) as (U2 & H2 & S2). exists U2. split; [exact H2|].
    eapply same_shape_trans; [apply dclear_shape|exact S2].
Qed.

(* unloading a context: the slots that go are cleared (un-counted), the rest is re-arranged; also when the script is left
   (static slot released, RET moves the stack, an exception un-counts the abandoned stack) *)
Lemma unload_sI Lk b s : sIk Lk s -> match unload b s with UNext s' => sIk Lk s' | ULast s' => sIk Lk s' | UFault => True end.
Proof.
  intros [P O X (U & H)]. unfold unload.
  set (d1 := mkD [] None None None (s_heap s) (s_refs s)).
  assert (Exc : forall sls, match s_exc s with
                            | Some e => valid (fst (fold_left (fun hr sl => clear_slot sl hr) sls (s_heap s, s_refs s))) e
                            | None => True end).
  { intros sls. destruct (s_exc s); [|exact I]. eapply valid_shape; [|exact X].
    clear. generalize (s_heap s) (s_refs s). induction sls as [|sl t IH]; intros h r; simpl; [apply same_shape_refl|].
    destruct (clear_slot sl (h, r)) as [h1 r1] eqn:E. eapply same_shape_trans; [|apply IH].
    pose proof (clear_slot_shape sl h r) as S. rewrite E in S. exact S. }
  destruct (s_frames s) as [|f' fs] eqn:Ef.
  - destruct (s_outer s) as [|[sc' [f' fs']] o'] eqn:Eo.
    + (* the last context of the last script *)
      set (sls := [f_local (s_fr s); f_args (s_fr s); sc_static (s_sc s)]).
      assert (H1 : dI (flat_map slot_items sls ++ (sc_es (s_sc s) ++ Lk)) [] U d1).
      { eapply dI_rearr; try exact H; try reflexivity; try apply meq_refl; try tauto.
        - unfold oroots. rewrite Eo. unfold droots_l, slots_items, fr_roots, view, d1, sls. cbn [outer_roots flat_map d_es d_local d_args d_static slot_items app]. unfold frame_roots. meq_app.
        - unfold oroots. rewrite Eo. unfold droots_l, slots_items, fr_roots, view, d1, sls. cbn [outer_roots flat_map d_es d_local d_args d_static slot_items app]. unfold frame_roots. in_app. }
      destruct (dI_clears _ _ _ _ H1) as (U2 & H2 & S2).
      pose proof (dclears_pair sls d1) as Pr. cbn [fold_left sls d1 d_heap d_refs] in Pr.
      pose proof (Exc sls) as Xe. cbn [fold_left sls] in Xe.
      match goal with |- sIk Lk (mkState _ _ _ _ (fst ?hr) (snd ?hr) _ _ _ _) => set (HR := hr) in * end.
      assert (Eh : fst HR = d_heap (dclears sls d1)) by (rewrite <- Pr; reflexivity).
      assert (Er : snd HR = d_refs (dclears sls d1)) by (rewrite <- Pr; reflexivity).
      constructor; cbn [s_outer s_sc s_exc s_heap s_frames sc_prog].
      * exact P.
      * constructor.
      * exact Xe.
      * exists U2. eapply dI_rearr; try exact H2; try (symmetry; assumption); try apply meq_refl; try tauto.
        -- rewrite dclears_roots. unfold oroots, droots_l, slots_items, fr_roots, view, d1. cbn [outer_roots flat_map d_es d_local d_args d_static slot_items app s_outer s_sc s_fr s_frames sc_es sc_static f_local f_args]. unfold frame_roots. meq_app.
        -- rewrite dclears_roots. unfold oroots, droots_l, slots_items, fr_roots, view, d1. cbn [outer_roots flat_map d_es d_local d_args d_static slot_items app s_outer s_sc s_fr s_frames sc_es sc_static f_local f_args]. unfold frame_roots. in_app.
    + (* the last context of a script that was loaded on top of another one *)
      inversion O as [|? ? P' O']; subst.
      set (below := slot_items (sc_static sc') ++ frame_roots f' ++ fr_roots fs' ++ outer_roots (sc_shared sc') o').
      destruct (sc_shared (s_sc s)) eqn:Sh.
      * (* the stack is the one of the script below *)
        set (sls := [f_local (s_fr s); f_args (s_fr s); sc_static (s_sc s)]).
        assert (H1 : dI (flat_map slot_items sls ++ (sc_es (s_sc s) ++ below ++ Lk)) [] U d1).
        { eapply dI_rearr; try exact H; try reflexivity; try apply meq_refl; try tauto.
          - unfold oroots. rewrite Eo, Sh. unfold below, droots_l, slots_items, fr_roots, view, d1, sls. cbn [outer_roots flat_map d_es d_local d_args d_static slot_items app fst]. unfold frame_roots. meq_app.
          - unfold oroots. rewrite Eo, Sh. unfold below, droots_l, slots_items, fr_roots, view, d1, sls. cbn [outer_roots flat_map d_es d_local d_args d_static slot_items app fst]. unfold frame_roots. in_app. }
        destruct (dI_clears _ _ _ _ H1) as (U2 & H2 & S2).
        pose proof (dclears_pair sls d1) as Pr. cbn [fold_left sls d1 d_heap d_refs] in Pr.
        pose proof (Exc sls) as Xe. cbn [fold_left sls] in Xe.
        rewrite andb_false_r. cbv zeta.
        match goal with |- sIk Lk (mkState _ _ _ _ (fst ?hr) (snd ?hr) _ _ _ _) => set (HR := hr) in * end.
        assert (Eh : fst HR = d_heap (dclears sls d1)) by (rewrite <- Pr; reflexivity).
        assert (Er : snd HR = d_refs (dclears sls d1)) by (rewrite <- Pr; reflexivity).
        constructor; cbn [s_outer s_sc s_exc s_heap s_frames sc_prog].
        -- exact P'.
        -- exact O'.
        -- exact Xe.
        -- exists U2. eapply dI_rearr; try exact H2; try (symmetry; assumption); try apply meq_refl; try tauto.
           ++ rewrite dclears_roots. unfold below, oroots, droots_l, slots_items, fr_roots, view, d1. cbn [outer_roots flat_map d_es d_local d_args d_static slot_items app s_outer s_sc s_fr s_frames sc_es sc_static sc_shared f_local f_args]. unfold frame_roots. meq_app.
           ++ rewrite dclears_roots. unfold below, oroots, droots_l, slots_items, fr_roots, view, d1. cbn [outer_roots flat_map d_es d_local d_args d_static slot_items app s_outer s_sc s_fr s_frames sc_es sc_static sc_shared f_local f_args]. unfold frame_roots. in_app.
      * destruct b.
        -- (* RET: the results move onto the stack below *)
           destruct ((0 <=? f_ret (s_fr s)) && negb (zlen (sc_es (s_sc s)) =? f_ret (s_fr s))); [exact I|].
           set (sls := [f_local (s_fr s); f_args (s_fr s); sc_static (s_sc s)]).
           assert (H1 : dI (flat_map slot_items sls ++ (sc_es (s_sc s) ++ sc_es sc' ++ below ++ Lk)) [] U d1).
           { eapply dI_rearr; try exact H; try reflexivity; try apply meq_refl; try tauto.
             - unfold oroots. rewrite Eo, Sh. unfold below, droots_l, slots_items, fr_roots, view, d1, sls. cbn [outer_roots flat_map d_es d_local d_args d_static slot_items app fst]. unfold frame_roots. meq_app.
             - unfold oroots. rewrite Eo, Sh. unfold below, droots_l, slots_items, fr_roots, view, d1, sls. cbn [outer_roots flat_map d_es d_local d_args d_static slot_items app fst]. unfold frame_roots. in_app. }
           destruct (dI_clears _ _ _ _ H1) as (U2 & H2 & S2).
           pose proof (dclears_pair sls d1) as Pr. cbn [fold_left sls d1 d_heap d_refs] in Pr.
           pose proof (Exc sls) as Xe. cbn [fold_left sls] in Xe.
           cbn [negb andb]. cbv zeta.
           match goal with |- sIk Lk (mkState _ _ _ _ (fst ?hr) (snd ?hr) _ _ _ _) => set (HR := hr) in * end.
           assert (Eh : fst HR = d_heap (dclears sls d1)) by (rewrite <- Pr; reflexivity).
           assert (Er : snd HR = d_refs (dclears sls d1)) by (rewrite <- Pr; reflexivity).
           constructor; cbn [s_outer s_sc s_exc s_heap s_frames sc_prog].
           ++ exact P'.
           ++ exact O'.
           ++ exact Xe.
           ++ exists U2. eapply dI_rearr; try exact H2; try (symmetry; assumption); try apply meq_refl; try tauto.
              ** rewrite dclears_roots. unfold below, oroots, droots_l, slots_items, fr_roots, view, d1. cbn [outer_roots flat_map d_es d_local d_args d_static slot_items app s_outer s_sc s_fr s_frames sc_es sc_static sc_shared f_local f_args]. unfold frame_roots. meq_app.
              ** rewrite dclears_roots. unfold below, oroots, droots_l, slots_items, fr_roots, view, d1. cbn [outer_roots flat_map d_es d_local d_args d_static slot_items app s_outer s_sc s_fr s_frames sc_es sc_static sc_shared f_local f_args]. unfold frame_roots. in_app.
        -- (* an exception leaves the script: its own stack is un-counted as well *)
           set (sls := [f_local (s_fr s); f_args (s_fr s); sc_static (s_sc s); Some (sc_es (s_sc s))]).
           assert (H1 : dI (flat_map slot_items sls ++ (sc_es sc' ++ below ++ Lk)) [] U d1).
           { eapply dI_rearr; try exact H; try reflexivity; try apply meq_refl; try tauto.
             - unfold oroots. rewrite Eo, Sh. unfold below, droots_l, slots_items, fr_roots, view, d1, sls. cbn [outer_roots flat_map d_es d_local d_args d_static slot_items app fst]. unfold frame_roots. meq_app.
             - unfold oroots. rewrite Eo, Sh. unfold below, droots_l, slots_items, fr_roots, view, d1, sls. cbn [outer_roots flat_map d_es d_local d_args d_static slot_items app fst]. unfold frame_roots. in_app. }
           destruct (dI_clears _ _ _ _ H1) as (U2 & H2 & S2).
           pose proof (dclears_pair sls d1) as Pr. cbn [fold_left sls d1 d_heap d_refs] in Pr.
           pose proof (Exc sls) as Xe. cbn [fold_left sls] in Xe.
           cbn [negb andb]. cbv zeta.
           match goal with |- sIk Lk (mkState _ _ _ _ (fst ?hr) (snd ?hr) _ _ _ _) => set (HR := hr) in * end.
           assert (Eh : fst HR = d_heap (dclears sls d1)) by (rewrite <- Pr; reflexivity).
           assert (Er : snd HR = d_refs (dclears sls d1)) by (rewrite <- Pr; reflexivity).
           constructor; cbn [s_outer s_sc s_exc s_heap s_frames sc_prog].
           ++ exact P'.
           ++ exact O'.
           ++ exact Xe.
           ++ exists U2. eapply dI_rearr; try exact H2; try (symmetry; assumption); try apply meq_refl; try tauto.
              ** rewrite dclears_roots. unfold below, oroots, droots_l, slots_items, fr_roots, view, d1. cbn [outer_roots flat_map d_es d_local d_args d_static slot_items app s_outer s_sc s_fr s_frames sc_es sc_static sc_shared f_local f_args]. unfold frame_roots. meq_app.
              ** rewrite dclears_roots. unfold below, oroots, droots_l, slots_items, fr_roots, view, d1. cbn [outer_roots flat_map d_es d_local d_args d_static slot_items app s_outer s_sc s_fr s_frames sc_es sc_static sc_shared f_local f_args]. unfold frame_roots. in_app.
  - (* back to the caller in the same script *)
    set (sls := [f_local (s_fr s); f_args (s_fr s)]).
    assert (H1 : dI (flat_map slot_items sls ++ (sc_es (s_sc s) ++ slot_items (sc_static (s_sc s)) ++ frame_roots f' ++ fr_roots fs ++ oroots s ++ Lk)) [] U d1).
    { eapply dI_rearr; try exact H; try reflexivity; try apply meq_refl; try tauto.
      - unfold droots_l, slots_items, fr_roots, view, d1, sls. cbn [flat_map d_es d_local d_args d_static slot_items app]. unfold frame_roots. meq_app.
      - unfold droots_l, slots_items, fr_roots, view, d1, sls. cbn [flat_map d_es d_local d_args d_static slot_items app]. unfold frame_roots. in_app. }
    destruct (dI_clears _ _ _ _ H1) as (U2 & H2 & S2).
    pose proof (dclears_pair sls d1) as Pr. cbn [fold_left sls d1 d_heap d_refs] in Pr.
    pose proof (Exc sls) as Xe. cbn [fold_left sls] in Xe.
    match goal with |- sIk Lk (mkState _ _ _ _ (fst ?hr) (snd ?hr) _ _ _ _) => set (HR := hr) in * end.
    assert (Eh : fst HR = d_heap (dclears sls d1)) by (rewrite <- Pr; reflexivity).
    assert (Er : snd HR = d_refs (dclears sls d1)) by (rewrite <- Pr; reflexivity).
    constructor; cbn [s_outer s_sc s_exc s_heap s_frames sc_prog].
    + exact P.
    + exact O.
    + exact Xe.
    + exists U2. eapply dI_rearr; try exact H2; try (symmetry; assumption); try apply meq_refl; try tauto.
      * rewrite dclears_roots. unfold oroots, droots_l, slots_items, fr_roots, view, d1. cbn [flat_map d_es d_local d_args d_static slot_items app s_outer s_sc s_fr s_frames sc_es sc_static sc_shared f_local f_args]. unfold frame_roots. meq_app.
      * rewrite dclears_roots. unfold oroots, droots_l, slots_items, fr_roots, view, d1. cbn [flat_map d_es d_local d_args d_static slot_items app s_outer s_sc s_fr s_frames sc_es sc_static sc_shared f_local f_args]. unfold frame_roots. in_app.
Qed.

(* ---------- exceptions ---------- *)
Lemma unwind_sI Lk fuel : forall s s', sIk Lk s -> unwind fuel s = Some s' -> sIk Lk s'.
Proof.
  induction fuel as [|f IH]; intros s s' K; simpl; [discriminate|].
  destruct (trim_try (f_try (s_fr s))) as [|t ts].
  - pose proof (unload_sI Lk false (set_try s []) (set_try_sI Lk s [] K)) as Un.
    destruct (unload false (set_try s [])); try discriminate. apply IH; assumption.
  - destruct (t_state t), (has_catch t), (s_exc s) eqn:Ex; intros E;
      try (eapply jump_sI; [|exact E]; apply set_try_sI; exact K).
    eapply jump_sI; [|exact E].
    set (s1 := set_try s (mkTry (t_catch t) (t_finally t) (t_end t) ECatch :: ts)) in *.
    assert (K1 : sIk Lk s1) by (apply set_try_sI; exact K).
    assert (Vi : valid (s_heap s) i) by (destruct K as [_ _ Xe _]; rewrite Ex in Xe; exact Xe).
    pose proof K1 as [O1 P1 X1 (U & H1)].
    assert (K2 : sIk Lk (unview s1 (push i (view s1)))).
    { eapply (sI_unview s1 _ Lk Lk); [exact K1|apply shp_push|].
      exists U. apply dI_push_v; [exact H1|exact Vi]. }
    destruct K2 as [O2 P2 _ D2]. constructor; [exact O2|exact P2|exact I|exact D2].
Qed.

Lemma throw_sI Lk e s s' : sIk Lk s -> valid (s_heap s) e -> throw e s = Some s' -> sIk Lk s'.
Proof.
  intros [O P X D] V. unfold throw. apply unwind_sI. constructor; [exact O|exact P|exact V|exact D].
Qed.

(* ---------- conditional jumps pop their operands ---------- *)
Lemma jump_cond_I E op d b d' : dI0 E d -> jump_cond op d = Some (b, d') -> dI0 E d'.
Proof.
  intros [U H]. unfold jump_cond.
  destruct op; try discriminate; intros Q;
    repeat match type of Q with
    | match ?e with Some _ => _ | None => None end = Some _ =>
        let X := fresh "X" in destruct e as [[? ?]|] eqn:X; [|discriminate]
    end; inv Q;
    repeat match goal with
    | H : dI _ [] _ ?d, X : pop_int ?d = Some _ |- _ => pose proof (dI_pop_int _ _ _ _ _ H X); clear H X
    | H : dI _ [] _ ?d, X : pop_bool ?d = Some _ |- _ => pose proof (dI_pop_bool _ _ _ _ _ H X); clear H X
    end; eexists; eassumption.
Qed.

(* ---------- one instruction ---------- *)
Definition xres_sIk (Lk : list item) (r : xres) : Prop :=
  match r with XNext s' => sIk Lk s' | XHalt s' => sIk Lk s' | XFault => True end.
Definition xres_sI (r : xres) : Prop :=
  match r with XNext s' => sI s' | XHalt s' => sI s' | XFault => True end.

Lemma xopt_sI Lk o : (forall s', o = Some s' -> sIk Lk s') -> xres_sIk Lk (xopt o).
Proof. destruct o; simpl; auto. Qed.
Lemma xres_sIk_sI Lk r : xres_sIk Lk r -> xres_sI r.
Proof. destruct r; simpl; auto; intros H; exists Lk; exact H. Qed.

(* what a data instruction does to the invariant, as a premise: leaked counts Lk before, Lk2 after *)
Definition data_case (Lk2 : list item) (cip : Z) (op : opcode) (p : list Z) (s : state) : Prop :=
  xres_sIk Lk2 (match exec_data (mkEnv cip (prog_len s) (sc_sid (s_sc s))) op p (view s) with
                | DOk d => XNext (unview s d) | DThrow e d => xopt (throw e (unview s d)) | DFault => XFault end).

Lemma data_case_intro Lk Lk2 cip op p s :
  sIk Lk s -> dres_I (fr_roots (s_frames s) ++ oroots s ++ Lk2) (exec_data (mkEnv cip (prog_len s) (sc_sid (s_sc s))) op p (view s)) ->
  data_case Lk2 cip op p s.
Proof.
  intros K R. unfold data_case.
  pose proof (exec_data_shape (mkEnv cip (prog_len s) (sc_sid (s_sc s))) op p (view s)) as S.
  destruct (exec_data _ op p (view s)) as [d|e d|]; cbn [dres_I] in R; [| |exact I].
  - cbn [xres_sIk]. apply (sI_unview s d Lk Lk2); [exact K|exact S|exact R].
  - destruct R as [R Ve]. apply xopt_sI. intros s' E. eapply throw_sI; [| |exact E].
    + apply (sI_unview s d Lk Lk2); [exact K|exact S|exact R].
    + exact Ve.
Qed.

(* control instructions keep the leaked counts; a data instruction takes them from Lk to Lk2 *)
(* a handler for SYSCALL / CALLT that keeps the invariant, e.g. one that loads scripts (contract calls) *)
Definition sys_ok (sys : syshandler) : Prop := forall Lk op p s s', sIk Lk s -> sys op p s = Some s' -> sIk Lk s'.
Lemma no_sys_ok : sys_ok no_sys.
Proof. intros Lk op p s s' _ E. discriminate. Qed.

Lemma exec_op_core sys Lk Lk2 cip op p s :
  sys_ok sys -> sIk Lk s -> data_case Lk2 cip op p s ->
  xres_sIk Lk (exec_op sys cip op p s) \/ xres_sIk Lk2 (exec_op sys cip op p s).
Proof.
  intros SO K DD. pose proof K as [O P X V]. unfold data_case in DD.
  assert (JC : xres_sIk Lk (match jump_offset cip (prog_len s) p with
                      | None => XFault
                      | Some off => match jump_cond op (view s) with
                                    | None => XFault
                                    | Some (c, d) => let s0 := unview s d in if c then xopt (jump s0 off) else XNext s0
                                    end end)).
  { destruct (jump_offset cip (prog_len s) p); [|exact I].
    destruct (jump_cond op (view s)) as [[c d]|] eqn:E; [|exact I]. cbv zeta.
    assert (K' : sIk Lk (unview s d)).
    { apply (sI_unview s d Lk Lk); [exact K|eapply jump_cond_shape; eauto|eapply jump_cond_I; eauto]. }
    destruct c; [apply xopt_sI; intros s' J; eapply jump_sI; [|exact J]|]; exact K'. }
  destruct op; try (right; exact DD); try (left; exact JC); left; unfold exec_op.
  - (* CALL *) destruct (jump_offset cip (prog_len s) p); [|exact I]. apply xopt_sI. intros s' E. eapply call_sI; eauto.
  - (* CALLL *) destruct (jump_offset cip (prog_len s) p); [|exact I]. apply xopt_sI. intros s' E. eapply call_sI; eauto.
  - (* CALLA *) destruct (pop (view s)) as [[[] d]|] eqn:E; try exact I.
    case_if; [|exact I]. apply xopt_sI. intros s' Cl. eapply call_sI; [|exact Cl].
    apply (sI_unview s d Lk Lk); [exact K|eapply shp_pop; eauto|].
    destruct V as [U H]. eexists. eapply dI_pop; eauto.
  - (* CALLT *) apply xopt_sI. intros s' E. eapply SO; eauto.
  - (* TRY *) unfold xres_sIk. destruct (try_params TRY p) as [cp fp]. peel. apply set_try_sI; assumption.
  - (* TRYL *) unfold xres_sIk. destruct (try_params TRYL p) as [cp fp]. peel. apply set_try_sI; assumption.
  - (* ENDTRY *) destruct (f_try (s_fr s)) as [|t ts]; [exact I|].
    destruct (t_state t); try exact I; (destruct (jump_offset cip (prog_len s) p); [|exact I]); case_if;
      apply xopt_sI; intros s' J; (eapply jump_sI; [|exact J]); apply set_try_sI; assumption.
  - (* ENDTRYL *) destruct (f_try (s_fr s)) as [|t ts]; [exact I|].
    destruct (t_state t); try exact I; (destruct (jump_offset cip (prog_len s) p); [|exact I]); case_if;
      apply xopt_sI; intros s' J; (eapply jump_sI; [|exact J]); apply set_try_sI; assumption.
  - (* ENDFINALLY *) destruct (s_exc s) eqn:Ex.
    + apply xopt_sI. intros s' E. refine (throw_sI Lk _ _ _ K _ E). exact X.
    + destruct (f_try (s_fr s)) as [|t ts]; [exact I|].
      apply xopt_sI; intros s' J. eapply jump_sI; [|exact J]. apply set_try_sI; assumption.
  - (* RET *) unfold do_ret. pose proof (unload_sI Lk true s K). destruct (unload true s); simpl; auto.
  - (* SYSCALL *) apply xopt_sI. intros s' E. eapply SO; eauto.
Qed.

(* every instruction, with possibly more leaked counts *)
Lemma exec_op_sI_sys sys cip op p s : sys_ok sys -> sI s -> nonneg_bytes p -> xres_sI (exec_op sys cip op p s).
Proof.
  intros SO [Lk K] NN.
  destruct (exec_data_IL (mkEnv cip (prog_len s) (sc_sid (s_sc s))) op p (view s) _ NN (si_d _ _ K)) as (Lk' & R).
  assert (DD : data_case (Lk' ++ Lk) cip op p s).
  { apply (data_case_intro Lk); [exact K|].
    destruct (exec_data _ op p (view s)) as [d|e d|]; cbn [dres_I] in *; [| |exact I].
    - eapply dI0_meq; [exact R|meq_app|in_app].
    - destruct R as [R Ve]. split; [|exact Ve]. eapply dI0_meq; [exact R|meq_app|in_app]. }
  destruct (exec_op_core sys Lk (Lk' ++ Lk) cip op p s SO K DD) as [H|H]; eapply xres_sIk_sI; exact H.
Qed.
Lemma exec_op_sI cip op p s : sI s -> nonneg_bytes p -> xres_sI (exec_op no_sys cip op p s).
Proof. apply exec_op_sI_sys. exact no_sys_ok. Qed.

(* every instruction that starts on an acyclic heap: no new leaked counts *)
Lemma exec_op_sIk_acyc_sys sys Lk cip op p s :
  sys_ok sys -> sIk Lk s -> acyc (s_heap s) -> nonneg_bytes p -> xres_sIk Lk (exec_op sys cip op p s).
Proof.
  intros SO K Ac NN.
  assert (DD : data_case Lk cip op p s).
  { apply (data_case_intro Lk); [exact K|]. apply exec_data_E; [exact NN|exact Ac|exact (si_d _ _ K)]. }
  destruct (exec_op_core sys Lk Lk cip op p s SO K DD) as [H|H]; exact H.
Qed.
Lemma exec_op_sIk_acyc Lk cip op p s :
  sIk Lk s -> acyc (s_heap s) -> nonneg_bytes p -> xres_sIk Lk (exec_op no_sys cip op p s).
Proof. apply exec_op_sIk_acyc_sys. exact no_sys_ok. Qed.

Theorem step_with_sI sys s :
  sys_ok sys -> sI s -> match step_with sys s with Running s' => sI s' | Halted s' => sI s' | Faulted _ => True end.
Proof.
  intros SO K. unfold step_with.
  assert (Pp : forall g r, xres_sI r ->
              match post g r with Running s' => sI s' | Halted s' => sI s' | Faulted _ => True end).
  { intros g r R. destruct r; simpl; try exact I; case_if; try exact I; assumption. }
  destruct K as [Lk K].
  destruct (decode (sc_prog (s_sc s)) (f_ip (s_fr s))) as [| |op p next] eqn:D; [|exact I|].
  - apply Pp. unfold do_ret. pose proof (unload_sI Lk true s K). destruct (unload true s); simpl; auto; exists Lk; assumption.
  - case_if; [exact I|]. apply Pp. apply exec_op_sI_sys; [exact SO|exists Lk; apply set_gas_ip_sI; assumption|].
    exact (decode_param_nonneg _ _ _ _ _ (si_prog _ s K) D).
Qed.
Theorem step_sI s :
  sI s -> match step s with Running s' => sI s' | Halted s' => sI s' | Faulted _ => True end.
Proof. apply step_with_sI. exact no_sys_ok. Qed.

Theorem step_with_sIk_acyc sys Lk s :
  sys_ok sys -> sIk Lk s -> acyc (s_heap s) ->
  match step_with sys s with Running s' => sIk Lk s' | Halted s' => sIk Lk s' | Faulted _ => True end.
Proof.
  intros SO K Ac. unfold step_with.
  assert (Pp : forall g r, xres_sIk Lk r ->
              match post g r with Running s' => sIk Lk s' | Halted s' => sIk Lk s' | Faulted _ => True end).
  { intros g r R. destruct r; simpl; try exact I; case_if; try exact I; assumption. }
  destruct (decode (sc_prog (s_sc s)) (f_ip (s_fr s))) as [| |op p next] eqn:D; [|exact I|].
  - apply Pp. unfold do_ret. pose proof (unload_sI Lk true s K). destruct (unload true s); simpl; auto.
  - case_if; [exact I|]. apply Pp. apply exec_op_sIk_acyc_sys; [exact SO|apply set_gas_ip_sI; assumption|exact Ac|].
    exact (decode_param_nonneg _ _ _ _ _ (si_prog _ s K) D).
Qed.
Theorem step_sIk_acyc Lk s :
  sIk Lk s -> acyc (s_heap s) ->
  match step s with Running s' => sIk Lk s' | Halted s' => sIk Lk s' | Faulted _ => True end.
Proof. apply step_with_sIk_acyc. exact no_sys_ok. Qed.

Lemma init_sIk prog sid base limit : nonneg_bytes prog -> sIk [] (init_state prog sid base limit).
Proof.
  intros H. constructor; cbn; [exact H|constructor|exact I|]. exists [].
  constructor; [|constructor|constructor]. constructor; [|constructor|constructor|constructor].
  constructor; [constructor|intros l; destruct l; reflexivity|reflexivity].
Qed.
Lemma init_sI prog sid base limit : nonneg_bytes prog -> sI (init_state prog sid base limit).
Proof. intros H. exists []. apply init_sIk. exact H. Qed.

Theorem run_sI : forall n s, sI s ->
  match run n s with Running s' => sI s' | Halted s' => sI s' | Faulted _ => True end.
Proof.
  induction n as [|n IH]; intros s K; simpl; [exact K|].
  pose proof (step_sI s K) as S. destruct (step s) as [s1|s1|g]; [apply IH; assumption|assumption|exact I].
Qed.

(* The item counter never under-counts: after every instruction of every execution of a script (whose bytes are
   non-negative, i.e. a byte string) and at HALT, what a walk of stacks and slots finds is at most the counter. *)
Theorem refs_never_undercount n prog sid base limit s :
  nonneg_bytes prog ->
  (run n (init_state prog sid base limit) = Running s \/ run n (init_state prog sid base limit) = Halted s) ->
  reach_count s <= s_refs s.
Proof.
  intros NN R. pose proof (run_sI n _ (init_sI prog sid base limit NN)) as K.
  destruct R as [R|R]; rewrite R in K; apply sI_sound; exact K.
Qed.

(* ---------- exactness while no cycle exists ----------
   [run_acyclic n s]: the heap is acyclic in every state the first n instructions started from s pass through
   (incl. s and the state reached) - "no instruction ever closed a cycle" *)
Fixpoint run_acyclic (n : nat) (s : state) : Prop :=
  acyc (s_heap s) /\
  match n with
  | O => True
  | S n' => match step s with Running s' => run_acyclic n' s' | Halted s' => acyc (s_heap s') | Faulted _ => True end
  end.

Lemma run_acyclic_here n s : run_acyclic n s -> acyc (s_heap s).
Proof. destruct n; simpl; tauto. Qed.

Theorem run_exact : forall n s, sIk [] s -> run_acyclic n s ->
  match run n s with
  | Running s' => reach_count s' = s_refs s'
  | Halted s' => reach_count s' = s_refs s'
  | Faulted _ => True
  end.
Proof.
  induction n as [|n IH]; intros s K [Ac R]; simpl; [apply sIk_exact; assumption|].
  pose proof (step_sIk_acyc [] s K Ac) as S.
  destruct (step s) as [s1|s1|g]; [apply IH; assumption|apply sIk_exact; assumption|exact I].
Qed.

(* The item accounting is exact as long as no cyclic structure was built. *)
Theorem refs_exact_acyclic n prog sid base limit :
  nonneg_bytes prog -> run_acyclic n (init_state prog sid base limit) ->
  match run n (init_state prog sid base limit) with
  | Running s => reach_count s = s_refs s
  | Halted s => reach_count s = s_refs s
  | Faulted _ => True
  end.
Proof. intros NN R. apply run_exact; [apply init_sIk; exact NN|exact R]. Qed.

(* the same hypothesis, decidable (sound: [acycb_sound]) *)
Fixpoint run_acyclicb (n : nat) (s : state) : bool :=
  acycb (s_heap s) &&
  match n with
  | O => true
  | S n' => match step s with Running s' => run_acyclicb n' s' | Halted s' => acycb (s_heap s') | Faulted _ => true end
  end.
Lemma run_acyclicb_sound : forall n s, run_acyclicb n s = true -> run_acyclic n s.
Proof.
  induction n as [|n IH]; intros s; simpl; rewrite andb_true_iff; intros [A R]; (split; [apply acycb_sound; exact A|]); [exact I|].
  destruct (step s); [apply IH; exact R|apply acycb_sound; exact R|exact I].
Qed.

(* ================= several scripts on one VM (contract calls) ================= *)
(* arguments moved from the caller's stack to the callee's (the contract call) *)
Lemma pop_n_dI : forall n E U d its d', dI E [] U d -> pop_n n d = Some (its, d') ->
  exists U', dI E [] U' d' /\ shp d d' /\ Forall (valid (d_heap d')) its.
Proof.
  induction n as [|n IH]; intros E U d its d' H; simpl.
  - intros Q; inv Q. exists U. split; [exact H|]. split; [unfold shp; apply same_shape_refl|constructor].
  - destruct (pop d) as [[it d1]|] eqn:P; [|discriminate].
    destruct (pop_n n d1) as [[its1 d2]|] eqn:Pn; [|discriminate]. intros Q; inv Q.
    pose proof (dI_pop _ _ _ _ _ H P) as H1.
    destruct (IH _ _ _ _ _ H1 Pn) as (U' & H2 & S2 & V2). exists U'. split; [exact H2|]. split.
    + unfold shp in *. eapply same_shape_trans; [apply (shp_pop _ _ _ P)|exact S2].
    + constructor; [|exact V2]. eapply valid_shape; [exact S2|]. destruct H1 as [_ Hu _]. inv Hu. assumption.
Qed.
Lemma push_all_sI Lk : forall its s, sIk Lk s -> Forall (valid (s_heap s)) its -> sIk Lk (unview s (push_all its (view s))).
Proof.
  intros its s K V.
  assert (G : exists U, dI (fr_roots (s_frames s) ++ oroots s ++ Lk) [] U (push_all its (view s)) /\ shp (view s) (push_all its (view s))).
  { destruct K as [_ _ _ (U & H)]. induction its as [|it t IH]; simpl.
    - exists U. split; [exact H|unfold shp; apply same_shape_refl].
    - inv V. destruct (IH H3) as (U1 & H1 & S1). exists U1. split.
      + apply dI_push_v; [exact H1|]. eapply valid_shape; [exact S1|assumption].
      + unfold shp in *. eapply same_shape_trans; [exact S1|apply (shp_push it)]. }
  destruct G as (U & H & S). eapply (sI_unview s _ Lk Lk); [exact K|exact S|exists U; exact H].
Qed.

Lemma load_checked_sI Lk s prog sid rv s' :
  sIk Lk s -> nonneg_bytes prog -> load_checked s prog sid rv = Some s' -> sIk Lk s'.
Proof. unfold load_checked. case_if; [discriminate|]. intros K NP Q; inv Q. apply load_script_sI; assumption. Qed.

Lemma load_mode_sI check scripts id Lk s s' :
  Forall nonneg_bytes scripts -> sIk Lk s -> load_mode check scripts id s = Some s' -> sIk Lk s'.
Proof.
  intros F K. unfold load_mode.
  assert (LD : forall s0 prog sid rv s1, sIk Lk s0 -> nonneg_bytes prog ->
                 (if check then load_checked s0 prog sid rv else Some (load_script s0 prog sid rv)) = Some s1 -> sIk Lk s1).
  { intros s0 prog sid rv s1 K0 NP. destruct check; [apply load_checked_sI; assumption|]. intros Q; inv Q. apply load_script_sI; assumption. }
  case_if; [intros E; eapply call_sI; eauto|].
  case_if; [discriminate|].
  destruct (nth_error scripts (Z.to_nat (id mod 256 - 1))) as [prog|] eqn:E; [|discriminate].
  assert (NP : nonneg_bytes prog) by (rewrite Forall_forall in F; apply F; eapply nth_error_In; eauto).
  case_if; [case_if; apply LD; assumption|].
  case_if; [apply LD; assumption|].
  case_if; [apply LD; assumption|].
  case_if.
  - match goal with |- (match ?x with Some _ => _ | None => None end) = _ -> _ => destruct x as [s1|] eqn:L; [|discriminate] end.
    intros C. eapply call_sI; [|exact C]. eapply LD; eauto.
  - case_if; [|discriminate].
    destruct (pop_n (Z.to_nat (id / 4096 mod 16)) (view s)) as [[its d]|] eqn:Pn; [|discriminate].
    match goal with |- (match ?x with Some _ => _ | None => None end) = _ -> _ => destruct x as [s1|] eqn:L; [|discriminate] end.
    intros Q; inv Q. pose proof K as [_ _ _ (U & H)].
    destruct (pop_n_dI _ _ _ _ _ _ H Pn) as (U' & H' & S' & V').
    assert (K1 : sIk Lk (unview s d)) by (eapply (sI_unview s d Lk Lk); [exact K|exact S'|exists U'; exact H']).
    assert (K2 : sIk Lk s1) by (eapply LD; eauto).
    apply push_all_sI; [exact K2|].
    assert (Eh : s_heap s1 = d_heap d).
    { destruct check; [unfold load_checked in L; revert L; case_if; [discriminate|]; intros Q|]; [inv Q|inv L]; reflexivity. }
    rewrite Eh. exact V'.
Qed.

Lemma sys_load_ok scripts : Forall nonneg_bytes scripts -> sys_ok (sys_load scripts).
Proof. intros F Lk op p s s' K. unfold sys_load. destruct op; try discriminate. apply load_mode_sI; assumption. Qed.
(* (the counter invariant does not depend on the depth check: the unchecked loaders keep it as well) *)
Lemma sys_load_unchecked_ok scripts : Forall nonneg_bytes scripts -> sys_ok (sys_load_unchecked scripts).
Proof. intros F Lk op p s s' K. unfold sys_load_unchecked. destruct op; try discriminate. apply load_mode_sI; assumption. Qed.

Theorem run_with_sI sys : sys_ok sys -> forall n s, sI s ->
  match run_with sys n s with Running s' => sI s' | Halted s' => sI s' | Faulted _ => True end.
Proof.
  intros SO. induction n as [|n IH]; intros s K; simpl; [exact K|].
  pose proof (step_with_sI sys s SO K) as S. destruct (step_with sys s) as [s1|s1|g]; [apply IH; assumption|assumption|exact I].
Qed.

(* never under-counts, with any number of scripts loaded on top of each other and exceptions unwinding across them *)
Theorem refs_never_undercount_multi n prog scripts sid base limit s :
  nonneg_bytes prog -> Forall nonneg_bytes scripts ->
  (run_with (sys_load scripts) n (init_state prog sid base limit) = Running s \/
   run_with (sys_load scripts) n (init_state prog sid base limit) = Halted s) ->
  reach_count s <= s_refs s.
Proof.
  intros NN F R. pose proof (run_with_sI _ (sys_load_ok _ F) n _ (init_sI prog sid base limit NN)) as K.
  destruct R as [R|R]; rewrite R in K; apply sI_sound; exact K.
Qed.

Fixpoint run_acyclic_with (sys : syshandler) (n : nat) (s : state) : Prop :=
  acyc (s_heap s) /\
  match n with
  | O => True
  | S n' => match step_with sys s with
            | Running s' => run_acyclic_with sys n' s' | Halted s' => acyc (s_heap s') | Faulted _ => True end
  end.

Theorem run_with_exact sys : sys_ok sys -> forall n s, sIk [] s -> run_acyclic_with sys n s ->
  match run_with sys n s with
  | Running s' => reach_count s' = s_refs s'
  | Halted s' => reach_count s' = s_refs s'
  | Faulted _ => True
  end.
Proof.
  intros SO. induction n as [|n IH]; intros s K [Ac R]; simpl; [apply sIk_exact; assumption|].
  pose proof (step_with_sIk_acyc sys [] s SO K Ac) as S.
  destruct (step_with sys s) as [s1|s1|g]; [apply IH; assumption|apply sIk_exact; assumption|exact I].
Qed.

(* exact while no cycle was built, likewise *)
Theorem refs_exact_acyclic_multi n prog scripts sid base limit :
  nonneg_bytes prog -> Forall nonneg_bytes scripts ->
  run_acyclic_with (sys_load scripts) n (init_state prog sid base limit) ->
  match run_with (sys_load scripts) n (init_state prog sid base limit) with
  | Running s => reach_count s = s_refs s
  | Halted s => reach_count s = s_refs s
  | Faulted _ => True
  end.
Proof. intros NN F R. apply (run_with_exact _ (sys_load_ok _ F)); [apply init_sIk; exact NN|exact R]. Qed.

Fixpoint run_acyclicb_with (sys : syshandler) (n : nat) (s : state) : bool :=
  acycb (s_heap s) &&
  match n with
  | O => true
  | S n' => match step_with sys s with
            | Running s' => run_acyclicb_with sys n' s' | Halted s' => acycb (s_heap s') | Faulted _ => true end
  end.
Lemma run_acyclicb_with_sound sys : forall n s, run_acyclicb_with sys n s = true -> run_acyclic_with sys n s.
Proof.
  induction n as [|n IH]; intros s; simpl; rewrite andb_true_iff; intros [A R]; (split; [apply acycb_sound; exact A|]); [exact I|].
  destruct (step_with sys s); [apply IH; exact R|apply acycb_sound; exact R|exact I].
Qed.
