(* The in-degree invariant at the level of the machine state: every instruction of [step] (data instructions through
   [exec_data_IL], jumps, CALL/CALLA, RET and unloading, TRY/ENDTRY/ENDFINALLY, THROW and unwinding) preserves

     sI s :  GI (s_heap s) (s_refs s) [] (stack ++ slots of all contexts ++ Lk)      for some list Lk of leaked counts

   and [sI] gives reach_count s <= s_refs s ([G_sound]).  The bare VM runs one script context (s_outer = []). *)
From NG Require Import VM.Model VM.LimitsData VM.Reach VM.Total VM.RefsFlatStep VM.RefsInv VM.RefsMoves VM.RefsData VM.RefsOps
  VM.RefsStale VM.RefsComp VM.RefsShape VM.RefsExact VM.RefsExactOps.
Open Scope Z_scope.

Definition fr_roots (fs : list frame) : list item := flat_map frame_roots fs.

(* [sIk Lk s]: the invariant with the leaked counts Lk made explicit (Lk = [] : the counter is exact up to cycles) *)
Record sIk (Lk : list item) (s : state) : Prop := mksIk {
  si_outer : s_outer s = [];
  si_prog : nonneg_bytes (sc_prog (s_sc s));
  si_exc : match s_exc s with Some e => valid (s_heap s) e | None => True end;
  si_d : dI0 (fr_roots (s_frames s) ++ Lk) (view s)
}.
Definition sI (s : state) : Prop := exists Lk, sIk Lk s.

Ltac meq_app := split; [intros ?l; repeat rewrite ?occ_app, ?occ_cons, ?occ_nil; lia
                       |repeat rewrite ?zlen_app, ?zlen_cons', ?zlen_nil; lia].
Ltac in_app := let a := fresh "a" in intros a; repeat (rewrite ?in_app_iff; simpl); tauto.

(* ---------- what the invariant is for ---------- *)
Theorem sIk_sound Lk s : sIk Lk s -> reach_count s <= s_refs s.
Proof.
  intros [O _ _ (U & [Hgi _ _])]. destruct Hgi as [Hg _ _ _].
  unfold reach_count. eapply G_sound; [exact Hg| |].
  - unfold roots. rewrite O. cbn [outer_roots]. unfold droots_l, slots_items, fr_roots, frame_roots, view.
    cbn [d_es d_local d_args d_static]. in_app.
  - unfold roots. rewrite O. cbn [outer_roots]. unfold droots_l, slots_items, fr_roots, frame_roots, view.
    cbn [d_es d_local d_args d_static]. pose proof (zlen_nonneg Lk). repeat rewrite ?zlen_app, ?zlen_nil. lia.
Qed.

Theorem sI_sound s : sI s -> reach_count s <= s_refs s.
Proof. intros [Lk H]. eapply sIk_sound; eauto. Qed.

(* without leaked counts and on an acyclic heap the counter is exact *)
Theorem sIk_exact s : sIk [] s -> acyc (s_heap s) -> reach_count s = s_refs s.
Proof.
  intros [O _ _ (U & [Hgi _ _])] Ac. destruct Hgi as [Hg _ _ _].
  unfold reach_count. eapply G_exact; [exact Hg|exact Ac| | |].
  - unfold roots. rewrite O. cbn [outer_roots]. unfold droots_l, slots_items, fr_roots, frame_roots, view.
    cbn [d_es d_local d_args d_static]. in_app.
  - unfold roots. rewrite O. cbn [outer_roots]. unfold droots_l, slots_items, fr_roots, frame_roots, view.
    cbn [d_es d_local d_args d_static]. in_app.
  - unfold roots. rewrite O. cbn [outer_roots]. unfold droots_l, slots_items, fr_roots, frame_roots, view.
    cbn [d_es d_local d_args d_static]. repeat rewrite ?zlen_app, ?zlen_nil. lia.
Qed.

(* ---------- small tools ---------- *)
Lemma view_unview s d : view (unview s d) = d.
Proof. destruct d; reflexivity. Qed.

Lemma dI0_meq E E' d : dI0 E d -> meq E E' -> (forall a, In a E' -> In a E) -> dI0 E' d.
Proof. intros [U H] M S. exists U. eapply dI_E_meq; eauto. Qed.

Lemma sI_unview s d Lk0 Lk : sIk Lk0 s -> shp (view s) d -> dI0 (fr_roots (s_frames s) ++ Lk) d -> sIk Lk (unview s d).
Proof.
  intros [O P X _] S H. constructor.
  - exact O.
  - exact P.
  - change (s_exc (unview s d)) with (s_exc s). change (s_heap (unview s d)) with (d_heap d).
    destruct (s_exc s); [|exact I]. eapply valid_shape; [exact S|exact X].
  - rewrite view_unview. exact H.
Qed.

Lemma sI_same_data Lk s s' :
  sIk Lk s -> s_outer s' = s_outer s -> sc_prog (s_sc s') = sc_prog (s_sc s) -> s_exc s' = s_exc s -> s_heap s' = s_heap s ->
  s_frames s' = s_frames s -> view s' = view s -> sIk Lk s'.
Proof.
  intros [O P X D] E1 E2 E3 E4 E5 E6. constructor.
  - rewrite E1; exact O.
  - rewrite E2; exact P.
  - rewrite E3, E4; exact X.
  - rewrite E5, E6; exact D.
Qed.

Lemma jump_sI Lk s pos s' : sIk Lk s -> jump s pos = Some s' -> sIk Lk s'.
Proof. unfold jump. case_if; [|discriminate]. intros H E; inv E. eapply sI_same_data; [exact H|reflexivity..]. Qed.
Lemma set_try_sI Lk s t : sIk Lk s -> sIk Lk (set_try s t).
Proof. intros H. eapply sI_same_data; [exact H|reflexivity..]. Qed.
Lemma set_gas_ip_sI Lk s g n : sIk Lk s -> sIk Lk (set_ip (set_gas s g) n).
Proof. intros H. eapply sI_same_data; [exact H|reflexivity..]. Qed.

(* ---------- CALL ---------- *)
Lemma call_sI Lk s pos s' : sIk Lk s -> call s pos = Some s' -> sIk Lk s'.
Proof.
  unfold call. repeat case_if; try discriminate. intros [O P X (U & H)] Q; inv Q. constructor; cbn [s_outer s_sc s_exc s_heap s_frames].
  - exact O.
  - exact P.
  - exact X.
  - exists U. eapply dI_rearr; try exact H; try reflexivity; try apply meq_refl; try tauto.
    + unfold droots_l, slots_items, fr_roots, frame_roots, view. cbn [flat_map d_es d_local d_args d_static f_local f_args s_fr s_sc slot_items].
      meq_app.
    + unfold droots_l, slots_items, fr_roots, frame_roots, view. cbn [flat_map d_es d_local d_args d_static f_local f_args s_fr s_sc slot_items].
      in_app.
Qed.

(* ---------- unloading ---------- *)
Lemma clear_slot_shape sl h r : same_shape h (fst (clear_slot sl (h, r))).
Proof.
  destruct sl as [its|]; cbn [clear_slot fst snd]; [|apply same_shape_refl].
  apply rc_only_shape. unfold ref_remove_list. apply ref_remove_wl_rc_only.
Qed.

Lemma dI_clear_slot sl E U d :
  dI (slot_items sl ++ E) [] U d ->
  exists U', dI E [] U' (set_mem d (fst (clear_slot sl (d_heap d, d_refs d))) (snd (clear_slot sl (d_heap d, d_refs d)))).
Proof.
  destruct sl as [its|]; cbn [clear_slot slot_items fst snd]; intros H.
  - apply dI_remove_list in H. unfold d_remove_list in H. exists (its ++ U).
    destruct (ref_remove_list (d_heap d) (d_refs d) its) as [h' r']. exact H.
  - exists U. eapply dI_rearr; try exact H; try reflexivity; try apply meq_refl; try tauto.
Qed.

(* the data state with the slots of the executing context emptied, their content held in E *)
Lemma unload_sI Lk b s : sIk Lk s -> match unload b s with UNext s' => sIk Lk s' | ULast s' => sIk Lk s' | UFault => True end.
Proof.
  intros [O P X (U & H)]. unfold unload. rewrite O.
  set (d0 := mkD (sc_es (s_sc s)) None None (sc_static (s_sc s)) (s_heap s) (s_refs s)).
  destruct (s_frames s) as [|f' fs] eqn:Ef.
  - (* last context *)
    set (d1 := mkD (sc_es (s_sc s)) None None None (s_heap s) (s_refs s)).
    assert (H1 : dI (slot_items (f_local (s_fr s)) ++ slot_items (f_args (s_fr s)) ++ slot_items (sc_static (s_sc s)) ++ Lk) [] U d1).
    { eapply dI_rearr; try exact H; try reflexivity; try apply meq_refl; try tauto.
      - unfold droots_l, slots_items, fr_roots, view, d1. cbn [flat_map d_es d_local d_args d_static slot_items app]. meq_app.
      - unfold droots_l, slots_items, fr_roots, view, d1. cbn [flat_map d_es d_local d_args d_static slot_items app]. in_app. }
    destruct (dI_clear_slot _ _ _ _ H1) as (U2 & H2). cbn [d_heap d_refs d1] in H2.
    set (hr1 := clear_slot (f_local (s_fr s)) (s_heap s, s_refs s)) in *.
    destruct (dI_clear_slot _ _ _ _ H2) as (U3 & H3). cbn [d_heap d_refs set_mem] in H3.
    assert (Q1 : (fst hr1, snd hr1) = hr1) by (destruct hr1; reflexivity). rewrite Q1 in H3.
    set (hr2 := clear_slot (f_args (s_fr s)) hr1) in *.
    destruct (dI_clear_slot _ _ _ _ H3) as (U4 & H4). cbn [d_heap d_refs set_mem] in H4.
    assert (Q2 : (fst hr2, snd hr2) = hr2) by (destruct hr2; reflexivity). rewrite Q2 in H4.
    set (hr3 := clear_slot (sc_static (s_sc s)) hr2) in *.
    constructor; cbn [s_outer s_sc s_exc s_heap s_frames sc_prog].
    + reflexivity.
    + exact P.
    + destruct (s_exc s); [|exact I].
      assert (S : same_shape (s_heap s) (fst hr3)).
      { eapply same_shape_trans; [apply (clear_slot_shape (f_local (s_fr s)) (s_heap s) (s_refs s))|]. fold hr1.
        eapply same_shape_trans; [apply (clear_slot_shape (f_args (s_fr s)) (fst hr1) (snd hr1))|]. rewrite Q1. fold hr2.
        pose proof (clear_slot_shape (sc_static (s_sc s)) (fst hr2) (snd hr2)) as S3. rewrite Q2 in S3. exact S3. }
      eapply valid_shape; [exact S|exact X].
    + exists U4. exact H4.
  - (* back to the caller in the same script *)
    set (d1 := mkD (sc_es (s_sc s)) None None (sc_static (s_sc s)) (s_heap s) (s_refs s)).
    assert (H1 : dI (slot_items (f_local (s_fr s)) ++ slot_items (f_args (s_fr s)) ++ frame_roots f' ++ fr_roots fs ++ Lk) [] U d1).
    { eapply dI_rearr; try exact H; try reflexivity; try apply meq_refl; try tauto.
      - unfold droots_l, slots_items, fr_roots, view, d1. cbn [flat_map d_es d_local d_args d_static slot_items app]. meq_app.
      - unfold droots_l, slots_items, fr_roots, view, d1. cbn [flat_map d_es d_local d_args d_static slot_items app]. in_app. }
    destruct (dI_clear_slot _ _ _ _ H1) as (U2 & H2). cbn [d_heap d_refs d1] in H2.
    set (hr1 := clear_slot (f_local (s_fr s)) (s_heap s, s_refs s)) in *.
    destruct (dI_clear_slot _ _ _ _ H2) as (U3 & H3). cbn [d_heap d_refs set_mem] in H3.
    assert (Q1 : (fst hr1, snd hr1) = hr1) by (destruct hr1; reflexivity). rewrite Q1 in H3.
    set (hr2 := clear_slot (f_args (s_fr s)) hr1) in *.
    constructor; cbn [s_outer s_sc s_exc s_heap s_frames sc_prog].
    + reflexivity.
    + exact P.
    + destruct (s_exc s); [|exact I].
      assert (S : same_shape (s_heap s) (fst hr2)).
      { eapply same_shape_trans; [apply (clear_slot_shape (f_local (s_fr s)) (s_heap s) (s_refs s))|]. fold hr1.
        pose proof (clear_slot_shape (f_args (s_fr s)) (fst hr1) (snd hr1)) as S2. rewrite Q1 in S2. exact S2. }
      eapply valid_shape; [exact S|exact X].
    + exists U3. eapply dI_rearr; try exact H3; try reflexivity; try apply meq_refl; try tauto.
      * unfold droots_l, slots_items, fr_roots, frame_roots, view, d1.
        cbn [flat_map d_es d_local d_args d_static slot_items app set_mem s_fr s_sc]. meq_app.
      * unfold droots_l, slots_items, fr_roots, frame_roots, view, d1.
        cbn [flat_map d_es d_local d_args d_static slot_items app set_mem s_fr s_sc]. in_app.
Qed.

(* ---------- exceptions ---------- *)
Lemma unwind_sI Lk fuel : forall s s', sIk Lk s -> unwind fuel s = Some s' -> sIk Lk s'.
Proof.
  induction fuel as [|f IH]; intros s s' K; simpl; [discriminate|].
  destruct (trim_try (f_try (s_fr s))) as [|t ts].
  - pose proof (unload_sI Lk false (set_try s []) (set_try_sI Lk s [] K)) as Un.
    destruct (unload false (set_try s [])); try discriminate. apply IH; assumption.
  - destruct (t_state t), (has_catch t), (s_exc s) eqn:Ex; intros E;
      try (eapply jump_sI; [|exact E]; apply set_try_sI; exact K).
    eapply jump_sI; [|exact E].
    set (s1 := set_try s (mkTry (t_catch t) (t_finally t) (t_end t) ECatch :: ts)) in *.
    assert (K1 : sIk Lk s1) by (apply set_try_sI; exact K).
    assert (Vi : valid (s_heap s) i) by (destruct K as [_ _ Xe _]; rewrite Ex in Xe; exact Xe).
    pose proof K1 as [O1 P1 X1 (U & H1)].
    assert (K2 : sIk Lk (unview s1 (push i (view s1)))).
    { eapply (sI_unview s1 _ Lk Lk); [exact K1|apply shp_push|].
      exists U. apply dI_push_v; [exact H1|exact Vi]. }
    destruct K2 as [O2 P2 _ D2]. constructor; [exact O2|exact P2|exact I|exact D2].
Qed.

Lemma throw_sI Lk e s s' : sIk Lk s -> valid (s_heap s) e -> throw e s = Some s' -> sIk Lk s'.
Proof.
  intros [O P X D] V. unfold throw. apply unwind_sI. constructor; [exact O|exact P|exact V|exact D].
Qed.

(* ---------- conditional jumps pop their operands ---------- *)
Lemma jump_cond_I E op d b d' : dI0 E d -> jump_cond op d = Some (b, d') -> dI0 E d'.
Proof.
  intros [U H]. unfold jump_cond.
  destruct op; try discriminate; intros Q;
    repeat match type of Q with
    | match ?e with Some _ => _ | None => None end = Some _ =>
        let X := fresh "X" in destruct e as [[? ?]|] eqn:X; [|discriminate]
    end; inv Q;
    repeat match goal with
    | H : dI _ [] _ ?d, X : pop_int ?d = Some _ |- _ => pose proof (dI_pop_int _ _ _ _ _ H X); clear H X
    | H : dI _ [] _ ?d, X : pop_bool ?d = Some _ |- _ => pose proof (dI_pop_bool _ _ _ _ _ H X); clear H X
    end; eexists; eassumption.
Qed.

(* ---------- one instruction ---------- *)
Definition xres_sIk (Lk : list item) (r : xres) : Prop :=
  match r with XNext s' => sIk Lk s' | XHalt s' => sIk Lk s' | XFault => True end.
Definition xres_sI (r : xres) : Prop :=
  match r with XNext s' => sI s' | XHalt s' => sI s' | XFault => True end.

Lemma xopt_sI Lk o : (forall s', o = Some s' -> sIk Lk s') -> xres_sIk Lk (xopt o).
Proof. destruct o; simpl; auto. Qed.
Lemma xres_sIk_sI Lk r : xres_sIk Lk r -> xres_sI r.
Proof. destruct r; simpl; auto; intros H; exists Lk; exact H. Qed.

(* what a data instruction does to the invariant, as a premise: leaked counts Lk before, Lk2 after *)
Definition data_case (Lk2 : list item) (cip : Z) (op : opcode) (p : list Z) (s : state) : Prop :=
  xres_sIk Lk2 (match exec_data (mkEnv cip (prog_len s) (sc_sid (s_sc s))) op p (view s) with
                | DOk d => XNext (unview s d) | DThrow e d => xopt (throw e (unview s d)) | DFault => XFault end).

Lemma data_case_intro Lk Lk2 cip op p s :
  sIk Lk s -> dres_I (fr_roots (s_frames s) ++ Lk2) (exec_data (mkEnv cip (prog_len s) (sc_sid (s_sc s))) op p (view s)) ->
  data_case Lk2 cip op p s.
Proof.
  intros K R. unfold data_case.
  pose proof (exec_data_shape (mkEnv cip (prog_len s) (sc_sid (s_sc s))) op p (view s)) as S.
  destruct (exec_data _ op p (view s)) as [d|e d|]; cbn [dres_I] in R; [| |exact I].
  - cbn [xres_sIk]. apply (sI_unview s d Lk Lk2); [exact K|exact S|exact R].
  - destruct R as [R Ve]. apply xopt_sI. intros s' E. eapply throw_sI; [| |exact E].
    + apply (sI_unview s d Lk Lk2); [exact K|exact S|exact R].
    + exact Ve.
Qed.

(* control instructions keep the leaked counts; a data instruction takes them from Lk to Lk2 *)
Lemma exec_op_core Lk Lk2 cip op p s :
  sIk Lk s -> data_case Lk2 cip op p s ->
  xres_sIk Lk (exec_op no_sys cip op p s) \/ xres_sIk Lk2 (exec_op no_sys cip op p s).
Proof.
  intros K DD. pose proof K as [O P X V]. unfold data_case in DD.
  assert (JC : xres_sIk Lk (match jump_offset cip (prog_len s) p with
                      | None => XFault
                      | Some off => match jump_cond op (view s) with
                                    | None => XFault
                                    | Some (c, d) => let s0 := unview s d in if c then xopt (jump s0 off) else XNext s0
                                    end end)).
  { destruct (jump_offset cip (prog_len s) p); [|exact I].
    destruct (jump_cond op (view s)) as [[c d]|] eqn:E; [|exact I]. cbv zeta.
    assert (K' : sIk Lk (unview s d)).
    { apply (sI_unview s d Lk Lk); [exact K|eapply jump_cond_shape; eauto|eapply jump_cond_I; eauto]. }
    destruct c; [apply xopt_sI; intros s' J; eapply jump_sI; [|exact J]|]; exact K'. }
  destruct op; try (right; exact DD); try (left; exact JC); left; unfold exec_op.
  - (* CALL *) destruct (jump_offset cip (prog_len s) p); [|exact I]. apply xopt_sI. intros s' E. eapply call_sI; eauto.
  - (* CALLL *) destruct (jump_offset cip (prog_len s) p); [|exact I]. apply xopt_sI. intros s' E. eapply call_sI; eauto.
  - (* CALLA *) destruct (pop (view s)) as [[[] d]|] eqn:E; try exact I.
    case_if; [|exact I]. apply xopt_sI. intros s' Cl. eapply call_sI; [|exact Cl].
    apply (sI_unview s d Lk Lk); [exact K|eapply shp_pop; eauto|].
    destruct V as [U H]. eexists. eapply dI_pop; eauto.
  - (* TRY *) unfold xres_sIk. destruct (try_params TRY p) as [cp fp]. peel. apply set_try_sI; assumption.
  - (* TRYL *) unfold xres_sIk. destruct (try_params TRYL p) as [cp fp]. peel. apply set_try_sI; assumption.
  - (* ENDTRY *) destruct (f_try (s_fr s)) as [|t ts]; [exact I|].
    destruct (t_state t); try exact I; (destruct (jump_offset cip (prog_len s) p); [|exact I]); case_if;
      apply xopt_sI; intros s' J; (eapply jump_sI; [|exact J]); apply set_try_sI; assumption.
  - (* ENDTRYL *) destruct (f_try (s_fr s)) as [|t ts]; [exact I|].
    destruct (t_state t); try exact I; (destruct (jump_offset cip (prog_len s) p); [|exact I]); case_if;
      apply xopt_sI; intros s' J; (eapply jump_sI; [|exact J]); apply set_try_sI; assumption.
  - (* ENDFINALLY *) destruct (s_exc s) eqn:Ex.
    + apply xopt_sI. intros s' E. refine (throw_sI Lk _ _ _ K _ E). exact X.
    + destruct (f_try (s_fr s)) as [|t ts]; [exact I|].
      apply xopt_sI; intros s' J. eapply jump_sI; [|exact J]. apply set_try_sI; assumption.
  - (* RET *) unfold do_ret. pose proof (unload_sI Lk true s K). destruct (unload true s); simpl; auto.
Qed.

(* every instruction, with possibly more leaked counts *)
Lemma exec_op_sI cip op p s : sI s -> nonneg_bytes p -> xres_sI (exec_op no_sys cip op p s).
Proof.
  intros [Lk K] NN.
  destruct (exec_data_IL (mkEnv cip (prog_len s) (sc_sid (s_sc s))) op p (view s) _ NN (si_d _ _ K)) as (Lk' & R).
  assert (DD : data_case (Lk' ++ Lk) cip op p s).
  { apply (data_case_intro Lk); [exact K|].
    destruct (exec_data _ op p (view s)) as [d|e d|]; cbn [dres_I] in *; [| |exact I].
    - eapply dI0_meq; [exact R|meq_app|in_app].
    - destruct R as [R Ve]. split; [|exact Ve]. eapply dI0_meq; [exact R|meq_app|in_app]. }
  destruct (exec_op_core Lk (Lk' ++ Lk) cip op p s K DD) as [H|H]; eapply xres_sIk_sI; exact H.
Qed.

(* every instruction that starts on an acyclic heap: no new leaked counts *)
Lemma exec_op_sIk_acyc Lk cip op p s :
  sIk Lk s -> acyc (s_heap s) -> nonneg_bytes p -> xres_sIk Lk (exec_op no_sys cip op p s).
Proof.
  intros K Ac NN.
  assert (DD : data_case Lk cip op p s).
  { apply (data_case_intro Lk); [exact K|]. apply exec_data_E; [exact NN|exact Ac|exact (si_d _ _ K)]. }
  destruct (exec_op_core Lk Lk cip op p s K DD) as [H|H]; exact H.
Qed.

Theorem step_sI s :
  sI s -> match step s with Running s' => sI s' | Halted s' => sI s' | Faulted _ => True end.
Proof.
  intros K. unfold step, step_with.
  assert (Pp : forall g r, xres_sI r ->
              match post g r with Running s' => sI s' | Halted s' => sI s' | Faulted _ => True end).
  { intros g r R. destruct r; simpl; try exact I; case_if; try exact I; assumption. }
  destruct K as [Lk K].
  destruct (decode (sc_prog (s_sc s)) (f_ip (s_fr s))) as [| |op p next] eqn:D; [|exact I|].
  - apply Pp. unfold do_ret. pose proof (unload_sI Lk true s K). destruct (unload true s); simpl; auto; exists Lk; assumption.
  - case_if; [exact I|]. apply Pp. apply exec_op_sI; [exists Lk; apply set_gas_ip_sI; assumption|].
    exact (decode_param_nonneg _ _ _ _ _ (si_prog _ s K) D).
Qed.

Theorem step_sIk_acyc Lk s :
  sIk Lk s -> acyc (s_heap s) ->
  match step s with Running s' => sIk Lk s' | Halted s' => sIk Lk s' | Faulted _ => True end.
Proof.
  intros K Ac. unfold step, step_with.
  assert (Pp : forall g r, xres_sIk Lk r ->
              match post g r with Running s' => sIk Lk s' | Halted s' => sIk Lk s' | Faulted _ => True end).
  { intros g r R. destruct r; simpl; try exact I; case_if; try exact I; assumption. }
  destruct (decode (sc_prog (s_sc s)) (f_ip (s_fr s))) as [| |op p next] eqn:D; [|exact I|].
  - apply Pp. unfold do_ret. pose proof (unload_sI Lk true s K). destruct (unload true s); simpl; auto.
  - case_if; [exact I|]. apply Pp. apply exec_op_sIk_acyc; [apply set_gas_ip_sI; assumption|exact Ac|].
    exact (decode_param_nonneg _ _ _ _ _ (si_prog _ s K) D).
Qed.

Lemma init_sIk prog sid base limit : nonneg_bytes prog -> sIk [] (init_state prog sid base limit).
Proof.
  intros H. constructor; cbn; [reflexivity|exact H|exact I|]. exists [].
  constructor; [|constructor|constructor]. constructor; [|constructor|constructor|constructor].
  constructor; [constructor|intros l; destruct l; reflexivity|reflexivity].
Qed.
Lemma init_sI prog sid base limit : nonneg_bytes prog -> sI (init_state prog sid base limit).
Proof. intros H. exists []. apply init_sIk. exact H. Qed.

Theorem run_sI : forall n s, sI s ->
  match run n s with Running s' => sI s' | Halted s' => sI s' | Faulted _ => True end.
Proof.
  induction n as [|n IH]; intros s K; simpl; [exact K|].
  pose proof (step_sI s K) as S. destruct (step s) as [s1|s1|g]; [apply IH; assumption|assumption|exact I].
Qed.

(* The item counter never under-counts: after every instruction of every execution of a script (whose bytes are
   non-negative, i.e. a byte string) and at HALT, what a walk of stacks and slots finds is at most the counter. *)
Theorem refs_never_undercount n prog sid base limit s :
  nonneg_bytes prog ->
  (run n (init_state prog sid base limit) = Running s \/ run n (init_state prog sid base limit) = Halted s) ->
  reach_count s <= s_refs s.
Proof.
  intros NN R. pose proof (run_sI n _ (init_sI prog sid base limit NN)) as K.
  destruct R as [R|R]; rewrite R in K; apply sI_sound; exact K.
Qed.

(* ---------- exactness while no cycle exists ----------
   [run_acyclic n s]: the heap is acyclic in every state the first n instructions started from s pass through
   (incl. s and the state reached) - "no instruction ever closed a cycle" *)
Fixpoint run_acyclic (n : nat) (s : state) : Prop :=
  acyc (s_heap s) /\
  match n with
  | O => True
  | S n' => match step s with Running s' => run_acyclic n' s' | Halted s' => acyc (s_heap s') | Faulted _ => True end
  end.

Lemma run_acyclic_here n s : run_acyclic n s -> acyc (s_heap s).
Proof. destruct n; simpl; tauto. Qed.

Theorem run_exact : forall n s, sIk [] s -> run_acyclic n s ->
  match run n s with
  | Running s' => reach_count s' = s_refs s'
  | Halted s' => reach_count s' = s_refs s'
  | Faulted _ => True
  end.
Proof.
  induction n as [|n IH]; intros s K [Ac R]; simpl; [apply sIk_exact; assumption|].
  pose proof (step_sIk_acyc [] s K Ac) as S.
  destruct (step s) as [s1|s1|g]; [apply IH; assumption|apply sIk_exact; assumption|exact I].
Qed.

(* The item accounting is exact as long as no cyclic structure was built. *)
Theorem refs_exact_acyclic n prog sid base limit :
  nonneg_bytes prog -> run_acyclic n (init_state prog sid base limit) ->
  match run n (init_state prog sid base limit) with
  | Running s => reach_count s = s_refs s
  | Halted s => reach_count s = s_refs s
  | Faulted _ => True
  end.
Proof. intros NN R. apply run_exact; [apply init_sIk; exact NN|exact R]. Qed.

(* the same hypothesis, decidable (sound: [acycb_sound]) *)
Fixpoint run_acyclicb (n : nat) (s : state) : bool :=
  acycb (s_heap s) &&
  match n with
  | O => true
  | S n' => match step s with Running s' => run_acyclicb n' s' | Halted s' => acycb (s_heap s') | Faulted _ => true end
  end.
Lemma run_acyclicb_sound : forall n s, run_acyclicb n s = true -> run_acyclic n s.
Proof.
  induction n as [|n IH]; intros s; simpl; rewrite andb_true_iff; intros [A R]; (split; [apply acycb_sound; exact A|]); [exact I|].
  destruct (step s); [apply IH; exact R|apply acycb_sound; exact R|exact I].
Qed.
