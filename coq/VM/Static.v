(* The static script check scparser.IsScriptCorrect (pkg/smartcontract/scparser/contract_checks.go), without a
   methods bit field: one linear pass decodes instruction after instruction, records the instruction offsets and the
   targets of every jump/call/try/pointer instruction, rejects undecodable instructions, out-of-range targets and
   bad type operands, and finally requires every recorded target to be a recorded instruction offset.
   Definitions only. *)
From NG Require Import VM.Model.
Open Scope Z_scope.

Fixpoint mem_z (x : Z) (l : list Z) : bool :=
  match l with [] => false | y :: t => (x =? y) || mem_z x t end.

(* targets an instruction refers to; None = the check fails on this instruction *)
Definition static_targets (op : opcode) (p : list Z) (cip len : Z) : option (list Z) :=
  match op with
  | JMP | JMPIF | JMPIFNOT | JMPEQ | JMPNE | JMPGT | JMPGE | JMPLT | JMPLE | CALL | ENDTRY
  | JMPL | JMPIFL | JMPIFNOTL | JMPEQL | JMPNEL | JMPGTL | JMPGEL | JMPLTL | JMPLEL | ENDTRYL | CALLL | PUSHA =>
      match jump_offset cip len p with Some off => Some [off] | None => None end
  | TRY | TRYL =>
      let (cp, fp) := try_params op p in
      match jump_offset cip len cp, jump_offset cip len fp with
      | Some c, Some f => Some [c; f]
      | _, _ => None
      end
  | NEWARRAYT | ISTYPE | CONVERT =>
      match p with
      | t :: _ => if negb (type_is_valid t) then None
                  else if (t =? T_Any) && negb (match op with NEWARRAYT => true | _ => false end) then None
                  else Some []
      | [] => None
      end
  | _ => Some []
  end.

(* (instruction offsets, targets other than the script length) *)
Fixpoint static_scan (fuel : nat) (prog : list Z) (len ip : Z) (instrs jumps : list Z) : option (list Z * list Z) :=
  match fuel with
  | O => None
  | S f =>
      if len <=? ip then Some (instrs, jumps)
      else match decode prog ip with
           | DecOk op p next =>
               match static_targets op p ip len with
               | Some ts => static_scan f prog len next (ip :: instrs) (filter (fun t => negb (t =? len)) ts ++ jumps)
               | None => None
               end
           | _ => None
           end
  end.

Definition static_info (prog : list Z) : option (list Z * list Z) :=
  static_scan (S (length prog)) prog (zlen prog) 0 [] [].

Definition script_correct (prog : list Z) : bool :=
  match static_info prog with
  | Some (instrs, jumps) => forallb (fun j => mem_z j instrs) jumps
  | None => false
  end.

(* the offsets the check regards as instruction boundaries *)
Definition boundaries (prog : list Z) : list Z :=
  match static_info prog with Some (instrs, _) => instrs | None => [] end.

(* With a methods bit field, as Management.checkScriptAndMethods calls it: every method offset of the manifest has to be
   inside the script (checked by the caller) and, by IsScriptCorrect(script, offsets), an instruction offset found by
   the scan.  [methods] = the offsets. *)
Definition script_correct_m (prog : list Z) (methods : list Z) : bool :=
  script_correct prog && forallb (fun m => mem_z m (boundaries prog)) methods.

(* a fresh VM with the script loaded and the instruction pointer moved to a method offset
   (LoadScript + Context.Jump(offset), what a contract call does) *)
Definition start_at (prog : list Z) (sid : N) (base limit : Z) (m : Z) : state :=
  set_ip (init_state prog sid base limit) m.
