(* C19 — the recovery glue (pkg/consensus/recovery_message.go): a RecoveryMessage is a projection of the sender's payload
   tables (AddPayload: compact entries without height, and — for preparations and commits — stamped with a single view,
   the view of the message) and the receiver rebuilds full payloads from it (fromPayload + GetPrepareRequest /
   GetPrepareResponses / GetCommits / GetChangeViews).

   A payload: kind, validator, height, view, body (everything else that is signed), witness.  The sender's context at
   height h, view v holds: the PrepareRequest of the view's primary (if any), the PrepareResponses of the view, its Commit
   payloads, the ChangeView payloads that brought it to the view (each with its ORIGINAL view). *)
From NG Require Import Common.Tactics.
Open Scope N_scope.

Inductive kind := KReq | KResp | KCommit | KCV.

Record payload := mkPl { pkind : kind; pidx : N; pheight : N; pview : N; pbody : N; pwit : N }.

Record ctx := mkCtx {
  cheight : N; cview : N;
  creq : option payload;
  cresps : list payload;
  ccommits : list payload;
  ccvs : list payload;
}.

(* compact forms *)
Record rmsg := mkR {
  rheight : N; rview : N;                 (* header of the RecoveryMessage payload itself *)
  rreq : option (N * N * N);              (* validator, body, witness: prepareRequest + its preparationCompact *)
  rpreps : list (N * N * N);              (* validator, preparation hash (body), witness *)
  rcommits : list (N * N * N);            (* validator, signature (body), witness — commitCompact.ViewNumber is written
                                             but not used by GetCommits *)
  rcvs : list (N * N * N * N);            (* validator, original view, timestamp (body), witness *)
}.

Definition project (c : ctx) : rmsg :=
  mkR (cheight c) (cview c)
      (match creq c with Some p => Some (pidx p, pbody p, pwit p) | None => None end)
      (map (fun p => (pidx p, pbody p, pwit p)) (cresps c))
      (map (fun p => (pidx p, pbody p, pwit p)) (ccommits c))
      (map (fun p => (pidx p, pview p, pbody p, pwit p)) (ccvs c)).

(* fromPayload stamps height and view of the recovery message; ChangeViews get their original view back *)
Definition restore (r : rmsg) : list payload :=
  (match rreq r with Some (i, b, w) => [mkPl KReq i (rheight r) (rview r) b w] | None => [] end)
  ++ map (fun e => let '(i, b, w) := e in mkPl KResp i (rheight r) (rview r) b w) (rpreps r)
  ++ map (fun e => let '(i, b, w) := e in mkPl KCommit i (rheight r) (rview r) b w) (rcommits r)
  ++ map (fun e => let '(i, ov, b, w) := e in mkPl KCV i (rheight r) ov b w) (rcvs r).

Definition payloads (c : ctx) : list payload :=
  (match creq c with Some p => [p] | None => [] end) ++ cresps c ++ ccommits c ++ ccvs c.

(* the sender's tables are those of a validator at height h, view v: kinds in their tables, everything of this height,
   preparations and commits of this view *)
Definition at_view (c : ctx) (k : kind) (p : payload) : Prop :=
  pkind p = k /\ pheight p = cheight c /\ (k <> KCV -> pview p = cview c).

Definition wf (c : ctx) : Prop :=
  (forall p, creq c = Some p -> at_view c KReq p) /\
  (forall p, In p (cresps c) -> at_view c KResp p) /\
  (forall p, In p (ccommits c) -> at_view c KCommit p) /\
  (forall p, In p (ccvs c) -> at_view c KCV p).
