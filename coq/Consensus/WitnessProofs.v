From NG Require Import Common.Tactics Codec.Multisig Codec.MultisigProofs Consensus.Witness.
Open Scope N_scope.

Lemma matching_firstn {K Sg} (verify : K -> Sg -> bool) ks ss : matching verify ks ss -> forall m, matching verify ks (firstn m ss).
Proof.
  induction 1 as [ks|k ks s ss Hv Hm IH|k ks ss Hm IH]; intros m.
  - rewrite firstn_nil. apply m_nil.
  - destruct m; simpl; [apply m_nil|apply m_use; auto].
  - apply m_skip. apply IH.
Qed.

Lemma in_firstn {A} (l : list A) : forall m x, In x (firstn m l) -> In x l.
Proof. induction l as [|a l IH]; intros [|m] x H; simpl in *; try contradiction. destruct H; [auto|right; eauto]. Qed.

(* the current-view signatures of the rows i, i+1, ... match the keys i, i+1, ... in order *)
Lemma picked_matching cur h : forall (t : table) i,
  (forall j v s, nth_error t j = Some (Some (v, s)) -> signer s = (i + j)%nat /\ (v = cur -> over s = h)) ->
  matching (verify_hd h) (seq i (length t)) (picked true cur t) /\
  (forall s, In s (picked true cur t) -> over s = h).
Proof.
  induction t as [|e t IH]; intros i Hok; simpl.
  - split; [apply m_nil|intros s []].
  - assert (Hok' : forall j v s, nth_error t j = Some (Some (v, s)) -> signer s = (S i + j)%nat /\ (v = cur -> over s = h)).
    { intros j v s Hj. destruct (Hok (S j) v s Hj) as [H1 H2]. split; [lia|assumption]. }
    destruct (IH (S i) Hok') as [IHm IHo].
    destruct e as [[v s]|]; simpl.
    + destruct (v =? cur) eqn:Ev; simpl.
      * apply N.eqb_eq in Ev. destruct (Hok 0%nat v s eq_refl) as [H1 H2]. specialize (H2 Ev).
        split.
        -- apply m_use; [|assumption]. unfold verify_hd. rewrite H1, H2, Nat.add_0_r, Nat.eqb_refl, N.eqb_refl. reflexivity.
        -- intros s0 [<-|Hin]; auto.
      * split; [apply m_skip; assumption|assumption].
    + split; [apply m_skip; assumption|assumption].
Qed.

(* Every signature of the witness assembled WITH the view test is over the accepted block's header, there are M of them
   when M commits of the current view are in the table, and the multi-signature check (Codec/Multisig: the signatures can be
   matched to the validators' keys in order) succeeds. *)
Theorem witness_from_current_view cur h (t : table) m :
  table_ok cur h t -> (m <= cur_count cur t)%nat ->
  let w := assemble true m cur t in
  length w = m /\ (forall s, In s w -> over s = h) /\
  seq_match (verify_hd h) (seq 0 (length t)) w = true.
Proof.
  intros Hok Hm w. unfold w, assemble.
  destruct (picked_matching cur h t 0%nat) as [Hmatch Hover].
  { intros j v s Hj. destruct (Hok j v s Hj). split; [lia|assumption]. }
  split; [apply firstn_length_le; exact Hm|]. split.
  - intros s Hs. apply Hover. eapply in_firstn; eauto.
  - apply seq_match_iff_matching. apply matching_firstn. assumption.
Qed.

(* WITHOUT the view test a Commit of an older view held for a validator of low index takes a place in the witness and the
   check fails: validators 0..3, M = 3, validator 0 committed in view 0 (header 10), the others in view 1 (header 11) *)
Definition ex_table : table :=
  [Some (0, mkSg 0 10); Some (1, mkSg 1 11); Some (1, mkSg 2 11); Some (1, mkSg 3 11)].

Lemma ex_table_ok : table_ok 1 11 ex_table.
Proof.
  intros i v s H. destruct i as [|[|[|[|i]]]]; simpl in H; try (inv H; simpl; split; [reflexivity|intros E; try discriminate; reflexivity]).
  destruct i; discriminate.
Qed.

Lemma witness_unfiltered_refuted :
  table_ok 1 11 ex_table /\ (3 <= cur_count 1 ex_table)%nat /\
  seq_match (verify_hd 11) (seq 0 4) (assemble false 3 1 ex_table) = false /\
  seq_match (verify_hd 11) (seq 0 4) (assemble true 3 1 ex_table) = true.
Proof. split; [exact ex_table_ok|]. vm_compute. auto. Qed.

(* the stale Commit is harmless only when it belongs to the validator of the highest index *)
Example witness_unfiltered_lucky :
  seq_match (verify_hd 11) (seq 0 4)
    (assemble false 3 1 [Some (1, mkSg 0 11); Some (1, mkSg 1 11); Some (1, mkSg 2 11); Some (0, mkSg 3 10)]) = true.
Proof. vm_compute. reflexivity. Qed.

(* EVERY subset of the current-view commits, taken in validator order, is a witness that passes the check: the in-order
   matching exists for any selection of rows.  Which validator's copy of a block reaches a ledger — each completed from the M
   commits that validator happened to hold — cannot matter for its acceptance. *)
Lemma picked_sel_matching cur h : forall (t : table) (sel : list bool) i,
  (forall j v s, nth_error t j = Some (Some (v, s)) -> signer s = (i + j)%nat /\ (v = cur -> over s = h)) ->
  matching (verify_hd h) (seq i (length t)) (picked_sel cur sel t) /\
  (forall s, In s (picked_sel cur sel t) -> over s = h).
Proof.
  induction t as [|e t IH]; intros sel i Hok.
  - destruct sel; simpl; (split; [apply m_nil|intros s []]).
  - destruct sel as [|b sel]; [simpl; split; [apply m_nil|intros s []]|].
    assert (Hok' : forall j v s, nth_error t j = Some (Some (v, s)) -> signer s = (S i + j)%nat /\ (v = cur -> over s = h)).
    { intros j v s Hj. destruct (Hok (S j) v s Hj) as [H1 H2]. split; [lia|assumption]. }
    destruct (IH sel (S i) Hok') as [IHm IHo]. unfold picked_sel in *. simpl.
    destruct b; [|split; [apply m_skip; assumption|assumption]].
    destruct e as [[v s]|]; simpl; [|split; [apply m_skip; assumption|assumption]].
    destruct (v =? cur) eqn:Ev; simpl; [|split; [apply m_skip; assumption|assumption]].
    apply N.eqb_eq in Ev. destruct (Hok 0%nat v s eq_refl) as [H1 H2]. specialize (H2 Ev). split.
    + apply m_use; [|assumption]. unfold verify_hd. rewrite H1, H2, Nat.add_0_r, Nat.eqb_refl, N.eqb_refl. reflexivity.
    + intros s0 [<-|Hin]; auto.
Qed.

Theorem any_current_view_quorum_witness_valid cur h (t : table) (sel : list bool) :
  table_ok cur h t ->
  let w := picked_sel cur sel t in
  (forall s, In s w -> over s = h) /\ seq_match (verify_hd h) (seq 0 (length t)) w = true.
Proof.
  intros Hok w. destruct (picked_sel_matching cur h t sel 0%nat) as [Hm Ho].
  { intros j v s Hj. destruct (Hok j v s Hj). split; [lia|assumption]. }
  split; [assumption|]. apply seq_match_iff_matching. assumption.
Qed.

(* seven validators, M = 5, everybody committed in view 0 over header 10: the first five and the last five both pass *)
Example two_subsets_both_valid :
  let t := map (fun i => Some (0, mkSg i 10)) (seq 0 7) in
  seq_match (verify_hd 10) (seq 0 7) (picked_sel 0 [true; true; true; true; true; false; false] t) = true /\
  seq_match (verify_hd 10) (seq 0 7) (picked_sel 0 [false; false; true; true; true; true; true] t) = true /\
  picked_sel 0 [true; true; true; true; true; false; false] t <> picked_sel 0 [false; false; true; true; true; true; true] t.
Proof. vm_compute. repeat split; try reflexivity. discriminate. Qed.
