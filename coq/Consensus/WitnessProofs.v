From NG Require Import Common.Tactics Codec.Multisig Codec.MultisigProofs Consensus.Witness.
Open Scope N_scope.

Lemma matching_firstn {K Sg} (verify : K -> Sg -> bool) ks ss : matching verify ks ss -> forall m, matching verify ks (firstn m ss).
Proof.
  induction 1 as [ks|k ks s ss Hv Hm IH|k ks ss Hm IH]; intros m.
  - rewrite firstn_nil. apply m_nil.
  - destruct m; simpl; [apply m_nil|apply m_use; auto].
  - apply m_skip. apply IH.
Qed.

Lemma in_firstn {A} (l : list A) : forall m x, In x (firstn m l) -> In x l.
Proof. induction l as [|a l IH]; intros [|m] x H; simpl in *; try contradiction. destruct H; [auto|right; eauto]. Qed.

(* the current-view signatures of the rows i, i+1, ... match the keys i, i+1, ... in order *)
Lemma picked_matching cur h : forall (t : table) i,
  (forall j v s, nth_error t j = Some (Some (v, s)) -> signer s = (i + j)%nat /\ (v = cur -> over s = h)) ->
  matching (verify_hd h) (seq i (length t)) (picked true cur t) /\
  (forall s, In s (picked true cur t) -> over s = h).
Proof.
  induction t as [|e t IH]; intros i Hok; simpl.
  - split; [apply m_nil|intros s []].
  - assert (Hok' : forall j v s, nth_error t j = Some (Some (v, s)) -> signer s = (S i + j)%nat /\ (v = cur -> over s = h)).
    { intros j v s Hj. destruct (Hok (S j) v s Hj) as [H1 H2]. split; [lia|assumption]. }
    destruct (IH (S i) Hok') as [IHm IHo].
    destruct e as [[v s]|]; simpl.
    + destruct (v =? cur) eqn:Ev; simpl.
      * apply N.eqb_eq in Ev. destruct (Hok 0%nat v s eq_refl) as [H1 H2]. specialize (H2 Ev).
        split.
        -- apply m_use; [|assumption]. unfold verify_hd. rewrite H1, H2, Nat.add_0_r, Nat.eqb_refl, N.eqb_refl. reflexivity.
        -- intros s0 [<-|Hin]; auto.
      * split; [apply m_skip; assumption|assumption].
    + split; [apply m_skip; assumption|assumption].
Qed.

(* Every signature of the witness assembled WITH the view test is over the accepted block's header, there are M of them
   when M commits of the current view are in the table, and the multi-signature check (Codec/Multisig: the signatures can be
   matched to the validators' keys in order) succeeds. *)
Theorem witness_from_current_view cur h (t : table) m :
  table_ok cur h t -> (m <= cur_count cur t)%nat ->
  let w := assemble true m cur t in
  length w = m /\ (forall s, In s w -> over s = h) /\
  seq_match (verify_hd h) (seq 0 (length t)) w = true.
Proof.
  intros Hok Hm w. unfold w, assemble.
  destruct (picked_matching cur h t 0%nat) as [Hmatch Hover].
  { intros j v s Hj. destruct (Hok j v s Hj). split; [lia|assumption]. }
  split; [apply firstn_length_le; exact Hm|]. split.
  - intros s Hs. apply Hover. eapply in_firstn; eauto.
  - apply seq_match_iff_matching. apply matching_firstn. assumption.
Qed.

(* WITHOUT the view test a Commit of an older view held for a validator of low index takes a place in the witness and the
   check fails: validators 0..3, M = 3, validator 0 committed in view 0 (header 10), the others in view 1 (header 11) *)
Definition ex_table : table :=
  [Some (0, mkSg 0 10); Some (1, mkSg 1 11); Some (1, mkSg 2 11); Some (1, mkSg 3 11)].

Lemma ex_table_ok : table_ok 1 11 ex_table.
Proof.
  intros i v s H. destruct i as [|[|[|[|i]]]]; simpl in H; try (inv H; simpl; split; [reflexivity|intros E; try discriminate; reflexivity]).
  destruct i; discriminate.
Qed.

Lemma witness_unfiltered_refuted :
  table_ok 1 11 ex_table /\ (3 <= cur_count 1 ex_table)%nat /\
  seq_match (verify_hd 11) (seq 0 4) (assemble false 3 1 ex_table) = false /\
  seq_match (verify_hd 11) (seq 0 4) (assemble true 3 1 ex_table) = true.
Proof. split; [exact ex_table_ok|]. vm_compute. auto. Qed.

(* the stale Commit is harmless only when it belongs to the validator of the highest index *)
Example witness_unfiltered_lucky :
  seq_match (verify_hd 11) (seq 0 4)
    (assemble false 3 1 [Some (1, mkSg 0 11); Some (1, mkSg 1 11); Some (1, mkSg 2 11); Some (0, mkSg 3 10)]) = true.
Proof. vm_compute. reflexivity. Qed.
