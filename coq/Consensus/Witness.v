(* C19 — the block witness assembled by the repository's glue (pkg/consensus/consensus.go getBlockWitness) from the dBFT
   context's table of Commit payloads.

   dbft v0.4.0 keeps the Commit payloads of OLDER views in Context.CommitPayloads across a view change (CountCommitted and
   recovery need them): the table is validator -> (view, signature).  Commits of the current view are verified against the
   header of the validator's own proposal before they count (onCommit / verifyCommitPayloadsAgainstHeader); commits of
   other views are stored as they came.  The witness is the first M signatures, in validator order, of the commits whose
   view is the current view ([filter = true]); [filter = false] is the assembly without that test. *)
From NG Require Import Common.Tactics Codec.Multisig.
Open Scope N_scope.

Record sg := mkSg { signer : nat; over : N }.   (* a signature of validator [signer] over header [over] *)

(* key k checks signature s of header h *)
Definition verify_hd (h : N) (k : nat) (s : sg) : bool := Nat.eqb k (signer s) && (over s =? h).

Definition table := list (option (N * sg)).     (* per validator: view and signature of its stored Commit *)

Definition picked (filter : bool) (cur : N) (table : table) : list sg :=
  flat_map (fun e => match e with
                     | Some (v, s) => if negb filter || (v =? cur) then [s] else []
                     | None => [] end) table.

Definition assemble (filter : bool) (m : nat) (cur : N) (t : table) : list sg := firstn m (picked filter cur t).

(* what dBFT guarantees about the table of a validator in view [cur] whose proposal has header [h]: entry i was sent by
   validator i, and the entries of the current view are signatures over h *)
Definition table_ok (cur h : N) (t : table) : Prop :=
  forall i v s, nth_error t i = Some (Some (v, s)) -> signer s = i /\ (v = cur -> over s = h).

Definition cur_count (cur : N) (t : table) : nat := length (picked true cur t).

(* any selection of rows (a validator may hold any subset of the commits): [sel] says which rows are taken *)
Definition picked_sel (cur : N) (sel : list bool) (t : table) : list sg :=
  flat_map (fun be => match be with
                      | (true, Some (v, s)) => if v =? cur then [s] else []
                      | _ => [] end) (combine sel t).
