From NG Require Import Common.Tactics Consensus.Recovery Consensus.Dbft Consensus.DbftProofs.

Lemma map_id_on {A} (f : A -> A) l : (forall x, In x l -> f x = x) -> map f l = l.
Proof. induction l as [|a l IH]; simpl; intros H; [reflexivity|]. rewrite H by (left; reflexivity). rewrite IH; auto. Qed.

(* What the receiver rebuilds from a recovery message is exactly what the sender held at its view — every payload with its
   validator, height, VIEW, body and witness. *)
Theorem recovery_roundtrip c : wf c -> restore (project c) = payloads c.
Proof.
  intros (Hq & Hr & Hc & Hv). unfold restore, project, payloads; simpl.
  f_equal.
  - destruct (creq c) as [p|] eqn:E; [|reflexivity]. destruct (Hq p eq_refl) as (Hk & Hh & Hw).
    destruct p as [k i h v b w]; simpl in *. subst. rewrite Hw by discriminate. reflexivity.
  - f_equal; [|f_equal]; rewrite map_map; apply map_id_on; intros p Hp.
    + destruct (Hr p Hp) as (Hk & Hh & Hw). destruct p as [k i h v b w]; simpl in *. subst. rewrite Hw by discriminate. reflexivity.
    + destruct (Hc p Hp) as (Hk & Hh & Hw). destruct p as [k i h v b w]; simpl in *. subst. rewrite Hw by discriminate. reflexivity.
    + destruct (Hv p Hp) as (Hk & Hh & _). destruct p as [k i h v b w]; simpl in *. subst. reflexivity.
Qed.

Corollary recovery_views_preserved c : wf c ->
  forall p, In p (restore (project c)) -> In p (payloads c) /\ (pkind p <> KCV -> pview p = cview c).
Proof.
  intros W p Hp. rewrite (recovery_roundtrip c W) in Hp. split; [assumption|].
  destruct W as (Hq & Hr & Hc & Hv). unfold payloads in Hp. rewrite !in_app_iff in Hp.
  destruct Hp as [Hp|[Hp|[Hp|Hp]]].
  - destruct (creq c) as [q|] eqn:E; [|contradiction]. destruct Hp as [<-|[]]. destruct (Hq q eq_refl) as (Hk & _ & Hw). intros _. apply Hw. congruence.
  - destruct (Hr p Hp) as (Hk & _ & Hw). intros _. apply Hw. congruence.
  - destruct (Hc p Hp) as (Hk & _ & Hw). intros _. apply Hw. congruence.
  - destruct (Hv p Hp) as (Hk & _ & _). intros H. congruence.
Qed.

(* a Commit of ANOTHER view in the sender's table (dbft keeps them) comes back stamped with the view of the message:
   the round trip is exact only for the payloads of the sender's view *)
Example recovery_stale_commit_relabelled :
  let c := mkCtx 5 1 None [] [mkPl KCommit 0 5 0 77 9] [] in
  restore (project c) = [mkPl KCommit 0 5 1 77 9].
Proof. reflexivity. Qed.

(* ---------- progress through recovery (abstract validator of Consensus/Dbft.v) ---------- *)

Lemma in_commit_senders' j l v b : In j (commit_senders l v b) <-> In (MCommit j v b) l.
Proof. apply in_commit_senders. Qed.

(* a validator that holds M-1 commits of its view for its proposal and is handed, out of a recovery message, the commit of
   one more validator (the committed peer) has M: acceptance is enabled *)
Theorem recovery_progress (p : params) (s : gst) (i j : node) (b : blockid) (rest : list msg) :
  honest p i -> prop (nodes s i) = Some b -> acc (nodes s i) = None ->
  (pm p <= S (length (commit_senders (inbox (nodes s i)) (vw (nodes s i)) b)))%nat ->
  ~ In (MCommit j (vw (nodes s i)) b) (inbox (nodes s i)) ->
  forall inbox', (forall m, In m (MCommit j (vw (nodes s i)) b :: rest ++ inbox (nodes s i)) -> In m inbox') ->
  (pm p <= length (commit_senders inbox' (vw (nodes s i)) b))%nat.
Proof.
  intros Hi Hp Ha Hm Hnew inbox' Hincl.
  set (v := vw (nodes s i)) in *. set (old := commit_senders (inbox (nodes s i)) v b) in *.
  assert (Hnd : NoDup (j :: old)).
  { constructor; [|apply NoDup_nodup]. intros Hin. apply Hnew. apply in_commit_senders. exact Hin. }
  assert (Hinc : incl (j :: old) (commit_senders inbox' v b)).
  { intros x [<-|Hx]; apply in_commit_senders; apply Hincl.
    - left. reflexivity.
    - right. apply in_app_iff. right. apply in_commit_senders. exact Hx. }
  pose proof (NoDup_incl_length Hnd Hinc) as Hl. simpl in Hl. lia.
Qed.
