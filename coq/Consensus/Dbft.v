(* C19 — an abstract dBFT 2.0 node at one height, the environment of the repository's consensus glue
   (pkg/consensus/consensus.go drives github.com/nspcc-dev/dbft; dbft itself is a dependency and is modelled, not verified).

   n validators, at most f of them faulty, M = n - f.  A faulty validator may send any message under its own index
   (signatures cannot be forged: consensus.validatePayload + the network layer's witness check) — this covers silent,
   late and equivocating validators.  The network may delay, reorder, duplicate and drop: a message that was sent may be
   delivered to any validator at any time, any number of times, or never.

   Per validator: current view; the proposal received (or made) in this view; the commit lock (view, block) — set when
   Commit is sent and never cleared (dbft: CommitSent() blocks onChangeView / onTimeout's view change; Context.reset
   keeps CommitPayloads across views); the accepted block; everything received so far.  Guards follow dbft.go/check.go:
     PrepareRequest  only by the primary of its view, once per view (sendPrepareRequest / RequestSentOrReceived);
     PrepareResponse after a PrepareRequest of the current view from that view's primary which passes the glue's checks
                     (verifyRequest, then verifyBlock on the assembled block) — [valid];
     Commit          with M preparations for the proposal in the current view (checkPrepare), once per height;
     accept          with M commits of the current view for the proposal (checkCommit: signatures are verified against the
                     header built from the validator's own proposal);
     ChangeView      only while no Commit was sent; view change with M ChangeViews for a higher view (checkChangeView). *)
From NG Require Import Common.Tactics.

Definition node := nat.
Definition view := nat.
Definition blockid := N.

Inductive msg :=
| MPrepReq (from : node) (v : view) (b : blockid)
| MPrepResp (from : node) (v : view) (b : blockid)
| MCommit (from : node) (v : view) (b : blockid)
| MChangeView (from : node) (nv : view).

Definition sender (m : msg) : node :=
  match m with MPrepReq j _ _ | MPrepResp j _ _ | MCommit j _ _ | MChangeView j _ => j end.

Definition msg_eqb (a b : msg) : bool :=
  match a, b with
  | MPrepReq j v x, MPrepReq j' v' x' => Nat.eqb j j' && Nat.eqb v v' && N.eqb x x'
  | MPrepResp j v x, MPrepResp j' v' x' => Nat.eqb j j' && Nat.eqb v v' && N.eqb x x'
  | MCommit j v x, MCommit j' v' x' => Nat.eqb j j' && Nat.eqb v v' && N.eqb x x'
  | MChangeView j v, MChangeView j' v' => Nat.eqb j j' && Nat.eqb v v'
  | _, _ => false
  end.

Record nst := mkN {
  vw : view;
  prop : option blockid;            (* PreparationPayloads[primary] of this view *)
  lock : option (view * blockid);   (* own Commit payload *)
  acc : option blockid;             (* block handed to ProcessBlock *)
  inbox : list msg;                 (* everything received (own messages included) *)
}.

Record gst := mkG { nodes : node -> nst; net : list msg }.

Record params := mkP {
  pn : nat; pf : nat;
  faulty : list node;
  prim : view -> node;              (* (height - view) mod n *)
  valid : blockid -> bool;          (* verifyRequest + verifyBlock of the glue accept the proposal *)
}.

Definition pm (p : params) : nat := pn p - pf p.
Definition is_faulty (p : params) (i : node) : bool := existsb (Nat.eqb i) (faulty p).

Definition init : gst := mkG (fun _ => mkN 0 None None None []) [].

Definition setn (s : gst) (i : node) (x : nst) (extra : list msg) : gst :=
  mkG (fun j => if Nat.eqb j i then x else nodes s j) (extra ++ net s).

Definition mem_msg (m : msg) (l : list msg) : bool := existsb (msg_eqb m) l.

(* distinct senders of preparations for block b in view v (the primary's request counts as its preparation) *)
Definition prep_senders (p : params) (l : list msg) (v : view) (b : blockid) : list node :=
  nodup Nat.eq_dec
    (flat_map (fun m => match m with
                        | MPrepReq j v' b' => if Nat.eqb j (prim p v) && Nat.eqb v' v && N.eqb b' b then [j] else []
                        | MPrepResp j v' b' => if Nat.eqb v' v && N.eqb b' b then [j] else []
                        | _ => [] end) l).
Definition commit_senders (l : list msg) (v : view) (b : blockid) : list node :=
  nodup Nat.eq_dec
    (flat_map (fun m => match m with
                        | MCommit j v' b' => if Nat.eqb v' v && N.eqb b' b then [j] else []
                        | _ => [] end) l).
Definition cv_senders (l : list msg) (v : view) : list node :=
  nodup Nat.eq_dec
    (flat_map (fun m => match m with MChangeView j nv => if Nat.leb v nv then [j] else [] | _ => [] end) l).

Inductive action :=
| APropose (i : node) (b : blockid)       (* primary sends PrepareRequest *)
| ARespond (i : node) (b : blockid)       (* backup accepts the request of its view, sends PrepareResponse *)
| ACommit (i : node)                      (* M preparations: send Commit, lock *)
| AAccept (i : node)                      (* M commits: block goes to the ledger *)
| ASendCV (i : node)                      (* timeout / rejected proposal: ask for the next view *)
| ADoCV (i : node) (v : view)             (* M ChangeViews: move to view v *)
| ADeliver (i : node) (m : msg)           (* the network hands a sent message to i *)
| AFaulty (m : msg).                      (* a faulty validator sends whatever it likes under its own index *)

Definition step (p : params) (s : gst) (a : action) : option gst :=
  match a with
  | APropose i b =>
      let x := nodes s i in
      if Nat.ltb i (pn p) && negb (is_faulty p i) && Nat.eqb i (prim p (vw x)) && valid p b
         && match prop x with None => true | Some _ => false end
         && match lock x with None => true | Some _ => false end
      then let m := MPrepReq i (vw x) b in
           Some (setn s i (mkN (vw x) (Some b) (lock x) (acc x) (m :: inbox x)) [m])
      else None
  | ARespond i b =>
      let x := nodes s i in
      if Nat.ltb i (pn p) && negb (is_faulty p i) && negb (Nat.eqb i (prim p (vw x))) && valid p b
         && match prop x with None => true | Some _ => false end
         && match lock x with None => true | Some _ => false end
         && mem_msg (MPrepReq (prim p (vw x)) (vw x) b) (inbox x)
      then let m := MPrepResp i (vw x) b in
           Some (setn s i (mkN (vw x) (Some b) (lock x) (acc x) (m :: inbox x)) [m])
      else None
  | ACommit i =>
      let x := nodes s i in
      match prop x, lock x with
      | Some b, None =>
          if Nat.ltb i (pn p) && negb (is_faulty p i) && Nat.leb (pm p) (length (prep_senders p (inbox x) (vw x) b))
          then let m := MCommit i (vw x) b in
               Some (setn s i (mkN (vw x) (prop x) (Some (vw x, b)) (acc x) (m :: inbox x)) [m])
          else None
      | _, _ => None
      end
  | AAccept i =>
      let x := nodes s i in
      match prop x, acc x with
      | Some b, None =>
          if Nat.ltb i (pn p) && negb (is_faulty p i) && Nat.leb (pm p) (length (commit_senders (inbox x) (vw x) b))
          then Some (setn s i (mkN (vw x) (prop x) (lock x) (Some b) (inbox x)) [])
          else None
      | _, _ => None
      end
  | ASendCV i =>
      let x := nodes s i in
      if Nat.ltb i (pn p) && negb (is_faulty p i) && match lock x with None => true | Some _ => false end
      then let m := MChangeView i (S (vw x)) in
           Some (setn s i (mkN (vw x) (prop x) (lock x) (acc x) (m :: inbox x)) [m])
      else None
  | ADoCV i v =>
      let x := nodes s i in
      if Nat.ltb i (pn p) && negb (is_faulty p i) && match lock x with None => true | Some _ => false end
         && Nat.ltb (vw x) v && Nat.leb (pm p) (length (cv_senders (inbox x) v))
      then Some (setn s i (mkN v None (lock x) (acc x) (inbox x)) [])
      else None
  | ADeliver i m =>
      let x := nodes s i in
      if mem_msg m (net s) then Some (setn s i (mkN (vw x) (prop x) (lock x) (acc x) (m :: inbox x)) [])
      else None
  | AFaulty m =>
      if is_faulty p (sender m) && Nat.ltb (sender m) (pn p) then Some (mkG (nodes s) (m :: net s)) else None
  end.

Fixpoint run (p : params) (s : gst) (tr : list action) : option gst :=
  match tr with
  | [] => Some s
  | a :: t => match step p s a with Some s' => run p s' t | None => None end
  end.

Definition honest (p : params) (i : node) : Prop := (i < pn p)%nat /\ is_faulty p i = false.
