(* C19 — agreement and validity of the abstract dBFT node, by induction over arbitrary traces. *)
From NG Require Import Common.Tactics Consensus.Dbft.

Lemma msg_eqb_eq a b : msg_eqb a b = true <-> a = b.
Proof.
  destruct a, b; simpl; try (split; [discriminate|discriminate]);
    rewrite ?andb_true_iff, ?Nat.eqb_eq, ?N.eqb_eq; split; try (intros H; inv H; auto); intuition congruence.
Qed.

Lemma mem_msg_in m l : mem_msg m l = true <-> In m l.
Proof.
  unfold mem_msg. rewrite existsb_exists. split.
  - intros (y & Hy & E). apply msg_eqb_eq in E. subst. assumption.
  - intros H. exists m. split; [assumption|apply msg_eqb_eq; reflexivity].
Qed.

Lemma in_commit_senders j l v b : In j (commit_senders l v b) <-> In (MCommit j v b) l.
Proof.
  unfold commit_senders. rewrite nodup_In, in_flat_map. split.
  - intros (m & Hm & H). destruct m; simpl in H; try contradiction.
    destruct (Nat.eqb v0 v && N.eqb b0 b) eqn:E; [|contradiction]. destruct H as [<-|[]].
    apply andb_true_iff in E. destruct E as [E1 E2]. apply Nat.eqb_eq in E1. apply N.eqb_eq in E2. subst. assumption.
  - intros H. exists (MCommit j v b). split; [assumption|]. simpl. rewrite Nat.eqb_refl, N.eqb_refl. simpl. auto.
Qed.

Lemma is_faulty_in p i : is_faulty p i = true <-> In i (faulty p).
Proof.
  unfold is_faulty. rewrite existsb_exists. split.
  - intros (y & Hy & E). apply Nat.eqb_eq in E. subst. assumption.
  - intros H. exists i. split; [assumption|apply Nat.eqb_refl].
Qed.

(* ---------- counting: two quorums share a non-faulty member ---------- *)

Lemma filter_split {A} (q : A -> bool) l : length l = (length (filter q l) + length (filter (fun x => negb (q x)) l))%nat.
Proof. induction l as [|x l IH]; simpl; [reflexivity|]. destruct (q x); simpl; lia. Qed.

Lemma nodup_app_disj {A} (l l' : list A) :
  NoDup l -> NoDup l' -> (forall x, In x l -> ~ In x l') -> NoDup (l ++ l').
Proof.
  induction l as [|a l IH]; simpl; intros H H' Hd; [assumption|].
  inv H. constructor.
  - intros Hin. apply in_app_iff in Hin. destruct Hin as [Hin|Hin]; [contradiction|]. eapply Hd; [left; reflexivity|exact Hin].
  - apply IH; auto; intros x Hx; apply Hd; right; assumption.
Qed.

Lemma nodup_app_filter (S S' : list nat) :
  NoDup S -> NoDup S' -> NoDup (S' ++ filter (fun x => negb (existsb (Nat.eqb x) S')) S).
Proof.
  intros HS HS'. apply nodup_app_disj; [assumption|apply NoDup_filter; assumption|].
  intros x Hx Hf. apply filter_In in Hf. destruct Hf as [_ Hf]. apply negb_true_iff in Hf.
  assert (existsb (Nat.eqb x) S' = true) by (apply existsb_exists; exists x; split; [assumption|apply Nat.eqb_refl]). congruence.
Qed.

Lemma quorum_intersection n f m (S S' F : list nat) :
  (3 * f + 1 <= n)%nat -> m = (n - f)%nat ->
  NoDup S -> NoDup S' -> (forall x, In x S -> x < n)%nat -> (forall x, In x S' -> x < n)%nat ->
  (m <= length S)%nat -> (m <= length S')%nat -> (length F <= f)%nat ->
  exists x, In x S /\ In x S' /\ ~ In x F.
Proof.
  intros Hn Hm HS HS' Hb Hb' HlS HlS' HF.
  set (q := fun x => existsb (Nat.eqb x) S').
  set (I := filter q S).
  assert (HqI : forall x, In x I -> In x S /\ In x S').
  { intros x Hx. apply filter_In in Hx. destruct Hx as [Hx1 Hx2]. split; [assumption|].
    unfold q in Hx2. apply existsb_exists in Hx2. destruct Hx2 as (y & Hy & E). apply Nat.eqb_eq in E. subst. assumption. }
  assert (Hlen : (length S + length S' <= n + length I)%nat).
  { pose proof (filter_split q S) as Hs. fold I in Hs.
    assert (Hnd : NoDup (S' ++ filter (fun x => negb (q x)) S)) by (apply nodup_app_filter; assumption).
    assert (Hincl : incl (S' ++ filter (fun x => negb (q x)) S) (seq 0 n)).
    { intros x Hx. apply in_seq. apply in_app_iff in Hx. destruct Hx as [Hx|Hx].
      - specialize (Hb' _ Hx). lia.
      - apply filter_In in Hx. destruct Hx as [Hx _]. specialize (Hb _ Hx). lia. }
    pose proof (NoDup_incl_length Hnd Hincl) as Hle. rewrite app_length, seq_length in Hle. lia. }
  assert (HI : (f + 1 <= length I)%nat) by lia.
  destruct (forallb (fun x => existsb (Nat.eqb x) F) I) eqn:Eall.
  - exfalso. rewrite forallb_forall in Eall.
    assert (Hincl : incl I F).
    { intros x Hx. specialize (Eall _ Hx). apply existsb_exists in Eall. destruct Eall as (y & Hy & E).
      apply Nat.eqb_eq in E. subst. assumption. }
    assert (HndI : NoDup I) by (apply NoDup_filter; assumption).
    pose proof (NoDup_incl_length HndI Hincl). lia.
  - assert (Hex : exists x, In x I /\ existsb (Nat.eqb x) F = false).
    { clear - Eall. induction I as [|x I IH]; simpl in Eall; [discriminate|].
      destruct (existsb (Nat.eqb x) F) eqn:E.
      - simpl in Eall. destruct (IH Eall) as (y & Hy & Ey). exists y. split; [right; assumption|assumption].
      - exists x. split; [left; reflexivity|assumption]. }
    destruct Hex as (x & Hx & Ex). destruct (HqI _ Hx) as [H1 H2]. exists x. split; [assumption|]. split; [assumption|].
    intros Hin. assert (existsb (Nat.eqb x) F = true) by (apply existsb_exists; exists x; split; [assumption|apply Nat.eqb_refl]).
    congruence.
Qed.

(* ---------- invariant ---------- *)

Section Protocol.
Variable p : params.

Record Inv (s : gst) : Prop := {
  j_inbox : forall i m, In m (inbox (nodes s i)) -> In m (net s);
  j_lock : forall j v b, honest p j -> In (MCommit j v b) (net s) -> lock (nodes s j) = Some (v, b);
  j_prop : forall j b, honest p j -> prop (nodes s j) = Some b -> valid p b = true;
  j_lockv : forall j v b, honest p j -> lock (nodes s j) = Some (v, b) -> valid p b = true;
  j_acc : forall i b, honest p i -> acc (nodes s i) = Some b ->
          exists v S, NoDup S /\ (pm p <= length S)%nat /\ forall j, In j S -> In (MCommit j v b) (net s);
  j_from : forall m, In m (net s) -> (sender m < pn p)%nat;
}.

Lemma inv_init : Inv init.
Proof. constructor; simpl; intros; try contradiction; try discriminate. Qed.

Lemma nodes_setn s i x e j : nodes (setn s i x e) j = if Nat.eqb j i then x else nodes s j.
Proof. reflexivity. Qed.

Lemma net_setn s i x e : net (setn s i x e) = e ++ net s.
Proof. reflexivity. Qed.

Ltac guards H :=
  repeat match type of H with
         | (_ && _ = true) => let H1 := fresh H in let H2 := fresh H in apply andb_true_iff in H; destruct H as [H1 H2]; try guards H1; try guards H2
         end.

Ltac lock_none :=
  match goal with
  | H : match lock ?x with Some _ => false | None => true end = true |- _ =>
      let El := fresh "El" in destruct (lock x) eqn:El; [discriminate H|]
  end.

(* a step by validator i that leaves lock and acc of everybody else alone and adds messages [e] *)
Lemma inv_setn s i x e :
  Inv s ->
  (forall m, In m (inbox x) -> In m (inbox (nodes s i)) \/ In m e) ->
  (forall m, In m e -> sender m = i /\ (i < pn p)%nat) ->
  (honest p i -> forall v b, In (MCommit i v b) e -> lock x = Some (v, b)) ->
  (honest p i -> forall v b, In (MCommit i v b) (net s) -> lock x = Some (v, b)) ->
  (honest p i -> forall b, prop x = Some b -> valid p b = true) ->
  (honest p i -> forall v b, lock x = Some (v, b) -> valid p b = true) ->
  (honest p i -> forall b, acc x = Some b ->
     exists v S, NoDup S /\ (pm p <= length S)%nat /\ forall j, In j S -> In (MCommit j v b) (e ++ net s)) ->
  Inv (setn s i x e).
Proof.
  intros I Hin He Hl1 Hl2 Hp Hlv Ha. constructor.
  - intros k m. rewrite nodes_setn, net_setn. destruct (Nat.eqb_spec k i) as [->|Hne]; intros Hm; apply in_app_iff.
    + destruct (Hin _ Hm) as [H|H]; [right; apply (j_inbox _ I _ _ H)|left; assumption].
    + right. apply (j_inbox _ I _ _ Hm).
  - intros j v b Hj. rewrite nodes_setn, net_setn. intros Hm. apply in_app_iff in Hm.
    destruct (Nat.eqb_spec j i) as [->|Hne].
    + destruct Hm as [Hm|Hm]; [apply Hl1|apply Hl2]; assumption.
    + destruct Hm as [Hm|Hm]; [|apply (j_lock _ I _ _ _ Hj Hm)].
      destruct (He _ Hm) as [Hs _]. simpl in Hs. congruence.
  - intros j b Hj. rewrite nodes_setn. destruct (Nat.eqb_spec j i) as [->|Hne]; [apply Hp; assumption|apply (j_prop _ I _ _ Hj)].
  - intros j v b Hj. rewrite nodes_setn. destruct (Nat.eqb_spec j i) as [->|Hne]; [apply Hlv; assumption|apply (j_lockv _ I _ _ _ Hj)].
  - intros k b Hk. rewrite nodes_setn, net_setn. destruct (Nat.eqb_spec k i) as [->|Hne]; [apply Ha; assumption|].
    intros Hacc. destruct (j_acc _ I _ _ Hk Hacc) as (v & S & H1 & H2 & H3). exists v, S. repeat split; auto.
    intros j Hj. apply in_app_iff. right. auto.
  - intros m. rewrite net_setn. intros Hm. apply in_app_iff in Hm. destruct Hm as [Hm|Hm]; [|apply (j_from _ I _ Hm)].
    destruct (He _ Hm) as [-> ?]. assumption.
Qed.

Lemma step_inv s a s' : Inv s -> step p s a = Some s' -> Inv s'.
Proof.
  intros I Hs. destruct a as [i b|i b|i|i|i|i v|i m|m]; simpl in Hs.
  - (* APropose *)
    match type of Hs with (if ?g then _ else _) = _ => destruct g eqn:G; [|discriminate] end. inv Hs. guards G. lock_none.
    apply inv_setn; simpl; auto.
    + intros m [<-|H]; auto.
    + intros m [<-|[]]. simpl. split; [reflexivity|apply Nat.ltb_lt; assumption].
    + intros _ v b0 [H|[]]. discriminate.
    + intros Hh v b0 Hm. rewrite (j_lock _ I _ _ _ Hh Hm) in El. discriminate.
    + intros _ b0 E. inv E. assumption.
    + intros Hh v b0 E; first [discriminate E | apply (j_lockv _ I _ _ _ Hh E)].
    + intros Hh b0 E. destruct (j_acc _ I _ _ Hh E) as (v & S & H1 & H2 & H3). exists v, S; repeat split; auto; intros j Hj; right; auto.
  - (* ARespond *)
    match type of Hs with (if ?g then _ else _) = _ => destruct g eqn:G; [|discriminate] end. inv Hs. guards G. try lock_none.
    apply inv_setn; simpl; auto.
    + intros m [<-|H]; auto.
    + intros m [<-|[]]. simpl. split; [reflexivity|apply Nat.ltb_lt; assumption].
    + intros _ v b0 [H|[]]. discriminate.
    + intros Hh v b0 Hm. rewrite (j_lock _ I _ _ _ Hh Hm) in El. discriminate.
    + intros _ b0 E. inv E. assumption.
    + intros Hh v b0 E; first [discriminate E | apply (j_lockv _ I _ _ _ Hh E)].
    + intros Hh b0 E. destruct (j_acc _ I _ _ Hh E) as (v & S & H1 & H2 & H3). exists v, S; repeat split; auto; intros j Hj; right; auto.
  - (* ACommit *)
    destruct (prop (nodes s i)) as [b|] eqn:Ep; [|discriminate]. destruct (lock (nodes s i)) eqn:El; [discriminate|].
    match type of Hs with (if ?g then _ else _) = _ => destruct g eqn:G; [|discriminate] end. inv Hs. guards G. try lock_none.
    apply inv_setn; simpl; auto.
    + intros m [<-|H]; auto.
    + intros m [<-|[]]. simpl. split; [reflexivity|apply Nat.ltb_lt; assumption].
    + intros _ v b0 [H|[]]. inv H. reflexivity.
    + intros Hh v b0 Hm. rewrite (j_lock _ I _ _ _ Hh Hm) in El. discriminate.
    + intros Hh b0 E. apply (j_prop _ I _ _ Hh). congruence.
    + intros Hh v b0 E. inv E. apply (j_prop _ I _ _ Hh Ep).
    + intros Hh b0 E. destruct (j_acc _ I _ _ Hh E) as (v & S & H1 & H2 & H3). exists v, S; repeat split; auto; intros j Hj; right; auto.
  - (* AAccept *)
    destruct (prop (nodes s i)) as [b|] eqn:Ep; [|discriminate]. destruct (acc (nodes s i)) eqn:Ea; [discriminate|].
    match type of Hs with (if ?g then _ else _) = _ => destruct g eqn:G; [|discriminate] end. inv Hs. guards G. try lock_none.
    apply inv_setn; simpl; auto.
    + intros m [].
    + intros _ v b0 [].
    + intros Hh v b0 Hm; first [apply (j_lock _ I _ _ _ Hh Hm) | (pose proof (j_lock _ I _ _ _ Hh Hm); congruence)].
    + intros Hh b0 E. apply (j_prop _ I _ _ Hh). congruence.
    + intros Hh v b0 E; first [discriminate E | apply (j_lockv _ I _ _ _ Hh E)].
    + intros Hh b0 E. inv E. exists (vw (nodes s i)), (commit_senders (inbox (nodes s i)) (vw (nodes s i)) b0).
      split; [apply NoDup_nodup|]. split; [apply Nat.leb_le; assumption|].
      intros j Hj. apply in_commit_senders in Hj. apply (j_inbox _ I _ _ Hj).
  - (* ASendCV *)
    match type of Hs with (if ?g then _ else _) = _ => destruct g eqn:G; [|discriminate] end. inv Hs. guards G. try lock_none.
    apply inv_setn; simpl; auto.
    + intros m [<-|H]; auto.
    + intros m [<-|[]]. simpl. split; [reflexivity|apply Nat.ltb_lt; assumption].
    + intros _ v b0 [H|[]]. discriminate.
    + intros Hh v b0 Hm; first [apply (j_lock _ I _ _ _ Hh Hm) | (pose proof (j_lock _ I _ _ _ Hh Hm); congruence)].
    + intros Hh b0 E. apply (j_prop _ I _ _ Hh E).
    + intros Hh v b0 E; first [discriminate E | apply (j_lockv _ I _ _ _ Hh E)].
    + intros Hh b0 E. destruct (j_acc _ I _ _ Hh E) as (v & S & H1 & H2 & H3). exists v, S; repeat split; auto; intros j Hj; right; auto.
  - (* ADoCV *)
    match type of Hs with (if ?g then _ else _) = _ => destruct g eqn:G; [|discriminate] end. inv Hs. guards G. try lock_none.
    apply inv_setn; simpl; auto.
    all: try solve [intros m [] | intros _ v0 b0 [] | intros _ b0 E; discriminate E | intros Hh v0 b0 E; discriminate E].
    + intros Hh v0 b0 Hm. pose proof (j_lock _ I _ _ _ Hh Hm). congruence.
    + intros Hh b0 E. apply (j_acc _ I _ _ Hh E).
  - (* ADeliver *)
    destruct (mem_msg m (net s)) eqn:Em; [|discriminate]. inv Hs. apply mem_msg_in in Em.
    constructor.
    + intros k m0. rewrite nodes_setn, net_setn. simpl. destruct (Nat.eqb_spec k i) as [->|Hne]; simpl.
      * intros [<-|H]; [assumption|apply (j_inbox _ I _ _ H)].
      * apply (j_inbox _ I).
    + intros j v b Hj. rewrite nodes_setn, net_setn. simpl. destruct (Nat.eqb_spec j i) as [->|Hne]; simpl; apply (j_lock _ I _ _ _ Hj).
    + intros j b Hj. rewrite nodes_setn. destruct (Nat.eqb_spec j i) as [->|Hne]; simpl; apply (j_prop _ I _ _ Hj).
    + intros j v b Hj. rewrite nodes_setn. destruct (Nat.eqb_spec j i) as [->|Hne]; simpl; apply (j_lockv _ I _ _ _ Hj).
    + intros k b Hk. rewrite nodes_setn, net_setn. simpl. destruct (Nat.eqb_spec k i) as [->|Hne]; simpl; apply (j_acc _ I _ _ Hk).
    + intros m0. rewrite net_setn. simpl. apply (j_from _ I).
  - (* AFaulty *)
    match type of Hs with (if ?g then _ else _) = _ => destruct g eqn:G; [|discriminate] end. inv Hs. guards G. try lock_none.
    constructor; simpl.
    + intros k m0 H. right. apply (j_inbox _ I _ _ H).
    + intros j v b Hj [E|H]; [|apply (j_lock _ I _ _ _ Hj H)]. subst m. simpl in G0. destruct Hj as [_ Hj]. congruence.
    + apply (j_prop _ I).
    + apply (j_lockv _ I).
    + intros k b Hk E. destruct (j_acc _ I _ _ Hk E) as (v & S & H1 & H2 & H3). exists v, S. repeat split; auto.
    + intros m0 [<-|H]; [apply Nat.ltb_lt; assumption|apply (j_from _ I _ H)].
Qed.

Lemma run_inv tr : forall s s', Inv s -> run p s tr = Some s' -> Inv s'.
Proof.
  induction tr as [|a tr IH]; intros s s' I H; simpl in H.
  - inv H. assumption.
  - destruct (step p s a) as [s1|] eqn:E; [|discriminate]. eapply IH; [|eassumption]. eapply step_inv; eassumption.
Qed.

Hypothesis H_n : (3 * pf p + 1 <= pn p)%nat.
Hypothesis H_f : (length (faulty p) <= pf p)%nat.

(* no two honest validators accept different blocks (at this height), whatever the network and the faulty validators do *)
Theorem agreement tr s i j b b' :
  run p init tr = Some s -> honest p i -> honest p j ->
  acc (nodes s i) = Some b -> acc (nodes s j) = Some b' -> b = b'.
Proof.
  intros Hr Hi Hj Ei Ej. pose proof (run_inv _ _ _ inv_init Hr) as I.
  destruct (j_acc _ I _ _ Hi Ei) as (v & S & HS1 & HS2 & HS3).
  destruct (j_acc _ I _ _ Hj Ej) as (v' & S' & HS1' & HS2' & HS3').
  destruct (quorum_intersection (pn p) (pf p) (pm p) S S' (faulty p)) as (x & Hx & Hx' & HxF); auto.
  - intros y Hy. apply (j_from _ I _ (HS3 _ Hy)).
  - intros y Hy. apply (j_from _ I _ (HS3' _ Hy)).
  - assert (Hh : honest p x).
    { split; [apply (j_from _ I _ (HS3 _ Hx))|]. destruct (is_faulty p x) eqn:E; [|reflexivity]. apply is_faulty_in in E. contradiction. }
    pose proof (j_lock _ I _ _ _ Hh (HS3 _ Hx)) as L1. pose proof (j_lock _ I _ _ _ Hh (HS3' _ Hx')) as L2.
    rewrite L1 in L2. inv L2. reflexivity.
Qed.

(* an accepted block is one that at least M - f honest validators checked (verifyRequest / verifyBlock) and committed to;
   in particular it passed the checks *)
Theorem committed_block_valid tr s i b :
  run p init tr = Some s -> honest p i -> acc (nodes s i) = Some b ->
  valid p b = true /\
  exists v S, NoDup S /\ (pm p <= length S)%nat /\ forall j, In j S -> In (MCommit j v b) (net s).
Proof.
  intros Hr Hi Ei. pose proof (run_inv _ _ _ inv_init Hr) as I.
  destruct (j_acc _ I _ _ Hi Ei) as (v & S & HS1 & HS2 & HS3). split; [|eauto].
  (* the quorum intersects itself in an honest validator *)
  destruct (quorum_intersection (pn p) (pf p) (pm p) S S (faulty p)) as (x & Hx & _ & HxF); auto.
  - intros y Hy. apply (j_from _ I _ (HS3 _ Hy)).
  - intros y Hy. apply (j_from _ I _ (HS3 _ Hy)).
  - assert (Hh : honest p x).
    { split; [apply (j_from _ I _ (HS3 _ Hx))|]. destruct (is_faulty p x) eqn:E; [|reflexivity]. apply is_faulty_in in E. contradiction. }
    apply (j_lockv _ I _ _ _ Hh (j_lock _ I _ _ _ Hh (HS3 _ Hx))).
Qed.

(* the commit lock: an honest validator sends at most one Commit at a height and never leaves the view it committed in *)
Theorem commit_once tr s j v b v' b' :
  run p init tr = Some s -> honest p j ->
  In (MCommit j v b) (net s) -> In (MCommit j v' b') (net s) -> v = v' /\ b = b'.
Proof.
  intros Hr Hj H1 H2. pose proof (run_inv _ _ _ inv_init Hr) as I.
  pose proof (j_lock _ I _ _ _ Hj H1) as L1. pose proof (j_lock _ I _ _ _ Hj H2) as L2. rewrite L1 in L2. inv L2. auto.
Qed.
End Protocol.

(* ---------- round progress (liveness is claimed only in this form) ---------- *)

(* each step of a round is enabled as soon as its messages are there: an honest primary of a fresh view can propose any
   block that passes the checks; a backup holding that request can respond; with M preparations a validator can commit;
   with M commits it accepts *)
Lemma progress_propose p s i b :
  honest p i -> i = prim p (vw (nodes s i)) -> valid p b = true -> prop (nodes s i) = None -> lock (nodes s i) = None ->
  exists s', step p s (APropose i b) = Some s' /\ In (MPrepReq i (vw (nodes s i)) b) (net s') /\ prop (nodes s' i) = Some b.
Proof.
  intros [Hi Hf] Hp Hv Hpr Hl. simpl. rewrite Hpr, Hl, Hv, Hf. rewrite <- Hp, Nat.eqb_refl.
  assert (E : Nat.ltb i (pn p) = true) by (apply Nat.ltb_lt; assumption). rewrite E. simpl.
  eexists. split; [reflexivity|]. simpl. rewrite Nat.eqb_refl. simpl. auto.
Qed.

Lemma progress_respond p s i b :
  honest p i -> i <> prim p (vw (nodes s i)) -> valid p b = true -> prop (nodes s i) = None -> lock (nodes s i) = None ->
  In (MPrepReq (prim p (vw (nodes s i))) (vw (nodes s i)) b) (inbox (nodes s i)) ->
  exists s', step p s (ARespond i b) = Some s' /\ In (MPrepResp i (vw (nodes s i)) b) (net s').
Proof.
  intros [Hi Hf] Hp Hv Hpr Hl Hin. simpl. rewrite Hpr, Hl, Hv, Hf.
  assert (E : Nat.ltb i (pn p) = true) by (apply Nat.ltb_lt; assumption). rewrite E.
  assert (E2 : Nat.eqb i (prim p (vw (nodes s i))) = false) by (apply Nat.eqb_neq; assumption). rewrite E2.
  assert (E3 : mem_msg (MPrepReq (prim p (vw (nodes s i))) (vw (nodes s i)) b) (inbox (nodes s i)) = true) by (apply mem_msg_in; assumption).
  rewrite E3. simpl. eexists. split; [reflexivity|]. simpl. auto.
Qed.

Lemma progress_commit p s i b :
  honest p i -> prop (nodes s i) = Some b -> lock (nodes s i) = None ->
  (pm p <= length (prep_senders p (inbox (nodes s i)) (vw (nodes s i)) b))%nat ->
  exists s', step p s (ACommit i) = Some s' /\ In (MCommit i (vw (nodes s i)) b) (net s').
Proof.
  intros [Hi Hf] Hpr Hl Hq. simpl. rewrite Hpr, Hl, Hf.
  assert (E : Nat.ltb i (pn p) = true) by (apply Nat.ltb_lt; assumption). rewrite E.
  assert (E2 : Nat.leb (pm p) (length (prep_senders p (inbox (nodes s i)) (vw (nodes s i)) b)) = true) by (apply Nat.leb_le; assumption).
  rewrite E2. simpl. eexists. split; [reflexivity|]. simpl. auto.
Qed.

Lemma progress_accept p s i b :
  honest p i -> prop (nodes s i) = Some b -> acc (nodes s i) = None ->
  (pm p <= length (commit_senders (inbox (nodes s i)) (vw (nodes s i)) b))%nat ->
  exists s', step p s (AAccept i) = Some s' /\ acc (nodes s' i) = Some b.
Proof.
  intros [Hi Hf] Hpr Ha Hq. simpl. rewrite Hpr, Ha, Hf.
  assert (E : Nat.ltb i (pn p) = true) by (apply Nat.ltb_lt; assumption). rewrite E.
  assert (E2 : Nat.leb (pm p) (length (commit_senders (inbox (nodes s i)) (vw (nodes s i)) b)) = true) by (apply Nat.leb_le; assumption).
  rewrite E2. simpl. eexists. split; [reflexivity|]. simpl. rewrite Nat.eqb_refl. reflexivity.
Qed.

(* the synchronous schedule of view 0: propose, deliver to all, respond, deliver all, commit, deliver all, accept *)
Definition round0 (n : nat) (pr : node) (b : blockid) : list action :=
  let all := seq 0 n in
  let backups := filter (fun i => negb (Nat.eqb i pr)) all in
  [APropose pr b]
  ++ map (fun i => ADeliver i (MPrepReq pr 0 b)) backups
  ++ map (fun i => ARespond i b) backups
  ++ flat_map (fun i => map (fun j => ADeliver i (MPrepResp j 0 b)) backups) all
  ++ map (fun i => ACommit i) all
  ++ flat_map (fun i => map (fun j => ADeliver i (MCommit j 0 b)) all) all
  ++ map (fun i => AAccept i) all.

Definition all_accept (n : nat) (s : gst) (b : blockid) : bool :=
  forallb (fun i => match acc (nodes s i) with Some x => N.eqb x b | None => false end) (seq 0 n).

Definition ok_params (n f : nat) (pr : node) : params := mkP n f [] (fun v => (pr + n - v mod n) mod n) (fun _ => true).

(* all honest, everything delivered: the round completes and every validator accepts the proposal — for the network sizes
   of the property (4 and 7 validators; 10 to show the schedule is not special), any primary *)
Lemma round0_completes :
  forallb (fun nf => forallb (fun pr =>
     match run (ok_params (fst nf) (snd nf) pr) init (round0 (fst nf) pr 42%N) with
     | Some s => all_accept (fst nf) s 42%N
     | None => false end) (seq 0 (fst nf))) [(4, 1); (7, 2); (10, 3)]%nat = true.
Proof. vm_compute. reflexivity. Qed.
