(* C19 — what the primary proposes passes the backups' limits.

   core.Blockchain.ApplyPolicyToTxSet (blockchain.go:2877-2911, called from consensus.getVerifiedTx): cut the verified
   transactions to MaxTransactionsPerBlock, then walk them adding sizes (starting from the size of a block with no
   transactions and the default witness) and system fees, and cut at the first transaction with which a running sum EXCEEDS
   its limit.  The backup's guards (consensus.verifyRequest / verifyBlock): number of hashes not above
   MaxTransactionsPerBlock, expected block size not above MaxBlockSize, sum of system fees not above MaxBlockSystemFee —
   all three are "<=": a proposal exactly at a limit is accepted.  (C07's packing theorem C07_pack_valid proves the bounds
   of the packed block over the real size function; here the limits are abstract.) *)
From NG Require Import Common.Tactics.
Open Scope N_scope.

Record tx := mkTx { tsize : N; tfee : N }.

Fixpoint walk (max_size max_fee : N) (sz fee : N) (l : list tx) : list tx :=
  match l with
  | [] => []
  | t :: r =>
      let sz' := sz + tsize t in let fee' := fee + tfee t in
      if (max_size <? sz') || (max_fee <? fee') then [] else t :: walk max_size max_fee sz' fee' r
  end.

(* hdr_p: size of the empty block as the primary computes it (default witness of M signatures) *)
Definition pack (max_tx : nat) (max_size max_fee hdr_p : N) (l : list tx) : list tx :=
  walk max_size max_fee hdr_p 0 (firstn max_tx l).

Definition sum_size (l : list tx) : N := fold_right (fun t a => tsize t + a) 0 l.
Definition sum_fee (l : list tx) : N := fold_right (fun t a => tfee t + a) 0 l.

(* the backup: hdr_b is the size of the empty block as IT computes it (witness still empty) *)
Definition backup_accepts (max_tx : nat) (max_size max_fee hdr_b : N) (l : list tx) : bool :=
  (length l <=? max_tx)%nat && (hdr_b + sum_size l <=? max_size) && (sum_fee l <=? max_fee).

Lemma walk_bounds max_size max_fee : forall l sz fee,
  sz + sum_size (walk max_size max_fee sz fee l) <= N.max sz max_size /\
  fee + sum_fee (walk max_size max_fee sz fee l) <= N.max fee max_fee /\
  (length (walk max_size max_fee sz fee l) <= length l)%nat.
Proof.
  induction l as [|t r IH]; intros sz fee; simpl.
  - repeat split; lia.
  - destruct ((max_size <? sz + tsize t) || (max_fee <? fee + tfee t)) eqn:E; simpl.
    + repeat split; lia.
    + apply orb_false_iff in E. destruct E as [E1 E2].
      destruct (IH (sz + tsize t) (fee + tfee t)) as (H1 & H2 & H3). repeat split; lia.
Qed.

Theorem primary_proposal_passes_backup_checks max_tx max_size max_fee hdr_p hdr_b l :
  hdr_b <= hdr_p -> hdr_p <= max_size ->
  backup_accepts max_tx max_size max_fee hdr_b (pack max_tx max_size max_fee hdr_p l) = true.
Proof.
  intros Hb Hp. unfold backup_accepts, pack.
  destruct (walk_bounds max_size max_fee (firstn max_tx l) hdr_p 0) as (H1 & H2 & H3).
  pose proof (firstn_le_length max_tx l) as Hl.
  rewrite !andb_true_iff. repeat split.
  - apply Nat.leb_le. lia.
  - apply N.leb_le. lia.
  - apply N.leb_le. lia.
Qed.

(* exactly at the limits: three transactions of size 100 and fee 7, limits 3 / hdr + 300 / 21 — all proposed, accepted;
   a fourth is left out by the count limit, and with fee limit 20 the third is left out *)
Example pack_at_the_limits :
  let t := mkTx 100 7 in
  pack 3 350 21 50 [t; t; t; t] = [t; t; t] /\ backup_accepts 3 350 21 50 [t; t; t] = true /\
  pack 3 350 20 50 [t; t; t; t] = [t; t] /\ backup_accepts 3 349 21 50 [t; t; t] = false.
Proof. vm_compute. auto. Qed.
