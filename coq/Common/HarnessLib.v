(* Evaluation of harness-written case lists: each case carries the input the implementation
   ran on and what it returned; [check] gives 0 = implementation, model and specification agree,
   1 = implementation differs from the mechanism model but meets the specification (stale model),
   2 = implementation contradicts the specification (violation), 3 = malformed case. *)
From NG Require Import Common.Tactics.

Fixpoint mismatches_from {A} (check : A -> N) (i : N) (l : list A) : list (N * N) :=
  match l with
  | [] => []
  | c :: t =>
      let r := check c in
      if N.eqb r 0 then mismatches_from check (N.succ i) t
      else (i, r) :: mismatches_from check (N.succ i) t
  end.
Definition mismatches {A} (check : A -> N) (l : list A) : list (N * N) := mismatches_from check 0%N l.

Definition code_of (model_ok spec_ok : bool) : N :=
  if model_ok then 0%N else if spec_ok then 1%N else 2%N.

Fixpoint list_eqb {A} (eqb : A -> A -> bool) (a b : list A) : bool :=
  match a, b with
  | [], [] => true
  | x :: a', y :: b' => eqb x y && list_eqb eqb a' b'
  | _, _ => false
  end.

Lemma list_eqb_eq {A} (eqb : A -> A -> bool) :
  (forall x y, eqb x y = true <-> x = y) -> forall a b, list_eqb eqb a b = true <-> a = b.
Proof.
  intros H a; induction a as [|x a IH]; intros [|y b]; simpl; try (split; congruence).
  rewrite andb_true_iff, H, IH. split; [intros [-> ->]; reflexivity|intros E; inv E; auto].
Qed.

Definition option_eqb {A} (eqb : A -> A -> bool) (a b : option A) : bool :=
  match a, b with
  | Some x, Some y => eqb x y
  | None, None => true
  | _, _ => false
  end.
