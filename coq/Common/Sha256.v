(* Executable SHA-256 over byte lists (bytes are N < 256), FIPS 180-4 transcribed with explicit
   mod-2^32 arithmetic on binary N.  NOT proved against FIPS: it is a correspondence-checked component
   (compared with Go's crypto/sha256 on every run of the harness, sub-command c10, kind "sha256").
   Its only role is to let model and implementation exchange concrete hashes (state roots, proof nodes).
   Theorems never depend on its internals: they are stated over a Section variable H. *)
From NG Require Import Common.Tactics.
Open Scope N_scope.

Definition mask32 : N := 4294967295.

(* rotate right of a 32-bit word by 0 < n < 32; lowmask = 2^n - 1 *)
Definition rotr (x n : N) : N :=
  N.lor (N.shiftr x n) (N.shiftl (N.land x (N.ones n)) (32 - n)).

Definition not32 (x : N) : N := N.lxor x mask32.
Definition ch (x y z : N) : N := N.lxor (N.land x y) (N.land (not32 x) z).
Definition maj (x y z : N) : N := N.lxor (N.lxor (N.land x y) (N.land x z)) (N.land y z).
Definition bsig0 (x : N) : N := N.lxor (N.lxor (rotr x 2) (rotr x 13)) (rotr x 22).
Definition bsig1 (x : N) : N := N.lxor (N.lxor (rotr x 6) (rotr x 11)) (rotr x 25).
Definition ssig0 (x : N) : N := N.lxor (N.lxor (rotr x 7) (rotr x 18)) (N.shiftr x 3).
Definition ssig1 (x : N) : N := N.lxor (N.lxor (rotr x 17) (rotr x 19)) (N.shiftr x 10).

Definition K256 : list N :=
  [1116352408; 1899447441; 3049323471; 3921009573; 961987163; 1508970993; 2453635748; 2870763221;
   3624381080; 310598401; 607225278; 1426881987; 1925078388; 2162078206; 2614888103; 3248222580;
   3835390401; 4022224774; 264347078; 604807628; 770255983; 1249150122; 1555081692; 1996064986;
   2554220882; 2821834349; 2952996808; 3210313671; 3336571891; 3584528711; 113926993; 338241895;
   666307205; 773529912; 1294757372; 1396182291; 1695183700; 1986661051; 2177026350; 2456956037;
   2730485921; 2820302411; 3259730800; 3345764771; 3516065817; 3600352804; 4094571909; 275423344;
   430227734; 506948616; 659060556; 883997877; 958139571; 1322822218; 1537002063; 1747873779;
   1955562222; 2024104815; 2227730452; 2361852424; 2428436474; 2756734187; 3204031479; 3329325298].

Definition H0 : list N :=
  [1779033703; 3144134277; 1013904242; 2773480762; 1359893119; 2600822924; 528734635; 1541459225].

(* the 16-word sliding window w[t-16..t-1]; the next schedule word *)
Definition next_w (w : list N) : N :=
  match w with
  | [w0; w1; _; _; _; _; _; _; _; w9; _; _; _; _; w14; _] =>
      N.land (ssig1 w14 + w9 + ssig0 w1 + w0) mask32
  | _ => 0
  end.

Record st := St { sa : N; sb : N; sc : N; sd : N; se : N; sf : N; sg : N; sh : N }.

Definition round (s : st) (k w : N) : st :=
  let t1 := sh s + bsig1 (se s) + ch (se s) (sf s) (sg s) + k + w in
  let t2 := bsig0 (sa s) + maj (sa s) (sb s) (sc s) in
  St (N.land (t1 + t2) mask32) (sa s) (sb s) (sc s) (N.land (sd s + t1) mask32) (se s) (sf s) (sg s).

(* 64 rounds: ks = remaining constants, w = window whose head is the word of the current round *)
Fixpoint rounds (ks : list N) (w : list N) (s : st) : st :=
  match ks with
  | [] => s
  | k :: ks' =>
      match w with
      | [] => s
      | w0 :: wt => rounds ks' (wt ++ [next_w w]) (round s k w0)
      end
  end.

Fixpoint words_of (bs : list N) : list N :=
  match bs with
  | b0 :: b1 :: b2 :: b3 :: r => (((b0 * 256 + b1) * 256 + b2) * 256 + b3) :: words_of r
  | _ => []
  end.

Definition compress (h : list N) (block : list N) : list N :=
  match h with
  | [a; b; c; d; e; f; g; hh] =>
      let s := rounds K256 (words_of block) (St a b c d e f g hh) in
      [N.land (a + sa s) mask32; N.land (b + sb s) mask32; N.land (c + sc s) mask32; N.land (d + sd s) mask32;
       N.land (e + se s) mask32; N.land (f + sf s) mask32; N.land (g + sg s) mask32; N.land (hh + sh s) mask32]
  | _ => h
  end.

(* big-endian bytes of a number, n bytes *)
Fixpoint be_bytes (n : nat) (x : N) (acc : list N) : list N :=
  match n with
  | O => acc
  | S n' => be_bytes n' (N.shiftr x 8) (N.land x 255 :: acc)
  end.

Definition pad (msg : list N) : list N :=
  let l := N.of_nat (length msg) in
  let z := (119 - (l mod 64)) mod 64 in          (* number of zero bytes: l + 1 + z + 8 = 0 mod 64 *)
  msg ++ 128 :: repeat 0 (N.to_nat z) ++ be_bytes 8 (8 * l) [].

Fixpoint blocks (fuel : nat) (h : list N) (bs : list N) : list N :=
  match fuel with
  | O => h
  | S f =>
      match bs with
      | [] => h
      | _ => blocks f (compress h (firstn 64 bs)) (skipn 64 bs)
      end
  end.

Definition sha256 (msg : list N) : list N :=
  let p := pad msg in
  flat_map (fun w => be_bytes 4 w []) (blocks (S (length p / 64)) H0 p).

Definition sha256d (msg : list N) : list N := sha256 (sha256 msg).
