(* Shared set-up: lia over Z/N/nat with div/mod and boolean comparisons. *)
From Coq Require Export List ZArith NArith Arith Lia Bool.
From Coq Require Export ZifyBool ZifyNat ZifyN.
Export ListNotations.
Ltac Zify.zify_post_hook ::= Z.div_mod_to_equations.

(* One case split per [if]: destruct the first boolean scrutinee found in the goal. *)
Ltac case_if :=
  match goal with
  | |- context [if ?b then _ else _] => destruct b eqn:?
  end.

Ltac inv H := inversion H; subst; clear H.
