(* C02 - a crash at any flush boundary leaves a consistent, resumable chain prefix.
   Statements only; every proof is [exact lemma].  Model: Node/Crash.v (database traffic of block
   processing, flushes, GC, start-up) and Node/Stages.v (Reset and state jump as stage machines).
   Section hypotheses of the lemmas (assumptions, not axioms): executing a block is a function of state
   and block ([exec]); a header-hash page holds more than one hash.  That a backend batch is atomic (the
   database only ever is [apply_all] of a prefix of the batch list) is built into [crash]; it is the explicit
   premise [backend_atomic] of C02_crash_prefix_backend (Node/Backend.v), refuted without it, and checked on
   the real backends by the harness. *)
From NG Require Import Common.Tactics Node.Crash Node.CrashProofs Node.Stages Node.StagesProofs Node.StagesWitness Node.StagesMain Node.CrashGC Node.CrashGCProofs Node.CrashGCWitness Node.ResetExact Node.SyncRestore Node.SyncRestoreProofs Node.StorageSync Node.StorageSyncProofs Node.BlockCache Node.Backend.
From NG Require Node.ResetPages.
Open Scope N_scope.

Section C02.
  Context {St Rt : Type}.
  Variable exec : St -> N -> St.
  Variable root : St -> Rt.
  Variable genesis : St.
  Variable ntx : N -> N.
  Variable PS : N.
  Variable gc_on : bool.
  Variable gcp mtb : N.
  Variable gc_set : N -> list N.
  Variable trusted : N.
  Hypothesis PS_big : 1 < PS.

  Notation run := (run St Rt exec root ntx PS gc_on gcp mtb gc_set).
  Notation fresh := (fresh St Rt root genesis ntx).
  Notation recover := (recover St Rt root genesis ntx PS trusted).
  Notation Inv := (Inv exec root genesis ntx PS).
  Notation WF := (WF exec root genesis ntx PS).

  (* For every run (any interleaving of AddHeaders, AddBlock, flush, flush+GC) and every number k of
     batches that reached the disk: the database is empty or is, for some h not above the last accepted
     block, exactly a node at height h - block records, transactions, state roots for all j <= h, the
     contract storage AFTER block h, tip pointer h, header-only records above h and nothing else of
     later blocks.  No boundary separates anything a block writes from the tip pointer. *)
  Theorem C02_block_batch_atomic : forall ops n bs k,
    run fresh ops = (n, bs) ->
    Empty (crash bs k) \/ exists h hh, Inv (crash bs k) false h hh /\ h <= height n.
  Proof. exact (block_batch_atomic exec root genesis ntx PS gc_on gcp mtb gc_set trusted PS_big). Qed.

  (* Re-opening after any k batches never fails and gives a well-formed node at a height not above the
     last accepted block. *)
  Theorem C02_crash_prefix : forall ops n bs k,
    run fresh ops = (n, bs) ->
    exists nk, recover (crash bs k) = RNode nk /\ WF false nk /\ height nk <= height n.
  Proof. exact (crash_prefix exec root genesis ntx PS gc_on gcp mtb gc_set trusted PS_big). Qed.

  (* The same with the premise about the BACKEND spelled out (Node/Backend.v).  C02_crash_prefix applies a batch to
     the database in one step; a real backend cuts a change set into its own transactions ([plan]) and every one of
     them is a durable state.  For a backend that commits ONE transaction per change set ([backend_atomic]) every
     durable state of every run re-opens like a batch prefix.  The premise is what the harness checks on BoltDBStore
     and LevelDBStore (kind "backend", and every flush of the node-level kinds on those backends). *)
  Theorem C02_crash_prefix_backend : forall (pl : @plan St Rt), backend_atomic pl -> forall ops n bs j,
    run fresh ops = (n, bs) ->
    exists nk, recover (durable pl bs j) = RNode nk /\ WF false nk /\ height nk <= height n.
  Proof. exact (crash_prefix_backend exec root genesis ntx PS gc_on gcp mtb gc_set trusted PS_big). Qed.

  (* The recovered node holds the history's state at its height, and whatever it does next, every state
     root it records is the history's root. *)
  Theorem C02_crash_state_is_history : forall ops n bs k nk ops1 m1 b1,
    run fresh ops = (n, bs) -> recover (crash bs k) = RNode nk -> run nk ops1 = (m1, b1) ->
    get (view m1) (KState false) = Some (VSt (st_at St exec genesis (height m1))) /\
    forall j, j <= height m1 -> get (view m1) (KRoot j) = Some (VRoot (root (st_at St exec genesis j))).
  Proof. exact (crash_state_is_history exec root genesis ntx PS gc_on gcp mtb gc_set trusted PS_big). Qed.

  (* ... and it is indistinguishable, on the whole ledger, from an uninterrupted node at the same height *)
  Theorem C02_crash_resume_same : forall ops n bs k nk ops1 ops2 m1 b1 m2 b2,
    run fresh ops = (n, bs) -> recover (crash bs k) = RNode nk ->
    run nk ops1 = (m1, b1) -> run fresh ops2 = (m2, b2) -> height m1 = height m2 ->
    forall key, ledger_key (height m1) key = true -> get (view m1) key = get (view m2) key.
  Proof. exact (crash_resume_same exec root genesis ntx PS gc_on gcp mtb gc_set trusted PS_big). Qed.

  (* the batches of a GC run keep a consistent database consistent at the same height *)
  Theorem C02_gc_crash_safe : forall d p h hh t,
    Inv d p h hh ->
    Inv (apply d (map (fun j => (KXfer j, None)) (gc_set t))) p h hh /\
    Inv (apply_all d (gc_batches St Rt gc_set t)) p h hh.
  Proof. exact (gc_crash_safe exec root genesis ntx PS gc_set). Qed.
End C02.

Print Assumptions C02_block_batch_atomic.
Print Assumptions C02_crash_prefix.
Print Assumptions C02_crash_prefix_backend.
Print Assumptions C02_crash_state_is_history.
Print Assumptions C02_crash_resume_same.
Print Assumptions C02_gc_crash_safe.

(* ---- Reset and state jump (Node/Stages.v).  [fixes_none] = the code at the pinned commit,
        [fixes_all] = the code with fixes/F20, F21, F22 applied; the correspondence check reports which of
        the two the implementation under test follows. ---- *)

(* Full statement, repaired code: an interrupted reset is resumed from ANY batch boundary and ends in the
   database content of the uninterrupted reset. *)
Definition C02_reset_resumable_statement : Prop := reset_resumable_statement fixes_all.
Theorem C02_reset_resumable : reset_resumable_statement fixes_all.
Proof. exact reset_resumable_all. Qed.
Print Assumptions C02_reset_resumable.

(* Code as it stands: the full statement is false (witness: Reset(1) of a 3-block chain interrupted after
   the second batch - F20; the witness file also exhibits k = 3 and the broken state root module at k = 5, F21) *)
Theorem C02_reset_resumable_refuted : ~ reset_resumable_statement fixes_none.
Proof. exact reset_resumable_none_refuted. Qed.
Print Assumptions C02_reset_resumable_refuted.

(* ... and holds at every boundary outside the two windows, for every variant of the code *)
Theorem C02_reset_resumable_partial :
  forall (St Rt : Type) (exec : St -> N -> St) (root : St -> Rt) (genesis : St) (ntx : N -> N)
         (PS trusted : N) (unroot : Rt -> St) (fx : fixes) (synced : db St Rt -> N -> bool) (mtb : N)
         (sync_root : N -> Rt),
    1 < PS -> (forall j, unroot (root (st_at St exec genesis j)) = st_at St exec genesis j) ->
    forall (d : db St Rt) (p : bool) (c hh h : N),
      Inv exec root genesis ntx PS d p c hh -> h <= c ->
      forall k : nat, (1 <= k <= 7)%nat ->
        ((k = 2 \/ k = 3)%nat -> fx_keep_headers fx = true) ->
        ((k = 5 \/ k = 6)%nat -> fx_sr_init fx = true) ->
        exists n, boot St Rt root genesis ntx PS trusted unroot fx synced mtb sync_root
                       (after ntx PS unroot fx d c hh h k) = Up n /\
                  height n = h /\ hheight n = h /\
                  db_eq (disk n) (apply_all d (all_batches ntx PS unroot fx d c hh h)).
Proof. exact (@reset_resumable). Qed.
Print Assumptions C02_reset_resumable_partial.

(* A completed Reset(h) leaves a database that satisfies the invariant of a node that only ever
   synchronised to h (under the other storage prefix): by C02_crash_prefix-style reasoning start-up, every
   ledger record and all later behaviour coincide.  Partial: trie nodes of the removed blocks stay behind
   (unreachable garbage, not modelled); the harness compares the whole real database class by class. *)
Theorem C02_reset_indistinguishable_partial :
  forall (St Rt : Type) (exec : St -> N -> St) (root : St -> Rt) (genesis : St) (ntx : N -> N)
         (PS : N) (unroot : Rt -> St) (fx : fixes),
    (db St Rt -> N -> bool) -> (N -> Rt) ->
    1 < PS -> (forall j, unroot (root (st_at St exec genesis j)) = st_at St exec genesis j) ->
    forall (d : db St Rt) (p : bool) (c hh h : N),
      Inv exec root genesis ntx PS d p c hh -> h <= c ->
      Inv exec root genesis ntx PS (apply_all d (all_batches ntx PS unroot fx d c hh h)) (negb p) h h.
Proof. exact (@reset_indistinguishable). Qed.
Print Assumptions C02_reset_indistinguishable_partial.

(* State jump: full statement for the repaired code, refutation for the code as it stands (F22: a restart
   right before the first batch of the jump leaves the node stuck at genesis), guarded statement for all. *)
Definition C02_jump_resumable_statement : Prop := jump_resumable_statement fixes_all.
Theorem C02_jump_resumable : jump_resumable_statement fixes_all.
Proof. exact jump_resumable_all. Qed.
Print Assumptions C02_jump_resumable.

Theorem C02_jump_resumable_refuted : ~ jump_resumable_statement fixes_none.
Proof. exact jump_resumable_none_refuted. Qed.
Print Assumptions C02_jump_resumable_refuted.

(* non-vacuity: the hypotheses are met by a concrete 3-block node, and the repaired stage machine really
   goes through all seven boundaries of its reset / all five of a jump *)
Example C02_reset_example :
  Inv wexec wroot 0 wntx wPS wd false 3 3 /\
  map (fun k => is_up (wboot fixes_all (wafter fixes_all k))) [1; 2; 3; 4; 5; 6; 7]%nat
    = [true; true; true; true; true; true; true] /\
  map (fun k => is_up (wboot fixes_none (wafter fixes_none k))) [1; 2; 3; 4; 5; 6; 7]%nat
    = [true; false; false; true; false; false; true].
Proof. split; [exact wd_inv|split; [exact reset_windows_all|exact (proj1 reset_windows_none)]]. Qed.

Example C02_jump_example :
  map (fun k => is_up (wjboot fixes_all (wjafter k))) [0; 1; 2; 3; 4]%nat = [true; true; true; true; true] /\
  is_stuck (wjboot fixes_none (wjafter 0)) = true.
Proof. split; [exact jump_window_all|exact (proj1 jump_window_none)]. Qed.

(* ---- the ORDER of Reset's two writers (Node/Stages.v reset_order) ----
   Reset hands its stage batches to a helper goroutine and collects the old contract storage by a SeekGC that
   goes to the database directly.  With the hand-over the code uses (an unbuffered channel: capacity 0) the direct
   operation can reach the store only after the first four batches - in particular after the one that carries the
   reset marker.  For every admissible order and every number k of writes on disk: the marker is on disk, or the
   database is still the pre-reset one, or the reset is complete; and start-up resumes the reset to height h
   and the database of the uninterrupted reset. *)
Definition C02_reset_direct_ops_after_marker_statement : Prop := reset_order_statement 0.
Theorem C02_reset_direct_ops_after_marker : reset_order_statement 0.
Proof. exact reset_order_code. Qed.
Print Assumptions C02_reset_direct_ops_after_marker.

(* the variant without that edge (hand-over through a channel that buffers: the direct SeekGC can overtake the
   marker batch): after the first write the chain is complete, carries no marker, and its contract storage is gone *)
Theorem C02_reset_direct_ops_after_marker_refuted : ~ reset_order_statement 4.
Proof. exact reset_order_no_edge_refuted. Qed.
Print Assumptions C02_reset_direct_ops_after_marker_refuted.

(* the marker-or-intact part needs that one edge only: direct operation after the marker batch (j >= 1) *)
Theorem C02_reset_marker_or_intact :
  forall (St Rt : Type) (exec : St -> N -> St) (root : St -> Rt) (genesis : St) (ntx : N -> N) (PS : N)
         (unroot : Rt -> St) (fx : fixes),
    (db St Rt -> N -> bool) -> (N -> Rt) ->
    1 < PS -> (forall j, unroot (root (st_at St exec genesis j)) = st_at St exec genesis j) ->
    forall (d : db St Rt) (c hh h : N), h <= c ->
      forall j k : nat, (1 <= j <= 5)%nat -> (k <= 7)%nat ->
        marker_on (ordered ntx PS unroot fx d c hh h j k) \/
        db_eq (ordered ntx PS unroot fx d c hh h j k) d \/ k = 7%nat.
Proof. exact (@reset_marker_or_intact). Qed.
Print Assumptions C02_reset_marker_or_intact.

Example C02_reset_order_example :
  map (fun j => map (fun k => is_up (wboot fixes_all (wordered j k))) [1; 2; 3; 4; 5; 6; 7]%nat) [4; 5]%nat
    = [[true; true; true; true; true; true; true]; [true; true; true; true; true; true; true]] /\
  has_marker (wordered 0 1) = false /\ has_state (wordered 0 1) = false /\ has_state wd = true.
Proof.
  split; [exact (proj1 order_windows_code)|].
  pose proof order_window_no_edge as (A & B & C & _). repeat split; assumption.
Qed.

(* ---- one block and the WRITE CACHE (Node/BlockCache.v) ----
   The flush of Run's timer is an atomic snapshot of the shared write cache and can fall anywhere inside a block
   addition; what makes a database batch carry nothing or everything of a block is that storeBlock merges its two
   private layers (block, transactions, transfer logs, tip pointer / contract storage, trie nodes, state root) into
   the cache in ONE step.  For every sequence of cache transactions that are block-aligned one by one (header
   transactions, whole blocks) with flushes anywhere between them, every batch that reaches the database is
   block-aligned: block record i <=> state root i, a tip pointer only with its block, storage / trie nodes only with
   a block. *)
Theorem C02_block_reaches_cache_atomically :
  forall (St Rt : Type) (evs : list (@cev St Rt)),
    Forall push_ok evs -> forall cache, aligned cache -> Forall aligned (emit cache evs).
Proof. exact (@block_reaches_cache_atomically). Qed.
Print Assumptions C02_block_reaches_cache_atomically.

(* instantiated: histories of header transactions, whole-block pushes and flushes *)
Theorem C02_atomic_blocks_aligned :
  forall (St Rt : Type) (exec : St -> N -> St) (root : St -> Rt) (ntx : N -> N) (l : list (list (@cev St Rt))),
    (forall x, In x l -> x = [CFlush] \/ (exists p s i, x = blk_atomic exec root ntx p s i) \/
                         (exists PS i, x = [CPush (hdr_writes St Rt PS i)])) ->
    Forall aligned (emit [] (concat l)).
Proof. exact (@atomic_blocks_aligned). Qed.
Print Assumptions C02_atomic_blocks_aligned.

(* the one push writes exactly what add_block of the crash model writes (Crash.blk_writes), key by key: the
   theorems about batches of the model (C02_block_batch_atomic, C02_crash_prefix) speak about these pushes *)
Theorem C02_layers_are_block :
  forall (St Rt : Type) (exec : St -> N -> St) (root : St -> Rt) (ntx : N -> N) (d : db St Rt) p s i,
    db_eq (apply d (aer_layer ntx i ++ state_layer exec root p s i)) (apply d (blk_writes St Rt exec root ntx p s i)).
Proof. exact (@layers_are_block). Qed.
Print Assumptions C02_layers_are_block.

(* the variant with separated merges: a flush between them writes the tip pointer and the record of block 1 without
   the state root of height 1; the database after that batch satisfies the node invariant at no height *)
Theorem C02_block_reaches_cache_atomically_refuted :
  map alignedb (emit [] wev) = [true] /\ map alignedb (emit [] wev_torn) = [false; false] /\
  ~ Forall aligned (emit [] wev_torn) /\
  (forall p h hh, ~ Inv (fun _ i => i) (fun s => s) 0 (fun _ => 1) 2000 wtorn p h hh).
Proof.
  destruct split_merges_refuted as (A & B & C). repeat split; auto. exact torn_is_no_node.
Qed.
Print Assumptions C02_block_reaches_cache_atomically_refuted.

(* ---- a flush that FAILS (Node/BlockCache.v, section FailFlush) ----
   MemCachedStore.persist puts the batch it could not write back UNDER what was pushed into the cache meanwhile, for
   both maps.  With that merge a history with failing flushes (flushes serialised: [fwf]) hands the database EXACTLY the
   batches - keys and values - of the same history with the failing flushes left out ([erase]); so every theorem about
   batches of C02 speaks about such histories too (the harness compares the real batches of kind "failflush" with the
   model run in which a failed flush is no operation), and every durable state after it is block-aligned. *)
Theorem C02_failed_flush_transparent :
  forall (St Rt : Type) (evs : list (@fev St Rt)) cache,
    fwf false evs = true -> femit merge_good None cache evs = emit cache (erase evs).
Proof. exact (@failed_flush_transparent). Qed.
Print Assumptions C02_failed_flush_transparent.

Theorem C02_failed_flush_aligned :
  forall (St Rt : Type) (evs : list (@fev St Rt)),
    Forall fpush_ok evs -> fwf false evs = true -> Forall aligned (femit merge_good None [] evs).
Proof. exact (@failed_flush_aligned). Qed.
Print Assumptions C02_failed_flush_aligned.

(* refuted for the merge that lets the OLDER value win in the storage-item map only (block 1 pushed, a flush begins,
   block 2 pushed while it hangs, it fails, the next flush succeeds): one batch, block-aligned key by key, tip pointer 2,
   state root 2 - and the contract storage of block 1; the database is a node at no height.  The same for a failed batch
   that is dropped.  With the right merge: tip 2, root 2, storage of block 2. *)
Theorem C02_failed_flush_wrong_merge_refuted :
  fwf false wfail = true /\
  (get (wdb merge_good) KCurBlock = Some (VNum 2) /\ get (wdb merge_good) (KRoot 2) = Some (VRoot 2) /\
   get (wdb merge_good) (KState false) = Some (VSt 2)) /\
  (map alignedb (femit merge_stor_wrong None [] wfail) = [true] /\
   get (wdb merge_stor_wrong) KCurBlock = Some (VNum 2) /\ get (wdb merge_stor_wrong) (KRoot 2) = Some (VRoot 2) /\
   get (wdb merge_stor_wrong) (KState false) = Some (VSt 1)) /\
  (forall p h hh, ~ Inv (fun _ i => i) (fun s => s) 0 (fun _ => 1) 2000 (wdb merge_stor_wrong) p h hh) /\
  (forall p h hh, ~ Inv (fun _ i => i) (fun s => s) 0 (fun _ => 1) 2000 (wdb merge_dropped) p h hh).
Proof. exact failed_flush_wrong_merge_refuted. Qed.
Print Assumptions C02_failed_flush_wrong_merge_refuted.

(* ---- Reset at the header-hash PAGE boundaries (Node/ResetPages.v) ----
   Pages are ResetPages.stored under the index of their first hash once complete; Reset(h) deletes from the page of h+1 forwards.
   For every page size, chain and target: the page start-up needs at header height h (the last complete one) is still
   there, and exactly the pages of a node that only ever saw headers 0..h remain. *)
Theorem C02_reset_keeps_previous_page : forall ps c h f,
  0 < ps -> h <= c -> ResetPages.previous ps h = Some f -> ResetPages.after ResetPages.kept ps c h f = true.
Proof. exact ResetPages.reset_keeps_previous_page. Qed.
Print Assumptions C02_reset_keeps_previous_page.

Theorem C02_reset_pages_exact : forall ps c h f, 0 < ps -> h <= c -> ResetPages.after ResetPages.kept ps c h f = ResetPages.stored ps h f.
Proof. exact ResetPages.reset_pages_exact. Qed.
Print Assumptions C02_reset_pages_exact.

(* refuted for the walk that stops one page late, exactly at h+1 = 0 (mod page size) - Reset(1999) of a chain of 2013
   loses page 0; Reset(1998) and Reset(2000) do not show it - and for the deletion that starts one page too far *)
Theorem C02_reset_keeps_previous_page_refuted :
  ResetPages.previous 2000 1999 = Some 0 /\ ResetPages.after ResetPages.kept_off 2000 2013 1999 0 = false /\ ResetPages.after ResetPages.kept 2000 2013 1999 0 = true /\
  ResetPages.previous 2000 1998 = None /\ ResetPages.previous 2000 2000 = Some 0 /\ ResetPages.after ResetPages.kept_off 2000 2013 2000 0 = true /\
  ResetPages.after ResetPages.kept_next 2000 4015 3000 2000 = true /\ ResetPages.stored 2000 3000 2000 = false.
Proof. exact ResetPages.reset_keeps_previous_page_refuted. Qed.
Print Assumptions C02_reset_keeps_previous_page_refuted.

(* ---- ONE change set inside the persistent backend (Node/Backend.v) ---- *)

(* an atomic backend: its durable states are exactly the batch prefixes of Crash.v, and the only durable state of a
   change set holds all of it *)
Theorem C02_backend_atomic_durable :
  forall (St Rt : Type) (pl : @plan St Rt) bs j, backend_atomic pl -> durable pl bs j = crash bs j.
Proof. exact (@atomic_durable). Qed.
Print Assumptions C02_backend_atomic_durable.

Theorem C02_backend_none_or_all :
  forall (St Rt : Type) (pl : @plan St Rt) b c, backend_atomic pl -> In c (counts 0 (pl b)) -> c = length b.
Proof. exact (@atomic_none_or_all). Qed.
Print Assumptions C02_backend_none_or_all.

(* any backend that writes all of every change set and nothing else, atomic or not, is at a batch prefix whenever a
   change set is complete: only the states INSIDE a change set are at stake *)
Theorem C02_backend_sound_boundary :
  forall (St Rt : Type) (pl : @plan St Rt) bs k,
    plan_sound pl -> durable pl bs (length (btxs pl (firstn k bs))) = crash bs k.
Proof. exact (@sound_boundary). Qed.
Print Assumptions C02_backend_sound_boundary.

(* without the premise the statement is false: a backend that cuts the flush of block 1 in two (sound, not atomic) *)
Theorem C02_crash_prefix_backend_refuted :
  ~ (forall pl : @plan N N, plan_sound pl ->
       crash_prefix_backend_statement (fun _ i => i) (fun s => s) 0 (fun _ => 1) 2000 false 0 0 (fun _ => []) 0 pl).
Proof. exact crash_prefix_backend_split_refuted. Qed.
Print Assumptions C02_crash_prefix_backend_refuted.

(* the witnesses: cut after the first write - the database does not open; cut after the 13th - tip pointer and record
   of block 1 without its state root: it opens and is a node at no height; the atomic backend - every state opens *)
Theorem C02_backend_split_witness :
  plan_sound (@plan_cut N N 1) /\ plan_sound (@plan_cut N N 13) /\
  bw_reopens (plan_cut 1) 1 = false /\
  bw_reopens (plan_cut 13) 1 = true /\
  (forall p h hh, ~ Inv (fun _ i => i) (fun s => s) 0 (fun _ => 1) 2000 (bw_state (plan_cut 13) 1) p h hh) /\
  forallb (bw_reopens bw_atomic) (seq 0 3) = true.
Proof. exact backend_split_refuted. Qed.
Print Assumptions C02_backend_split_witness.

(* ---- the full collector: untraceable blocks and header-hash pages (Node/CrashGC.v) ----
   For every run with collector runs in any position (block records below the target deleted through the write
   cache, header-hash pages by a commit of their own, repaired page bound F48) and every number k of batches
   on disk: start-up succeeds at a height not above the last accepted block, and the database holds from some
   [low] on exactly the records of that height (InvG: tip and header pointers, block/header records from low,
   every state root up to the height, the history's state, the pages from plow, with
   low <= first re-walked header and plow <= last complete page). *)
Theorem C02_gc_keeps_recoverable :
  forall (St Rt : Type) (exec : St -> N -> St) (root : St -> Rt) (genesis : St) (ntx : N -> N)
         (PS gcp mtb : N) (gc_set : N -> list N),
    1 < PS -> 0 < gcp ->
    forall ops g bs k,
      grun St Rt exec root ntx PS gcp mtb gc_set true (mkG (fresh St Rt root genesis ntx) 0 0) ops = (g, bs) ->
      exists nk, recover St Rt root genesis ntx PS 0 (crash bs k) = RNode nk /\
                 height nk <= height (g_node g) /\
                 (Empty (crash bs k) \/
                  exists low plow, InvG exec root genesis PS (crash bs k) false (height nk) (hheight nk) low plow).
Proof. exact (@gc_keeps_recoverable). Qed.
Print Assumptions C02_gc_keeps_recoverable.

(* the collector of the pinned code (F48) removes the page start-up needs when MaxTraceableBlocks is below
   the page size: a run after which the database cannot be re-opened; the same run with the repair can *)
Theorem C02_gc_unrepaired_refuted :
  gw_reopens false 21 = false /\ gw_reopens false 20 = true /\
  forallb (gw_reopens true) (seq 0 (S (length (snd (gw_run true))))) = true.
Proof. exact gc_unrepaired_refuted. Qed.
Print Assumptions C02_gc_unrepaired_refuted.

(* ---- reset_indistinguishable, exactly (Node/ResetExact.v) ----
   [node_db p h hh] is, key by key, the database of a node at height h with headers up to hh; the model's
   uninterrupted archival node holds exactly it after any sequence of headers, blocks and flushes: *)
Theorem C02_run_full :
  forall (St Rt : Type) (exec : St -> N -> St) (root : St -> Rt) (genesis : St) (ntx : N -> N)
         (PS gcp mtb : N) (gc_set : N -> list N),
    1 < PS ->
    forall ops n n' bs,
      FullN exec root genesis ntx PS n ->
      run St Rt exec root ntx PS false gcp mtb gc_set n ops = (n', bs) ->
      FullN exec root genesis ntx PS n'.
Proof. exact (@run_full). Qed.
Print Assumptions C02_run_full.

(* After Reset(h) of such a node (height c, headers to hh, any code variant) the database equals the database
   of a node that only ever synchronised to h - on EVERY key except the trie nodes first written by the
   removed blocks (h, c], i.e. DataMPT entries that no retained root (heights <= h) can reach ... *)
Theorem C02_reset_indistinguishable :
  forall (St Rt : Type) (exec : St -> N -> St) (root : St -> Rt) (genesis : St) (ntx : N -> N) (PS : N)
         (unroot : Rt -> St) (fx : fixes),
    1 < PS -> (forall j, unroot (root (st_at St exec genesis j)) = st_at St exec genesis j) ->
    forall (d : db St Rt) (p : bool) (c hh h : N),
      Full exec root genesis ntx PS d p c hh -> c <= hh -> h <= c ->
      forall k, garbage h c k = false ->
        get (apply_all d (reset_batches St Rt ntx PS unroot fx h c hh 1 d)) k
        = node_db exec root genesis ntx PS (negb p) h h k.
Proof. exact (@reset_exact). Qed.
Print Assumptions C02_reset_indistinguishable.

(* ... and exactly those are left behind *)
Theorem C02_reset_leftover :
  forall (St Rt : Type) (exec : St -> N -> St) (root : St -> Rt) (genesis : St) (ntx : N -> N) (PS : N)
         (unroot : Rt -> St) (fx : fixes),
    1 < PS -> (forall j, unroot (root (st_at St exec genesis j)) = st_at St exec genesis j) ->
    forall (d : db St Rt) (p : bool) (c hh h : N),
      Full exec root genesis ntx PS d p c hh -> c <= hh -> h <= c ->
      forall j, h < j <= c ->
        get (apply_all d (reset_batches St Rt ntx PS unroot fx h c hh 1 d)) (KMpt j) = Some VUnit.
Proof. exact (@reset_leftover). Qed.
Print Assumptions C02_reset_leftover.

(* ---- restoring a received trie node during state synchronisation (Node/SyncRestore.v) ----
   With every restoration reaching the database as one batch (repair F49), after any number of batches every
   node whose record is present has everything its restoration writes (references for every path, contract
   storage items) - which is what the restart assumes of a node it finds. *)
Theorem C02_restore_atomic_complete :
  forall (St Rt : Type) (effects : N -> list (key * option (val St Rt))) (nkey : N -> key),
    (forall n k, ~ In (k, None) (effects n)) ->
    (forall n m k v, In (k, v) (effects m) -> k = nkey n -> m = n) ->
    forall ns k n, complete St Rt effects nkey (apply_all [] (firstn k (atomic_batches St Rt effects ns))) n.
Proof. exact (@restore_atomic_complete). Qed.
Print Assumptions C02_restore_atomic_complete.

(* flushed write by write (the pinned code: H1 / F49) there is a boundary where the leaf is present and one
   of its effects is not *)
Theorem C02_restore_single_refuted :
  sr_prefixes (single_batches N N sr_effects [1]) = [true; true; false; true] /\
  sr_prefixes (atomic_batches N N sr_effects [1]) = [true; true].
Proof. exact restore_single_refuted. Qed.
Print Assumptions C02_restore_single_refuted.

(* ---- contract-storage-based state synchronisation (Node/StorageSync.v) ----
   When every item batch reaches the database together with its checkpoint (one atomic batch: items of the batch,
   the trie of the new intermediate root, removal of what only the previous root needed, checkpoint), then after
   ANY number k of batches the persisted checkpoint's root is present in the persisted trie, the persisted items
   are exactly those up to the checkpoint, and start-up resumes to exactly the database of the uninterrupted
   synchronisation. *)
Theorem C02_storage_sync_resumable : forall n k, (k <= n)%nat ->
  SInv (sapply_all sempty (firstn k (sync_batches unit n))) /\
  resume n (sapply_all sempty (firstn k (sync_batches unit n))) = Some (sapply_all sempty (sync_batches unit n)).
Proof. exact storage_sync_resumable. Qed.
Print Assumptions C02_storage_sync_resumable.

(* the variant that persists the checkpoint one flush late cannot resume after the second flush (the
   checkpoint names a root the reference-counted trie has already dropped); the atomic one can *)
Theorem C02_storage_sync_late_refuted :
  resume 3 (sapply_all sempty (firstn 2 (sync_batches late_unit 3))) = None /\
  (exists d, resume 3 (sapply_all sempty (firstn 2 (sync_batches unit 3))) = Some d).
Proof. exact storage_sync_late_refuted. Qed.
Print Assumptions C02_storage_sync_late_refuted.
