(* C11 — trie node storage stays exact under reference counting and garbage collection.
   Statements only; every proof is [exact lemma].

   Reading guide.  [run reset m init evs] runs the model of stateroot.Module + mpt.Trie (TrieRC/Model.v) in trie
   mode m over ANY sequence of events from the empty store: committed blocks [EBlock T' ops], blocks computed and
   dropped [EDrop T' ops], GC passes [EGC G], [ECollapse].  [ops] is the block's addRef/removeRef/load sequence in
   any order.  [evs_ok nb reset None None 0 evs] is the hypothesis on the sequence:
     - every operation carries the serialization [nb h] of the node its hash names (hash identifies content);
     - INTERFACE HYPOTHESIS on the concrete trie (to be discharged by C10, coq/Trie: refcount bookkeeping of
       Put/Delete/PutBatch): for every hash the operations of a block net to
       (occurrences in the new trie) - (occurrences in the trie the module holds in memory);
     - a GC pass is not asked for a height above the current one.
   [hist evs] are the committed tries, [trie_at (hist evs) j] the trie after j blocks (block j flushes with index j),
   [gmax evs] the largest GC height so far, [occT h T] the number of occurrences of node h in T (a node shared by
   several parents, or the same leaf under many keys, counts several times).
   [reset = true] is the module as it stands since the repair of finding F30 (/repo commit cb1c052: the module's trie
   is re-read from the committed root after a dropped block); [reset = false] is the module before that commit (the
   struct copy made by AddMPTBatch shares the refcount map and the interior nodes with the module's trie).  On
   histories without dropped blocks the two are the same function ([C11_before_fix_same_without_drops]). *)
From NG Require Import Common.Tactics TrieRC.Model TrieRC.AList TrieRC.Pointwise TrieRC.Slots TrieRC.Proofs
  TrieRC.Read TrieRC.Harmless TrieRC.Theorems TrieRC.Concrete TrieRC.Persisted.
Open Scope Z_scope.

(* ModeLatest: after every committed block (any prefix of any history) the table is exactly
   { h |-> (bytes, active, occ h T) | occ h T > 0 } for the latest trie T, and no Flush panics *)
Theorem C11_latest_exact : forall (nb : hash -> bytes) evs,
  evs_ok nb true None None 0 evs ->
  exists s, run true MLatest init evs = Some s /\
    forall h, lookup (s_tbl s) h =
              if 0 <? occT h (s_com s) then Some (mkE (nb h) true (occT h (s_com s))) else None.
Proof. exact latest_exact. Qed.
Print Assumptions C11_latest_exact.

(* ModeGC: active entries carry the occurrences in the latest trie; an entry that left the latest trie at block b is
   inactive with stamp b until collected; nothing else is present ([gc_exact] spells the five clauses out) *)
Theorem C11_gc_mode_exact : forall (nb : hash -> bytes) evs,
  evs_ok nb true None None 0 evs ->
  exists s, run true MGC init evs = Some s /\
    s_n s = length (hist evs) /\ s_com s = trie_at (hist evs) (s_n s) /\
    gc_exact nb (hist evs) (gmax evs) (s_n s) (s_tbl s).
Proof. exact gc_mode_exact. Qed.
Print Assumptions C11_gc_mode_exact.

(* ModeAll: every node of every trie ever committed is in the table *)
Theorem C11_all_mode_complete : forall (nb : hash -> bytes) evs,
  evs_ok nb true None None 0 evs ->
  exists s, run true MAll init evs = Some s /\
    forall j h, (j <= s_n s)%nat -> 0 < occT h (trie_at (hist evs) j) -> lookup (s_tbl s) h = Some (mkE (nb h) true 0).
Proof. exact all_mode_complete. Qed.
Print Assumptions C11_all_mode_complete.

(* every trie of a retained height (ModeAll: all; ModeLatest: the latest; ModeGC: heights >= the largest GC height)
   reads back node for node through the historic reader, and the latest one also through the live reader
   (which ignores inactive entries in ModeGC) *)
Theorem C11_retained_readable : forall (nb : hash -> bytes) (dec : bytes -> list hash) m evs,
  evs_ok nb true None None 0 evs ->
  exists s, run true m init evs = Some s /\
    forall j t fuel,
      retained m (gmax evs) (s_n s) j -> trie_at (hist evs) j = Some t -> wf nb dec t -> (height t <= fuel)%nat ->
      load dec (read_hist (s_tbl s)) fuel (root_hash t) = Some t /\
      (j = s_n s -> load dec (read_store m (s_tbl s)) fuel (root_hash t) = Some t).
Proof. exact retained_readable_run. Qed.
Print Assumptions C11_retained_readable.

(* a GC pass up to G removes no entry that the trie of a retained height >= G needs *)
Theorem C11_gc_safe : forall (nb : hash -> bytes) m evs (G : nat),
  evs_ok nb true None None 0 evs ->
  exists s, run true m init evs = Some s /\
    ((G <= s_n s)%nat ->
     forall j h, retained m (gmax evs) (s_n s) j -> (G <= j)%nat -> 0 < occT h (trie_at (hist evs) j) ->
       lookup (gc (Z.of_nat G) (s_tbl s)) h = lookup (s_tbl s) h /\ lookup (s_tbl s) h <> None).
Proof. exact gc_safe_run. Qed.
Print Assumptions C11_gc_safe.

(* reading ANY root (in particular one whose nodes were collected) gives NotFound or exactly the tree that root
   names — never other data — under the hash-identifies-content reading ([wf]: every node's bytes name its children) *)
Theorem C11_stale_root_fails_cleanly : forall (nb : hash -> bytes) (dec : bytes -> list hash) m evs,
  evs_ok nb true None None 0 evs ->
  exists s, run true m init evs = Some s /\
    forall t0 fuel, wf nb dec t0 ->
      (load dec (read_hist (s_tbl s)) fuel (root_hash t0) = None \/
       load dec (read_hist (s_tbl s)) fuel (root_hash t0) = Some t0) /\
      (load dec (read_store m (s_tbl s)) fuel (root_hash t0) = None \/
       load dec (read_store m (s_tbl s)) fuel (root_hash t0) = Some t0).
Proof. exact stale_root_fails_cleanly. Qed.
Print Assumptions C11_stale_root_fails_cleanly.

(* uncommitted_harmless: a block computed on a copy and dropped changes no later table — the history with its dropped
   blocks and the history without them never panic and end in the same table content, in every mode *)
Theorem C11_uncommitted_harmless : forall (nb : hash -> bytes) m evs,
  evs_ok nb true None None 0 evs ->
  exists s s', run true m init evs = Some s /\ run true m init (remove_drops evs) = Some s' /\
               s_com s = s_com s' /\ s_n s = s_n s' /\
               forall h, lookup (s_tbl s) h = lookup (s_tbl s') h.
Proof. exact uncommitted_harmless. Qed.
Print Assumptions C11_uncommitted_harmless.

(* record of finding F30: the same statement for the module BEFORE commit cb1c052 ([reset = false]) is false — a node
   created by the dropped block and kept by the next block is never written (witness checked by vm_compute; reproduced
   on the real stateroot.Module by the harness, corpus/C11/c11.json, before the repair) *)
Definition C11_uncommitted_harmless_statement_before_fix : Prop := forall nb, uncommitted_harmless_statement nb.
Theorem C11_uncommitted_harmless_before_fix_refuted : ~ uncommitted_harmless_statement (fun h => h).
Proof. exact uncommitted_harmless_refuted. Qed.
Print Assumptions C11_uncommitted_harmless_before_fix_refuted.

(* without dropped blocks the module before the repair is the same function *)
Theorem C11_before_fix_same_without_drops : forall (nb : hash -> bytes) m evs,
  no_drop evs -> evs_ok nb false None None 0 evs ->
  run false m init evs = run true m init evs /\ evs_ok nb true None None 0 evs.
Proof. exact as_is_without_drops. Qed.
Print Assumptions C11_before_fix_same_without_drops.

(* Flush does not depend on the iteration order of the Go map *)
Theorem C11_flush_order_irrelevant : forall m idx todo1 todo2 rc tbl r1 t1 r2 t2,
  NoDup (keys todo1) -> NoDup (keys todo2) -> (forall h, In h (keys todo1) <-> In h (keys todo2)) ->
  flush_go m idx todo1 rc tbl = Some (r1, t1) -> flush_go m idx todo2 rc tbl = Some (r2, t2) ->
  forall h, lookup r1 h = lookup r2 h /\ lookup t1 h = lookup t2 h.
Proof. exact flush_order_irrelevant. Qed.
Print Assumptions C11_flush_order_irrelevant.

(* WHICH height the collector is run for.  The GC deletes from the persistent store, which holds the table after the p
   persisted blocks; [s] is that persisted state.  With the target tryRunGC computes from the PERSISTED height
   ([gc_target p mtb period] = ((p - mtb) / period) * period) no entry that a state traceable for the persisted chain
   (p - mtb <= j <= p) needs is removed, and the invariant holds again afterwards (so those states read back on the
   running node and on a node restarted from the store alone) *)
Theorem C11_gc_safe_wrt_persisted : forall (nb : hash -> bytes) H g s mtb period,
  Inv nb MGC H g s ->
  let p := s_n s in
  let G := gc_target p mtb period in
  (forall j h, (p - mtb <= j <= p)%nat -> (g <= j)%nat -> 0 < occT h (trie_at H j) ->
     lookup (gc (Z.of_nat G) (s_tbl s)) h = lookup (s_tbl s) h /\ lookup (s_tbl s) h <> None) /\
  exists s', step true MGC s (EGC G) = Some s' /\ Inv nb MGC H (Nat.max g G) s'.
Proof. exact gc_safe_wrt_persisted. Qed.
Print Assumptions C11_gc_safe_wrt_persisted.

(* with the target computed from the height of the chain in memory (p + k, k blocks only in the write cache) the
   claim is false: witness with MTB 2, 4 persisted blocks, 2 cached ones *)
Definition C11_gc_from_memory_height_statement : Prop := forall nb, gc_from_memory_height_statement nb.
Theorem C11_gc_from_memory_height_refuted : ~ gc_from_memory_height_statement (fun h => h).
Proof. exact gc_from_memory_height_refuted. Qed.
Print Assumptions C11_gc_from_memory_height_refuted.

(* the window length is a function of the height ([mtb_at E cfg pol h]: the configuration value below the Echidna height
   E, the Policy contract's value from E on) and is never 0 *)
Theorem C11_window_never_zero : forall E cfg pol h,
  (0 < cfg)%nat -> (forall x, 0 < pol x)%nat -> (0 < mtb_at E cfg pol h)%nat.
Proof. exact mtb_at_pos. Qed.
Print Assumptions C11_window_never_zero.

(* for EVERY persisted height p — below, at and above the hard-fork height — a collection run with a window length of at
   least the one in force at p keeps every state of p's traceable window and re-establishes the invariant *)
Theorem C11_gc_safe_at_every_height : forall (nb : hash -> bytes) H g s E cfg pol period m',
  Inv nb MGC H g s ->
  let p := s_n s in
  let w := mtb_at E cfg pol p in
  (w <= m')%nat ->
  let G := gc_target p m' period in
  (forall j h, (p - w <= j <= p)%nat -> (g <= j)%nat -> 0 < occT h (trie_at H j) ->
     lookup (gc (Z.of_nat G) (s_tbl s)) h = lookup (s_tbl s) h /\ lookup (s_tbl s) h <> None) /\
  exists s', step true MGC s (EGC G) = Some s' /\ Inv nb MGC H (Nat.max g G) s'.
Proof. exact gc_safe_at_every_height. Qed.
Print Assumptions C11_gc_safe_at_every_height.

(* a getter yielding 0 (the Policy value read one block before the contract initialises it, at E-1) makes the
   collection unsafe for the window the configuration promises: witness MTB 2, 4 persisted blocks *)
Definition C11_gc_with_zero_window_statement : Prop := forall nb, gc_with_zero_window_statement nb.
Theorem C11_gc_with_zero_window_refuted : ~ gc_with_zero_window_statement (fun h => h).
Proof. exact gc_with_zero_window_refuted. Qed.
Print Assumptions C11_gc_with_zero_window_refuted.

(* a positive window length that is merely not above the one of the persisted chain is not enough either: the length
   read at the current height after a not yet persisted lowering (1 instead of 3, 5 persisted blocks) lets the collector
   remove a node of a state the persisted chain still promises (finding F61) *)
Theorem C11_gc_with_lowered_window_refuted : ~ gc_with_lowered_window_statement (fun h => h).
Proof. exact gc_with_lowered_window_refuted. Qed.
Print Assumptions C11_gc_with_lowered_window_refuted.

(* ================= the interface hypothesis discharged against the concrete trie of C10 =================
   TrieRC/Concrete.v: [put_trace], [delete_trace], [put_batch_trace] list the addRef/removeRef calls of Trie.Put,
   Trie.Delete and Trie.PutBatch with the placements of trie.go / batch.go, over the model of coq/Trie/Model.v and an
   arbitrary hash function H; [cn H h t] counts the stored nodes of t whose hash is h ([nodes]); [abs H t] is the
   abstract tree a concrete trie denotes. *)

(* Put: the calls net to the change of occurrences (nodes off the path are shared and untouched) *)
Theorem C11_put_refs_net : forall (H : Trie.Model.bytes -> Trie.Model.bytes) t p v,
  keys_ok t -> Trie.Model.path_ok p ->
  forall h, net h (put_trace H t p v) = cn H h (Trie.Model.put t p v) - cn H h t.
Proof. exact put_trace_net. Qed.
Print Assumptions C11_put_refs_net.

Theorem C11_delete_refs_net : forall (H : Trie.Model.bytes -> Trie.Model.bytes) t p,
  forall h, net h (delete_trace H t p) = cn H h (Trie.Model.delete t p) - cn H h t.
Proof. exact delete_trace_net. Qed.
Print Assumptions C11_delete_refs_net.

(* PutBatch (what a block does): mergeExtension, stripBranch, addToBranch, newSubTrieMany, putBatchInto* *)
Theorem C11_put_batch_refs_net : forall (H : Trie.Model.bytes -> Trie.Model.bytes) t kv,
  keys_ok t -> forall h, net h (put_batch_trace H t kv) = cn H h (Trie.Model.put_batch t kv) - cn H h t.
Proof. exact put_batch_trace_net. Qed.
Print Assumptions C11_put_batch_refs_net.

(* the abstract tree has the occurrence counts of the concrete trie *)
Theorem C11_abstraction_counts : forall (H : Trie.Model.bytes -> Trie.Model.bytes) h t, occT h (abs H t) = cn H h t.
Proof. exact occ_abs. Qed.
Print Assumptions C11_abstraction_counts.

(* hence [evs_ok] — the hypothesis of every theorem above — holds for EVERY history of committed blocks, dropped
   blocks, GC passes and Collapse calls whose blocks are sequences of Put / Delete / PutBatch on the concrete trie
   with well-formed arguments (nibble paths; batches sorted and duplicate-free as MapToMPTBatch builds them) *)
Theorem C11_interface_discharged : forall (H : Trie.Model.bytes -> Trie.Model.bytes) l t n,
  Trie.Model.NF t -> cevs_wf n l -> evs_ok (fun h => h) true (abs H t) (abs H t) n (cevs H t l).
Proof. exact cevs_ok. Qed.
Print Assumptions C11_interface_discharged.

(* latest_exact and gc_mode_exact without any hypothesis about reference counting *)
Theorem C11_latest_exact_concrete : forall (H : Trie.Model.bytes -> Trie.Model.bytes) l, cevs_wf 0 l ->
  exists s, run true MLatest init (cevs H Trie.Model.Empty l) = Some s /\
    forall h, lookup (s_tbl s) h =
              if 0 <? cn H h (cfinal Trie.Model.Empty l) then Some (mkE h true (cn H h (cfinal Trie.Model.Empty l))) else None.
Proof. exact latest_exact_concrete. Qed.
Print Assumptions C11_latest_exact_concrete.

Theorem C11_gc_mode_exact_concrete : forall (H : Trie.Model.bytes -> Trie.Model.bytes) l, cevs_wf 0 l ->
  exists s, run true MGC init (cevs H Trie.Model.Empty l) = Some s /\
    s_com s = abs H (cfinal Trie.Model.Empty l) /\
    gc_exact (fun h => h) (hist (cevs H Trie.Model.Empty l)) (gmax (cevs H Trie.Model.Empty l)) (s_n s) (s_tbl s).
Proof. exact gc_mode_exact_concrete. Qed.
Print Assumptions C11_gc_mode_exact_concrete.

Example C11_concrete_example :
  cevs_wf 0 x_hist /\
  cfinal Trie.Model.Empty x_hist = Trie.Model.Ext [1;2;3;5]%nat (Trie.Model.Leaf [7%N]) /\
  match run true MGC init (cevs xH Trie.Model.Empty x_hist) with
  | Some s => length (s_tbl s) = 10%nat /\ length (filter (fun e => e_active (snd e)) (s_tbl s)) = 2%nat
  | None => False
  end.
Proof. split; [exact x_hist_wf|exact x_hist_run]. Qed.

(* non-vacuity: a history satisfying the hypotheses in which a node occurs twice, leaves the trie at block 2, is
   kept by GC 1 and collected by GC 2, with a Load, a Collapse and a dropped block in between *)
Example C11_example_hypotheses : evs_ok (fun h => h) true None None 0 ex_evs.
Proof. exact ex_evs_ok. Qed.
Example C11_example_run :
  option_map s_tbl (run true MGC init (firstn 3 ex_evs)) =
    Some [(2%N, mkE 2%N true 1); (1%N, mkE 1%N false 2); (3%N, mkE 3%N true 1)] /\
  option_map s_tbl (run true MGC init ex_evs) = Some [(2%N, mkE 2%N true 1); (3%N, mkE 3%N true 1)] /\
  option_map s_tbl (run true MLatest init ex_evs) = Some [(2%N, mkE 2%N true 1); (3%N, mkE 3%N true 1)].
Proof. exact ex_run_gc. Qed.
