(* C09 — the layered key-value store behaves as one ordered map on every backend.
   Statements only; every proof is [exact lemma].  Model: Store/Model.v (mechanism, with the repairs fixes/F1, fixes/F2),
   specification: Store/Spec.v ([flat], [range_query]); interleavings: Store/Conc.v. *)
From NG Require Import Common.Tactics Store.Bytes Store.Model Store.Spec Store.MapLemmas Store.MergeProof
  Store.Refine Store.Conc Store.ConcFine Store.Legacy.
Open Scope N_scope.

(* ---- point reads ---- *)
(* Get through any stack of layers (tombstones hide lower values) = lookup in the one flattened map *)
Theorem C09_get_refines : forall s k, wf s -> store_get s k = spec_get s k.
Proof. exact get_refines. Qed.
Print Assumptions C09_get_refines.

(* ---- range scans ---- *)
(* the mechanism of performSeek (closure state kvMem/haveMem/iMem, inner loop, trimming of the local copy, tail loop)
   computes the plain ordered merge of the sorted cache snapshot with the lower answer, for both directions,
   with and without trimming, whether or not the lower store is consulted *)
Theorem C09_performseek_is_merge : forall bw cut lp memRes lower,
  sorted bw memRes -> sorted bw (match lower with Some ps => ps | None => [] end) ->
  perform_seek bw cut lp memRes lower =
  trim cut lp (smerge bw memRes (match lower with Some ps => ps | None => [] end)).
Proof. exact perform_seek_is_merge. Qed.
Print Assumptions C09_performseek_is_merge.

(* Seek / SeekAsync on any stack, any backend, for every prefix, start, direction, search depth, with or without
   trimming: the emitted list IS the range query on the flattening of the top [rdepth] layers *)
Theorem C09_seek_refines : forall s cut r, wf s -> layers s <> [] -> range_ok r ->
  store_seek s cut r = spec_seek s cut r.
Proof. exact seek_refines. Qed.
Print Assumptions C09_seek_refines.

(* that list is strictly ordered in the seek direction (so: no duplicates) ... *)
Theorem C09_seek_sorted : forall s r, wf s -> sorted (rback r) (rq r (flat_depth (rdepth r) s)).
Proof. exact seek_sorted. Qed.
Print Assumptions C09_seek_sorted.

(* ... and contains exactly the pairs of the one map that lie in the range (nothing omitted, nothing invented) *)
Theorem C09_seek_complete : forall s r k, wf s ->
  lookup k (rq r (flat_depth (rdepth r) s)) =
  if in_range (rprefix r) (rstart r) (rback r) k then lookup k (flat_depth (rdepth r) s) else None.
Proof. exact seek_complete. Qed.
Print Assumptions C09_seek_complete.

(* dao.Simple.Seek / SeekAsync and the Storage.Find iterator: the contract's own keys, header cut *)
Theorem C09_dao_seek_refines : forall s id r, wf s -> layers s <> [] -> range_ok r ->
  dao_seek s id r = spec_dao_seek s id r.
Proof. exact dao_seek_refines. Qed.
Print Assumptions C09_dao_seek_refines.

Theorem C09_dao_seek_async_refines : forall s id r, wf s -> layers s <> [] -> range_ok r ->
  dao_seek_async s id r = spec_dao_seek s id r.
Proof. exact dao_seek_async_refines. Qed.
Print Assumptions C09_dao_seek_async_refines.

Theorem C09_find_keep_refines : forall s id r, wf s -> layers s <> [] -> range_ok r ->
  find_keep s id r = spec_find_keep s id r.
Proof. exact find_keep_refines. Qed.
Print Assumptions C09_find_keep_refines.

(* ---- backends ---- *)
(* MemoryStore's filter+sort, LevelDB's range iterator and Bolt's cursor loop over [Start, Limit) of
   seekRangeToPrefixes all return the range query on their content, including all-0xff prefixes (nil limit) *)
Theorem C09_base_seek_is_range_query : forall bk r b, range_ok r -> keys_ok b -> sorted false b ->
  base_seek bk r b = rq r b.
Proof. exact base_seek_rq. Qed.
Print Assumptions C09_base_seek_is_range_query.

Theorem C09_backend_agree : forall bk1 bk2 r b, range_ok r -> keys_ok b -> sorted false b ->
  base_seek bk1 r b = base_seek bk2 r b.
Proof. exact backend_agree. Qed.
Print Assumptions C09_backend_agree.

(* ---- flushing ---- *)
(* Persist of any layer (shared anywhere in the stack, private on top) and PersistPrivate leave the one map unchanged *)
Theorem C09_persist_step_flat : forall s, wf s ->
  (forall i, flat (step s (OPersist i)) = flat s) /\ flat (step s OPersistPrivate) = flat s.
Proof. exact persist_step_flat. Qed.
Print Assumptions C09_persist_step_flat.

(* hence no Get and no full-depth Seek changes its answer when a layer is flushed *)
Theorem C09_flush_changes_no_answer : forall s o, wf s -> layers s <> [] ->
  (match o with OPersist _ | OPersistPrivate => True | _ => False end) ->
  (forall k, store_get (step s o) k = store_get s k) /\
  (forall cut r, range_ok r -> rdepth r = 0 -> store_seek (step s o) cut r = store_seek s cut r).
Proof. exact flush_changes_no_answer. Qed.
Print Assumptions C09_flush_changes_no_answer.

(* ---- histories ---- *)
(* after ANY sequence of put/delete/wrap/persist/persist-private/drop on any backend *)
Theorem C09_history_refines : forall bk ops, Forall op_ok ops ->
  let s := run (init bk) ops in
  (forall k, store_get s k = spec_get s k) /\
  (forall cut r, range_ok r -> store_seek s cut r = spec_seek s cut r).
Proof. exact history_refines. Qed.
Print Assumptions C09_history_refines.

(* ---- readers against writers and a concurrent Persist (lock-region granularity) ---- *)
(* every lock region of Persist (swap, write below, unswap) and both reader steps leave the one map unchanged;
   a write changes it by exactly its batch *)
Theorem C09_persist_regions_preserve_flat : forall c a, cwf c ->
  match a with
  | AWrite b => sorted false b -> cflat (cstep c a) = apply_writes b (cflat c)
  | _ => cflat (cstep c a) = cflat c
  end.
Proof. exact persist_regions_preserve_flat. Qed.
Print Assumptions C09_persist_regions_preserve_flat.

(* PARTIAL.  For every schedule in which no NEW Persist swap falls between the reader's snapshot and its read of the
   captured lower store (writers, the pending write below and the unswap may fall there), the reader's answer is the
   range query on the one ordered map at the instant of its snapshot.  What is missing for the full statement: the
   case of a swap inside the window, where the statement is false (next theorem). *)
Theorem C09_reader_atomic_partial : forall c0 pre r mid,
  cwf c0 -> rsnap c0 = None -> rans c0 = None ->
  Forall batch_ok pre -> Forall batch_ok mid ->
  Forall (fun a => match a with ASnap _ | ARead => False | _ => True end) pre ->
  Forall no_swap_or_reader mid ->
  range_ok r ->
  let c1 := crun c0 pre in
  rans (crun c0 (pre ++ ASnap r :: mid ++ [ARead])) = Some (rq r (cflat c1)).
Proof. exact reader_atomic_partial. Qed.
Print Assumptions C09_reader_atomic_partial.

(* the full statement (answer = the one map at SOME instant of the reader's interval, for EVERY schedule) ... *)
Definition C09_reader_atomic_statement : Prop := reader_atomic_statement.
(* ... does not hold for the mechanism: finding F41 (the same schedule replayed on the implementation is corpus case 2) *)
Theorem C09_reader_atomic_refuted : ~ C09_reader_atomic_statement.
Proof. exact reader_atomic_refuted. Qed.
Print Assumptions C09_reader_atomic_refuted.

(* ---- the reader at a finer grain: its code before s.rlock() is a step of its own (Store/ConcFine.v) ---- *)
(* the code as written reads nothing of the store before the lock (maps chosen and s.ps captured inside the region):
   for EVERY fine schedule the system is the coarse one ... *)
Theorem C09_fine_inside_is_coarse : forall tr st, fc (frun false st tr) = crun (fc st) (erase tr).
Proof. exact fine_inside_is_coarse. Qed.
Print Assumptions C09_fine_inside_is_coarse.

(* ... so the (partial) reader atomicity holds wherever the pre-lock steps are scheduled *)
Theorem C09_fine_reader_atomic_partial : forall c0 pre r mid,
  cwf c0 -> rsnap c0 = None -> rans c0 = None ->
  Forall batch_ok (erase pre) -> Forall batch_ok (erase mid) ->
  Forall (fun a => match a with ASnap _ | ARead => False | _ => True end) (erase pre) ->
  Forall no_swap_or_reader (erase mid) ->
  range_ok r ->
  rans (fc (frun false {| fc := c0; fpre := None |} (pre ++ FLocked r :: mid ++ [FRead]))) =
  Some (rq r (cflat (crun c0 (erase pre)))).
Proof. exact fine_reader_atomic_partial. Qed.
Print Assumptions C09_fine_reader_atomic_partial.

(* the variant that captures s.ps BEFORE taking the read lock does not have that property: a committed key is missing
   from a scan that loses the lock to Persist's first region while the flush is in flight (no swap between the locked
   region and the lower read).  This documents the class of change harness/c09lock.go is there to catch. *)
Definition C09_capture_before_statement : Prop := capture_before_statement.
Theorem C09_capture_before_lock_refuted : ~ C09_capture_before_statement.
Proof. exact capture_before_refuted. Qed.
Print Assumptions C09_capture_before_lock_refuted.

(* ---- the two repaired defects, as counter-examples of the unrepaired mechanisms ---- *)
Theorem C09_F1_legacy_refuted :
  exists memRes ps, sorted false memRes /\ sorted false ps /\
    perform_seek_legacy false true 1 memRes ps <> trim true 1 (smerge false memRes ps) /\
    perform_seek false true 1 memRes (Some ps) = trim true 1 (smerge false memRes ps).
Proof. exact F1_legacy_refuted. Qed.
Print Assumptions C09_F1_legacy_refuted.

Theorem C09_F2_legacy_refuted :
  exists r b, sorted false b /\ mem_seek_legacy r b <> level_seek r b /\ mem_seek_legacy r b <> bolt_seek r b /\
              mem_seek r b = level_seek r b.
Proof. exact F2_legacy_refuted. Qed.
Print Assumptions C09_F2_legacy_refuted.

(* ---- non-vacuity: the hypotheses are met by concrete, non-trivial states ---- *)

(* a three-layer stack on Bolt reached by a history: shared over private over shared, tombstone, flushed base *)
Definition ex_ops : list op :=
  [OPut [112; 128] [1]; OPut [112; 128; 0] [2]; OPersist 0; OWrap true; OPut [112; 112; 128] [3]; ODel [112; 128; 0];
   OWrap false; OPut [112; 255] [4]; OPut [112; 128; 255] [5]].
Definition ex_s : stack := run (init BBolt) ex_ops.

Example C09_ex_wf : wf ex_s /\ layers ex_s <> [] /\ length (layers ex_s) = 3%nat /\ base ex_s <> [].
Proof.
  split; [apply run_wf; [apply wf_init|repeat constructor; lia]|].
  split; [apply run_nonempty; simpl; discriminate|]. split; vm_compute; [reflexivity|discriminate].
Qed.

(* trimmed forward seek over the doubled prefix (the F1 shape), backward seek from a start point whose extensions
   live in different layers (the F2 shape), depth-limited seek, point read of a tombstoned key *)
Example C09_ex_answers :
  store_seek ex_s true {| rprefix := [112]; rstart := []; rback := false; rdepth := 0 |}
    = [([112; 128], [3]); ([128], [1]); ([128; 255], [5]); ([255], [4])] /\
  store_seek ex_s false {| rprefix := [112]; rstart := [128]; rback := true; rdepth := 0 |}
    = [([112; 128; 255], [5]); ([112; 128], [1]); ([112; 112; 128], [3])] /\
  store_seek ex_s false {| rprefix := [112]; rstart := []; rback := false; rdepth := 2 |}
    = [([112; 112; 128], [3]); ([112; 128; 255], [5]); ([112; 255], [4])] /\
  store_get ex_s [112; 128; 0] = None /\ store_get ex_s [112; 128] = Some [1].
Proof. vm_compute. repeat split. Qed.

Example C09_ex_range_ok : range_ok {| rprefix := [112]; rstart := [128]; rback := true; rdepth := 0 |}.
Proof. split; repeat constructor; simpl; lia. Qed.

(* a schedule that meets the hypotheses of C09_reader_atomic_partial with a Persist in flight across the window:
   swap before the snapshot, a write, the write below and the unswap inside the window *)
Definition ex_c0 : cstate :=
  {| cbk := BLevel; cm := [([112; 1], Some [1])]; ctemp := None; cx := [([112; 3], [9])]; rsnap := None; rans := None |}.
Example C09_ex_schedule :
  let r := {| rprefix := [112]; rstart := []; rback := false; rdepth := 0 |} in
  let pre := [AWrite [([112; 2], Some [2])]; ASwap; AWrite [([112; 3], None)]] in
  let mid := [AWrite [([112; 1], Some [7])]; ALowerWrite; AUnswap] in
  cwf ex_c0 /\ Forall no_swap_or_reader mid /\
  rans (crun ex_c0 (pre ++ ASnap r :: mid ++ [ARead])) = Some [([112; 1], [1]); ([112; 2], [2])].
Proof.
  cbv zeta. split; [|split].
  - unfold cwf, ex_c0; simpl. repeat split; auto; repeat constructor; simpl; lia.
  - repeat constructor.
  - vm_compute. reflexivity.
Qed.
