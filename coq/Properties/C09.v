(* C09 — the layered key-value store behaves as one ordered map on every backend.
   Statements only; every proof is [exact lemma].  Model: Store/Model.v (mechanism, with the repairs fixes/F1, fixes/F2),
   specification: Store/Spec.v ([flat], [range_query]); interleavings: Store/Conc.v. *)
From NG Require Import Common.Tactics Store.Bytes Store.Model Store.Spec Store.MapLemmas Store.MergeProof
  Store.Refine Store.GcProof Store.Model2 Store.SplitProof Store.Conc Store.ConcFine Store.ConcBound Store.Conc2 Store.PersistFail Store.Legacy.
Open Scope N_scope.

(* ---- point reads ---- *)
(* Get through any stack of layers (tombstones hide lower values) = lookup in the one flattened map *)
Theorem C09_get_refines : forall s k, wf s -> store_get s k = spec_get s k.
Proof. exact get_refines. Qed.
Print Assumptions C09_get_refines.

(* ---- range scans ---- *)
(* the mechanism of performSeek (closure state kvMem/haveMem/iMem, inner loop, trimming of the local copy, tail loop)
   computes the plain ordered merge of the sorted cache snapshot with the lower answer, for both directions,
   with and without trimming, whether or not the lower store is consulted *)
Theorem C09_performseek_is_merge : forall bw cut lp memRes lower,
  sorted bw memRes -> sorted bw (match lower with Some ps => ps | None => [] end) ->
  perform_seek bw cut lp memRes lower =
  trim cut lp (smerge bw memRes (match lower with Some ps => ps | None => [] end)).
Proof. exact perform_seek_is_merge. Qed.
Print Assumptions C09_performseek_is_merge.

(* Seek / SeekAsync on any stack, any backend, for every prefix, start, direction, search depth, with or without
   trimming: the emitted list IS the range query on the flattening of the top [rdepth] layers *)
Theorem C09_seek_refines : forall s cut r, wf s -> layers s <> [] -> range_ok r ->
  store_seek s cut r = spec_seek s cut r.
Proof. exact seek_refines. Qed.
Print Assumptions C09_seek_refines.

(* that list is strictly ordered in the seek direction (so: no duplicates) ... *)
Theorem C09_seek_sorted : forall s r, wf s -> sorted (rback r) (rq r (flat_depth (rdepth r) s)).
Proof. exact seek_sorted. Qed.
Print Assumptions C09_seek_sorted.

(* ... and contains exactly the pairs of the one map that lie in the range (nothing omitted, nothing invented) *)
Theorem C09_seek_complete : forall s r k, wf s ->
  lookup k (rq r (flat_depth (rdepth r) s)) =
  if in_range (rprefix r) (rstart r) (rback r) k then lookup k (flat_depth (rdepth r) s) else None.
Proof. exact seek_complete. Qed.
Print Assumptions C09_seek_complete.

(* dao.Simple.Seek / SeekAsync and the Storage.Find iterator: the contract's own keys, header cut.
   NOTE (aliasing): the model has value semantics — a range's prefix is a value, the consumer of a scan is not part of
   the model.  In the Go code a PRIVATE dao builds every key in one reusable buffer (getKeyBuf) and the consumer may
   re-enter the same dao between two delivered pairs ("f() can use dao too"); dao.Seek/SeekAsync therefore clone the
   prefix, and BoltDB re-reads rng.Prefix on every cursor step.  That the scan's answer does not depend on what the
   consumer does with the dao in between cannot be stated here; it is a correspondence matter: harness/c09.go consumes
   dao-level scans and Find iterators with consumers that re-enter the dao in every way (field "re" of the query) and
   the answer must still be this range query (code 2 otherwise). *)
Theorem C09_dao_seek_refines : forall s id r, wf s -> layers s <> [] -> range_ok r ->
  dao_seek s id r = spec_dao_seek s id r.
Proof. exact dao_seek_refines. Qed.
Print Assumptions C09_dao_seek_refines.

Theorem C09_dao_seek_async_refines : forall s id r, wf s -> layers s <> [] -> range_ok r ->
  dao_seek_async s id r = spec_dao_seek s id r.
Proof. exact dao_seek_async_refines. Qed.
Print Assumptions C09_dao_seek_async_refines.

Theorem C09_find_keep_refines : forall s id r, wf s -> layers s <> [] -> range_ok r ->
  find_keep s id r = spec_find_keep s id r.
Proof. exact find_keep_refines. Qed.
Print Assumptions C09_find_keep_refines.

(* ---- backends ---- *)
(* MemoryStore's filter+sort, LevelDB's range iterator and Bolt's cursor loop over [Start, Limit) of
   seekRangeToPrefixes all return the range query on their content, including all-0xff prefixes (nil limit) *)
Theorem C09_base_seek_is_range_query : forall bk r b, range_ok r -> keys_ok b -> sorted false b ->
  base_seek bk r b = rq r b.
Proof. exact base_seek_rq. Qed.
Print Assumptions C09_base_seek_is_range_query.

Theorem C09_backend_agree : forall bk1 bk2 r b, range_ok r -> keys_ok b -> sorted false b ->
  base_seek bk1 r b = base_seek bk2 r b.
Proof. exact backend_agree. Qed.
Print Assumptions C09_backend_agree.

(* ---- flushing ---- *)
(* Persist of any layer (shared anywhere in the stack, private on top) and PersistPrivate leave the one map unchanged *)
Theorem C09_persist_step_flat : forall s, wf s ->
  (forall i, flat (step s (OPersist i)) = flat s) /\ flat (step s OPersistPrivate) = flat s.
Proof. exact persist_step_flat. Qed.
Print Assumptions C09_persist_step_flat.

(* hence no Get and no full-depth Seek changes its answer when a layer is flushed *)
Theorem C09_flush_changes_no_answer : forall s o, wf s -> layers s <> [] ->
  (match o with OPersist _ | OPersistPrivate => True | _ => False end) ->
  (forall k, store_get (step s o) k = store_get s k) /\
  (forall cut r, range_ok r -> rdepth r = 0 -> store_seek (step s o) cut r = store_seek s cut r).
Proof. exact flush_changes_no_answer. Qed.
Print Assumptions C09_flush_changes_no_answer.

(* ---- histories ---- *)
(* after ANY sequence of put/delete/wrap/persist/persist-private/drop on any backend *)
Theorem C09_history_refines : forall bk ops, Forall op_ok ops ->
  let s := run (init bk) ops in
  (forall k, store_get s k = spec_get s k) /\
  (forall cut r, range_ok r -> store_seek s cut r = spec_seek s cut r).
Proof. exact history_refines. Qed.
Print Assumptions C09_history_refines.

(* ---- readers against writers and a concurrent Persist (lock-region granularity) ---- *)
(* every lock region of Persist (swap, write below, unswap) and both reader steps leave the one map unchanged;
   a write changes it by exactly its batch *)
Theorem C09_persist_regions_preserve_flat : forall c a, cwf c ->
  match a with
  | AWrite b => sorted false b -> cflat (cstep c a) = apply_writes b (cflat c)
  | AGc r g => ctemp c = None -> cflat (cstep c a) = apply_writes (cm c) (base_seekgc (cbk c) (gkeep g) (gstop g) r (cx c))
  | _ => cflat (cstep c a) = cflat c
  end.
Proof. exact persist_regions_preserve_flat. Qed.
Print Assumptions C09_persist_regions_preserve_flat.

(* PARTIAL.  For every schedule in which no NEW Persist swap falls between the reader's snapshot and its read of the
   captured lower store (writers, the pending write below and the unswap may fall there), the reader's answer is the
   range query on the one ordered map at the instant of its snapshot.  What is missing for the full statement: the
   case of a swap inside the window, where the statement is false (next theorem). *)
Theorem C09_reader_atomic_partial : forall c0 pre r mid,
  cwf c0 -> rsnap c0 = None -> rans c0 = None ->
  Forall batch_ok pre -> Forall batch_ok mid ->
  Forall (fun a => match a with ASnap _ | ARead => False | _ => True end) pre ->
  Forall no_swap_or_reader mid ->
  range_ok r ->
  let c1 := crun c0 pre in
  rans (crun c0 (pre ++ ASnap r :: mid ++ [ARead])) = Some (rq r (cflat c1)).
Proof. exact reader_atomic_partial. Qed.
Print Assumptions C09_reader_atomic_partial.

(* the full statement (answer = the one map at SOME instant of the reader's interval, for EVERY schedule) ... *)
Definition C09_reader_atomic_statement : Prop := reader_atomic_statement.
(* ... does not hold for the mechanism: finding F41 (the same schedule replayed on the implementation is corpus case 2) *)
Theorem C09_reader_atomic_refuted : ~ C09_reader_atomic_statement.
Proof. exact reader_atomic_refuted. Qed.
Print Assumptions C09_reader_atomic_refuted.

(* ---- the two-map mechanism (chooseMap: mem / stor by the first key byte), Store/Model2.v ----
   Get chooses the map by the key, Seek and SeekGC choose ONE map by the first byte of the PREFIX, putChangeSet copies
   map-wise, the disk stores take both maps into one bucket.  Joining the two maps of every store is a simulation onto
   the one-map model; Seek needs a non-empty prefix (with an empty one the Go code panics: documented restriction,
   store.go:55-59; no caller passes one to a MemCachedStore). *)
Theorem C09_split_get : forall s k, wf2 s -> store_get2 s k = store_get (join s) k.
Proof. exact join_get. Qed.
Print Assumptions C09_split_get.

Theorem C09_split_seek : forall s cut r, wf2 s -> rprefix r <> [] -> store_seek2 s cut r = store_seek (join s) cut r.
Proof. exact join_seek. Qed.
Print Assumptions C09_split_seek.

Theorem C09_split_step : forall s o, wf2 s -> op_ok2 o -> join (step2 s o) = step (join s) o /\ wf2 (step2 s o).
Proof. exact join_step. Qed.
Print Assumptions C09_split_step.

(* so after ANY op history the split mechanism answers like the one ordered map *)
Theorem C09_split_history_refines : forall bk ops, Forall op_ok2 ops ->
  let s2 := run2 (init2 bk) ops in
  let s := run (init bk) ops in
  (forall k, store_get2 s2 k = spec_get s k) /\
  (forall cut r, range_ok r -> rprefix r <> [] -> store_seek2 s2 cut r = spec_seek s cut r).
Proof. exact split_history_refines. Qed.
Print Assumptions C09_split_history_refines.

(* ---- SeekGC ---- *)
(* base stores (MemoryStore under its write lock, Bolt in one Update transaction, LevelDB in one transaction): for any
   callback and stopping point the new content is the old one minus the visited, rejected pairs of the range *)
Theorem C09_seekgc_lookup : forall bk keep stop r b k, range_ok r -> keys_ok b -> sorted false b ->
  lookup k (base_seekgc bk keep stop r b) =
  if existsb (beq k) (gc_deleted keep stop (rq r b)) then None else lookup k b.
Proof. exact base_seekgc_lookup. Qed.
Print Assumptions C09_seekgc_lookup.

(* run to the end: resulting map = filter of the old map (keys outside the range and kept pairs stay) *)
Theorem C09_seekgc_is_filter : forall bk keep r b, range_ok r -> keys_ok b -> sorted false b ->
  base_seekgc bk keep 0 r b =
  filter (fun kv => negb (in_range (rprefix r) (rstart r) (rback r) (fst kv)) || keep (fst kv) (snd kv)) b.
Proof. exact base_seekgc_is_filter. Qed.
Print Assumptions C09_seekgc_is_filter.

Theorem C09_seekgc_untouched : forall bk keep stop r b k, range_ok r -> keys_ok b -> sorted false b ->
  in_range (rprefix r) (rstart r) (rback r) k = false \/ (forall v, lookup k b = Some v -> keep k v = true) ->
  lookup k (base_seekgc bk keep stop r b) = lookup k b.
Proof. exact base_seekgc_untouched. Qed.
Print Assumptions C09_seekgc_untouched.

Theorem C09_seekgc_backend_agree : forall bk1 bk2 keep stop r b, range_ok r -> keys_ok b -> sorted false b ->
  base_seekgc bk1 keep stop r b = base_seekgc bk2 keep stop r b.
Proof. exact base_seekgc_backend_agree. Qed.
Print Assumptions C09_seekgc_backend_agree.

(* MemCachedStore.SeekGC (the promoted MemoryStore.SeekGC) works on the layer's own maps only: what can disappear is a
   live, in-range, rejected entry of that layer; tombstones stay and keep hiding lower values *)
Theorem C09_layer_seekgc_only_rejected_live : forall keep stop r m k, sorted false m ->
  lookup k (layer_seekgc keep stop r m) <> lookup k m ->
  exists v, lookup k m = Some (Some v) /\ keep k v = false /\ in_range (rprefix r) (rstart r) (rback r) k = true.
Proof. exact layer_seekgc_only_rejected_live. Qed.
Print Assumptions C09_layer_seekgc_only_rejected_live.

Theorem C09_layer_seekgc_keeps_tombstones : forall keep stop r m k, sorted false m ->
  lookup k m = Some None -> lookup k (layer_seekgc keep stop r m) = Some None.
Proof. exact layer_seekgc_keeps_tombstones. Qed.
Print Assumptions C09_layer_seekgc_keeps_tombstones.

(* a GC of the base store changes the one map only at keys it removed from the base *)
Theorem C09_gc_base_flat_untouched : forall s r g k, wf s -> range_ok r ->
  lookup k (base_seekgc (bkind s) (gkeep g) (gstop g) r (base s)) = lookup k (base s) ->
  lookup k (flat (step s (OGcBase r g))) = lookup k (flat s).
Proof. exact gc_base_flat_untouched. Qed.
Print Assumptions C09_gc_base_flat_untouched.

(* atomic for readers at lock granularity: with no Persist in flight and no writer, any number of base-store GCs between
   a reader's snapshot and its lower read are seen entirely or not at all (answer = the one map at the lower read) *)
Theorem C09_reader_gc_atomic : forall c0 pre r mid,
  cwf c0 -> rsnap c0 = None -> rans c0 = None ->
  Forall batch_ok pre ->
  Forall (fun a => match a with ASnap _ | ARead => False | _ => True end) pre ->
  ctemp (crun c0 pre) = None ->
  Forall is_gc mid ->
  range_ok r ->
  rans (crun c0 (pre ++ ASnap r :: mid ++ [ARead])) = Some (rq r (cflat (crun c0 (pre ++ ASnap r :: mid)))).
Proof. exact reader_gc_atomic. Qed.
Print Assumptions C09_reader_gc_atomic.

(* ---- F41 bounded: the strongest statement that holds with a Persist swap INSIDE the reader's window ----
   for EVERY schedule of writers and Persist regions between the reader's two steps, key by key, what the reader reports
   for a key (value or absence) is what the one ordered map held for that key at SOME instant of the interval *)
Theorem C09_reader_pairwise_bounded : forall c0 pre r mid,
  cwf c0 -> rsnap c0 = None -> rans c0 = None ->
  Forall batch_ok pre -> Forall batch_ok mid ->
  Forall (fun a => match a with ASnap _ | ARead => False | _ => True end) pre ->
  Forall plain_action mid ->
  range_ok r ->
  exists ans,
    rans (crun c0 (pre ++ ASnap r :: mid ++ [ARead])) = Some ans /\
    sorted (rback r) ans /\
    forall k, exists j, (j <= length mid)%nat /\
      lookup k ans = if in_range (rprefix r) (rstart r) (rback r) k
                     then lookup k (cflat (crun c0 (pre ++ ASnap r :: firstn j mid))) else None.
Proof. exact reader_pairwise_bounded. Qed.
Print Assumptions C09_reader_pairwise_bounded.

(* hence a key whose value does not change during the interval is reported exactly *)
Theorem C09_reader_untouched_key_exact : forall c0 pre r mid k v,
  cwf c0 -> rsnap c0 = None -> rans c0 = None ->
  Forall batch_ok pre -> Forall batch_ok mid ->
  Forall (fun a => match a with ASnap _ | ARead => False | _ => True end) pre ->
  Forall plain_action mid ->
  range_ok r ->
  (forall j, (j <= length mid)%nat -> lookup k (cflat (crun c0 (pre ++ ASnap r :: firstn j mid))) = v) ->
  exists ans, rans (crun c0 (pre ++ ASnap r :: mid ++ [ARead])) = Some ans /\
    lookup k ans = if in_range (rprefix r) (rstart r) (rback r) k then v else None.
Proof. exact reader_untouched_key_exact. Qed.
Print Assumptions C09_reader_untouched_key_exact.

(* ---- two shared layers: Persist of the MIDDLE layer while a reader runs on the top layer (Store/Conc2.v) ---- *)
Theorem C09_middle_persist_preserves_flat : forall c a, c2wf c ->
  match a with
  | BWrite1 b => sorted false b -> c2flat (c2step c a) = apply_writes b (c2flat c)
  | BSub (AWrite _) | BSub (AGc _ _) => True
  | _ => c2flat (c2step c a) = c2flat c
  end.
Proof. exact middle_persist_preserves_flat. Qed.
Print Assumptions C09_middle_persist_preserves_flat.

(* PARTIAL (same shape as C09_reader_atomic_partial): full-depth reader with three steps; nothing written INTO the middle
   layer between its two snapshots, no new swap of the middle layer between the middle snapshot and the lower read;
   everything else (top writers, the middle layer's swap before the middle snapshot, write below, unswap) is free *)
Theorem C09_two_layer_reader_atomic : forall c0 pre r mid1 mid2,
  c2wf c0 -> r1 c0 = None -> ans2 c0 = None -> rsnap (sub c0) = None -> rans (sub c0) = None ->
  Forall batch_ok2 pre -> Forall batch_ok2 mid1 -> Forall batch_ok2 mid2 ->
  Forall no_reader2 pre -> Forall quiet1 mid1 -> Forall quiet2 mid2 ->
  range_ok r -> rdepth r = 0 ->
  ans2 (c2run c0 (pre ++ BSnap1 r :: mid1 ++ BSub (ASnap r) :: mid2 ++ [BSub ARead])) =
  Some (rq r (c2flat (c2run c0 pre))).
Proof. exact two_layer_reader_atomic. Qed.
Print Assumptions C09_two_layer_reader_atomic.

(* depth-limited seeks (any SearchDepth): while nothing is written into the middle layer and it is neither swapped nor
   unswapped during the reader's interval, the answer is the range query on the SearchDepth topmost PHYSICAL layers
   (a tempstore in flight counts, as in the code) at the first snapshot *)
Theorem C09_two_layer_reader_depth : forall c0 pre r mid1 mid2,
  c2wf c0 -> r1 c0 = None -> ans2 c0 = None -> rsnap (sub c0) = None -> rans (sub c0) = None ->
  Forall batch_ok2 pre -> Forall batch_ok2 mid1 -> Forall batch_ok2 mid2 ->
  Forall no_reader2 pre -> Forall still mid1 -> Forall still mid2 ->
  range_ok r ->
  let c1 := c2run c0 pre in
  ans2 (c2run c0 (pre ++ BSnap1 r :: mid1 ++ BSub (ASnap r) :: mid2 ++ [BSub ARead])) =
  Some (rq r (flat_depth_layers (rdepth r) (phys c1) (cx (sub c1)))).
Proof. exact two_layer_reader_depth. Qed.
Print Assumptions C09_two_layer_reader_depth.

(* ---- a flush that FAILS: the error branch of MemCachedStore.persist (Store/PersistFail.v) ----
   the lower PutChangeSet returns an error having written nothing; the un-flushed batch goes back UNDER what the cache
   received while the flush was blocked (newer values and newer tombstones win): the one map is unchanged *)
Theorem C09_persist_fail_flat : forall c, cwf c -> cflat (persist_fail c) = cflat c.
Proof. exact persist_fail_flat. Qed.
Print Assumptions C09_persist_fail_flat.

(* for EVERY set of writes interleaved between the swap and the failure *)
Theorem C09_failed_flush_changes_no_answer : forall c ws, cwf c -> ctemp c = None ->
  Forall (fun b => sorted false b /\ keys_ok b) ws ->
  let c' := persist_fail (crun (cstep c ASwap) (map AWrite ws)) in
  cflat c' = cflat (crun c (map AWrite ws)) /\ ctemp c' = None.
Proof. exact failed_flush_changes_no_answer. Qed.
Print Assumptions C09_failed_flush_changes_no_answer.

(* with any number of shared layers above: no step other than a write — the failing flush included — changes the one map,
   and Get / Seek (any depth) through the top answer like it before, during and after the failed flush *)
Theorem C09_fail_step_flat : forall s a, fwf s ->
  match a with FW _ | FWTop _ _ | FWLow _ => True | _ => f_flat (fstep s a) = f_flat s end.
Proof. exact fail_step_flat. Qed.
Print Assumptions C09_fail_step_flat.

Theorem C09_fail_seek_refines : forall s r, fwf s -> range_ok r ->
  f_seek s r = rq r (flat_depth_layers (rdepth r) (f_layers s) (cx (fsub s))).
Proof. exact f_seek_refines. Qed.
Print Assumptions C09_fail_seek_refines.

Theorem C09_fail_get_refines : forall s k, fwf s -> f_get s k = lookup k (f_flat s).
Proof. exact f_get_refines. Qed.
Print Assumptions C09_fail_get_refines.

(* the flush mode as a parameter: Persist (the lock is dropped around the write below, the batches ws are written
   meanwhile) or PersistSync / Persist of a private layer (nothing interleaves), succeeding or failing: in all four cases
   the one map afterwards is the one map before plus exactly the batches written meanwhile *)
Theorem C09_persist_attempt_flat : forall sync fails ws c, cwf c -> Forall (fun b => sorted false b /\ keys_ok b) ws ->
  cflat (persist_attempt sync fails ws c) = cflat (if sync then c else crun c (map AWrite ws)) /\
  cwf (persist_attempt sync fails ws c).
Proof. exact persist_attempt_flat. Qed.
Print Assumptions C09_persist_attempt_flat.

(* the special case: a failed PersistSync leaves the one map unchanged *)
Theorem C09_persist_sync_fail_flat : forall c, cwf c -> cflat (persist_attempt true true [] c) = cflat c.
Proof. exact persist_sync_fail_flat. Qed.
Print Assumptions C09_persist_sync_fail_flat.

(* "a sync flush holds the lock, nothing to merge back" (s.ps restored, the tempstore's maps dropped) loses the whole
   un-flushed change set: new key missing, overwritten value stale, deleted key back *)
Definition C09_sync_no_recovery_statement : Prop := sync_no_recovery_statement.
Theorem C09_sync_no_recovery_refuted : ~ C09_sync_no_recovery_statement.
Proof. exact sync_no_recovery_refuted. Qed.
Print Assumptions C09_sync_no_recovery_refuted.

(* the merge in the other direction (the stale batch over the newer writes) does not have the property *)
Definition C09_persist_fail_wrong_statement : Prop := persist_fail_wrong_statement.
Theorem C09_persist_fail_wrong_direction_refuted : ~ C09_persist_fail_wrong_statement.
Proof. exact persist_fail_wrong_refuted. Qed.
Print Assumptions C09_persist_fail_wrong_direction_refuted.

(* ---- the reader at a finer grain: its code before s.rlock() is a step of its own (Store/ConcFine.v) ---- *)
(* the code as written reads nothing of the store before the lock (maps chosen and s.ps captured inside the region):
   for EVERY fine schedule the system is the coarse one ... *)
Theorem C09_fine_inside_is_coarse : forall tr st, fc (frun false st tr) = crun (fc st) (erase tr).
Proof. exact fine_inside_is_coarse. Qed.
Print Assumptions C09_fine_inside_is_coarse.

(* ... so the (partial) reader atomicity holds wherever the pre-lock steps are scheduled *)
Theorem C09_fine_reader_atomic_partial : forall c0 pre r mid,
  cwf c0 -> rsnap c0 = None -> rans c0 = None ->
  Forall batch_ok (erase pre) -> Forall batch_ok (erase mid) ->
  Forall (fun a => match a with ASnap _ | ARead => False | _ => True end) (erase pre) ->
  Forall no_swap_or_reader (erase mid) ->
  range_ok r ->
  rans (fc (frun false {| fc := c0; fpre := None |} (pre ++ FLocked r :: mid ++ [FRead]))) =
  Some (rq r (cflat (crun c0 (erase pre)))).
Proof. exact fine_reader_atomic_partial. Qed.
Print Assumptions C09_fine_reader_atomic_partial.

(* the variant that captures s.ps BEFORE taking the read lock does not have that property: a committed key is missing
   from a scan that loses the lock to Persist's first region while the flush is in flight (no swap between the locked
   region and the lower read).  This documents the class of change harness/c09lock.go is there to catch. *)
Definition C09_capture_before_statement : Prop := capture_before_statement.
Theorem C09_capture_before_lock_refuted : ~ C09_capture_before_statement.
Proof. exact capture_before_refuted. Qed.
Print Assumptions C09_capture_before_lock_refuted.

(* ---- the two repaired defects, as counter-examples of the unrepaired mechanisms ---- *)
Theorem C09_F1_legacy_refuted :
  exists memRes ps, sorted false memRes /\ sorted false ps /\
    perform_seek_legacy false true 1 memRes ps <> trim true 1 (smerge false memRes ps) /\
    perform_seek false true 1 memRes (Some ps) = trim true 1 (smerge false memRes ps).
Proof. exact F1_legacy_refuted. Qed.
Print Assumptions C09_F1_legacy_refuted.

Theorem C09_F2_legacy_refuted :
  exists r b, sorted false b /\ mem_seek_legacy r b <> level_seek r b /\ mem_seek_legacy r b <> bolt_seek r b /\
              mem_seek r b = level_seek r b.
Proof. exact F2_legacy_refuted. Qed.
Print Assumptions C09_F2_legacy_refuted.

(* ---- non-vacuity: the hypotheses are met by concrete, non-trivial states ---- *)

(* a three-layer stack on Bolt reached by a history: shared over private over shared, tombstone, flushed base *)
Definition ex_ops : list op :=
  [OPut [112; 128] [1]; OPut [112; 128; 0] [2]; OPersist 0; OWrap true; OPut [112; 112; 128] [3]; ODel [112; 128; 0];
   OWrap false; OPut [112; 255] [4]; OPut [112; 128; 255] [5]].
Definition ex_s : stack := run (init BBolt) ex_ops.

Example C09_ex_wf : wf ex_s /\ layers ex_s <> [] /\ length (layers ex_s) = 3%nat /\ base ex_s <> [].
Proof.
  split; [apply run_wf; [apply wf_init|repeat constructor; lia]|].
  split; [apply run_nonempty; simpl; discriminate|]. split; vm_compute; [reflexivity|discriminate].
Qed.

(* trimmed forward seek over the doubled prefix (the F1 shape), backward seek from a start point whose extensions
   live in different layers (the F2 shape), depth-limited seek, point read of a tombstoned key *)
Example C09_ex_answers :
  store_seek ex_s true {| rprefix := [112]; rstart := []; rback := false; rdepth := 0 |}
    = [([112; 128], [3]); ([128], [1]); ([128; 255], [5]); ([255], [4])] /\
  store_seek ex_s false {| rprefix := [112]; rstart := [128]; rback := true; rdepth := 0 |}
    = [([112; 128; 255], [5]); ([112; 128], [1]); ([112; 112; 128], [3])] /\
  store_seek ex_s false {| rprefix := [112]; rstart := []; rback := false; rdepth := 2 |}
    = [([112; 112; 128], [3]); ([112; 128; 255], [5]); ([112; 255], [4])] /\
  store_get ex_s [112; 128; 0] = None /\ store_get ex_s [112; 128] = Some [1].
Proof. vm_compute. repeat split. Qed.

Example C09_ex_range_ok : range_ok {| rprefix := [112]; rstart := [128]; rback := true; rdepth := 0 |}.
Proof. split; repeat constructor; simpl; lia. Qed.

(* a schedule that meets the hypotheses of C09_reader_atomic_partial with a Persist in flight across the window:
   swap before the snapshot, a write, the write below and the unswap inside the window *)
Definition ex_c0 : cstate :=
  {| cbk := BLevel; cm := [([112; 1], Some [1])]; ctemp := None; cx := [([112; 3], [9])]; rsnap := None; rans := None |}.
Example C09_ex_schedule :
  let r := {| rprefix := [112]; rstart := []; rback := false; rdepth := 0 |} in
  let pre := [AWrite [([112; 2], Some [2])]; ASwap; AWrite [([112; 3], None)]] in
  let mid := [AWrite [([112; 1], Some [7])]; ALowerWrite; AUnswap] in
  cwf ex_c0 /\ Forall no_swap_or_reader mid /\
  rans (crun ex_c0 (pre ++ ASnap r :: mid ++ [ARead])) = Some [([112; 1], [1]); ([112; 2], [2])].
Proof.
  cbv zeta. split; [|split].
  - unfold cwf, ex_c0; simpl. repeat split; auto; repeat constructor; simpl; lia.
  - repeat constructor.
  - vm_compute. reflexivity.
Qed.

(* the split mechanism on a history that uses both maps (first bytes 03 and 70), a flush, a GC of the base and of the top *)
Definition ex_ops2 : list op :=
  [OPut [3; 1] [1]; OPut [112; 1] [2]; OPut [3; 1; 0] [3]; OPersist 0; OWrap false; ODel [3; 1]; OPut [112; 1; 255] [4];
   OGcBase {| rprefix := [3]; rstart := []; rback := true; rdepth := 0 |} {| gmod := 2; gres := 1; gstop := 0 |};
   OPut [3; 9] [5]; OGcTop {| rprefix := [3]; rstart := []; rback := false; rdepth := 0 |} {| gmod := 1; gres := 0; gstop := 1 |}].
Example C09_ex_split :
  Forall op_ok2 ex_ops2 /\
  let s2 := run2 (init2 BBolt) ex_ops2 in
  store_seek2 s2 false {| rprefix := [3]; rstart := []; rback := false; rdepth := 0 |} = [] /\
  store_seek2 s2 false {| rprefix := [112]; rstart := []; rback := true; rdepth := 0 |} = [([112; 1; 255], [4]); ([112; 1], [2])] /\
  store_get2 s2 [3; 1] = None /\ join s2 = run (init BBolt) ex_ops2.
Proof.
  split; [repeat constructor; simpl; try lia; try discriminate; repeat constructor; lia|].
  vm_compute. repeat split.
Qed.

(* a two-layer schedule meeting the hypotheses of C09_two_layer_reader_atomic: the middle layer is persisted around the reader *)
Definition ex_c20 : c2state :=
  {| top := [([112; 1], Some [1])];
     sub := {| cbk := BLevel; cm := [([112; 2], Some [2])]; ctemp := None; cx := [([112; 3], [3])]; rsnap := None; rans := None |};
     r1 := None; ans2 := None |}.
Example C09_ex_two_layers :
  let r := {| rprefix := [112]; rstart := []; rback := false; rdepth := 0 |} in
  let mid1 := [BWrite1 [([112; 9], Some [9])]; BSub ASwap; BSub ALowerWrite] in
  let mid2 := [BSub (AWrite [([112; 2], None)]); BSub AUnswap] in
  c2wf ex_c20 /\ Forall quiet1 mid1 /\ Forall quiet2 mid2 /\
  ans2 (c2run ex_c20 ([] ++ BSnap1 r :: mid1 ++ BSub (ASnap r) :: mid2 ++ [BSub ARead])) =
  Some [([112; 1], [1]); ([112; 2], [2]); ([112; 3], [3])].
Proof.
  cbv zeta. split; [|split; [|split]].
  - unfold c2wf, cwf, ex_c20; simpl. repeat split; auto; repeat constructor; simpl; lia.
  - repeat constructor.
  - repeat constructor.
  - vm_compute. reflexivity.
Qed.

(* a failing flush with writes of every overlap pattern while it is blocked, two layers above *)
Example C09_ex_failed_flush :
  let s0 := {| ups := [[]; []]; fsub := {| cbk := BBolt; cm := []; ctemp := None; cx := []; rsnap := None; rans := None |} |} in
  let acts := [FW [([112; 1], Some [1]); ([112; 2], Some [2])]; FSwap; FLw; FUn;
               FW [([112; 1], Some [3]); ([112; 2], None); ([112; 3], Some [4])]; FSwap;
               FW [([112; 1], None); ([112; 2], Some [5])]; FWTop 0 [([112; 3], None)]; FFail] in
  let s := frun_ s0 acts in
  fwf s /\ ctemp (fsub s) = None /\ cx (fsub s) = [([112; 1], [1]); ([112; 2], [2])] /\
  f_flat s = [([112; 2], [5])] /\
  f_seek s {| rprefix := [112]; rstart := []; rback := true; rdepth := 0 |} = [([112; 2], [5])] /\
  f_get s [112; 1] = None.
Proof.
  cbv zeta. split.
  - apply frun_wf; [split; simpl; repeat constructor|repeat constructor; simpl; auto; repeat constructor; lia].
  - vm_compute. repeat split.
Qed.
