(* C09 — the layered key-value store behaves as one ordered map on every backend (draft). *)
From NG Require Import Common.Tactics Store.Bytes Store.Model Store.Spec.
Open Scope N_scope.
