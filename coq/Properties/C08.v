(* C08 — the memory pool keeps its ordering, capacity, solvency and conflict invariants.
   Statements only; every proof is [exact lemma]. The model (Mempool/Model.v) follows the mechanism of
   pkg/core/mempool/mem_pool.go; [fixed_cfg] is the code with the repairs F4 and F5 applied.
   Hypotheses ([good_universe], [bal_ok], Mempool/Spec.v): hashes identify transactions; no two
   transactions name each other (or themselves) in Conflicts; a transaction has no duplicate Conflicts
   attribute; SystemFee + NetworkFee < 2^64; balances < 2^255; the Feer's answers change only at
   RemoveStale ([OStale] carries the new ones). *)
From NG Require Import Common.Tactics Mempool.Model Mempool.Spec Mempool.AddMain Mempool.Main Mempool.Equiv Mempool.Resend Mempool.Legacy Mempool.Examples Mempool.Variant Mempool.Conc.
Open Scope N_scope.

(* after every sequence of Add / Remove / Verify / RemoveStale the invariant holds *)
Theorem C08_inv_reachable : forall U, good_universe U -> forall capacity bal0 ops,
  bal_ok bal0 -> Forall (op_ok U) ops ->
  let st := run fixed_cfg (mkState (new_pool capacity) bal0) ops in
  Inv U (st_bal st) (st_pool st).
Proof. exact inv_reachable. Qed.
Print Assumptions C08_inv_reachable.

(* ... and the invariant says what the property says *)
Theorem C08_inv_meaning : forall U bal s,
  Inv U bal s ->
  NoDup (map tid (vtxs s))
  /\ (forall h, mget N.eqb h (vmap s) <> None <-> In h (map tid (vtxs s)))
  /\ (length (vtxs s) <= cap s)%nat
  /\ sorted (vtxs s)
  /\ (forall p, sum_fees p (vtxs s) <= bal p)
  /\ (forall a b, In a (vtxs s) -> In b (vtxs s) -> ~ In (tid a) (confl b))
  /\ (forall a b id, In a (vtxs s) -> In b (vtxs s) -> oracle a = Some id -> oracle b = Some id -> a = b).
Proof. exact inv_meaning. Qed.
Print Assumptions C08_inv_meaning.

(* no operation of any sequence dereferences a missing entry (the panics of the Go code are unreachable) *)
Theorem C08_no_panic : forall U, good_universe U -> forall capacity bal0 ops,
  bal_ok bal0 -> Forall (op_ok U) ops ->
  ~ In RPanic (results fixed_cfg (mkState (new_pool capacity) bal0) ops).
Proof. exact no_panic. Qed.
Print Assumptions C08_no_panic.

(* a successful Add removes only transactions in conflict with the newcomer, the oracle response it
   replaces, and otherwise at most the last = lowest-priority entry of a full pool, which it strictly beats *)
Theorem C08_evicts_minimum : forall U, good_universe U -> forall bal s t s',
  bal_ok bal -> Inv U bal s -> U t -> add fixed_cfg bal s t = (ROk, s') ->
  In t (vtxs s')
  /\ (forall x, In x (vtxs s') -> x = t \/ In x (vtxs s))
  /\ (forall x, In x (vtxs s) -> ~ In x (vtxs s') -> removal_justified s t x s').
Proof. exact evicts_minimum. Qed.
Print Assumptions C08_evicts_minimum.

(* an addition that fails leaves the pool unchanged (same list, same map contents; at most a balance
   was cached for a payer without pooled transactions) *)
Theorem C08_failed_add_identity : forall U, good_universe U -> forall bal s t e s',
  bal_ok bal -> Inv U bal s -> U t -> add fixed_cfg bal s t = (RErr e, s') -> pool_eqv bal s s'.
Proof. exact failed_add_identity. Qed.
Print Assumptions C08_failed_add_identity.

(* ... and "unchanged" is meant for every later operation: equivalent states give the same answer to any
   operation and stay equivalent *)
Theorem C08_step_respects_eqv : forall U, good_universe U -> forall bal a b o,
  bal_ok bal -> Inv U bal a -> Inv U bal b -> pool_eqv bal a b -> op_ok U o ->
  let ra := step fixed_cfg (mkState a bal) o in
  let rb := step fixed_cfg (mkState b bal) o in
  fst ra = fst rb /\ st_bal (snd ra) = st_bal (snd rb)
  /\ pool_eqv (st_bal (snd ra)) (st_pool (snd ra)) (st_pool (snd rb)).
Proof. exact step_respects_eqv. Qed.
Print Assumptions C08_step_respects_eqv.

(* resending (SetResendThreshold): RemoveStale's loop with block heights, per-item stamps and the resend decision
   produces the same pool as the plain loop, whatever is or is not resent ... *)
Theorem C08_resend_changes_nothing : forall bal newfpb isok height thr stamps s,
  fst (remove_stale_rs bal newfpb isok height thr stamps s) = remove_stale bal newfpb isok s.
Proof. exact remove_stale_rs_pool. Qed.
Print Assumptions C08_resend_changes_nothing.

(* ... so the invariant holds after every sequence of operations at any heights with any thresholds ... *)
Theorem C08_resend_preserves_inv : forall U, good_universe U -> forall capacity bal0 ops,
  bal_ok bal0 -> Forall (fun ro => Forall (op_ok U) (plain ro)) ops ->
  let rs := rrun fixed_cfg (mkR (mkState (new_pool capacity) bal0) [] 0) ops in
  Inv U (st_bal (r_st rs)) (st_pool (r_st rs)).
Proof. exact resend_preserves_inv. Qed.
Print Assumptions C08_resend_preserves_inv.

(* ... and what is handed to the resend callback is exactly the kept items whose age is threshold * 2^k, in pool order *)
Theorem C08_resent_exact : forall bal newfpb isok height thr stamps s,
  snd (remove_stale_rs bal newfpb isok height thr stamps s)
  = filter (due height thr stamps) (vtxs (fst (remove_stale_rs bal newfpb isok height thr stamps s))).
Proof. exact resent_exact. Qed.
Print Assumptions C08_resent_exact.

(* Add always answers (ok or one of its error classes) and keeps the invariant *)
Theorem C08_add_total : forall U, good_universe U -> forall bal s t,
  bal_ok bal -> Inv U bal s -> U t ->
  exists s', (add fixed_cfg bal s t = (ROk, s') \/ exists e, add fixed_cfg bal s t = (RErr e, s')) /\ Inv U bal s'.
Proof. exact add_total. Qed.
Print Assumptions C08_add_total.

(* the code before the repairs does not have the property (findings F4, F5) *)
Theorem C08_F4_refuted :
  let st := run legacy_oom f4_st0 [OAdd f4_a] in
  let '(r, s') := add legacy_oom (st_bal st) (st_pool st) f4_o1 in
  r = RErr EOOM
  /\ mget N.eqb 7 (oresp (st_pool st)) = None /\ mget N.eqb 7 (oresp s') = Some 1
  /\ results legacy_oom f4_st0 [OAdd f4_a; OAdd f4_o1; OAdd f4_o2] = [ROk; RErr EOOM; RPanic].
Proof. exact f4_refuted. Qed.
Print Assumptions C08_F4_refuted.

Theorem C08_F5_refuted :
  let st := run legacy_payer f5_st0 f5_ops in
  results legacy_payer f5_st0 f5_ops = [ROk; ROk; ROk]
  /\ sum_fees (notary, 5) (vtxs (st_pool st)) = 19 /\ st_bal st (notary, 5) = 12.
Proof. exact f5_refuted. Qed.
Print Assumptions C08_F5_refuted.

Example C08_example_resend :
  map (resend_due 3) [0; 3; 6; 9; 12; 24; 5] = [false; true; true; false; true; true; false]
  /\ (let '(p, resent) := remove_stale_rs ex_bal 0 (fun _ => true) 7 3 [(0, 1); (3, 4); (4, 5)] (st_pool ex_state_full) in
      map tid (vtxs p) = [0; 3; 4] /\ map tid resent = [0; 3]).
Proof. vm_compute. repeat split; reflexivity. Qed.

(* who pays: only a transaction SENT by the Notary contract is charged to the second signer's deposit; booking a
   main transaction that merely carries Notary among its further signers under (sender, Signers[1]) passes the
   pool's per-group balance checks and still over-commits the sender *)
Theorem C08_payer_by_cosigner_refuted :
  (forall p, In p [(2, 0); (2, notary)] -> sum_fees_by payer_by_cosigner p [pc_t1; pc_t2] <= feer_view pc_bal p)
  /\ payer_of pc_t2 = (2, 0)
  /\ sum_fees (2, 0) [pc_t1; pc_t2] = 120 /\ pc_bal (2, 0) = 100.
Proof. exact payer_by_cosigner_refuted. Qed.
Print Assumptions C08_payer_by_cosigner_refuted.

(* ---- the stored fee per byte (repair F57). [fixed_cfg] = [repaired false] stores the Feer's fee per byte only when it
   rose; [repaired true] stores it at every RemoveStale (a decrease is followed, a later increase is compared with the
   current value). Add, Verify and Remove do not look at the switch and one RemoveStale keeps the same transactions
   under both; the sequence-level theorems hold for BOTH behaviours: *)
Theorem C08_inv_reachable_both : forall U, good_universe U -> forall follow capacity bal0 ops,
  bal_ok bal0 -> Forall (op_ok U) ops ->
  let st := run (repaired follow) (mkState (new_pool capacity) bal0) ops in
  Inv U (st_bal st) (st_pool st).
Proof. exact inv_reachable_both. Qed.
Print Assumptions C08_inv_reachable_both.

Theorem C08_no_panic_both : forall U, good_universe U -> forall follow capacity bal0 ops,
  bal_ok bal0 -> Forall (op_ok U) ops ->
  ~ In RPanic (results (repaired follow) (mkState (new_pool capacity) bal0) ops).
Proof. exact no_panic_both. Qed.
Print Assumptions C08_no_panic_both.

Theorem C08_resend_preserves_inv_both : forall U, good_universe U -> forall follow capacity bal0 ops,
  bal_ok bal0 -> Forall (fun ro => Forall (op_ok U) (plain ro)) ops ->
  let rs := rrun (repaired follow) (mkR (mkState (new_pool capacity) bal0) [] 0) ops in
  Inv U (st_bal (r_st rs)) (st_pool (r_st rs)).
Proof. exact resend_preserves_inv_both. Qed.
Print Assumptions C08_resend_preserves_inv_both.

Theorem C08_add_does_not_see_the_switch : forall a b f f' bal s t, add (mkCfg a b f) bal s t = add (mkCfg a b f') bal s t.
Proof. exact add_follow_irrelevant. Qed.
Print Assumptions C08_add_does_not_see_the_switch.

(* where the two differ: fee per byte 2, then 0, a transaction paying 1 per byte is pooled, fee per byte 2 again *)
Example C08_example_follow_fpb_differs :
  map tid (vtxs (st_pool (run (repaired false) (mkState (new_pool 3) fv_bal) fv_ops))) = [0]
  /\ map tid (vtxs (st_pool (run (repaired true) (mkState (new_pool 3) fv_bal) fv_ops))) = [].
Proof. exact follow_fpb_differs. Qed.

(* ---- the pool under concurrent callers. The pool is called from many goroutines; every operation takes the
   pool's RWMutex, so a concurrent execution is an interleaving of LOCK REGIONS (Mempool/Conc.v: a thread is a list
   of regions over the shared state and its own local variables; a schedule picks whose next region runs).
   If every thread is ONE region, any schedule is the threads' operations one after another, each exactly once, in
   the order the lock was taken ... *)
Theorem C08_atomic_schedule_is_sequential : forall (S L : Type) sched (c : @conf S L),
  atomic_threads c ->
  let order := effective sched c in
  exec sched c = exec order c
  /\ NoDup order
  /\ (forall i, In i order -> pending c i = true)
  /\ (finished (exec sched c) -> forall i, pending c i = true -> In i order).
Proof. intros S L. exact atomic_schedule_is_sequential. Qed.
Print Assumptions C08_atomic_schedule_is_sequential.

(* ... so, for the pool's operations issued concurrently (one region each): the state after ANY complete schedule is
   the state after running the same operations sequentially in some order (linearizability) ... *)
Theorem C08_concurrent_ops_linearizable : forall c st ops sched,
  finished (exec sched (pool_conf c st ops)) ->
  exists order,
    Permutation.Permutation order (seq 0 (length ops))
    /\ exec sched (pool_conf c st ops) = exec order (pool_conf c st ops)
    /\ fst (exec sched (pool_conf c st ops)) = run c st (map (fun i => nth i ops dummy_op) order).
Proof. exact concurrent_ops_linearizable. Qed.
Print Assumptions C08_concurrent_ops_linearizable.

(* ... and the invariant holds whenever the lock is free: after every prefix of every schedule *)
Theorem C08_concurrent_ops_inv : forall U, good_universe U -> forall follow st ops sched,
  bal_ok (st_bal st) -> Inv U (st_bal st) (st_pool st) -> Forall (op_ok U) ops ->
  let st' := fst (exec sched (pool_conf (repaired follow) st ops)) in
  bal_ok (st_bal st') /\ Inv U (st_bal st') (st_pool st').
Proof. exact concurrent_ops_inv. Qed.
Print Assumptions C08_concurrent_ops_inv.

(* an Add whose duplicate check runs under one acquisition of the lock (a read-locked fast path) and the rest under
   the next, without looking again: two goroutines adding the same transaction both pass the check before either
   acts - it is listed twice, both report success; in either sequential order one of them is refused as a duplicate *)
Theorem C08_check_then_act_refuted :
  cta_ids (exec [0; 1; 0; 1]%nat cta_conf) = [0; 0]
  /\ cta_results (exec [0; 1; 0; 1]%nat cta_conf) = [Some ROk; Some ROk]
  /\ ~ NoDup (cta_ids (exec [0; 1; 0; 1]%nat cta_conf))
  /\ cta_ids (exec [0; 0; 1; 1]%nat cta_conf) = [0] /\ cta_results (exec [0; 0; 1; 1]%nat cta_conf) = [Some ROk; Some (RErr EDup)]
  /\ cta_ids (exec [1; 1; 0; 0]%nat cta_conf) = [0] /\ cta_results (exec [1; 1; 0; 0]%nat cta_conf) = [Some (RErr EDup); Some ROk].
Proof. exact check_then_act_refuted. Qed.
Print Assumptions C08_check_then_act_refuted.

(* the split operation run without interruption IS Add (the two-region thread is a faithful decomposition) *)
Example C08_example_split_add_is_add : forall c t st,
  let c0 : @conf state (bool * option res) := (st, [split_add_thread c t]) in
  fst (exec [0; 0]%nat c0) = snd (step c st (OAdd t))
  /\ cta_results (exec [0; 0]%nat c0) = [Some (fst (step c st (OAdd t)))].
Proof. exact split_add_sequential_is_add. Qed.

(* Verify is not a read-only region: it caches the payer's balance in the fee table (finding F59: the code runs it
   under the READ lock) *)
Example C08_example_verify_writes_fee_table :
  fees (new_pool 3) = [] /\ fees (snd (verify fixed_cfg cta_bal (new_pool 3) cta_tx)) = [((2, 0), (1000, 0))].
Proof. exact verify_writes_fee_table. Qed.

(* non-vacuity: a concrete universe, balances and history satisfying every hypothesis above *)
Example C08_example_universe : good_universe ex_U /\ bal_ok ex_bal /\ Forall (op_ok ex_U) ex_ops.
Proof. exact (conj ex_universe (conj (proj1 ex_bal_ok) ex_ops_ok)). Qed.
Example C08_example_history :
  results fixed_cfg (mkState (new_pool 3) ex_bal) ex_ops
  = [ROk; ROk; ROk; RErr EConflict; ROk; RBool true; ROk; ROk; ROk; ROk; RErr EConflictsAttr]
  /\ map tid (vtxs (st_pool (run fixed_cfg (mkState (new_pool 3) ex_bal) ex_ops))) = [6; 2].
Proof. exact ex_history. Qed.
Example C08_example_state : bal_ok (st_bal ex_state_full) /\ Inv ex_U (st_bal ex_state_full) (st_pool ex_state_full).
Proof. exact ex_state_full_ok. Qed.
Example C08_example_evict :
  fst (add fixed_cfg ex_bal (st_pool ex_state_full) e1) = ROk
  /\ map tid (vtxs (st_pool ex_state_full)) = [0; 3; 4]
  /\ map tid (vtxs (snd (add fixed_cfg ex_bal (st_pool ex_state_full) e1))) = [0; 3; 1].
Proof. exact ex_evict. Qed.
Example C08_example_failed :
  fst (add fixed_cfg ex_bal (st_pool ex_state_full) e5) = RErr EConflict
  /\ fst (add fixed_cfg ex_bal (st_pool (run fixed_cfg ex_state_full [OAdd e1])) (mkTx 9 [2] 0 1 100 false [] (Some 8))) = RErr EOOM.
Proof. exact ex_failed. Qed.
Example C08_repaired_on_witnesses :
  results fixed_cfg f4_st0 [OAdd f4_a; OAdd f4_o1; OAdd f4_o2] = [ROk; RErr EOOM; ROk]
  /\ results fixed_cfg f5_st0 f5_ops = [ROk; ROk; RErr EConflict].
Proof. exact (conj f4_repaired f5_repaired). Qed.
