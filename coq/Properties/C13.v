(* C13 - VM instructions compute what the NeoVM specification says.
   The executable specification is coq/VM/Model.v (step / run over unbounded Z with explicit 256-bit checks); the
   correspondence check compares the real VM with it.  Proved here: the specification's internal consistency.
   Statements only; every proof is [exact lemma]. *)
From NG Require Import VM.Model VM.ArithProofs VM.ExecSpec VM.PriceSpec VM.Fresh.
Open Scope Z_scope.

(* every arithmetic primitive returns a value in [-2^255, 2^255) or FAULTs, for every operand *)
Theorem C13_int_ops_range :
  (forall a b r, ar_div a b = Some r -> int256 r) /\
  (forall a b r, ar_mod a b = Some r -> int256 r) /\
  (forall a e r, ar_pow a e = Some r -> int256 r) /\
  (forall a r, ar_sqrt a = Some r -> int256 r) /\
  (forall x y m r, ar_modmul x y m = Some r -> int256 r) /\
  (forall b e m r, ar_modpow b e m = Some r -> int256 r) /\
  (forall l a b r, ar_shift l a b = Some r -> int256 r) /\
  (forall z r, mk_int256 z = Some r -> int256 r).
Proof. exact int_ops_range. Qed.
Print Assumptions C13_int_ops_range.

(* ... at instruction level: ADD SUB MUL DIV MOD POW AND OR XOR MIN MAX leave an integer within 256 bits, computed by
   the opcode's pure function from the two operands, on the rest of the stack *)
Theorem C13_binop_result_in_range : forall e op p d f a b es d',
  binop_fun op = Some f -> d_es d = IInt b :: IInt a :: es -> exec_data e op p d = DOk d' ->
  exists r, d_es d' = IInt r :: es /\ int256 r /\ f a b = Some r.
Proof. exact binop_result_in_range. Qed.
Print Assumptions C13_binop_result_in_range.

Theorem C13_bin_int_effect : forall f d a b es,
  d_es d = IInt b :: IInt a :: es ->
  bin_int f d =
    match f a b with
    | Some r => match mk_int256 r with
                | Some r' => Some (DOk (mkD (IInt r' :: es) (d_local d) (d_args d) (d_static d) (d_heap d) (d_refs d - 1)))
                | None => None
                end
    | None => None
    end.
Proof. exact bin_int_effect. Qed.
Print Assumptions C13_bin_int_effect.

(* DIV is truncated, MOD has the sign of the dividend: a = (a quot b) * b + a rem b *)
Theorem C13_div_mod_spec : forall a b q r,
  ar_div a b = Some q -> ar_mod a b = Some r ->
  a = q * b + r /\ Z.abs r < Z.abs b /\ (r = 0 \/ Z.sgn r = Z.sgn a).
Proof. exact div_mod_spec. Qed.
Print Assumptions C13_div_mod_spec.

(* DIV faults exactly for a zero divisor and for -2^255 / -1 *)
Theorem C13_div_faults_iff : forall a b, int256 a -> int256 b ->
  (ar_div a b = None <-> b = 0 \/ (a = - 2 ^ 255 /\ b = -1)).
Proof. exact div_faults_iff. Qed.
Print Assumptions C13_div_faults_iff.

(* SHR rounds towards minus infinity; SHL multiplies *)
Theorem C13_shr_floor : forall a b r, ar_shift false a b = Some r -> r * 2 ^ b <= a < (r + 1) * 2 ^ b.
Proof. exact shr_floor. Qed.
Print Assumptions C13_shr_floor.
Theorem C13_shl_spec : forall a b r, ar_shift true a b = Some r -> r = a * 2 ^ b.
Proof. exact shl_spec. Qed.
Print Assumptions C13_shl_spec.

(* SQRT is the integer square root *)
Theorem C13_sqrt_bracket : forall a r, ar_sqrt a = Some r -> 0 <= r /\ r * r <= a < (r + 1) * (r + 1).
Proof. exact sqrt_bracket. Qed.
Print Assumptions C13_sqrt_bracket.

(* POW (computed with an early exit) is the plain power, range-checked, for exponents 0..256 *)
Theorem C13_pow_spec : forall a e,
  ar_pow a e = if (0 <=? e) && (e <=? MaxBigIntegerSizeBits) then mk_int256 (a ^ e) else None.
Proof. exact pow_spec. Qed.
Print Assumptions C13_pow_spec.

(* MODPOW with exponent >= 0 is the truncated remainder of the power (sign rule of issue #3612); with exponent -1 the
   modular inverse; MODMUL the truncated remainder of the product *)
Theorem C13_modpow_spec : forall b e m r, 0 <= e -> ar_modpow b e m = Some r -> r = Z.rem (b ^ e) m.
Proof. exact modpow_spec. Qed.
Print Assumptions C13_modpow_spec.
Theorem C13_modpow_inverse : forall b m r,
  ar_modpow b (-1) m = Some r -> 0 < b /\ 2 <= m /\ 0 <= r < m /\ (b * r) mod m = 1.
Proof. exact modpow_inverse. Qed.
Print Assumptions C13_modpow_inverse.
Theorem C13_modmul_spec : forall x y m r, ar_modmul x y m = Some r -> r = Z.rem (x * y) m /\ m <> 0.
Proof. exact modmul_spec. Qed.
Print Assumptions C13_modmul_spec.

(* conversions that are bijections *)
Theorem C13_convert_int_bytes_int : forall z, int256 z -> try_int (IBytes (to_bytes z)) = Some z.
Proof. exact convert_int_bytes_int. Qed.
Print Assumptions C13_convert_int_bytes_int.
Theorem C13_convert_bytes_int_bytes : forall l z,
  bytes_ok l -> try_int (IBytes l) = Some z ->
  int256 z /\ (to_bytes z = l <-> length l = length (to_bytes z)).
Proof. exact convert_bytes_int_bytes. Qed.
Print Assumptions C13_convert_bytes_int_bytes.
Theorem C13_convert_bool_int_bool : forall b, try_int (IBool b) = Some (bool_z b) /\ try_bool (IInt (bool_z b)) = Some b.
Proof. exact convert_bool_int_bool. Qed.
Print Assumptions C13_convert_bool_int_bool.

(* gas: the price table the implementation uses (generated from pkg/core/fee on every run) is the protocol's *)
Theorem C13_prices_match_reference : forall o, opcode_coeff o = reference_coeff o.
Proof. exact prices_match_reference. Qed.
Print Assumptions C13_prices_match_reference.

(* determinism *)
Theorem C13_run_deterministic : forall n s r1 r2, run n s = r1 -> run n s = r2 -> r1 = r2.
Proof. exact run_deterministic. Qed.
Print Assumptions C13_run_deterministic.
Theorem C13_run_fuel_irrelevant : forall n m s r,
  run n s = r -> (match r with Running _ => False | _ => True end) -> (n <= m)%nat -> run m s = r.
Proof. exact run_fuel_irrelevant. Qed.
Print Assumptions C13_run_fuel_irrelevant.

(* results are fresh values.  Byte strings are values of the model (no storage to share); Buffers are the only mutable byte
   storage (heap cells CBuf).  [bk x h h']: every Buffer of h other than the one at location x is unchanged in h'.
   (1) every instruction except the three in-place mutators leaves every existing Buffer as it is;
   (2) SETITEM, REVERSEITEMS, MEMCPY change at most one Buffer;
   (3) NEWBUFFER, CAT, SUBSTR, LEFT, RIGHT push a Buffer at a location the heap did not have before the instruction, so no
       other stack entry, slot or compound element refers to it: mutating the result in place changes no other value *)
Theorem C13_results_keep_buffers : forall e op p d,
  inplace_mutator op = false ->
  match exec_data e op p d with
  | DOk d' => bk None (d_heap d) (d_heap d') | DThrow _ d' => bk None (d_heap d) (d_heap d') | DFault => True end.
Proof. exact exec_data_keeps_buffers. Qed.
Print Assumptions C13_results_keep_buffers.
Theorem C13_mutator_one_buffer : forall e op p d,
  inplace_mutator op = true ->
  match exec_data e op p d with
  | DOk d' => exists x, bk x (d_heap d) (d_heap d') | DThrow _ d' => exists x, bk x (d_heap d) (d_heap d') | DFault => True end.
Proof. exact mutator_one_buffer. Qed.
Print Assumptions C13_mutator_one_buffer.
Theorem C13_buffer_results_fresh : forall e op p d d',
  buffer_producer op = true -> exec_data e op p d = DOk d' ->
  exists l bs tl, d_es d' = IBuf l :: tl /\ hget (d_heap d') l = Some (CBuf bs) /\ (length (d_heap d) <= l)%nat.
Proof. exact producer_fresh. Qed.
Print Assumptions C13_buffer_results_fresh.
(* PUSHDATA1 01020304 -> Buffer, DUP, PUSHDATA1 "" , CAT (empty right operand), DUP PUSH0 PUSHINT8 0x55 SETITEM, SWAP:
   the result is changed, the operand is not *)
Example C13_fresh_example :
  match run 20 (init_state [12; 4; 1; 2; 3; 4; 219; 48; 74; 12; 0; 139; 74; 16; 0; 85; 208; 80] 1%N 1 100000) with
  | Halted s => exists a b, final_stack s = [IBuf a; IBuf b] /\ hget (s_heap s) a = Some (CBuf [1; 2; 3; 4]) /\
                            hget (s_heap s) b = Some (CBuf [85; 2; 3; 4])
  | _ => False
  end.
Proof. vm_compute. eexists _, _. repeat split; reflexivity. Qed.

(* the item pushed by an arithmetic / bitwise instruction is an Integer whatever the item types of the operands (ByteString,
   Boolean, Buffer operands are converted; no identity shortcut can leave the operand item in place) *)
Theorem C13_arith_results_are_integers : forall e op p d d',
  arith_op op = true -> exec_data e op p d = DOk d' -> exists z tl, d_es d' = IInt z :: tl.
Proof. exact arith_results_are_integers. Qed.
Print Assumptions C13_arith_results_are_integers.

(* slot initialisation: INITSLOT succeeds iff NEITHER the local NOR the argument slot of the executing context exists yet - one
   guard for the pair (INITSLOT 1,0 followed by INITSLOT 0,1 faults like a plain repetition) -, the counts are not both
   zero and the arguments are on the stack; INITSSLOT iff the script has no static slot yet and the count is not zero *)
Theorem C13_initslot_once : forall e nl na d,
  exec_data e INITSLOT [nl; na] d <> DFault <->
  d_local d = None /\ d_args d = None /\ ~ (nl = 0 /\ na = 0) /\ (0 < na -> na <= zlen (d_es d)).
Proof. exact initslot_once. Qed.
Print Assumptions C13_initslot_once.
Theorem C13_initsslot_once : forall e n d, exec_data e INITSSLOT [n] d <> DFault <-> d_static d = None /\ n <> 0.
Proof. exact initsslot_once. Qed.
Print Assumptions C13_initsslot_once.
(* a CALLed context starts without local and argument slots and shares the static slot of its script; a loaded script
   starts without any slot (statics are per script) *)
Theorem C13_call_fresh_slots : forall s pos s',
  call s pos = Some s' ->
  f_local (s_fr s') = None /\ f_args (s_fr s') = None /\ sc_static (s_sc s') = sc_static (s_sc s) /\ s_frames s' = s_fr s :: s_frames s.
Proof. exact call_fresh_slots. Qed.
Print Assumptions C13_call_fresh_slots.
Theorem C13_load_script_fresh_slots : forall s prog sid rv,
  let s' := load_script s prog sid rv in
  f_local (s_fr s') = None /\ f_args (s_fr s') = None /\ sc_static (s_sc s') = None /\
  s_outer s' = (s_sc s, (s_fr s, s_frames s)) :: s_outer s.
Proof. exact load_script_fresh_slots. Qed.
Print Assumptions C13_load_script_fresh_slots.
(* INITSLOT 1 0; INITSLOT 0 1 (an argument on the stack) faults at the second instruction; INITSSLOT 1 in a callee of a
   script that has statics faults; INITSLOT in caller and callee is fine *)
Example C13_initslot_examples :
  let f r := match r with Faulted g => Some g | _ => None end in
  f (run 5 (init_state [17; 87; 1; 0; 87; 0; 1] 1%N 1 100000)) = Some 129 /\
  f (run 5 (init_state [86; 1; 52; 3; 64; 86; 1] 1%N 1 100000)) = Some 544 /\
  match run 9 (init_state [87; 1; 0; 52; 3; 64; 87; 1; 0; 64] 1%N 1 100000) with Halted _ => True | _ => False end.
Proof. vm_compute. repeat split; reflexivity. Qed.

(* determinism across VM reuse (the node runs all transactions of a block on one VM with vm.Reset in between): Reset, which
   clears the invocation and evaluation stacks, the uncaught-exception register, the item counter, the gas consumed, the
   limit and the price getter, followed by SetPriceGetter / SetGasLimit / LoadScript (vm_prepare: touches nothing else)
   gives the initial state - so an execution on a reused VM is the execution on a fresh one.  init_state is thereby the
   specification of what Reset has to re-establish; the harness runs every script also after Reset on a used VM and
   compares outcome and trace with the fresh run and the model. *)
Theorem C13_reset_is_init : forall s prog sid base limit,
  vm_prepare (vm_reset s) prog sid base limit = init_state prog sid base limit.
Proof. exact reset_is_init. Qed.
Print Assumptions C13_reset_is_init.
Theorem C13_run_after_reset : forall s prog sid base limit n,
  run n (vm_prepare (vm_reset s) prog sid base limit) = run n (init_state prog sid base limit).
Proof. exact run_after_reset. Qed.
Print Assumptions C13_run_after_reset.

(* each of these registers matters: with the exception register, the item counter, the gas consumed or a try context left
   over, a script ends differently than from the initial state
   (TRY/ENDTRY/finally/ENDFINALLY; PUSHINT16 2040 NEWARRAY DEPTH; PUSH1 PUSH1 ADD at its exact limit; PUSH1 THROW NOP) *)
Example C13_reset_registers_matter :
  let halts r := match r with Halted _ => true | _ => false end in
  let fr := empty_frame 0 (-1) in
  let st p exc refs gas try limit base :=
    mkState (mkFrame 0 None None try (-1)) (mkScript p 1%N None [] false) [] [] [] refs exc gas limit base in
  let fin := [59; 0; 5; 61; 5; 23; 63; 33; 24] in
  let near := [1; 248; 7; 195; 67] in
  let gasx := [17; 17; 158] in
  let thr := [17; 58; 33] in
  halts (run 20 (init_state fin 1%N 1 10000)) = true /\ halts (run 20 (st fin (Some (IInt 1)) 0 0 [] 10000 1)) = false /\
  halts (run 20 (init_state near 1%N 1 1000000)) = true /\ halts (run 20 (st near None 8 0 [] 1000000 1)) = false /\
  halts (run 20 (init_state gasx 1%N 10000 100000)) = true /\ halts (run 20 (st gasx None 0 1 [] 100000 10000)) = false /\
  halts (run 20 (init_state thr 1%N 1 10000)) = false /\ halts (run 20 (st thr None 0 0 [mkTry 2 (-1) (-1) ETry] 10000 1)) = true.
Proof. vm_compute. repeat split; reflexivity. Qed.

(* non-vacuity: boundary values through the primitives and through a script *)
Example C13_examples :
  ar_div (- 2 ^ 255) (-1) = None /\ ar_div (-7) 2 = Some (-3) /\ ar_mod (-7) 2 = Some (-1) /\
  ar_shift false (-1) 200 = Some (-1) /\ ar_pow 2 255 = None /\ ar_pow (-2) 255 = Some (- 2 ^ 255) /\
  ar_modpow (-3) 3 5 = Some (-2) /\ ar_modpow 3 (-1) 7 = Some 5 /\ ar_sqrt (2 ^ 255 - 1) = Some (Z.sqrt (2 ^ 255 - 1)).
Proof. vm_compute. repeat split; reflexivity. Qed.
(* the script PUSH2 PUSH3 ADD halts with 5 on the stack having consumed 1+1+8 price units *)
Example C13_run_example :
  match run 10 (init_state [18; 19; 158] 1%N 1 1000) with
  | Halted s => final_stack s = [IInt 5] /\ s_gas s = 10
  | _ => False
  end.
Proof. vm_compute. split; reflexivity. Qed.
