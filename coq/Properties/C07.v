(* C07 — transaction admission is sound, fee-exact and yields proposable blocks.
   Statements only; every proof is [exact lemma]. Models: Admission/Fee.v (fee.Calculate, VM charges for
   standard witnesses, the gas loop of verifyTxWitnesses; prices from the GENERATED table gen/FeeTable.v),
   Admission/Admit.v (ordered checks of verifyAndPoolTx over oracle facts, ApplyPolicyToTxSet), and the
   memory pool model of C08. Partial: the witness oracle is "(picoGAS consumed, ended with true)" per
   signer — the VM itself is not modelled here; the block the ledger accepts is C06's matter, here the
   conditions a packed prefix satisfies are proved. *)
From NG Require Import Common.Tactics Admission.Fee Admission.FeeProofs Admission.Admit Admission.AdmitProofs
  Admission.Conflicts Admission.Refresh Admission.RefreshBal Admission.FeeRounding Admission.Attrs Admission.VMScripts Admission.VMFeeProofs Admission.PackSize Admission.Examples Mempool.Model Mempool.Spec Mempool.Examples.
From NG Require VM.Model.
Open Scope N_scope.

(* the checks before the pool pass exactly when every listed condition holds *)
Theorem C07_precheck_sound_complete : forall c t, precheck c t = None <-> admissible c t.
Proof. exact precheck_sound_complete. Qed.
Print Assumptions C07_precheck_sound_complete.

(* pooled => every listed condition held and mempool.Add accepted *)
Theorem C07_accept_sound : forall c t bal s x s',
  accept_tx c t bal s x = (inr tt, s') -> admissible c t /\ add fixed_cfg bal s x = (ROk, s').
Proof. exact accept_sound. Qed.
Print Assumptions C07_accept_sound.

(* a refused transaction leaves the pool unchanged, an accepted one keeps the C08 invariant *)
Theorem C07_accept_pool : forall U, good_universe U -> forall c t bal s x,
  bal_ok bal -> Inv U bal s -> U x ->
  Inv U bal (snd (accept_tx c t bal s x))
  /\ (forall e, fst (accept_tx c t bal s x) = inl e -> pool_eqv bal s (snd (accept_tx c t bal s x))).
Proof. exact accept_pool. Qed.
Print Assumptions C07_accept_pool.

(* the "conflict on chain" fact: the DAO's record table (newest block index per named hash and per
   (hash, signer), stub checked first) answers "has conflicts" exactly when some on-chain transaction
   within the last MaxTraceableBlocks blocks names the hash and shares a signer - for every history of
   on-chain transactions in chain order *)
Theorem C07_conflict_records_exact : forall cur mtb es h signers,
  (forall l1 e l2, es = l1 ++ e :: l2 -> forall x, In x l1 -> e_idx x <= e_idx e) -> below es cur ->
  has_conflict (build es) h signers cur mtb = conflict_spec es h signers cur mtb.
Proof. exact conflict_records_exact. Qed.
Print Assumptions C07_conflict_records_exact.

(* fee.Calculate charges exactly what the VM charges for running the standard scripts:
   sum of the opcode prices of invocation + verification script plus the signature checks *)
Theorem C07_fee_exact_sig : forall base, witness_cost base (0, 0) = calc_sig_pico base.
Proof. exact fee_exact_sig. Qed.
Print Assumptions C07_fee_exact_sig.

Theorem C07_fee_exact_multisig : forall base m n, m <> 0 ->
  witness_cost base (m, n) = calc_multisig_pico base m n.
Proof. exact fee_exact_multisig. Qed.
Print Assumptions C07_fee_exact_multisig.

(* ---- the same on the executable NeoVM model (VM/Model.v: instruction decoding from BYTES, [step_with], prices
   from the generated OpcodePrices table), with the standard scripts as the bytes the builders emit
   (Admission/VMScripts.v) and a handler for System.Crypto.CheckSig / CheckMultisig (ECDSA abstract; interop ids and
   prices from the generated Interops table, CheckMultisig charging ECDSAVerifyPrice per key as the code does).
   Limits and consumption in picoGAS; [vm_fuel_multisig m n] = m + n + 5 instructions; limit < 0 = unlimited.
   The hypothesis m + n + 2 <= MaxStackSize (2048) is needed: the machine holds m signatures, n keys and the two
   counts on its stack, so 1024-of-1024 faults in the VM whatever the gas. *)
Theorem C07_fee_exact_sig_on_vm_model : forall ecdsa base limit key sg,
  (0 <= base)%Z -> Items.zlen key = 33%Z -> Items.zlen sg = 64%Z ->
  let cost := Z.of_N (calc_sig_pico (Z.to_N base)) in
  let r := run_with ecdsa (Z.of_N ecdsa_verify_price) 5 (witness_state (sig_invocation sg) (sig_verification key) base limit) in
  ((limit < 0)%Z \/ (cost <= limit)%Z ->
     exists s, r = Model.Halted s /\ Model.final_stack s = [Items.IBool (ecdsa key sg)] /\ Model.s_gas s = cost)
  /\ ((0 <= limit < cost)%Z -> exists g, r = Model.Faulted g).
Proof. exact fee_exact_sig_on_vm. Qed.
Print Assumptions C07_fee_exact_sig_on_vm_model.

Theorem C07_fee_exact_multisig_on_vm_model : forall ecdsa base limit keys sigs,
  (0 <= base)%Z ->
  Forall (fun k => Items.zlen k = 33%Z) keys -> Forall (fun sg => Items.zlen sg = 64%Z) sigs ->
  (1 <= Items.zlen sigs <= Items.zlen keys)%Z -> (Items.zlen keys <= 1024)%Z -> (Items.zlen sigs + Items.zlen keys + 2 <= VMLimits.MaxStackSize)%Z ->
  let m := Items.zlen sigs in let n := Items.zlen keys in
  let cost := Z.of_N (calc_multisig_pico (Z.to_N base) (Z.to_N m) (Z.to_N n)) in
  let r := run_with ecdsa (Z.of_N ecdsa_verify_price) (vm_fuel_multisig (length sigs) (length keys))
             (witness_state (multisig_invocation sigs) (multisig_verification m keys) base limit) in
  ((limit < 0)%Z \/ (cost <= limit)%Z ->
     exists s, r = Model.Halted s /\ Model.final_stack s = [Items.IBool (match_sigs ecdsa (rev keys) (rev sigs))]
               /\ Model.s_gas s = cost)
  /\ ((0 <= limit < cost)%Z -> exists g, r = Model.Faulted g).
Proof. exact fee_exact_multisig_on_vm. Qed.
Print Assumptions C07_fee_exact_multisig_on_vm_model.

(* with the limit in Datoshi as verifyHashAgainstScript sets it (G * ExecFeeFactorMultiplier picoGAS): any
   G >= fee.Calculate suffices and the consumption rounds up to exactly fee.Calculate; G = fee.Calculate - 1 faults *)
Theorem C07_multisig_threshold_on_vm_model : forall ecdsa base G keys sigs,
  (0 <= base)%Z -> (0 <= G)%Z ->
  Forall (fun k => Items.zlen k = 33%Z) keys -> Forall (fun sg => Items.zlen sg = 64%Z) sigs ->
  (1 <= Items.zlen sigs <= Items.zlen keys)%Z -> (Items.zlen keys <= 1024)%Z -> (Items.zlen sigs + Items.zlen keys + 2 <= VMLimits.MaxStackSize)%Z ->
  let m := Items.zlen sigs in let n := Items.zlen keys in
  let fee := Z.of_N (calc_fee (Z.to_N base) (Z.to_N m, Z.to_N n)) in
  let r := run_with ecdsa (Z.of_N ecdsa_verify_price) (vm_fuel_multisig (length sigs) (length keys))
             (witness_state (multisig_invocation sigs) (multisig_verification m keys) base (G * Z.of_N exec_fee_multiplier)) in
  ((fee <= G)%Z -> exists s, r = Model.Halted s /\ Model.final_stack s = [Items.IBool (match_sigs ecdsa (rev keys) (rev sigs))]
                        /\ Z.of_N (pico_to_datoshi (Z.to_N (Model.s_gas s))) = fee)
  /\ (G = (fee - 1)%Z -> exists g, r = Model.Faulted g).
Proof. exact multisig_threshold_on_vm. Qed.
Print Assumptions C07_multisig_threshold_on_vm_model.

Theorem C07_sig_threshold_on_vm_model : forall ecdsa base G key sg,
  (0 <= base)%Z -> (0 <= G)%Z -> Items.zlen key = 33%Z -> Items.zlen sg = 64%Z ->
  let fee := Z.of_N (calc_fee (Z.to_N base) (0, 0)) in
  let r := run_with ecdsa (Z.of_N ecdsa_verify_price) 5
             (witness_state (sig_invocation sg) (sig_verification key) base (G * Z.of_N exec_fee_multiplier)) in
  ((fee <= G)%Z -> exists s, r = Model.Halted s /\ Model.final_stack s = [Items.IBool (ecdsa key sg)]
                        /\ Z.of_N (pico_to_datoshi (Z.to_N (Model.s_gas s))) = fee)
  /\ (G = (fee - 1)%Z -> exists g, r = Model.Faulted g).
Proof. exact sig_threshold_on_vm. Qed.
Print Assumptions C07_sig_threshold_on_vm_model.

(* closed forms over the generated price table, for all 1 <= m, n <= 1024 *)
Theorem C07_calc_sig_closed : forall base, calc_sig_pico base = base * (16 + ecdsa_verify_price).
Proof. exact calc_sig_closed. Qed.
Print Assumptions C07_calc_sig_closed.

Theorem C07_calc_multisig_closed : forall base m n, 1 <= m <= 1024 -> 1 <= n <= 1024 ->
  calc_multisig_pico base m n = base * (8 * m + 8 * n + 2 + ecdsa_verify_price * n).
Proof. exact calc_multisig_closed. Qed.
Print Assumptions C07_calc_multisig_closed.

(* the size Calculate adds is the encoded size of the witness *)
Theorem C07_calc_size_exact : forall s verif_len,
  calc_size s verif_len = witness_size (if fst s =? 0 then 66 else 66 * fst s) verif_len.
Proof. exact calc_size_exact. Qed.
Print Assumptions C07_calc_size_exact.

(* the gas loop: with valid witnesses each within the verification gas limit, the budget suffices
   exactly from the sum of the rounded costs on: accepted with it, rejected with one Datoshi less *)
Theorem C07_gas_threshold : forall maxgas ws budget,
  Forall (fun w => snd w = true /\ pico_to_datoshi (fst w) <= maxgas) ws ->
  (verify_loop maxgas budget ws = true <-> needed_gas ws <= budget).
Proof. exact verify_loop_threshold. Qed.
Print Assumptions C07_gas_threshold.

Theorem C07_threshold_exact : forall maxgas ws,
  ws <> [] -> Forall (fun w => snd w = true /\ 0 < fst w /\ pico_to_datoshi (fst w) <= maxgas) ws ->
  verify_loop maxgas (needed_gas ws) ws = true /\ verify_loop maxgas (needed_gas ws - 1) ws = false.
Proof. exact threshold_exact. Qed.
Print Assumptions C07_threshold_exact.

(* admission level: for standard signature / multi-signature witnesses, everything else being in order,
   the transaction passes exactly when its network fee reaches size*feePerByte + attribute fees + the
   calculator's fee *)
Theorem C07_fee_threshold_exact : forall c t base shapes,
  shapes <> [] ->
  Forall (fun s => 0 < calc_pico base s /\ calc_fee base s <= c_max_verif_gas c) shapes ->
  f_witnesses t = std_witnesses base shapes ->
  f_sysfee t <= c_max_block_sysfee c -> f_script_ok t = true -> c_height c < f_vub t <= c_height c + c_max_vub_inc c ->
  f_policy_ok t = true -> f_size t <= max_transaction_size -> f_on_chain t = false -> f_conflict_on_chain t = false ->
  f_attrs_ok t = true ->
  (precheck c t = None <-> f_size t * c_fee_per_byte c + f_attr_fee t + calculated_fee base shapes <= f_netfee t).
Proof. exact fee_threshold_exact. Qed.
Print Assumptions C07_fee_threshold_exact.

(* ---- the attribute rules (Transaction.isValid at decoding + verifyTxAttributes) are rules about the whole attribute
   LIST as a multiset: at most 16 attributes and signers together, HighPriority / NotValidBefore / OracleResponse /
   NotaryAssisted at most once, every attribute in order for its type, and the hashes named by the Conflicts
   attributes - taken out of the mixed list - duplicate-free. [f_attrs_ok] of the admission model is this predicate.
   Which attribute precedes which is irrelevant: *)
Theorem C07_attr_rules_meaning : forall c l,
  attrs_ok c l = true <->
  (length l + a_signers c <= max_attributes)%nat /\ NoDup (singles l) /\ Forall (fun a => attr_ok c a = true) l /\ NoDup (conf_hashes l).
Proof. exact attrs_ok_iff. Qed.
Print Assumptions C07_attr_rules_meaning.
Theorem C07_attr_rules_permutation_invariant : forall c l l', Permutation.Permutation l l' -> attrs_ok c l = attrs_ok c l'.
Proof. exact attrs_ok_permutation_invariant. Qed.
Print Assumptions C07_attr_rules_permutation_invariant.

(* a duplicate search that walks the mixed list with index i and compares with the entries from i+1 on of the
   FILTERED Conflicts list finds [X;X], [X;Y;X], [X;X;NVB] and misses [NVB;X;X], [NVB;Y;X;X]; one that compares
   adjacent attributes only misses [X;NVB;X] *)
Theorem C07_attr_mixed_index_loop_refuted :
  attrs_ok_mixed_index ax_ctx [AConf 7; AConf 7] = false
  /\ attrs_ok_mixed_index ax_ctx [AConf 7; AConf 8; AConf 7] = false
  /\ attrs_ok_mixed_index ax_ctx [AConf 7; AConf 7; ANvb 3] = false
  /\ attrs_ok_mixed_index ax_ctx [ANvb 3; AConf 7; AConf 7] = true
  /\ attrs_ok_mixed_index ax_ctx [ANvb 3; AConf 8; AConf 7; AConf 7] = true
  /\ attrs_ok ax_ctx [ANvb 3; AConf 7; AConf 7] = false
  /\ attrs_ok ax_ctx [ANvb 3; AConf 8; AConf 7; AConf 7] = false
  /\ adjacent_dup [AConf 7; ANvb 3; AConf 7] = false /\ attrs_ok ax_ctx [AConf 7; ANvb 3; AConf 7] = false.
Proof. exact mixed_index_loop_refuted. Qed.
Print Assumptions C07_attr_mixed_index_loop_refuted.

(* ---- the execution fee factor is ANY number of picoGAS. Since Faun the committee sets the factor in picoGAS, so it
   need not be a whole number of Datoshi (300001). [base] is universally quantified in every exactness theorem above;
   put together for one standard witness (signature account, or m-of-n with m <> 0): the VM's consumption, summed
   in picoGAS and rounded up to Datoshi ONCE, is fee.Calculate; a budget of that many Datoshi passes the gas loop and
   one Datoshi less does not - whatever the factor *)
Theorem C07_fee_threshold_any_factor : forall base maxgas s,
  s = (0, 0) \/ fst s <> 0 -> 0 < calc_pico base s -> calc_fee base s <= maxgas ->
  pico_to_datoshi (witness_cost base s) = calc_fee base s
  /\ verify_loop maxgas (calc_fee base s) [(witness_cost base s, true)] = true
  /\ verify_loop maxgas (calc_fee base s - 1) [(witness_cost base s, true)] = false.
Proof. exact fee_threshold_any_factor. Qed.
Print Assumptions C07_fee_threshold_any_factor.

(* a calculator that rounds every price component (the PUSHDATA part, the two count parts, the signature checks) to
   Datoshi on its own never underestimates and is exact on whole-Datoshi factors (every chain until a committee sets
   a fractional one) ... *)
Theorem C07_componentwise_rounding_overestimates : forall base s, calc_fee base s <= calc_fee_componentwise base s.
Proof. exact componentwise_overestimates. Qed.
Print Assumptions C07_componentwise_rounding_overestimates.
Theorem C07_componentwise_rounding_exact_on_whole_factors : forall d s,
  calc_fee_componentwise (d * 10000) s = calc_fee (d * 10000) s.
Proof. exact componentwise_exact_on_whole_factors. Qed.
Print Assumptions C07_componentwise_rounding_exact_on_whole_factors.

(* ... but is 1-2 Datoshi too high at the factor 300001: "its fee - 1" still passes the VM, the true threshold - 1 does not *)
Theorem C07_componentwise_rounding_refuted :
  calc_fee 300001 (0, 0) = 983524 /\ calc_fee_componentwise 300001 (0, 0) = 983525
  /\ calc_fee 300001 (1, 1) = 983584 /\ calc_fee_componentwise 300001 (1, 1) = 983586
  /\ calc_fee 300001 (2, 3) = 2950390 /\ calc_fee_componentwise 300001 (2, 3) = 2950392
  /\ calc_fee 300001 (3, 4) = 3933914 /\ calc_fee_componentwise 300001 (3, 4) = 3933916
  /\ verify_loop 150000000 (calc_fee_componentwise 300001 (0, 0) - 1) [(witness_cost 300001 (0, 0), true)] = true
  /\ verify_loop 150000000 (calc_fee_componentwise 300001 (2, 3) - 1) [(witness_cost 300001 (2, 3), true)] = true
  /\ verify_loop 150000000 (calc_fee 300001 (2, 3) - 1) [(witness_cost 300001 (2, 3), true)] = false.
Proof. exact componentwise_rounding_refuted. Qed.
Print Assumptions C07_componentwise_rounding_refuted.

(* ---- the refresh after a block re-books the pool against the balances the block LEFT (a block moves GAS): the
   invariant holds for the new balances, so every payer can pay for everything kept ... *)
Theorem C07_refresh_restores_solvency : forall U, good_universe U -> forall bal bal' newfpb isok s,
  bal_ok bal' -> Inv U bal s ->
  let s' := remove_stale bal' newfpb isok s in
  Inv U bal' s'
  /\ (forall p, sum_fees p (vtxs s') <= bal' p)
  /\ (forall x, In x (vtxs s') -> In x (vtxs s) /\ isok x = true).
Proof. exact refresh_restores_solvency. Qed.
Print Assumptions C07_refresh_restores_solvency.

(* ... the block packed next is payable under those balances ... *)
Theorem C07_pack_after_refresh_payable : forall U, good_universe U -> forall bal bal' newfpb isok s max_tx max_size max_sysfee hdr0,
  bal_ok bal' -> Inv U bal s ->
  let s' := remove_stale bal' newfpb isok s in
  let b := apply_policy_real max_tx max_size max_sysfee hdr0 (vtxs s') in
  (forall p, sum_fees p b <= bal' p)
  /\ NoDup (map tid b)
  /\ (forall x y, In x b -> In y b -> ~ In (tid x) (confl y))
  /\ (forall x, In x b -> In x (vtxs s) /\ isok x = true).
Proof. exact pack_after_refresh_payable. Qed.
Print Assumptions C07_pack_after_refresh_payable.

(* ... and so for whole histories: submissions, removals and blocks (any filter, any new balances) in any order; the
   block packed from the pool at any moment is payable under the balances of that moment *)
Theorem C07_pack_history_payable : forall U, good_universe U -> forall capacity bal0 ops max_tx max_size max_sysfee hdr0,
  bal_ok bal0 -> Forall (op_ok U) ops ->
  let st := run fixed_cfg (mkState (new_pool capacity) bal0) ops in
  let b := apply_policy_real max_tx max_size max_sysfee hdr0 (vtxs (st_pool st)) in
  (forall p, sum_fees p b <= st_bal st p)
  /\ NoDup (map tid b)
  /\ (forall x y, In x b -> In y b -> ~ In (tid x) (confl y)).
Proof. exact pack_history_payable. Qed.
Print Assumptions C07_pack_history_payable.

(* a refresh that only re-sums the fees, one that checks only the first transaction of every payer, and one that
   checks against the balances from before the block keep 300 of fees against the 150 GAS the block left *)
Theorem C07_refresh_variants_refuted :
  sum_fees (2, 0) rb_pool = 400 /\ rb_bal (2, 0) = 400
  /\ map tid (vtxs (remove_stale rb_bal' 0 rb_isok rb_state)) = [1]
  /\ map tid (refresh_resum rb_bal' rb_isok rb_pool) = [1; 2; 3]
  /\ rb_bal' (2, 0) < sum_fees (2, 0) (refresh_resum rb_bal' rb_isok rb_pool)
  /\ map tid (refresh_first_only rb_bal' rb_isok rb_pool) = [1; 2; 3]
  /\ rb_bal' (2, 0) < sum_fees (2, 0) (refresh_first_only rb_bal' rb_isok rb_pool)
  /\ map tid (vtxs (remove_stale rb_bal 0 rb_isok rb_state)) = [1; 2; 3]
  /\ rb_bal' (2, 0) < sum_fees (2, 0) (vtxs (remove_stale rb_bal 0 rb_isok rb_state)).
Proof. exact refresh_variants_refuted. Qed.
Print Assumptions C07_refresh_variants_refuted.

(* refresh after a block (IsTxStillRelevant as the filter of RemoveStale): witnesses are seen through an oracle
   indexed by the chain state; the refresh re-verifies every transaction that carries a witness other than a
   plain signature / m-of-n contract (own non-standard script or deployed contract); standard witnesses are
   state-independent (a function of the transaction hash, the keys and the signatures only). Then, after any
   sequence of submissions and blocks, every witness of every pooled transaction verifies in the current state *)
Theorem C07_pool_witnesses_valid_after_refresh : forall (state : Type) (st_height : state -> N) s0 ops,
  Forall (op_wf state) ops ->
  let c := prun state st_height true s0 ops in
  forall t, In t (snd c) -> forall w, In w (p_wits state t) -> w_ok state w (fst c) = true.
Proof. exact pool_witnesses_valid_after_refresh. Qed.
Print Assumptions C07_pool_witnesses_valid_after_refresh.

(* re-verifying deployed-contract witnesses only is not enough *)
Theorem C07_refresh_scripts_not_rechecked_refuted :
  let c := prun N (fun h => h) false 3 [PSubmit N ex_ptx; PBlock N 4; PBlock N 6] in
  snd c = [ex_ptx] /\ w_ok N ex_script_wit (fst c) = false.
Proof. exact refresh_scripts_not_rechecked_refuted. Qed.
Print Assumptions C07_refresh_scripts_not_rechecked_refuted.

(* packing: a prefix of the pool order within the three block limits (for the header size the code uses) *)
Theorem C07_pack_valid : forall U bal s max_tx max_size max_sysfee hdr,
  Inv U bal s ->
  (forall a b, (a <= b)%nat -> hdr a <= hdr b) ->
  let b := apply_policy max_tx max_size max_sysfee hdr (vtxs s) in
  (exists r, vtxs s = b ++ r)
  /\ (max_tx <> O -> (length b <= max_tx)%nat)
  /\ (b <> [] -> hdr (length b) + total_size b <= max_size)
  /\ total_sysfee b <= max_sysfee.
Proof. exact pack_valid. Qed.
Print Assumptions C07_pack_valid.

(* the same with the real size function of a block: header part + var-uint of the transaction count (1 byte up to
   252, 3 from 253, 5 from 65536; [count_prefix_is_encoding] ties it to C17's encoder) + the transactions.
   The code charges the prefix of the count before the size cut, which is never smaller than the final one;
   so the packed block fits for every count, across the var-uint boundaries *)
Theorem C07_pack_valid_real_size : forall U bal s max_tx max_size max_sysfee hdr0,
  Inv U bal s ->
  let b := apply_policy_real max_tx max_size max_sysfee hdr0 (vtxs s) in
  (exists r, vtxs s = b ++ r)
  /\ (max_tx <> O -> (length b <= max_tx)%nat)
  /\ (b <> [] -> block_size hdr0 b <= max_size)
  /\ total_sysfee b <= max_sysfee.
Proof. exact pack_valid_real. Qed.
Print Assumptions C07_pack_valid_real_size.

Theorem C07_count_prefix_is_encoding : forall k, (Z.of_nat k <= 4294967295)%Z ->
  count_prefix k = N.of_nat (length (Wire.write_varuint (Z.of_nat k))).
Proof. exact count_prefix_is_encoding. Qed.
Print Assumptions C07_count_prefix_is_encoding.

(* charging a one-byte count prefix whatever the count is two bytes short from 253 transactions on *)
Theorem C07_pack_short_count_prefix_refuted :
  let b := apply_policy 0 (100 + 1 + 2530) 100000 (fun _ => 100 + 1) (tiny_pool 260) in
  length b = 253%nat /\ 100 + 1 + 2530 < block_size 100 b.
Proof. exact pack_short_count_prefix_refuted. Qed.
Print Assumptions C07_pack_short_count_prefix_refuted.

(* ... and, being a prefix of a pool with the C08 invariant: no duplicates, no conflicts, pool order,
   every payer can pay for all of it, at most one response per oracle request *)
Theorem C07_pack_inherits_pool_invariant : forall U bal s b r,
  Inv U bal s -> vtxs s = b ++ r ->
  NoDup (map tid b) /\ sorted b
  /\ (forall x y, In x b -> In y b -> ~ In (tid x) (confl y))
  /\ (forall p, sum_fees p b <= bal p)
  /\ (forall x y id, In x b -> In y b -> oracle x = Some id -> oracle y = Some id -> x = y).
Proof. exact pack_inherits_pool_invariant. Qed.
Print Assumptions C07_pack_inherits_pool_invariant.

(* finding: with StateRootInHeader the code's header estimate is 32 bytes short, so "within the limit"
   for the estimate does not give "within the limit" for the block *)
Theorem C07_pack_short_header_refuted :
  let hdr := fun _ : nat => 221 in
  let real_hdr := fun k : nat => hdr k + 32 in
  let b := apply_policy 0 450 5000 hdr (vtxs (st_pool ex_state_full)) in
  map tid b = [0; 3] /\ 450 < real_hdr (length b) + total_size b.
Proof. exact pack_short_header_refuted. Qed.
Print Assumptions C07_pack_short_header_refuted.

(* non-vacuity *)
Example C07_example_pack_real_size :
  length (apply_policy_real 0 (100 + 1 + 2530) 100000 100 (tiny_pool 260)) = 252%nat
  /\ length (apply_policy_real 0 (100 + 3 + 2530) 100000 100 (tiny_pool 260)) = 253%nat
  /\ length (apply_policy_real 300 (100 + 3 + 2529) 100000 100 (tiny_pool 260)) = 252%nat.
Proof. exact pack_real_example. Qed.
Example C07_example_vm_run :
  let keys := [repeat 1%Z 33; repeat 2%Z 33; repeat 3%Z 33] in
  let sigs := [repeat 7%Z 64; repeat 8%Z 64] in
  match run_with (fun _ _ => true) (Z.of_N ecdsa_verify_price) (vm_fuel_multisig 2 3)
          (witness_state (multisig_invocation sigs) (multisig_verification 2 keys) 300000 (2950380 * 10000)) with
  | Model.Halted s => Model.final_stack s = [Items.IBool true] /\ Model.s_gas s = 29503800000%Z
  | _ => False
  end
  /\ calc_fee 300000 (2, 3) = 2950380.
Proof. vm_compute. repeat split; reflexivity. Qed.
Example C07_example_refresh :
  Forall (op_wf N) [PSubmit N ex_ptx; PBlock N 4; PBlock N 6]
  /\ snd (prun N (fun h => h) true 3 [PSubmit N ex_ptx; PBlock N 4]) = [ex_ptx]
  /\ snd (prun N (fun h => h) true 3 [PSubmit N ex_ptx; PBlock N 4; PBlock N 6]) = [].
Proof. exact refresh_example. Qed.
Example C07_example_conflict_history :
  let es := [mkEvent 4 [9; 2] [0]; mkEvent 15 [9; 2] [0]; mkEvent 16 [9; 3] [0]] in
  has_conflict (build es) 0 [2] 20 10 = true        (* only the newer record of signer 2 is traceable *)
  /\ has_conflict (build es) 0 [2] 25 10 = false    (* expired, although signer 3's record is newer *)
  /\ has_conflict (build es) 0 [3] 25 10 = true
  /\ has_conflict (build es) 0 [4] 20 10 = false.
Proof. vm_compute. repeat split; reflexivity. Qed.
Example C07_example_admissible :
  precheck ex_chain (ex_facts (426000 + 3933900)) = None
  /\ precheck ex_chain (ex_facts (426000 + 3933900 - 1)) = Some AWitness
  /\ precheck ex_chain (ex_facts (426000 - 1)) = Some ASmallNetFee.
Proof. exact ex_admissible. Qed.
Example C07_example_threshold_hyps :
  ex_shapes <> [] /\ Forall (fun s => 0 < calc_pico ex_base s /\ calc_fee ex_base s <= c_max_verif_gas ex_chain) ex_shapes.
Proof. exact ex_threshold_hyps. Qed.
Example C07_example_beyond_limit :
  c_max_verif_gas ex_chain < calc_fee ex_base (2, 160)
  /\ verify_loop (c_max_verif_gas ex_chain) (calc_fee ex_base (2, 160) + 1000000) [(witness_cost ex_base (2, 160), true)] = false.
Proof. exact ex_beyond_limit. Qed.
Example C07_example_pack :
  map tid (apply_policy 2 1000 5000 (fun _ => 221) (vtxs (st_pool ex_state_full))) = [0; 3]
  /\ map tid (apply_policy 0 420 5000 (fun _ => 221) (vtxs (st_pool ex_state_full))) = [0]
  /\ map tid (apply_policy 0 1000 5000 (fun _ => 221) (vtxs (st_pool ex_state_full))) = [0; 3; 4].
Proof. exact ex_pack. Qed.
