(* C03 — the state root of every height commits exactly to contract storage.
   Statements only; every proof is [exact lemma].

   Two layers.  (1) ABSTRACT (Section Interface of StateRoot/Proofs.v): the theorems quantify over any
   [trie, content, apply_batch, root, get_proof, verify_proof] satisfying the hypotheses named in each statement, which
   are the theorems of the concrete trie model of C10 (coq/Trie):
     batch_content   : PutBatch of a sorted duplicate-free batch changes the content as the batch says   (C10 batch_content)
     root_canonical  : reachable tries with equal content have equal roots                               (C10 NF_unique, put_NF, delete_NF)
     proof_complete / proof_sound (soundness up to an exhibited hash collision)                          (C10 proof_complete, proof_sound)
   What is proved here without hypotheses is the node's own part: from the writes of a block (execution order, later
   write wins) through the Go map of the block's private cache, enumerated in ANY order, to the batch MapToMPTBatch
   builds (prefix stripped, nibble paths, sorted), and the induction over blocks. *)
From Coq Require Import Permutation.
From NG Require Import Common.Tactics StateRoot.Model StateRoot.Order StateRoot.Proofs StateRoot.Concrete StateRoot.Drops.
Open Scope N_scope.

(* the batch does not depend on the iteration order of the change map *)
Theorem C03_batch_order_irrelevant : forall m1 m2 : list change,
  Permutation m1 m2 -> NoDup (map (fun c => to_nibbles (strip (fst c))) m1) -> to_batch m1 = to_batch m2.
Proof. exact batch_order_irrelevant. Qed.
Print Assumptions C03_batch_order_irrelevant.

(* whatever the enumeration [m] of the block's change map [cm], the batch is [cm] in key order with nibble paths *)
Theorem C03_batch_is_sorted_change_map : forall (m cm : list change),
  ssorted cm -> Permutation (map stripc m) cm -> to_batch m = map nib_change cm.
Proof. exact to_batch_spec. Qed.
Print Assumptions C03_batch_is_sorted_change_map.

(* nibble paths are ordered as the byte keys are (bytes.Compare on either gives the same order) *)
Theorem C03_nibbles_preserve_order : forall a b : bytes, bcmp (to_nibbles a) (to_nibbles b) = bcmp a b.
Proof. exact nibbles_cmp. Qed.
Print Assumptions C03_nibbles_preserve_order.

(* later write wins: applying the block's change map to storage = applying the block's writes one after another *)
Theorem C03_change_map_is_the_block : forall (ws : list change) (s : smap),
  ssorted s -> map_apply (cm_of_writes ws) s = map_apply ws s.
Proof. exact map_apply_cm. Qed.
Print Assumptions C03_change_map_is_the_block.

(* ================= over the ABSTRACT trie interface =================
   [iface_base empty content apply_batch tinv ok] (StateRoot/Proofs.v) bundles: the invariant [tinv] holds of the empty
   trie, whose content is empty, and PutBatch of a strictly sorted batch of admissible changes ([ok]) on a trie
   satisfying [tinv] keeps [tinv] and changes the content as the batch says.  [trie_run] is a history of blocks: per
   block the admissible writes in execution order and ANY enumeration of the resulting change map. *)

(* root_commits: by induction over blocks, the trie after any history holds exactly contract storage *)
Theorem C03_root_commits :
  forall (trie : Type) (empty_trie : trie) (content : trie -> smap) (apply_batch : trie -> list change -> trie)
         (tinv : trie -> Prop) (ok : change -> Prop),
  iface_base empty_trie content apply_batch tinv ok ->
  forall bs t, trie_run trie apply_batch ok empty_trie bs t -> content t = storage_after [] bs.
Proof. exact (@abs_root_commits). Qed.
Print Assumptions C03_root_commits.

(* hence the root of a height is a function of the contract storage of that height alone *)
Theorem C03_root_function_of_storage :
  forall (trie hashT : Type) (empty_trie : trie) (content : trie -> smap) (apply_batch : trie -> list change -> trie)
         (root : trie -> hashT) (tinv : trie -> Prop) (ok : change -> Prop),
  iface_base empty_trie content apply_batch tinv ok ->
  (forall t1 t2, reachable trie empty_trie apply_batch ok t1 -> reachable trie empty_trie apply_batch ok t2 ->
                 content t1 = content t2 -> root t1 = root t2) ->
  forall bs1 bs2 t1 t2,
    trie_run trie apply_batch ok empty_trie bs1 t1 -> trie_run trie apply_batch ok empty_trie bs2 t2 ->
    storage_after [] bs1 = storage_after [] bs2 -> root t1 = root t2.
Proof. exact (@abs_root_function_of_storage). Qed.
Print Assumptions C03_root_function_of_storage.

(* reading a key or an ordered range (either direction, any prefix and start point) on the content at root_h = the same
   query on the storage of height h *)
Theorem C03_historic_read_eq_live :
  forall (trie : Type) (empty_trie : trie) (content : trie -> smap) (apply_batch : trie -> list change -> trie)
         (tinv : trie -> Prop) (ok : change -> Prop),
  iface_base empty_trie content apply_batch tinv ok ->
  forall bs t, trie_run trie apply_batch ok empty_trie bs t ->
    (forall k, sm_get k (content t) = sm_get k (storage_after [] bs)) /\
    (forall prefix start bw, sm_range prefix start bw (content t) = sm_range prefix start bw (storage_after [] bs)).
Proof. exact (@abs_historic_read_eq_live). Qed.
Print Assumptions C03_historic_read_eq_live.

(* range-searching at root_h (TrieStore.Seek) = the same range query on the contract storage of height h *)
Theorem C03_seek_at_height :
  forall (trie : Type) (empty_trie : trie) (content : trie -> smap) (apply_batch : trie -> list change -> trie)
         (tinv : trie -> Prop) (ok : change -> Prop),
  iface_base empty_trie content apply_batch tinv ok ->
  forall seek : trie -> bytes -> bytes -> bool -> smap,
  (forall t P S bw, reachable trie empty_trie apply_batch ok t -> seek t P S bw = sm_range P S bw (content t)) ->
  forall bs t P S bw, trie_run trie apply_batch ok empty_trie bs t ->
    seek t P S bw = sm_range P S bw (storage_after [] bs).
Proof. exact (@abs_seek_at_height). Qed.
Print Assumptions C03_seek_at_height.

(* the range of the specification is the one C09 proves for every store of the node *)
Theorem C03_range_is_the_store_range : forall P S bw k,
  in_range P S bw k =
  is_prefix P k && (if bw then ble k (P ++ S) || is_prefix (P ++ S) k else ble (P ++ S) k).
Proof. exact in_range_c09_form. Qed.
Print Assumptions C03_range_is_the_store_range.

(* a proof produced at root_h for a stored key verifies to the stored value (or a collision is exhibited) *)
Theorem C03_proof_complete_at_height :
  forall (trie hashT : Type) (empty_trie : trie) (content : trie -> smap) (apply_batch : trie -> list change -> trie)
         (root : trie -> hashT) (tinv : trie -> Prop) (ok : change -> Prop),
  iface_base empty_trie content apply_batch tinv ok ->
  forall (get_proof : trie -> bytes -> option (list bytes)) (verify_proof : hashT -> bytes -> list bytes -> option val)
         (Collision : Prop),
  (forall t k v, reachable trie empty_trie apply_batch ok t -> sm_get k (content t) = Some v ->
                 exists p, get_proof t k = Some p /\ (verify_proof (root t) k p = Some v \/ Collision)) ->
  forall bs t k v, trie_run trie apply_batch ok empty_trie bs t -> sm_get k (storage_after [] bs) = Some v ->
    exists p, get_proof t k = Some p /\ (verify_proof (root t) k p = Some v \/ Collision).
Proof. exact (@abs_proof_complete). Qed.
Print Assumptions C03_proof_complete_at_height.

(* no proof verifies against root_h for an absent key or to another value, unless a collision is exhibited *)
Theorem C03_proof_sound_at_height :
  forall (trie hashT : Type) (empty_trie : trie) (content : trie -> smap) (apply_batch : trie -> list change -> trie)
         (root : trie -> hashT) (tinv : trie -> Prop) (ok : change -> Prop),
  iface_base empty_trie content apply_batch tinv ok ->
  forall (verify_proof : hashT -> bytes -> list bytes -> option val) (Collision : Prop),
  (forall t k p v, reachable trie empty_trie apply_batch ok t -> verify_proof (root t) k p = Some v ->
                   sm_get k (content t) = Some v \/ Collision) ->
  forall bs t k p v, trie_run trie apply_batch ok empty_trie bs t ->
    sm_get k (storage_after [] bs) <> Some v -> verify_proof (root t) k p = Some v -> Collision.
Proof. exact (@abs_proof_sound). Qed.
Print Assumptions C03_proof_sound_at_height.

(* ================= over the CONCRETE trie of C10 (coq/Trie/Model.v), no premises =================
   StateRoot/Concrete.v instantiates the interface with trie := Trie.Model.node, empty := Empty,
   content := the sorted listing [entries] with paths converted back to byte keys, apply_batch := put_batch,
   root := Trie.Model.root H, seek := Trie.Model.seek, get_proof / verify_proof of the model, for ANY hash function H
   with 32-byte digests, and proves every interface premise from the C10 theorems (put_batch_spec, NF_unique,
   entries_content, entries_sorted, seek_spec, proof_complete, proof_sound, proof_sound_empty).
   [crun H-independent]: a history of blocks of admissible writes ([cok]: the key is a byte string of at most 68 bytes,
   a value has at most 65539 bytes — what Trie.Put accepts), each block applied through MapToMPTBatch ([to_batch] of any
   enumeration of the block's change map) and PutBatch.  [nk] = toNibbles. *)

Theorem C03_root_commits_concrete : forall bs t,
  crun Trie.Model.Empty bs t -> ccontent t = storage_after [] bs.
Proof. exact root_commits_concrete. Qed.
Print Assumptions C03_root_commits_concrete.

Theorem C03_root_function_of_storage_concrete : forall (H : Trie.Model.bytes -> Trie.Model.bytes) bs1 bs2 t1 t2,
  crun Trie.Model.Empty bs1 t1 -> crun Trie.Model.Empty bs2 t2 ->
  storage_after [] bs1 = storage_after [] bs2 -> croot H t1 = croot H t2.
Proof. exact root_function_of_storage_concrete. Qed.
Print Assumptions C03_root_function_of_storage_concrete.

Theorem C03_historic_read_eq_live_concrete : forall bs t,
  crun Trie.Model.Empty bs t ->
  (forall k, sm_get k (ccontent t) = sm_get k (storage_after [] bs)) /\
  (forall prefix start bw, sm_range prefix start bw (ccontent t) = sm_range prefix start bw (storage_after [] bs)).
Proof. exact historic_read_eq_live_concrete. Qed.
Print Assumptions C03_historic_read_eq_live_concrete.

(* Trie.Get at root_h of a byte key = the value contract storage held at height h *)
Theorem C03_get_at_height_concrete : forall bs t k,
  crun Trie.Model.Empty bs t -> bok k -> Trie.Model.get t (nk k) = sm_get k (storage_after [] bs).
Proof. exact get_at_height_concrete. Qed.
Print Assumptions C03_get_at_height_concrete.

(* TrieStore.Seek at root_h, any prefix / start point / direction = the range query on the storage of height h *)
Theorem C03_seek_at_height_concrete : forall bs t P S bw,
  crun Trie.Model.Empty bs t -> cseek t P S bw = sm_range P S bw (storage_after [] bs).
Proof. exact seek_at_height_concrete. Qed.
Print Assumptions C03_seek_at_height_concrete.

Theorem C03_proof_complete_at_height_concrete :
  forall (H : Trie.Model.bytes -> Trie.Model.bytes), (forall x, length (H x) = 32%nat) ->
  forall bs t k v, crun Trie.Model.Empty bs t -> sm_get k (storage_after [] bs) = Some v ->
    exists p, cget_proof H t k = Some p /\ (cverify H (croot H t) k p = Some v \/ ccollision H).
Proof. exact proof_complete_at_height_concrete. Qed.
Print Assumptions C03_proof_complete_at_height_concrete.

(* whatever verifies against root_h is what contract storage held at height h — or a collision of H o H (or, under
   the all-zero root of the empty trie, a preimage of that root) is exhibited *)
Theorem C03_proof_sound_at_height_concrete :
  forall (H : Trie.Model.bytes -> Trie.Model.bytes), (forall x, length (H x) = 32%nat) ->
  forall bs t k p v, crun Trie.Model.Empty bs t -> cverify H (croot H t) k p = Some v ->
    sm_get k (storage_after [] bs) = Some v \/ ccollision H.
Proof. exact proof_sound_at_height_concrete. Qed.
Print Assumptions C03_proof_sound_at_height_concrete.

(* the abstract premises are inhabited by the concrete trie: this is the discharge of the interface *)
Theorem C03_interface_discharged :
  iface_base Trie.Model.Empty ccontent capply cinv cok /\
  (forall (H : Trie.Model.bytes -> Trie.Model.bytes) t1 t2, creachable t1 -> creachable t2 -> ccontent t1 = ccontent t2 -> croot H t1 = croot H t2) /\
  (forall t P S bw, creachable t -> cseek t P S bw = sm_range P S bw (ccontent t)) /\
  (forall (H : Trie.Model.bytes -> Trie.Model.bytes), (forall x, length (H x) = 32%nat) ->
     (forall t k v, creachable t -> sm_get k (ccontent t) = Some v ->
        exists p, cget_proof H t k = Some p /\ (cverify H (croot H t) k p = Some v \/ ccollision H)) /\
     (forall t k p v, creachable t -> cverify H (croot H t) k p = Some v -> sm_get k (ccontent t) = Some v \/ ccollision H)).
Proof. exact interface_discharged. Qed.
Print Assumptions C03_interface_discharged.

(* ================= blocks REFUSED after their MPT batch was applied =================
   (StateRoot/Drops.v) the module = (stored trie, what its in-memory trie object denotes, what StateRoot() of that
   object returns, the mptPending flag); [MRej]: a block executed up to and including AddMPTBatch and refused;
   [leak] / [seen] — what the refused batch does to the shared in-memory nodes and cached hashes — are ARBITRARY. *)

(* with the flag policy of the module as it stands the stored trie commits to the storage made by the ACCEPTED
   blocks alone, whatever the refused ones did to the memory *)
Theorem C03_root_commits_with_drops :
  forall (trie hashT : Type) (empty_trie : trie) (content : trie -> smap) (apply_batch : trie -> list change -> trie)
         (root : trie -> hashT) (hash_eqb : hashT -> hashT -> bool) (tinv : trie -> Prop) (ok : change -> Prop)
         (leak : trie -> list change -> trie) (seen : trie -> list change -> hashT),
  iface_base empty_trie content apply_batch tinv ok ->
  forall evs, Forall (mev_ok ok) evs ->
    content (m_stored trie hashT (mrun trie hashT apply_batch root hash_eqb leak seen PFlag (minit trie hashT empty_trie root) evs))
      = storage_after [] (accepted evs) /\
    tinv (m_stored trie hashT (mrun trie hashT apply_batch root hash_eqb leak seen PFlag (minit trie hashT empty_trie root) evs)).
Proof. exact root_commits_with_drops_init. Qed.
Print Assumptions C03_root_commits_with_drops.

Theorem C03_root_commits_with_drops_concrete : forall (H : Trie.Model.bytes -> Trie.Model.bytes) evs,
  Forall (mev_ok cok) evs ->
  ccontent (m_stored Trie.Model.node Trie.Model.bytes (cmrun H PFlag evs)) = storage_after [] (accepted evs).
Proof. exact root_commits_with_drops_concrete. Qed.
Print Assumptions C03_root_commits_with_drops_concrete.

(* "re-open the trie only if the in-memory root no longer hashes to the accepted root" is NOT equivalent: on an
   extension-rooted trie (every key shares the first nibble, as on a chain with native contracts only) the root
   extension keeps its cached hash while the refused batch changed what lies below it ([cseen]); witness on the concrete
   trie: F1, F2 accepted, F3 refused, F4 accepted — the stored trie holds F3 *)
Definition C03_hash_compare_reload_statement : Prop := forall H, hash_compare_statement H.
Theorem C03_hash_compare_reload_refuted : ~ hash_compare_statement dH.
Proof. exact hash_compare_refuted. Qed.
Print Assumptions C03_hash_compare_reload_refuted.

(* reads while the next block's MPT batch is applied but not finalised (the window between AddMPTBatch and
   UpdateCurrentLocal in storeBlock; after a refusal it lasts until the next block): GetState / FindStates /
   GetStateProof open a new trie from the requested root over the store, i.e. compute a function q of the STORED trie;
   the pending batch does not change any such q, and the content read is the storage made by the accepted blocks *)
Theorem C03_reads_ignore_pending_batch_general :
  forall (trie hashT : Type) (empty_trie : trie) (content : trie -> smap)
         (apply_batch : trie -> list change -> trie) (root : trie -> hashT)
         (hash_eqb : hashT -> hashT -> bool) (tinv : trie -> Prop) (ok : change -> Prop)
         (leak : trie -> list change -> trie) (seen : trie -> list change -> hashT),
  iface_base empty_trie content apply_batch tinv ok ->
  forall (A : Type) (q : trie -> A) (p : policy) (evs : list mevent) (s : mst trie hashT) (st : smap) (ws m : list change),
  p = PFlag -> minv trie hashT content tinv st s -> Forall (mev_ok ok) evs ->
  let s1 := mrun trie hashT apply_batch root hash_eqb leak seen p s evs in
  read_committed trie hashT q (mstep trie hashT apply_batch root hash_eqb leak seen p s1 (MRej ws m)) = read_committed trie hashT q s1 /\
  read_committed trie hashT content (mstep trie hashT apply_batch root hash_eqb leak seen p s1 (MRej ws m)) = storage_after st (accepted evs).
Proof. exact reads_ignore_pending_batch. Qed.
Print Assumptions C03_reads_ignore_pending_batch_general.

Theorem C03_reads_ignore_pending_batch : forall (H : Trie.Model.bytes -> Trie.Model.bytes) evs ws m,
  Forall (mev_ok cok) evs ->
  ccontent (m_stored Trie.Model.node Trie.Model.bytes (cmrun H PFlag (evs ++ [MRej ws m]))) = storage_after [] (accepted evs).
Proof. exact reads_ignore_pending_batch_concrete. Qed.
Print Assumptions C03_reads_ignore_pending_batch.

(* reading the latest root through a shallow copy of the module's in-memory trie (the idiom AddMPTBatch uses) is NOT
   that function: the copy shares the nodes the pending batch changed; witness F1, F2 accepted, F3 pending: F3 is read *)
Definition C03_shared_read_statement : Prop := forall H, shared_read_statement H.
Theorem C03_shared_read_refuted : ~ shared_read_statement dH.
Proof. exact shared_read_refuted. Qed.
Print Assumptions C03_shared_read_refuted.

Example C03_drops_example :
  Forall (mev_ok cok) dw_evs /\
  ccontent (m_stored Trie.Model.node Trie.Model.bytes (cmrun dH PFlag dw_evs)) = [([241], [1]); ([242], [2]); ([244], [4])] /\
  match m_stored Trie.Model.node Trie.Model.bytes (cmrun dH PFlag (firstn 1 dw_evs)) with
  | Trie.Model.Ext [15%nat] (Trie.Model.Branch _ _) => True | _ => False end.
Proof. split; [exact dw_ok|exact dw_flag]. Qed.

(* non-vacuity of the concrete statements: two blocks through the concrete trie *)
Example C03_concrete_example :
  crun Trie.Model.Empty [cex_ws1; cex_ws2] cex_t /\
  ccontent cex_t = [([1;0;0;0;97;98], [3]); ([2;0;0;0], [])] /\
  storage_after [] [cex_ws1; cex_ws2] = [([1;0;0;0;97;98], [3]); ([2;0;0;0], [])] /\
  Trie.Model.NFb cex_t = true.
Proof. split; [exact cex_run|exact cex_values]. Qed.

(* non-vacuity: the interface hypotheses are consistent (the trie whose state is its content), and a concrete block
   with an overwrite, a delete-and-recreate and a delete of an absent key *)
Example C03_interface_inhabited :
  let trie := smap in
  let content := fun t : smap => t in
  let apply_batch := fun (t : smap) (b : list change) => map_apply (map unnib_change b) t in
  let root := fun t : smap => N.of_nat (length t) in
  let get_proof := fun (t : smap) (k : bytes) => match sm_get k t with Some v => Some [v] | None => None end in
  let verify_proof := fun (r : N) (k : bytes) (p : list bytes) => match p with [v] => Some v | _ => None end in
  content [] = [] /\
  (forall t b, ssorted b -> ssorted (content t) -> content (apply_batch t (map nib_change b)) = map_apply b (content t)) /\
  (forall t1 t2 : trie, content t1 = content t2 -> root t1 = root t2) /\
  (forall t k v, sm_get k (content t) = Some v -> exists p, get_proof t k = Some p /\ verify_proof (root t) k p = Some v) /\
  (forall t k p v, verify_proof (root t) k p = Some v -> sm_get k (content t) = Some v \/ True).
Proof. exact interface_inhabited. Qed.
Example C03_example_block :
  Permutation (map stripc ex_enum) (cm_of_writes ex_writes) /\
  to_batch ex_enum = [ ([6; 1], Some [2]); ([6; 1; 6; 2], Some [3]); ([15; 15], None) ] /\
  map_apply ex_writes [([97; 98; 99], [9])] = [([97], [2]); ([97; 98], [3]); ([97; 98; 99], [9])].
Proof. split; [exact ex_perm|exact ex_batch]. Qed.
