(* C03 — the state root of every height commits exactly to contract storage.
   Statements only; every proof is [exact lemma].

   The trie is ABSTRACT here (Section Interface of StateRoot/Proofs.v): the theorems quantify over any
   [trie, content, apply_batch, root, get_proof, verify_proof] satisfying the hypotheses named in each statement, which
   are the theorems of the concrete trie model of C10 (coq/Trie):
     batch_content   : PutBatch of a sorted duplicate-free batch changes the content as the batch says   (C10 batch_content)
     root_canonical  : reachable tries with equal content have equal roots                               (C10 NF_unique, put_NF, delete_NF)
     proof_complete / proof_sound (soundness up to an exhibited hash collision)                          (C10 proof_complete, proof_sound)
   What is proved here without hypotheses is the node's own part: from the writes of a block (execution order, later
   write wins) through the Go map of the block's private cache, enumerated in ANY order, to the batch MapToMPTBatch
   builds (prefix stripped, nibble paths, sorted), and the induction over blocks. *)
From Coq Require Import Permutation.
From NG Require Import Common.Tactics StateRoot.Model StateRoot.Order StateRoot.Proofs.
Open Scope N_scope.

(* the batch does not depend on the iteration order of the change map *)
Theorem C03_batch_order_irrelevant : forall m1 m2 : list change,
  Permutation m1 m2 -> NoDup (map (fun c => to_nibbles (strip (fst c))) m1) -> to_batch m1 = to_batch m2.
Proof. exact batch_order_irrelevant. Qed.
Print Assumptions C03_batch_order_irrelevant.

(* whatever the enumeration [m] of the block's change map [cm], the batch is [cm] in key order with nibble paths *)
Theorem C03_batch_is_sorted_change_map : forall (m cm : list change),
  ssorted cm -> Permutation (map stripc m) cm -> to_batch m = map nib_change cm.
Proof. exact to_batch_spec. Qed.
Print Assumptions C03_batch_is_sorted_change_map.

(* nibble paths are ordered as the byte keys are (bytes.Compare on either gives the same order) *)
Theorem C03_nibbles_preserve_order : forall a b : bytes, bcmp (to_nibbles a) (to_nibbles b) = bcmp a b.
Proof. exact nibbles_cmp. Qed.
Print Assumptions C03_nibbles_preserve_order.

(* later write wins: applying the block's change map to storage = applying the block's writes one after another *)
Theorem C03_change_map_is_the_block : forall (ws : list change) (s : smap),
  ssorted s -> map_apply (cm_of_writes ws) s = map_apply ws s.
Proof. exact map_apply_cm. Qed.
Print Assumptions C03_change_map_is_the_block.

(* root_commits: by induction over blocks, the trie after any history holds exactly contract storage *)
Theorem C03_root_commits :
  forall (trie : Type) (empty_trie : trie) (content : trie -> smap) (apply_batch : trie -> list change -> trie),
  content empty_trie = [] ->
  (forall t b, ssorted b -> ssorted (content t) -> content (apply_batch t (map nib_change b)) = map_apply b (content t)) ->
  forall bs t, trie_run trie apply_batch empty_trie bs t -> content t = storage_after [] bs.
Proof. exact root_commits. Qed.
Print Assumptions C03_root_commits.

(* hence the root of a height is a function of the contract storage of that height alone *)
Theorem C03_root_function_of_storage :
  forall (trie : Type) (empty_trie : trie) (content : trie -> smap) (apply_batch : trie -> list change -> trie)
         (root : trie -> N),
  content empty_trie = [] ->
  (forall t b, ssorted b -> ssorted (content t) -> content (apply_batch t (map nib_change b)) = map_apply b (content t)) ->
  (forall t1 t2, reachable trie empty_trie apply_batch t1 -> reachable trie empty_trie apply_batch t2 ->
                 content t1 = content t2 -> root t1 = root t2) ->
  forall bs1 bs2 t1 t2,
    trie_run trie apply_batch empty_trie bs1 t1 -> trie_run trie apply_batch empty_trie bs2 t2 ->
    storage_after [] bs1 = storage_after [] bs2 -> root t1 = root t2.
Proof. exact root_function_of_storage. Qed.
Print Assumptions C03_root_function_of_storage.

(* reading a key or an ordered range (either direction, any prefix and start point) at root_h = the same query on
   the storage of height h *)
Theorem C03_historic_read_eq_live :
  forall (trie : Type) (empty_trie : trie) (content : trie -> smap) (apply_batch : trie -> list change -> trie),
  content empty_trie = [] ->
  (forall t b, ssorted b -> ssorted (content t) -> content (apply_batch t (map nib_change b)) = map_apply b (content t)) ->
  forall bs t, trie_run trie apply_batch empty_trie bs t ->
    (forall k, sm_get k (content t) = sm_get k (storage_after [] bs)) /\
    (forall prefix start bw, sm_range prefix start bw (content t) = sm_range prefix start bw (storage_after [] bs)).
Proof. exact historic_read_eq_live. Qed.
Print Assumptions C03_historic_read_eq_live.

(* a proof produced at root_h for a stored key verifies to the stored value *)
Theorem C03_proof_complete_at_height :
  forall (trie : Type) (empty_trie : trie) (content : trie -> smap) (apply_batch : trie -> list change -> trie)
         (root : trie -> N) (get_proof : trie -> bytes -> option (list bytes))
         (verify_proof : N -> bytes -> list bytes -> option val),
  content empty_trie = [] ->
  (forall t b, ssorted b -> ssorted (content t) -> content (apply_batch t (map nib_change b)) = map_apply b (content t)) ->
  (forall t k v, reachable trie empty_trie apply_batch t -> sm_get k (content t) = Some v ->
                 exists p, get_proof t k = Some p /\ verify_proof (root t) k p = Some v) ->
  forall bs t k v, trie_run trie apply_batch empty_trie bs t -> sm_get k (storage_after [] bs) = Some v ->
    exists p, get_proof t k = Some p /\ verify_proof (root t) k p = Some v.
Proof. exact proof_at_height_complete. Qed.
Print Assumptions C03_proof_complete_at_height.

(* no proof verifies against root_h for an absent key or to another value, unless a hash collision is exhibited *)
Theorem C03_proof_sound_at_height :
  forall (trie : Type) (empty_trie : trie) (content : trie -> smap) (apply_batch : trie -> list change -> trie)
         (root : trie -> N) (verify_proof : N -> bytes -> list bytes -> option val) (Collision : Prop),
  content empty_trie = [] ->
  (forall t b, ssorted b -> ssorted (content t) -> content (apply_batch t (map nib_change b)) = map_apply b (content t)) ->
  (forall t k p v, reachable trie empty_trie apply_batch t -> verify_proof (root t) k p = Some v ->
                   sm_get k (content t) = Some v \/ Collision) ->
  forall bs t k p v, trie_run trie apply_batch empty_trie bs t ->
    sm_get k (storage_after [] bs) <> Some v -> verify_proof (root t) k p = Some v -> Collision.
Proof. exact no_proof_for_absent_or_other. Qed.
Print Assumptions C03_proof_sound_at_height.

(* range-searching at root_h (TrieStore.Seek: any prefix, any start point, either direction) = the same range query on
   the contract storage of height h.  Premise [seek_spec] is C10's C10_seek_spec; the range is the one C09 proves for
   every store of the node ([C03_range_is_the_store_range]: forwards prefix++start <= key, backwards key <= prefix++start
   or key extends prefix++start), so the live node has exactly one answer for every range and the trie must give it *)
Theorem C03_seek_at_height :
  forall (trie : Type) (empty_trie : trie) (content : trie -> smap) (apply_batch : trie -> list change -> trie),
  content empty_trie = [] ->
  (forall t b, ssorted b -> ssorted (content t) -> content (apply_batch t (map nib_change b)) = map_apply b (content t)) ->
  forall seek : trie -> bytes -> bytes -> bool -> smap,
  (forall t P S bw, reachable trie empty_trie apply_batch t -> seek t P S bw = sm_range P S bw (content t)) ->
  forall bs t P S bw, trie_run trie apply_batch empty_trie bs t ->
    seek t P S bw = sm_range P S bw (storage_after [] bs).
Proof. exact seek_at_height. Qed.
Print Assumptions C03_seek_at_height.

Theorem C03_range_is_the_store_range : forall P S bw k,
  in_range P S bw k =
  is_prefix P k && (if bw then ble k (P ++ S) || is_prefix (P ++ S) k else ble (P ++ S) k).
Proof. exact in_range_c09_form. Qed.
Print Assumptions C03_range_is_the_store_range.

(* non-vacuity: the interface hypotheses are consistent (the trie whose state is its content), and a concrete block
   with an overwrite, a delete-and-recreate and a delete of an absent key *)
Example C03_interface_inhabited :
  let trie := smap in
  let content := fun t : smap => t in
  let apply_batch := fun (t : smap) (b : list change) => map_apply (map unnib_change b) t in
  let root := fun t : smap => N.of_nat (length t) in
  let get_proof := fun (t : smap) (k : bytes) => match sm_get k t with Some v => Some [v] | None => None end in
  let verify_proof := fun (r : N) (k : bytes) (p : list bytes) => match p with [v] => Some v | _ => None end in
  content [] = [] /\
  (forall t b, ssorted b -> ssorted (content t) -> content (apply_batch t (map nib_change b)) = map_apply b (content t)) /\
  (forall t1 t2 : trie, content t1 = content t2 -> root t1 = root t2) /\
  (forall t k v, sm_get k (content t) = Some v -> exists p, get_proof t k = Some p /\ verify_proof (root t) k p = Some v) /\
  (forall t k p v, verify_proof (root t) k p = Some v -> sm_get k (content t) = Some v \/ True).
Proof. exact interface_inhabited. Qed.
Example C03_example_block :
  Permutation (map stripc ex_enum) (cm_of_writes ex_writes) /\
  to_batch ex_enum = [ ([6; 1], Some [2]); ([6; 1; 6; 2], Some [3]); ([15; 15], None) ] /\
  map_apply ex_writes [([97; 98; 99], [9])] = [([97], [2]); ([97; 98], [3]); ([97; 98; 99], [9])].
Proof. split; [exact ex_perm|exact ex_batch]. Qed.
