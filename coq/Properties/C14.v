(* C14 — compiled contracts behave like the Go source.  PARTIAL: the theorems are about the model compiler
   Lang/Compile.v (which follows the scheme of pkg/compiler/codegen.go for the MiniGo fragment) and the
   target machine Lang/Target.v (the NeoVM subset that code uses); the real compiler is tied to them per
   program by the correspondence run (same instruction sequence, same behaviour), the rest of the dialect
   by differential testing against the Go toolchain only.  Statements only; every proof is [exact lemma]. *)
From NG Require Import VM.Model.
From NG Require Import Common.Tactics Lang.MiniGo Lang.Target Lang.Compile Lang.CorrectBase Lang.Correct Lang.Mono.
From NG Require Import Lang.Assemble Lang.VMRefine Lang.VMCorrect Lang.InitFrame Lang.RecoverSlot.
Open Scope Z_scope.

(* Whenever the source run of function [f] on [vs] is defined — it returns a value, or divides by zero; no
   integer leaves 64 bits, no ill-typed operation — the compiled program, entered at the function's offset
   with the arguments on the stack, halts with exactly that value on the stack, respectively faults. *)
Theorem C14_compile_correct : forall p f vs n,
  match run_src n p f vs with
  | Ok rs => exists m, run_tgt (compile_program p) m (entry p f) vs = THalt rs
  | Fault => exists m, run_tgt (compile_program p) m (entry p f) vs = TFault
  | _ => True
  end.
Proof. exact compile_correct. Qed.
Print Assumptions C14_compile_correct.

(* ... and every run of the compiled code that is given enough steps ends that way (the machine is deterministic) *)
Theorem C14_compile_correct_any_fuel : forall p f vs n m t,
  run_tgt (compile_program p) m (entry p f) vs = t -> t <> TTimeout ->
  match run_src n p f vs with
  | Ok rs => t = THalt rs
  | Fault => t = TFault
  | _ => True
  end.
Proof. exact compile_correct_any_fuel. Qed.
Print Assumptions C14_compile_correct_any_fuel.

(* the compiled code fails exactly when the source does *)
Theorem C14_fault_iff : forall p f vs n m t,
  (run_src n p f vs = Fault \/ exists rs, run_src n p f vs = Ok rs) ->
  run_tgt (compile_program p) m (entry p f) vs = t -> t <> TTimeout ->
  (t = TFault <-> run_src n p f vs = Fault).
Proof. exact compile_fault_iff. Qed.
Print Assumptions C14_fault_iff.

(* the simulation behind it, for calls in any context: stack below the arguments and caller frames are
   untouched, the machine ends up at a RET with the value pushed *)
Theorem C14_call_simulation : forall p f vs s K n,
  match call n p f vs with
  | Ok rs => exists qr L A, nth_error (compile_program p) qr = Some IRet /\
              star (compile_program p) (St (entry p f) [] [] (vs ++ s) K) (St qr L A (rs ++ s) K)
  | Fault => goes_wrong (compile_program p) (St (entry p f) [] [] (vs ++ s) K)
  | _ => True
  end.
Proof. exact call_simulation. Qed.
Print Assumptions C14_call_simulation.

(* the fuel of the source semantics only bounds the depth of the evaluation: a result does not depend on it *)
Theorem C14_source_fuel_monotone : forall p f vs n m r,
  run_src n p f vs = r -> r <> Timeout -> (n <= m)%nat -> run_src m p f vs = r.
Proof. exact run_src_mono. Qed.
Print Assumptions C14_source_fuel_monotone.

Theorem C14_source_deterministic : forall p f vs n1 n2 r1 r2,
  run_src n1 p f vs = r1 -> r1 <> Timeout -> run_src n2 p f vs = r2 -> r2 <> Timeout -> r1 = r2.
Proof. exact run_src_det. Qed.
Print Assumptions C14_source_deterministic.

(* the code of every function sits at its entry point, code size does not depend on placement *)
Theorem C14_program_layout : forall p f fn, nth_error p f = Some fn ->
  code_at (compile_program p) (entry p f) (compile_func (entry p) (nres p) (entry p f) fn).
Proof. exact program_layout. Qed.
Print Assumptions C14_program_layout.

(* ---- down to the NeoVM model (VM/Model.v) on script bytes ----
   [assemble_with ws P] (Lang/Assemble.v) encodes Target code as pkg/vm/emit and the compiler's writeJumps do:
   real opcode bytes and operand widths, jump and call offsets relative to the instruction, short or long
   form per instruction as [ws] says (the theorem holds for every choice whose offsets fit; [assemble] makes
   the emitter's choice).  For EVERY Target program P (all 31 instructions of Lang/Target.v): the VM model run
   on the assembled bytes, entered at the offset of instruction [entry] with the arguments pushed, does
   what the Target run does, step for step: same HALT / FAULT / still-running outcome after n instructions,
   same result stack.  Side conditions, where the VM has limits the Target machine lacks:
     - [safe P n st]: every state the Target run visits holds at most MaxStackSize (2048) items on the stack
       and in all slots, and at most MaxInvocationStackSize (1024) frames — a boolean function of the run;
     - gas: limit negative (unlimited) or >= n * 512 * base (512 = CALL, the highest price of the subset);
     - integers: none needed (both machines fault on a result outside 256 bits). *)
Theorem C14_target_refines_vm : forall ws P bs sid base limit entry vs n,
  assemble_with ws P = Some bs -> 0 <= base -> (entry <= length P)%nat ->
  safe P n (Target.init_state entry vs) = true ->
  gas_enough n base limit ->
  match run_tgt P n entry vs with
  | THalt rs => exists s', Model.run n (vm_entry bs sid base limit (off ws P entry) (map item_of vs)) = Halted s'
                           /\ final_stack s' = map item_of rs
  | TFault => exists g, Model.run n (vm_entry bs sid base limit (off ws P entry) (map item_of vs)) = Faulted g
  | TTimeout => exists s', Model.run n (vm_entry bs sid base limit (off ws P entry) (map item_of vs)) = Running s'
  end.
Proof. exact target_refines_vm. Qed.
Print Assumptions C14_target_refines_vm.

(* read from the VM side *)
Theorem C14_vm_reflects_target : forall ws P bs sid base limit entry vs n,
  assemble_with ws P = Some bs -> 0 <= base -> (entry <= length P)%nat ->
  safe P n (Target.init_state entry vs) = true ->
  gas_enough n base limit ->
  match Model.run n (vm_entry bs sid base limit (off ws P entry) (map item_of vs)) with
  | Halted s' => exists rs, run_tgt P n entry vs = THalt rs /\ final_stack s' = map item_of rs
  | Faulted _ => run_tgt P n entry vs = TFault
  | Running _ => run_tgt P n entry vs = TTimeout
  end.
Proof. exact vm_reflects_target. Qed.
Print Assumptions C14_vm_reflects_target.

(* one instruction of the Target machine = one instruction of the VM model on the corresponding state *)
Theorem C14_step_simulation : forall ws P bs sid base limit, assemble_with ws P = Some bs -> 0 <= base ->
  forall st g, pcs_ok P st -> within st = true -> gas_ok base limit g 1 ->
  sim_res ws P bs sid base limit st g (Target.step P st).
Proof. exact step_sim. Qed.
Print Assumptions C14_step_simulation.

(* a static sufficient condition for [safe]: one instruction adds at most max(1, locals of an INITSLOT of the
   program) items and at most one frame, so a run of n steps from a state with that much room stays within
   the limits (crude: for longer runs [safe] itself is evaluated — it is a boolean function of the Target run) *)
Theorem C14_safe_of_bound : forall P n st,
  footprint st + Z.of_nat n * max_locals P <= MaxStackSize ->
  zlen (callers st) + 1 + Z.of_nat n <= MaxInvocationStackSize ->
  safe P n st = true.
Proof. exact safe_of_bound. Qed.
Print Assumptions C14_safe_of_bound.

(* source semantics => VM model run of the assembled compiled code *)
Theorem C14_compile_correct_on_vm_model : forall p f vs n ws bs sid base,
  assemble_with ws (compile_program p) = Some bs -> 0 <= base ->
  match run_src n p f vs with
  | Ok rs => exists m0, forall m limit, (m0 <= m)%nat ->
      safe (compile_program p) m (Target.init_state (entry p f) vs) = true -> gas_enough m base limit ->
      exists s', Model.run m (vm_entry bs sid base limit (off ws (compile_program p) (entry p f)) (map item_of vs))
                 = Halted s' /\ final_stack s' = map item_of rs
  | Fault => exists m0, forall m limit, (m0 <= m)%nat ->
      safe (compile_program p) m (Target.init_state (entry p f) vs) = true -> gas_enough m base limit ->
      exists g, Model.run m (vm_entry bs sid base limit (off ws (compile_program p) (entry p f)) (map item_of vs))
                = Faulted g
  | _ => True
  end.
Proof. exact compile_correct_on_vm_model. Qed.
Print Assumptions C14_compile_correct_on_vm_model.

(* ... and no VM model run within the conditions ends any other way, whatever its number of steps *)
Theorem C14_compile_correct_on_vm_model_any_fuel : forall p f vs n m ws bs sid base limit,
  assemble_with ws (compile_program p) = Some bs -> 0 <= base ->
  safe (compile_program p) m (Target.init_state (entry p f) vs) = true -> gas_enough m base limit ->
  match run_src n p f vs,
        Model.run m (vm_entry bs sid base limit (off ws (compile_program p) (entry p f)) (map item_of vs)) with
  | Ok rs, Halted s' => final_stack s' = map item_of rs
  | Ok _, Faulted _ => False
  | Fault, Halted _ => False
  | _, _ => True
  end.
Proof. exact compile_correct_on_vm_model_any_fuel. Qed.
Print Assumptions C14_compile_correct_on_vm_model_any_fuel.

(* non-vacuity: a program with a three-clause loop, continue, break, short-circuit operators, an op-assignment,
   a call and recursion, a function with three results bound by a multiple assignment with a blank target;
   one run returns a value, one divides by zero *)
Definition C14_ex_main : func := {| f_params := [0%N; 1%N]; f_nres := 1; f_body :=
  SSeq (SDecl 2%N (ELit 0))
  (SSeq (SFor (SDecl 3%N (ELit 0)) (EBin Lt (EVar 3%N) (EVar 0%N)) (SInc 3%N)
          (SSeq (SIf (EBin Eq (EVar 3%N) (ELit 2)) SContinue)
          (SSeq (SIf (EAnd (EBin Gt (EVar 3%N) (ELit 7))
                           (EParen (EOr (EBin Gt (EVar 1%N) (ELit 3)) (EBin Eq (EVar 0%N) (ELit 2))))) SBreak)
                (SOpAssign 2%N Add (EBin Mul (EVar 3%N) (EParen (EBin Sub (EVar 0%N) (EVar 1%N))))))))
        (SSeq (SCallAssign true [Some 4%N; None; Some 5%N] 2 [EVar 2%N; EVar 0%N])
        (SReturn [EBin Add (EBin Add (EVar 2%N) (EBin Div (ECall 1 [ELit 3]) (EVar 1%N))) (EBin Sub (EVar 4%N) (EVar 5%N))]))) |}.
Definition C14_ex_fact : func := {| f_params := [0%N]; f_nres := 1; f_body :=
  SSeq (SIf (EBin Le (EVar 0%N) (ELit 1)) (SReturn [ELit 1]))
       (SReturn [EBin Mul (EVar 0%N) (ECall 1 [EBin Sub (EVar 0%N) (ELit 1)])]) |}.
(* three results: x+y, a flag, x-y *)
Definition C14_ex_three : func := {| f_params := [0%N; 1%N]; f_nres := 3; f_body :=
  SReturn [EBin Add (EVar 0%N) (EVar 1%N); EBin Lt (EVar 0%N) (EVar 1%N); EBin Sub (EVar 0%N) (EVar 1%N)] |}.
(* a switch inside a loop: continue drops the tag, break leaves the switch only, return passes through it *)
Definition C14_ex_switch : func := {| f_params := [0%N]; f_nres := 1; f_body :=
  SSeq (SDecl 1%N (ELit 0))
  (SSeq (SFor (SDecl 2%N (ELit 0)) (EBin Lt (EVar 2%N) (ELit 6)) (SInc 2%N)
          (SSeq (SSwitch (Some (EVar 2%N))
                   (CCase true [ELit 1; ELit 4] SContinue
                   (CCase true [EVar 0%N] (SReturn [EBin Add (EVar 1%N) (ELit 1000)])
                   (CCase true [ELit 3] (SSeq (SIf (EBin Gt (EVar 1%N) (ELit 0)) SBreak) (SOpAssign 1%N Add (ELit 50)))
                   (CDefault (SOpAssign 1%N Add (EVar 2%N)))))))
                (SOpAssign 1%N Add (ELit 100))))
        (SReturn [EVar 1%N])) |}.
Definition C14_ex : program := [C14_ex_main; C14_ex_fact; C14_ex_three; C14_ex_switch].

Example C14_example_value :
  run_src 200 C14_ex 0 [VInt 12; VInt 5] = Ok [VInt 207] /\
  run_tgt (compile_program C14_ex) 2000 (entry C14_ex 0) [VInt 12; VInt 5] = THalt [VInt 207].
Proof. split; vm_compute; reflexivity. Qed.

Example C14_example_fault :
  run_src 200 C14_ex 0 [VInt 12; VInt 0] = Fault /\
  run_tgt (compile_program C14_ex) 2000 (entry C14_ex 0) [VInt 12; VInt 0] = TFault.
Proof. split; vm_compute; reflexivity. Qed.

Example C14_example_switch :
  run_src 200 C14_ex 3 [VInt 9] = Ok [VInt 407] /\
  run_tgt (compile_program C14_ex) 2000 (entry C14_ex 3) [VInt 9] = THalt [VInt 407] /\
  run_src 200 C14_ex 3 [VInt 5] = Ok [VInt 1302] /\
  run_tgt (compile_program C14_ex) 2000 (entry C14_ex 3) [VInt 5] = THalt [VInt 1302].
Proof. repeat split; vm_compute; reflexivity. Qed.

(* ---------- the shared frame: all init() bodies in _initialize, all _deploy bodies in _deploy ----------
   Several bodies, each compiled with slot numbers of its own starting at 0, behind ONE prologue "INITSLOT count args".
   [exec_bodies]: the bodies run one after the other, each in the scope of the parameters alone ([params] = [] for
   _initialize).  For every count that covers every body, the compiled frame (entered at offset 0 with the arguments
   on the stack) halts when all bodies complete and faults when one divides by zero: no local slot index is out of
   range in a defined run. *)
Theorem C14_init_frame_correct : forall p count params bs vs n,
  covers count bs -> length params = length vs ->
  match exec_bodies n p (combine params vs) bs with
  | Ok _ => exists m, run_tgt (compile_with_frame count params bs p) m 0%nat vs = THalt []
  | Fault => exists m, run_tgt (compile_with_frame count params bs p) m 0%nat vs = TFault
  | _ => True
  end.
Proof. exact frame_correct. Qed.
Print Assumptions C14_init_frame_correct.

Theorem C14_init_frame_correct_any_fuel : forall p count params bs vs n m t,
  covers count bs -> length params = length vs ->
  run_tgt (compile_with_frame count params bs p) m 0%nat vs = t -> t <> TTimeout ->
  match exec_bodies n p (combine params vs) bs with
  | Ok _ => t = THalt []
  | Fault => t = TFault
  | _ => True
  end.
Proof. exact frame_correct_any_fuel. Qed.
Print Assumptions C14_init_frame_correct_any_fuel.

(* the simulation behind it, in any context: the frame ends at its RET with [count] local slots, the parameters hold
   what the bodies left in them, the stack below the arguments and the caller frames are untouched *)
Theorem C14_init_frame_simulation : forall p C fe fr,
  (forall f fn, nth_error p f = Some fn -> code_at C (fe f) (compile_func fe fr (fe f) fn)) ->
  (forall f fn, nth_error p f = Some fn -> fr f = f_nres fn) ->
  forall count params bs base vs s K n,
  code_at C base (compile_frame fe fr count params base bs) ->
  covers count bs -> length params = length vs ->
  match exec_bodies n p (combine params vs) bs with
  | Ok r' => exists qr L A, nth_error C qr = Some IRet /\ length L = count /\ menv r' (params_env 0 params) L A /\
               star C (St base [] [] (vs ++ s) K) (St qr L A s K)
  | Fault => goes_wrong C (St base [] [] (vs ++ s) K)
  | _ => True
  end.
Proof. exact frame_sim. Qed.
Print Assumptions C14_init_frame_simulation.

(* the compiler's rule — the maximum over the bodies — covers every body and is the least count that does;
   the sum covers them too (wasteful, not wrong) *)
Theorem C14_frame_locals_is_least_cover : forall bs,
  covers (frame_locals bs) bs /\ covers (sum_locals bs) bs /\ forall k, covers k bs -> (frame_locals bs <= k)%nat.
Proof. intros bs. split; [apply frame_locals_covers|split; [apply sum_locals_covers|apply frame_locals_least]]. Qed.
Print Assumptions C14_frame_locals_is_least_cover.

Theorem C14_init_frame_correct_max : forall p params bs vs n,
  length params = length vs ->
  match exec_bodies n p (combine params vs) bs with
  | Ok _ => exists m, run_tgt (compile_with_frame (frame_locals bs) params bs p) m 0%nat vs = THalt []
  | Fault => exists m, run_tgt (compile_with_frame (frame_locals bs) params bs p) m 0%nat vs = TFault
  | _ => True
  end.
Proof. exact frame_correct_max. Qed.
Print Assumptions C14_init_frame_correct_max.

(* refuted: "the local count of the LAST body" (and "of the FIRST body") in the place of the maximum —
   func init() { a := 1; b := 2 }  func init() { c := 3 }  completes in the source and faults when compiled that way *)
Theorem C14_init_frame_last_refuted :
  ~ (forall p bs n, match exec_bodies n p [] bs with
                    | Ok _ => exists m, run_tgt (compile_with_frame (last_locals bs) [] bs p) m 0%nat [] = THalt []
                    | _ => True
                    end).
Proof. exact frame_last_refuted. Qed.
Print Assumptions C14_init_frame_last_refuted.

Theorem C14_init_frame_first_refuted :
  ~ (forall p bs n, match exec_bodies n p [] bs with
                    | Ok _ => exists m, run_tgt (compile_with_frame (first_locals bs) [] bs p) m 0%nat [] = THalt []
                    | _ => True
                    end).
Proof. exact frame_first_refuted. Qed.
Print Assumptions C14_init_frame_first_refuted.

(* three init() bodies with 2, 3 and 1 declarations (a nested block and a loop header among them), the middle one calls
   a function with four locals of its own: one INITSLOT 3 0 for the three of them, the function has its own INITSLOT 4 1 *)
Definition C14_ex_init_callee : func := {| f_params := [0%N]; f_nres := 1; f_body :=
  SSeq (SDecl 1%N (EBin Add (EVar 0%N) (ELit 1))) (SSeq (SDecl 2%N (EBin Mul (EVar 1%N) (ELit 2)))
  (SSeq (SDecl 3%N (EBin Add (EVar 2%N) (EVar 1%N))) (SSeq (SDecl 4%N (EBin Sub (EVar 3%N) (ELit 1))) (SReturn [EVar 4%N])))) |}.
Definition C14_ex_init_bodies : list stmt :=
  [ SSeq (SDecl 0%N (ELit 1)) (SBlock (SDecl 1%N (EBin Add (EVar 0%N) (ELit 1))));
    SSeq (SDecl 0%N (ECall 0 [ELit 5])) (SFor (SDecl 1%N (ELit 0)) (EBin Lt (EVar 1%N) (ELit 3)) (SInc 1%N) (SDecl 2%N (EVar 1%N)));
    SDecl 0%N (ELit 7) ].
Example C14_example_init_frame :
  frame_locals C14_ex_init_bodies = 3%nat /\ last_locals C14_ex_init_bodies = 1%nat /\ sum_locals C14_ex_init_bodies = 6%nat /\
  exec_bodies 100 [C14_ex_init_callee] [] C14_ex_init_bodies = Ok [] /\
  hd_error (compile_with_frame 3 [] C14_ex_init_bodies [C14_ex_init_callee]) = Some (IInitSlot 3 0) /\
  In (IInitSlot 4 1) (compile_with_frame 3 [] C14_ex_init_bodies [C14_ex_init_callee]) /\
  run_tgt (compile_with_frame 3 [] C14_ex_init_bodies [C14_ex_init_callee]) 500 0%nat [] = THalt [] /\
  run_tgt (compile_with_frame 6 [] C14_ex_init_bodies [C14_ex_init_callee]) 500 0%nat [] = THalt [] /\
  run_tgt (compile_with_frame 1 [] C14_ex_init_bodies [C14_ex_init_callee]) 500 0%nat [] = TFault.
Proof. repeat split; vm_compute; tauto. Qed.

(* ---------- the slot of the saved panic value (MiniGo has no panics: a state machine of its own, Lang/RecoverSlot.v) ----------
   recover() reads AND clears the slot, in every syntactic position (bare statement, blank assignment, variable,
   condition): the operations the compiler emits reproduce, on every trace of caught panics and recover() calls of one
   invocation, what the recover() calls whose value is looked at return in Go. *)
Theorem C14_recover_trace_correct : forall tr s, tgt emit tr s = src tr s.
Proof. exact recover_trace_correct. Qed.
Print Assumptions C14_recover_trace_correct.

Theorem C14_recover_clears : forall pos s, fst (run_ops (emit pos) s []) = None.
Proof. exact recover_clears. Qed.
Print Assumptions C14_recover_clears.

(* ... so the next recover() without a new panic yields nil *)
Theorem C14_recover_then_nil : forall pos1 pos2 v rest,
  observed pos2 = true ->
  tgt emit (EPanic v :: ERecover pos1 :: ERecover pos2 :: rest) None
  = (if observed pos1 then [Some v] else []) ++ None :: tgt emit rest None.
Proof. exact recover_then_nil. Qed.
Print Assumptions C14_recover_then_nil.

(* refuted: no code for the bare statement `recover()` — panic 7; recover(); r := recover() yields 7, Go yields nil *)
Theorem C14_recover_elided_refuted : ~ (forall tr s, tgt emit_elided tr s = src tr s).
Proof. exact recover_elided_refuted. Qed.
Print Assumptions C14_recover_elided_refuted.

(* block scoping: the first clause declares the parameter's name again (its own slot, gone at the end of the clause);
   the second clause, the default clause (a write), the statement after the switch and the later iterations mean
   the parameter.  x = 5: 0+5, +5+5, x=6 +6, +30+6 = 57 *)
Definition C14_ex_shadow : func := {| f_params := [0%N]; f_nres := 1; f_body :=
  SSeq (SDecl 1%N (ELit 0))
  (SSeq (SFor (SDecl 2%N (ELit 0)) (EBin Lt (EVar 2%N) (ELit 4)) (SInc 2%N)
          (SSeq (SSwitch (Some (EBin Mod (EVar 2%N) (ELit 3)))
                   (CCase true [ELit 0] (SSeq (SDecl 0%N (EBin Mul (EVar 2%N) (ELit 10))) (SOpAssign 1%N Add (EVar 0%N)))
                   (CCase true [ELit 1] (SOpAssign 1%N Add (EVar 0%N))
                   (CDefault (SAssign 0%N (EBin Add (EVar 0%N) (ELit 1)))))))
                (SOpAssign 1%N Add (EVar 0%N))))
        (SReturn [EVar 1%N])) |}.

Example C14_example_shadow_in_clause :
  run_src 200 [C14_ex_shadow] 0 [VInt 5] = Ok [VInt 57] /\
  run_tgt (compile_program [C14_ex_shadow]) 2000 (entry [C14_ex_shadow] 0) [VInt 5] = THalt [VInt 57] /\
  (* the inner declaration has its own slot: the clause stores to local 2, the other clauses read argument 0 *)
  In (IStLoc 2) (compile_program [C14_ex_shadow]) /\ In (IStArg 0) (compile_program [C14_ex_shadow]).
Proof. repeat split; vm_compute; tauto. Qed.

(* an integer leaving 64 bits is undefined in the source semantics: the theorems say nothing about such runs *)
Example C14_example_overflow_undefined :
  run_src 50 [{| f_params := [0%N]; f_nres := 1; f_body := SReturn [EBin Mul (EVar 0%N) (EVar 0%N)] |}] 0 [VInt (2 ^ 32)] = Undef.
Proof. vm_compute; reflexivity. Qed.

(* the same example on the VM model: the compiled program assembles (with the emitter's choice of jump widths, 178 bytes), the run stays within the limits, and the VM model halts with the source's value / faults;
   gas limit 10^9 picoGAS-units at base 30 is enough for 2000 instructions *)
Example C14_example_vm :
  (exists bs, assemble (compile_program C14_ex) = Some bs /\ length bs = 178%nat) /\
  safe (compile_program C14_ex) 2000 (Target.init_state (entry C14_ex 0) [VInt 12; VInt 5]) = true /\
  (forall bs, assemble (compile_program C14_ex) = Some bs ->
     option_map final_stack
       (match Model.run 2000 (vm_entry bs 1%N 30 1000000000
                 (off (shorten (compile_program C14_ex)) (compile_program C14_ex) (entry C14_ex 0))
                 (map item_of [VInt 12; VInt 5])) with Halted s => Some s | _ => None end)
     = Some [IInt 207]).
Proof.
  split; [eexists; split; vm_compute; reflexivity|]. split; [vm_compute; reflexivity|].
  intros bs H. vm_compute in H. inv H. vm_compute. reflexivity.
Qed.
