(* C06 - only valid chain extensions are accepted; a rejected block changes nothing.
   Statements only; every proof is [exact lemma].  Model: Node/Accept.v ([add_block] = decision procedure
   of AddBlock / addHeaders / verifyHeader / storeBlock with the real order of effects).  Oracles of the
   model (carried by the block description, not axioms): verification of the consensus witness, admission
   of the transactions by the per-block scratch pool, execution of the block.
   [afix_none] = the code at the pinned commit, [afix_all] = with fixes/F35, F36 applied. *)
From NG Require Import Common.Tactics Node.Accept Node.AcceptProofs Node.AcceptPool Node.AcceptPoolProofs Admission.Conflicts Node.AcceptConflicts Node.AcceptPolicy Node.AcceptRace.
Open Scope N_scope.

(* accepted <=> the conjunction the property lists (next index; state-root setting; linked to the tip with a
   strictly later timestamp, verifying consensus witness and - with state roots in headers - the local
   previous root, or: it is the block of the header already recorded for that height; Merkle root of its
   transactions; admissible transactions; executes; agrees with the recorded next header) *)
Theorem C06_accept_iff_valid : forall fx cfg st b,
  older_ok st b -> (fst (add_block fx cfg st b) = VAccept <-> valid fx cfg st b).
Proof. exact accept_iff_valid. Qed.
Print Assumptions C06_accept_iff_valid.

(* on rejection height, tip, state root and mempool are unchanged; the header chain is unchanged unless the
   header alone was valid - then exactly that header was appended *)
Theorem C06_reject_frame : forall fx cfg st b,
  older_ok st b -> fst (add_block fx cfg st b) <> VAccept ->
  let st' := snd (add_block fx cfg st b) in
  s_n st' = s_n st /\ s_tip_hash st' = s_tip_hash st /\ s_tip_ts st' = s_tip_ts st /\
  s_root st' = s_root st /\ s_pool st' = s_pool st /\
  (s_known st' = s_known st \/
   (s_known st = [] /\ b_index b = s_n st + 1 /\ header_valid cfg st b /\
    s_known st' = [(b_hash b, b_prevroot b)])).
Proof. exact reject_frame. Qed.
Print Assumptions C06_reject_frame.

(* the valid block is accepted afterwards (unless the refused block left its own valid header behind and
   that is the header of ANOTHER block: two validly signed headers for one height) *)
Theorem C06_retry_accepts : forall fx cfg st b v,
  older_ok st b -> older_ok st v ->
  fst (add_block fx cfg st b) <> VAccept -> fst (add_block fx cfg st v) = VAccept ->
  let st' := snd (add_block fx cfg st b) in
  (s_known st' = s_known st \/ b_hash b = b_hash v) ->
  (fx_known_witness fx = true -> b_sig_ok v = true) ->
  fst (add_block fx cfg st' v) = VAccept.
Proof. exact retry_accepts. Qed.
Print Assumptions C06_retry_accepts.

(* an accepted block carries a verifying consensus witness and no mutually exclusive transactions:
   full statement, proved for the repaired code ... *)
Definition C06_accept_sound_statement : Prop := accept_sound_statement afix_all.
Theorem C06_accept_sound : accept_sound_statement afix_all.
Proof. exact accept_sound_all. Qed.
Print Assumptions C06_accept_sound.

(* ... and false for the code as it stands (witness: header recorded earlier, block with a witness that does
   not verify is accepted - F36; the companion witness for in-block Conflicts - F35 - is in the Example) *)
Theorem C06_accept_sound_refuted : ~ accept_sound_statement afix_none.
Proof. exact accept_sound_none_refuted. Qed.
Print Assumptions C06_accept_sound_refuted.

Example C06_witnesses :
  fst (add_block afix_none w_cfg w_st w_conflict) = VAccept /\ b_conflict_free w_conflict = false /\
  fst (add_block afix_all w_cfg w_st w_conflict) = VConflict /\
  fst (add_block afix_all w_cfg w_st_known w_unsigned) = VWitness.
Proof. exact accept_conflict_none_refuted. Qed.

(* non-vacuity *)
Example C06_examples :
  add_block afix_all w_cfg w_st w_valid = (VAccept, mkState 2 12 101 0 [] [6]) /\
  add_block afix_all w_cfg w_st w_badbody = (VMerkle, mkState 1 11 100 0 [(12, 0)] [5; 6]) /\
  fst (add_block afix_all w_cfg (snd (add_block afix_all w_cfg w_st w_badbody)) w_valid) = VAccept.
Proof. exact accept_examples. Qed.

(* ---- acceptance and the node's own mempool over several blocks (Node/AcceptPool.v) ----
   AddBlock takes a block transaction it finds in the node's mempool as verified.  With the refresh of
   storeBlock evaluated AFTER the height moved to the stored block, and keeping only what a fresh
   verification at that height lets_in, every pooled transaction is valid at every later moment ... *)
Theorem C06_pool_sound : forall (tx_valid relevant : N -> N -> bool) (verify : bool),
  (forall h t, relevant h t = true -> tx_valid h t = true) ->
  forall ops n0, PoolOK tx_valid (prun tx_valid relevant verify true (n0, []) ops).
Proof. exact pool_sound. Qed.
Print Assumptions C06_pool_sound.

(* ... so every transaction of an accepted block is valid at the time of the offer, pooled or not *)
Theorem C06_pooled_valid_at_offer : forall (tx_valid relevant : N -> N -> bool) (verify : bool),
  (forall h t, relevant h t = true -> tx_valid h t = true) ->
  forall ops n0 txs, verify = true ->
    let st := prun tx_valid relevant verify true (n0, []) ops in
    block_ok tx_valid verify (fst st) (snd st) txs = true ->
    forall t, In t txs -> tx_valid (fst st) t = true.
Proof. exact pooled_valid_at_offer. Qed.
Print Assumptions C06_pooled_valid_at_offer.

(* refuted when the refresh is evaluated against the OLD height (a transaction with ValidUntilBlock = 2
   pooled at height 1 survives block 2 and is accepted in block 3 although it is expired) ... *)
Theorem C06_refresh_old_height_refuted :
  prun wp_valid wp_valid true false (1, []) wp_ops = (3, []) /\ wp_valid 2 7 = false /\
  prun wp_valid wp_valid true true (1, []) wp_ops = (2, []).
Proof. exact refresh_old_height_refuted. Qed.
Print Assumptions C06_refresh_old_height_refuted.

(* ... and when the refresh re-checks less than a fresh verification does (F46: the Policy block list) *)
Theorem C06_refresh_unsound_refuted :
  prun wp_valid wp_relevant_weak true true (1, []) wp_ops = (3, []) /\ wp_valid 2 7 = false.
Proof. exact refresh_unsound_refuted. Qed.
Print Assumptions C06_refresh_unsound_refuted.

(* ---- the pool after a committee change of a POLICY value (Node/AcceptPolicy.v) ----
   Policy (FeePerByte, ExecFeeFactor, attribute fees, MaxValidUntilBlockIncrement) is a function of the height; a
   fresh verification at height h ([pvalid]) wants height < ValidUntilBlock <= height + increment and a network fee
   that pays size * FeePerByte + attribute fees + the witnesses at ExecFeeFactor.  With a refresh that repeats this
   check, for EVERY Policy trajectory and every history of poolings and offered blocks, every pooled transaction is
   valid at the current height and every transaction of an accepted block is valid at the time of the offer. *)
Theorem C06_policy_pool_sound : forall (pol : N -> policy) (txs : N -> ptx) (verify : bool) ops n0,
  PoolOK (pvalid pol txs) (prun (pvalid pol txs) (relevant_full pol txs) verify true (n0, []) ops).
Proof. exact policy_pool_sound. Qed.
Print Assumptions C06_policy_pool_sound.

Theorem C06_policy_pooled_valid_at_offer : forall (pol : N -> policy) (txs : N -> ptx) ops n0 bt,
  let st := prun (pvalid pol txs) (relevant_full pol txs) true true (n0, []) ops in
  block_ok (pvalid pol txs) true (fst st) (snd st) bt = true -> forall t, In t bt -> pvalid pol txs (fst st) t = true.
Proof. exact policy_pooled_valid_at_offer. Qed.
Print Assumptions C06_policy_pooled_valid_at_offer.

(* refuted for the refresh of the code as it stands (F57: expiry, and the transaction's fee per byte against
   FeePerByte only when that exceeds every value the pool has seen): T pooled at height 1, the block at height 2
   changes Policy, the block carrying T is accepted although T is invalid - FeePerByte x3, ExecFeeFactor x3, the
   attribute fee raised, MaxValidUntilBlockIncrement lowered, FeePerByte lowered and raised again; the same histories
   with the full refresh refuse the block *)
Theorem C06_policy_refresh_cached_refuted :
  stale_accepted pol_fpb3 t_min /\ stale_accepted pol_exec3 t_min /\ stale_accepted pol_attr t_attr /\
  stale_accepted pol_vub t_far /\ stale_accepted pol_downup t_big.
Proof. exact policy_refresh_cached_refuted. Qed.
Print Assumptions C06_policy_refresh_cached_refuted.

(* ---- admission RACING block application (Node/AcceptRace.v) ----
   The admission of a transaction is two steps, verification against the tip and insertion into the pool.  For every
   history in which no block is applied between a verification and its insertion ([atomic]: what bc.lock.RLock in
   PoolTx enforces against storeBlock's bc.lock.Lock) every pooled transaction is valid at the current height. *)
Theorem C06_admission_atomic_pool_sound : forall (tx_valid relevant : N -> N -> bool) (verify : bool),
  (forall h t, relevant h t = true -> tx_valid h t = true) ->
  forall ops n0, atomic ops = true ->
    let st := rrun tx_valid relevant verify (n0, [], None) ops in
    forall t, In t (snd (fst st)) -> tx_valid (fst (fst st)) t = true.
Proof. exact admission_atomic_pool_sound. Qed.
Print Assumptions C06_admission_atomic_pool_sound.

(* refuted with a block in between: T (ValidUntilBlock = 2) verified at height 1, block 2 applied and the pool
   refreshed, T inserted, block 3 carrying T accepted; the atomic order refuses it *)
Theorem C06_admission_atomic_pool_sound_refuted :
  rrun wp_valid wp_valid true (1, [], None) [RVerify 7; ROffer []; RInsert; ROffer [7]] = (3, [], None) /\
  wp_valid 2 7 = false /\
  rrun wp_valid wp_valid true (1, [], None) [RVerify 7; RInsert; ROffer []; ROffer [7]] = (2, [], None).
Proof. exact admission_race_refuted. Qed.
Print Assumptions C06_admission_atomic_pool_sound_refuted.

(* ---- on-chain Conflicts backed by ANY signer (Node/AcceptConflicts.v over the record-table model of
   Admission/Conflicts.v) ----
   For every sequence of offered blocks: a block the node accepts contains no transaction t such that a transaction
   accepted earlier, inside the MaxTraceableBlocks window, names t's hash in a Conflicts attribute and shares a
   signer with t - in whatever position of t's signer list.  The node asks its record table (dao.HasTransaction)
   with ALL signers of t; that the table answers exactly this question is C07's conflict_records_exact. *)
Definition C06_accept_no_signer_conflict_statement : Prop := accept_no_signer_conflict_statement true.
Theorem C06_accept_no_signer_conflict : accept_no_signer_conflict_statement true.
Proof. exact accept_no_signer_conflict_all. Qed.
Print Assumptions C06_accept_no_signer_conflict.

(* spelled out for one block over a chain whose events are sorted by height and not above the current height *)
Theorem C06_accepted_no_signer_conflict :
  forall (mtb : N) (es : list cevent) (cur : N) (txs : list ctx),
    sorted es -> below es cur -> block_accepted true mtb es cur txs = true ->
    forall t e s, In t txs -> In e es -> traceable (e_idx e) cur mtb = true ->
                  In (ct_hash t) (e_names e) -> In s (ct_signers t) -> ~ In s (e_signers e).
Proof. exact accepted_no_signer_conflict'. Qed.
Print Assumptions C06_accepted_no_signer_conflict.

(* the variant that asks with the sender only accepts a block whose transaction's SECOND signer backs an
   on-chain conflict *)
Theorem C06_accept_no_signer_conflict_sender_only_refuted : ~ accept_no_signer_conflict_statement false.
Proof. exact accept_no_signer_conflict_sender_only_refuted. Qed.
Print Assumptions C06_accept_no_signer_conflict_sender_only_refuted.

Example C06_signer_conflict_example :
  fst (offer false 3 (5, w_es) [w_t]) = 6 /\ signer_conflict w_es 5 3 w_t = true /\
  fst (offer true 3 (5, w_es) [w_t]) = 5 /\
  fst (offer true 3 (8, w_es) [w_t]) = 9 /\ signer_conflict w_es 8 3 w_t = false.
Proof. exact sender_only_refuted. Qed.
