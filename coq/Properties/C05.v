(* C05 — native token supply and governance accounting are conserved.
   Statements only; every proof is [exact lemma].  Model: Tokens/Model.v (mechanism of native_nep17.go, native_gas.go,
   native_neo.go, notary.go, policy.go).  [reach cfg bs] is the state after ANY list of blocks [bs] (each any list of
   transactions: NEO/GAS transfers incl. self/zero/over-balance and to contracts, votes, candidate (un)registration
   incl. by payment, claims, notary deposits/withdrawals, Policy block/unblock, settings, faulting scripts), with fee
   burning and committee / voter rewards in every block.  Hypotheses: [cfg_wf] (the Notary contract is the only
   account of kind Notary, is distinct from the NEO contract, the validators' address and every key's address; decidable,
   [cfg_wf_of_check]) and [blocks_ok] (no transaction is signed by the Notary contract: NotaryAssisted fee payment is
   not modelled). *)
From NG Require Import Common.Tactics Tokens.Model Tokens.MapLemmas Tokens.Inv Tokens.NeoProofs Tokens.OpProofs Tokens.NotifLimit Tokens.Reentrant Tokens.C05Theorems Tokens.CfgCheck.
Open Scope Z_scope.

(* NEO total supply is exactly 100 000 000 and equals the sum of all NEO balances *)
Theorem C05_neo_supply : forall cfg, cfg_wf cfg -> forall bs, blocks_ok cfg bs ->
  l_neo_total (L (reach cfg bs)) = 100000000 /\ neo_sum (L (reach cfg bs)) = 100000000.
Proof. exact neo_supply. Qed.
Print Assumptions C05_neo_supply.

(* GAS total supply (as adjusted by every mint and burn) equals the sum of all GAS balances *)
Theorem C05_gas_supply : forall cfg, cfg_wf cfg -> forall bs, blocks_ok cfg bs ->
  gas_sum (L (reach cfg bs)) = l_gas_total (L (reach cfg bs)).
Proof. exact gas_supply. Qed.
Print Assumptions C05_gas_supply.

(* every candidate's vote count equals the NEO held by the accounts voting for it *)
Theorem C05_candidate_votes : forall cfg, cfg_wf cfg -> forall bs, blocks_ok cfg bs ->
  forall k, cvotes (cand_of (reach cfg bs) k) = votes_for k (L (reach cfg bs)).
Proof. exact candidate_votes. Qed.
Print Assumptions C05_candidate_votes.

(* the voters count equals the NEO held by all voting accounts *)
Theorem C05_voters_count : forall cfg, cfg_wf cfg -> forall bs, blocks_ok cfg bs ->
  l_voters (L (reach cfg bs)) = voting_sum (L (reach cfg bs)).
Proof. exact voters_count. Qed.
Print Assumptions C05_voters_count.

(* the GAS owned by the Notary contract equals the sum of notary deposits *)
Theorem C05_notary_backing : forall cfg, cfg_wf cfg -> forall bs, blocks_ok cfg bs ->
  gas_bal (reach cfg bs) (a_notary cfg) = dep_sum (L (reach cfg bs)).
Proof. exact notary_backing. Qed.
Print Assumptions C05_notary_backing.

(* no balance, tally or deposit is ever negative *)
Theorem C05_no_negative : forall cfg, cfg_wf cfg -> forall bs, blocks_ok cfg bs ->
  (forall a, 0 <= nbal (neo_acc (reach cfg bs) a)) /\ (forall a, 0 <= gas_bal (reach cfg bs) a)
  /\ (forall k, 0 <= cvotes (cand_of (reach cfg bs) k)) /\ (forall a, 0 <= damt (dep_of (reach cfg bs) a))
  /\ 0 <= l_voters (L (reach cfg bs)).
Proof. exact no_negative. Qed.
Print Assumptions C05_no_negative.

(* for every account and token, the change of balance over ANY further sequence of blocks equals the net amount of
   the Transfer events emitted for it by the successful executions of those blocks *)
Theorem C05_events_match_deltas : forall cfg, cfg_wf cfg -> forall bs bs' tk a,
  blocks_ok cfg bs -> blocks_ok cfg bs' ->
  let st0 := reach cfg bs in
  let st1 := fold_left (step cfg) bs' st0 in
  bal tk (L st1) a - bal tk (L st0) a = ev_net tk a (l_events (L st1)) - ev_net tk a (l_events (L st0)).
Proof. exact events_match_deltas. Qed.
Print Assumptions C05_events_match_deltas.

(* hypothesis H3 of the design, decided: in every reachable state every voted key has a candidate record, hence
   crediting the receiver of a transfer cannot fail after the sender was debited ... *)
Theorem C05_credit_cannot_fail : forall cfg, cfg_wf cfg -> forall bs a amount,
  blocks_ok cfg bs -> 0 <= amount -> neo_upd_acc_balance cfg (reach cfg bs) a amount None <> None.
Proof. exact credit_cannot_fail_reachable. Qed.
Print Assumptions C05_credit_cannot_fail.

(* ... and NEO.transfer answering false has changed nothing *)
Theorem C05_transfer_false_changes_nothing : forall cfg, cfg_wf cfg -> forall bs w from to amount st',
  blocks_ok cfg bs -> neo_transfer cfg (reach cfg bs) w from to amount = Some (st', Some false) -> st' = reach cfg bs.
Proof. exact transfer_false_changes_nothing. Qed.
Print Assumptions C05_transfer_false_changes_nothing.

Theorem C05_voted_keys_have_records : forall cfg, cfg_wf cfg -> forall bs, blocks_ok cfg bs ->
  forall a k, nvote (neo_acc (reach cfg bs) a) = Some k -> cpresent (cand_of (reach cfg bs) k) = true.
Proof. exact voted_keys_have_records. Qed.
Print Assumptions C05_voted_keys_have_records.

(* A native token movement whose POST-EFFECT fails (Tokens/NotifLimit.v).  [OLim pre o post nacct]: a helper contract emits
   pre notifications, the native method o (NEO / GAS transfer incl. deposit and registration by payment, vote) runs, the
   helper emits post more; every Transfer / Vote / CandidateStateChanged event and every notification of the receiver's
   onNEP17Payment counts, and the 513th of an execution fails (Echidna).  The theorems above hold for histories with such
   transactions (they are transactions like any other).  Whichever notification fails -- before, inside or after the
   native call -- the execution faults and NOTHING of what the native method did remains *)
Theorem C05_post_effect_failure_faults : forall cfg st t pre o post nacct st' r,
  t_op t = OLim pre o post nacct ->
  run_lop cfg st t o = Some (st', r) ->
  notif_limit < pre + lop_notifs cfg (L st) (L st') o r nacct + post ->
  0 <= post ->
  run_op cfg st t = None /\ exec_tx cfg st t = st.
Proof. exact notification_failure_faults. Qed.
Print Assumptions C05_post_effect_failure_faults.

(* all or nothing: such an execution either faults with the state as it was or is the native method's own outcome
   (answer and events included) -- never "moved without event", never "false although funds moved" *)
Theorem C05_post_effect_all_or_nothing : forall cfg st t pre o post nacct,
  t_op t = OLim pre o post nacct ->
  (run_op cfg st t = None /\ exec_tx cfg st t = st) \/ run_op cfg st t = run_lop cfg st t o.
Proof. exact no_partial_post_effect. Qed.
Print Assumptions C05_post_effect_all_or_nothing.

Theorem C05_post_effect_within_limit : forall cfg st t pre o post nacct,
  t_op t = OLim pre o post nacct -> 0 <= pre -> 0 <= post ->
  (forall st' r, run_lop cfg st t o = Some (st', r) -> pre + lop_notifs cfg (L st) (L st') o r nacct + post <= notif_limit) ->
  run_op cfg st t = run_lop cfg st t o.
Proof. exact notifications_within_limit. Qed.
Print Assumptions C05_post_effect_within_limit.

(* "report false and continue" refuted: if the transfer whose own event is the 513th notification dropped the event, kept
   the balances and answered false, account 1 would be 5 GAS richer with no event (events_match_deltas broken) *)
Theorem C05_swallowed_post_effect_refuted :
  match run_lim_swallow nl_cfg nl_st 512 (LGasT 0 1 5 DNone) 7 (run_lop nl_cfg nl_st (nl_tx 512 (LGasT 0 1 5 DNone) 0) (LGasT 0 1 5 DNone)) with
  | Some (st', answer) =>
      answer = Some false
      /\ bal GAS (L st') 1 - bal GAS (L nl_st) 1 = 5
      /\ ev_net GAS 1 (l_events (L st')) - ev_net GAS 1 (l_events (L nl_st)) = 0
      /\ P_ev GAS 1 (L st') <> P_ev GAS 1 (L nl_st)
  | None => False
  end.
Proof. exact swallowed_post_effect_refuted. Qed.
Print Assumptions C05_swallowed_post_effect_refuted.

(* non-vacuity of the three theorems above on a reachable state: transfers as the 511th / 512th / 513th notification,
   a NEO transfer whose GAS claim is the one that does not fit, the helper's notification after a transfer that fitted,
   the receiver's callback exceeding the limit itself *)
Example C05_post_effect_examples :
  cfg_wf nl_cfg /\ blocks_ok nl_cfg nl_blocks
  /\ exec_tx nl_cfg nl_st (nl_tx 512 (LGasT 0 1 5 DNone) 0) = nl_st
  /\ run_op nl_cfg nl_st (nl_tx 511 (LGasT 0 1 5 DNone) 0) = run_lop nl_cfg nl_st (nl_tx 511 (LGasT 0 1 5 DNone) 0) (LGasT 0 1 5 DNone)
  /\ gas_bal (exec_tx nl_cfg nl_st (nl_tx 511 (LGasT 0 1 5 DNone) 0)) 1 = gas_bal nl_st 1 + 5
  /\ exec_tx nl_cfg nl_st (nl_tx 511 (LGasT 0 1 5 DNone) 1) = nl_st
  /\ length (new_events (L nl_st) (L (exec_tx nl_cfg nl_st (nl_tx 0 (LNeoT 0 1 10) 0)))) = 2%nat
  /\ exec_tx nl_cfg nl_st (nl_tx 511 (LNeoT 0 1 10) 0) = nl_st
  /\ nbal (neo_acc (exec_tx nl_cfg nl_st (nl_tx 510 (LNeoT 0 1 10) 0)) 1) = 10
  /\ exec_tx nl_cfg nl_st (nl_tx 0 (LGasT 0 7 600 DNone) 0) = nl_st
  /\ gas_bal (exec_tx nl_cfg nl_st (nl_tx 0 (LGasT 0 7 1511 DNone) 0)) 7 = 1511
  /\ exec_tx nl_cfg nl_st (nl_tx 1 (LGasT 0 7 1511 DNone) 0) = nl_st.
Proof. exact post_effect_examples. Qed.

(* Payment callbacks that RE-ENTER the native contract in progress (Tokens/Reentrant.v).  PARTIAL: proved on an abstract
   ledger of the Notary contract alone (its GAS, the deposits), with the receiver's callback of Notary.withdraw an ARBITRARY
   function keeping the backing potential / an arbitrary sub-history of deposits (for the withdrawing account too) and
   withdrawals nested to any depth.  Missing: the same for every clause in the full model of Tokens/Model.v, whose receivers
   are of fixed kinds that do not re-enter (the theorems above); re-entering receivers are covered on the real chain only
   (harness/c05reent.go).  The full statement, in the abstract ledger's terms: *)
Definition C05_reentrant_callbacks_statement : Prop :=
  forall (cb : nst -> nst) a s, (forall x, backing (cb x) = backing x) -> backing s = 0 -> backing (n_withdraw cb a s) = 0.

Theorem C05_reentrant_withdraw_backing_partial : C05_reentrant_callbacks_statement.
Proof. exact reentrant_statement_holds. Qed.
Print Assumptions C05_reentrant_withdraw_backing_partial.

Theorem C05_reentrant_history_backing_partial : forall (l : list cbop) a s,
  backing (n_withdraw (run_cb l) a s) = backing s.
Proof. exact reentrant_history_backing. Qed.
Print Assumptions C05_reentrant_history_backing_partial.

(* "clean up again after the transfer" refuted: a second removal of the withdrawing account's record in the completion
   deletes the record the callback created (a roll-over) while its GAS stays on the Notary account *)
Theorem C05_cleanup_after_transfer_refuted :
  let s := (12, [5; 7; 0]) in
  backing s = 0
  /\ backing (n_withdraw (run_cb [CDeposit 1 7]) 1 s) = 0
  /\ n_withdraw_again (run_cb [CDeposit 1 7]) 1 s = (12, [5; 0; 0])
  /\ backing (n_withdraw_again (run_cb [CDeposit 1 7]) 1 s) = 7.
Proof. exact cleanup_after_transfer_refuted. Qed.
Print Assumptions C05_cleanup_after_transfer_refuted.

(* non-vacuity: a concrete configuration satisfying the hypotheses and a history with a transfer, a registration,
   a vote, a notary deposit and a refused over-balance transfer; the reached state is not the trivial one *)
Definition ex_cfg : config :=
  mkCfg [1;2;3]%N [0;1;2]%N 2 [KPlain;KPlain;KPlain;KPlain;KNotary;KNeo;KGas] 4 5 6 5200000000000000 true true true true true.
Definition ex_blocks : list (list tx) :=
  [ [ mkTx 0 100000000 1000000 [] (ONeoT 0 1 5000000) true (Some true);
      mkTx 0 100000000 1000000 [] (OGasT 0 1 300000000000 DNone) true (Some true);
      mkTx 0 100000000 1000000 [] (OGasT 0 2 300000000000 DNone) true (Some true) ];
    [ mkTx 1 101000000000 1000000 [] (OReg 0 101000000000) true (Some true);
      mkTx 2 100000000 1000000 [] (OGasT 2 4 50000000 (DDeposit None 10)) true (Some true) ];
    [ mkTx 1 100000000 1000000 [] (OVote 1 (Some 0%N)) true (Some true);
      mkTx 1 100000000 1000000 [] (ONeoT 1 2 5000001) true (Some false) ] ].
Example C05_example :
  cfg_wf ex_cfg /\ blocks_ok ex_cfg ex_blocks
  /\ l_voters (L (reach ex_cfg ex_blocks)) = 5000000
  /\ cvotes (cand_of (reach ex_cfg ex_blocks) 0) = 5000000
  /\ gas_bal (reach ex_cfg ex_blocks) 4 = 50000000
  /\ l_gas_total (L (reach ex_cfg ex_blocks)) = 5199898655000000.
Proof.
  split; [apply cfg_wf_of_check; vm_compute; reflexivity|].
  split; [repeat constructor; unfold tx_ok; simpl; discriminate|].
  vm_compute. repeat split; reflexivity.
Qed.

(* non-vacuity of the NotaryAssisted fee flow: a P2PNotary node is designated, account 2 deposits 5 GAS, then the
   Notary contract (account 4) sends a transaction for payer 2 with NKeys = 1: 1.3 GAS of fees are burnt from the
   contract and charged to the deposit, the primary gets the network fee less 2 x 0.1 GAS, the notary node gets those *)
Definition ex_na_blocks : list (list tx) :=
  [ [ mkTx 0 100000000 1000000 [] (OGasT 0 2 300000000000 DNone) true (Some true) ];
    [ mkTx 0 100000000 1000000 [0;1;2]%N (ODesignate 32 [1]%N) true None;
      mkTx 2 100000000 1000000 [] (OGasT 2 4 500000000 (DDeposit None 100)) true (Some true) ];
    [ mkTxA 4 100000000 30000000 [] (OGasT 2 1 7 DNone) true (Some true) (Some (1, 2%N)) ] ].
Example C05_example_notary :
  blocks_ok ex_cfg ex_na_blocks
  /\ notary_nodes (reach ex_cfg ex_na_blocks) = [1%N]
  /\ damt (dep_of (reach ex_cfg ex_na_blocks) 2) = 370000000
  /\ gas_bal (reach ex_cfg ex_na_blocks) 4 = 370000000
  /\ gas_bal (reach ex_cfg ex_na_blocks) 2 = gas_bal (reach ex_cfg (firstn 2 ex_na_blocks)) 2 - 7 + 20000000
  /\ l_gas_total (L (reach ex_cfg ex_na_blocks))
     = l_gas_total (L (reach ex_cfg (firstn 2 ex_na_blocks))) - 130000000 + 10000000 + 20000000 + 50000000.
Proof.
  split; [repeat constructor; unfold tx_ok; simpl; discriminate|].
  vm_compute. repeat split; reflexivity.
Qed.
