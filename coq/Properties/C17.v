(* C17 — wire formats round-trip, and identity depends only on content.
   Statements only; every proof is [exact lemma]. *)
From NG Require Import Common.Tactics Codec.Bigint Codec.Wire Codec.WireProofs Codec.TxCodec Codec.TxCodecProofs Codec.ItemCodec Codec.ItemCodecProofs.
From NG Require Import Codec.MptCodec Codec.MptCodecProofs Codec.MptCodecTrie Codec.StateCodec Codec.StateCodecProofs Codec.ExecCodec Codec.ExecCodecProofs Codec.NetCodec Codec.NetCodecProofs Codec.ZeroExamples.
From NG Require Import Auth.Permission Auth.PermStore Codec.ManifestItem Codec.ManifestItemProofs.
From NG Require Import Codec.ConsensusCodec Codec.ConsensusCodecProofs.
Open Scope Z_scope.

(* One theorem per type: the conjunction of its family (decode_encode, decode_wf, decode_canonical, decode_total,
   size_eq, allocation bounds, as far as they apply); the parts are named in the comment above each theorem and are
   separate lemmas of the same names (without the C17_ prefix) in coq/Codec/*Proofs.v. *)

(* ---------- var-uint (pkg/io) ---------- *)
(* parts: varuint_decode_encode, varuint_nonminimal_accepted, varuint_decode_canonical, varuint_minimal, varuint_size_eq, varuint_decode_total *)
Theorem C17_varuint_codec :
  (forall v rest, u64_ok v -> read_varuint (write_varuint v ++ rest) = Some (v, rest)) /\
  (forall v rest,
  (0 <= v < 2 ^ 16 -> read_varuint (253 :: le_bytes 2 v ++ rest) = Some (v, rest)) /\
  (0 <= v < 2 ^ 32 -> read_varuint (254 :: le_bytes 4 v ++ rest) = Some (v, rest)) /\
  (0 <= v < 2 ^ 64 -> read_varuint (255 :: le_bytes 8 v ++ rest) = Some (v, rest))) /\
  (forall bs v rest rest',
  bytes_ok bs -> read_varuint bs = Some (v, rest) -> read_varuint (write_varuint v ++ rest') = Some (v, rest')) /\
  (forall bs v rest,
  bytes_ok bs -> read_varuint bs = Some (v, rest) -> (length (write_varuint v) + length rest <= length bs)%nat) /\
  (forall v, 0 <= v <= 4294967295 -> varuint_size v = Z.of_nat (length (write_varuint v))) /\
  (forall bs v rest,
  bytes_ok bs -> read_varuint bs = Some (v, rest) -> u64_ok v /\ bytes_ok rest /\ (length rest < length bs)%nat).
Proof. exact (conj varuint_roundtrip (conj varuint_nonminimal_accepted (conj varuint_canonical (conj varuint_minimal (conj varuint_size_eq read_varuint_some))))). Qed.
Print Assumptions C17_varuint_codec.

(* ---------- var-bytes with a maximum ---------- *)
(* parts: varbytes_decode_encode, varbytes_decode_canonical, varbytes_alloc_bounded, varbytes_rejects_over_max, varbytes_size_eq *)
Theorem C17_varbytes_codec :
  (forall max b rest,
  Z.of_nat (length b) <= max -> Z.of_nat (length b) < 2 ^ 64 -> read_varbytes max (write_varbytes b ++ rest) = Some (b, rest)) /\
  (forall max bs b rest rest',
  bytes_ok bs -> read_varbytes max bs = Some (b, rest) -> read_varbytes max (write_varbytes b ++ rest') = Some (b, rest')) /\
  (forall max bs b rest,
  bytes_ok bs -> read_varbytes max bs = Some (b, rest) -> Z.of_nat (length b) <= max) /\
  (forall max bs n r,
  read_varuint bs = Some (n, r) -> max < n -> read_varbytes max bs = None) /\
  (forall b, Z.of_nat (length b) <= 4294967295 ->
  varbytes_size b = Z.of_nat (length (write_varbytes b))).
Proof. exact (conj varbytes_roundtrip (conj varbytes_canonical (conj varbytes_alloc_bounded (conj varbytes_rejects_over_max varbytes_size_eq)))). Qed.
Print Assumptions C17_varbytes_codec.

(* ---------- fixed-width little-endian integers ---------- *)
(* parts: fixed_int_decode_encode, fixed_int_decode_unique *)
Theorem C17_fixedint_codec :
  (forall n v rest,
  0 <= v < 2 ^ (8 * Z.of_nat n) -> read_u n (write_u n v ++ rest) = Some (v, rest)) /\
  (forall n bs v rest,
  bytes_ok bs -> read_u n bs = Some (v, rest) -> 0 <= v < 2 ^ (8 * Z.of_nat n) /\ bs = le_bytes n v ++ rest /\ bytes_ok rest).
Proof. exact (conj read_u_write read_u_some). Qed.
Print Assumptions C17_fixedint_codec.

(* ---------- arrays of any element codec (ReadArray / WriteArray, GetVarSize of a slice) ---------- *)
(* parts: array_decode_encode, array_size_eq *)
Theorem C17_array_codec :
  (forall (A : Type) (wf : A -> Prop) w (d : dec A) max,
  codec_ok wf w d -> forall l rest, Forall wf l -> Z.of_nat (length l) <= max -> Z.of_nat (length l) < 2 ^ 64 ->
  read_array d max (write_array w l ++ rest) = Some (l, rest)) /\
  (forall (A : Type) (w : A -> list Z) (sz : A -> Z) l,
  Z.of_nat (length l) <= 4294967295 -> Forall (fun x => sz x = Z.of_nat (length (w x))) l ->
  array_size sz l = Z.of_nat (length (write_array w l))).
Proof. exact (conj (@array_roundtrip) (@array_size_eq)). Qed.
Print Assumptions C17_array_codec.

(* ---------- transaction.Witness ---------- *)
(* parts: witness_decode_encode, witness_decode_canonical, witness_size_eq *)
Theorem C17_witness_codec :
  (codec_ok witness_wf write_witness read_witness) /\
  (forall bs w rest rest', bytes_ok bs -> read_witness bs = Some (w, rest) ->
  read_witness (write_witness w ++ rest') = Some (w, rest')) /\
  (forall w, witness_wf w -> witness_size w = Z.of_nat (length (write_witness w))).
Proof. exact (conj witness_decode_encode (conj witness_canonical witness_size_eq)). Qed.
Print Assumptions C17_witness_codec.

(* ---------- transaction.Attribute ---------- *)
(* parts: attr_decode_encode, attr_decode_canonical *)
Theorem C17_attr_codec :
  (codec_ok attr_wf write_attr read_attr) /\
  (forall bs a rest rest', bytes_ok bs -> read_attr bs = Some (a, rest) ->
  read_attr (write_attr a ++ rest') = Some (a, rest')).
Proof. exact (conj attr_decode_encode attr_canonical). Qed.
Print Assumptions C17_attr_codec.

(* ---------- witness conditions (recursive, nesting limit = the decoder own depth argument) ---------- *)
(* parts: cond_decode_encode, cond_decode_wf, cond_decode_canonical, cond_depth_limit, cond_decode_total *)
Theorem C17_cond_codec :
  (forall d, codec_ok (cond_wf d) write_cond (read_cond d)) /\
  (forall d, dec_wf (cond_wf d) (read_cond d)) /\
  (forall d bs c rest rest', bytes_ok bs -> read_cond d bs = Some (c, rest) ->
  read_cond d (write_cond c ++ rest') = Some (c, rest')) /\
  (forall d bs c rest, read_cond d bs = Some (c, rest) -> (cond_depth c <= d)%nat) /\
  (forall d, dec_consumes (read_cond d)).
Proof. exact (conj cond_decode_encode (conj cond_decode_wf (conj cond_canonical (conj cond_depth_bound cond_consumes)))). Qed.
Print Assumptions C17_cond_codec.

(* ---------- transaction.Signer ---------- *)
(* parts: signer_decode_encode, signer_decode_wf, signer_decode_canonical *)
Theorem C17_signer_codec :
  (codec_ok signer_wf write_signer read_signer) /\
  (dec_wf signer_wf read_signer) /\
  (forall bs v rest rest', bytes_ok bs -> read_signer bs = Some (v, rest) ->
  read_signer (write_signer v ++ rest') = Some (v, rest')).
Proof. exact (conj signer_decode_encode (conj signer_decode_wf signer_canonical)). Qed.
Print Assumptions C17_signer_codec.

(* ---------- transaction (both decode paths; identity = function of the decoded value, F9 witness) ---------- *)
(* parts: tx_decode_encode, tx_stream_decode_encode, tx_decode_canonical, tx_size_le_received, tx_identity_not_bytes, tx_decode_total *)
Theorem C17_tx_codec :
  (forall t, tx_wf t -> tx_from_bytes (write_tx t) = Some t) /\
  (codec_ok tx_wf write_tx read_tx) /\
  (forall bs t, bytes_ok bs -> tx_from_bytes bs = Some t ->
  tx_from_bytes (write_tx t) = Some t /\ tx_wf t) /\
  (forall bs t, bytes_ok bs -> tx_from_bytes bs = Some t -> tx_size t <= Z.of_nat (length bs)) /\
  (exists bs1 bs2 t, bs1 <> bs2 /\ tx_from_bytes bs1 = Some t /\ tx_from_bytes bs2 = Some t) /\
  (dec_consumes read_tx).
Proof. exact (conj tx_roundtrip (conj tx_decode_encode (conj tx_canonical (conj tx_size_le_received (conj tx_identity_not_bytes tx_consumes))))). Qed.
Print Assumptions C17_tx_codec.

(* ---------- block.Header ---------- *)
(* parts: header_decode_encode, header_decode_canonical *)
Theorem C17_header_codec :
  (forall sr h, header_wf sr h -> decode_all (read_header sr) (write_header sr h) = Some h) /\
  (forall sr bs h, bytes_ok bs -> decode_all (read_header sr) bs = Some h ->
  decode_all (read_header sr) (write_header sr h) = Some h /\ header_wf sr h /\ (length (write_header sr h) <= length bs)%nat).
Proof. exact (conj header_roundtrip header_whole_canonical). Qed.
Print Assumptions C17_header_codec.

(* ---------- block.Block (shape) ---------- *)
(* parts: block_decode_encode, block_decode_canonical, block_tx_count_bounded *)
Theorem C17_block_codec :
  (forall sr b, block_wf sr b -> decode_all (read_block sr) (write_block sr b) = Some b) /\
  (forall sr bs b, bytes_ok bs -> decode_all (read_block sr) bs = Some b ->
  decode_all (read_block sr) (write_block sr b) = Some b /\ block_wf sr b /\ (length (write_block sr b) <= length bs)%nat) /\
  (forall sr bs b rest,
  read_block sr bs = Some (b, rest) -> (length (btxs b) + length rest < length bs)%nat).
Proof. exact (conj block_roundtrip (conj block_whole_canonical block_tx_count_bounded)). Qed.
Print Assumptions C17_block_codec.

(* ---------- stack-item serialisation, normal mode ---------- *)
(* parts: item_serialize_spec, item_decode_encode, item_decode_wf, item_count_bounded, item_decode_canonical, item_decode_total, item_decode_budget *)
Theorem C17_item_codec :
  (forall i,
  serialize i = if plain i && (count_item i <=? max_items)%nat && (Z.of_nat (length (enc_item i)) <=? max_size)
                then Some (enc_item i) else None) /\
  (forall i bs, item_wf i -> serialize i = Some bs -> deserialize bs = Some i) /\
  (forall bs i, bytes_ok bs -> deserialize bs = Some i -> item_wf i) /\
  (forall bs i, deserialize bs = Some i -> (count_item i <= max_items)%nat) /\
  (forall bs i,
  bytes_ok bs -> Z.of_nat (length bs) <= max_size -> deserialize bs = Some i ->
  exists bs', serialize i = Some bs' /\ deserialize bs' = Some i /\ (length bs' <= length bs)%nat) /\
  (forall prot f f' lim bs,
  (length bs < f)%nat -> (length bs < f')%nat -> read_item prot f lim bs = read_item prot f' lim bs) /\
  (forall prot f lim bs i lim' rest,
  read_item prot f lim bs = Some (i, lim', rest) -> (lim' + count_item i <= lim)%nat /\ (length rest < length bs)%nat).
Proof. exact (conj serialize_spec (conj deserialize_serialize (conj deserialize_wf (conj deserialize_limits (conj deserialize_canonical (conj read_item_fuel_enough read_item_budget)))))). Qed.
Print Assumptions C17_item_codec.

(* ---------- MPT node encodings, for every 32-byte node hash function ---------- *)
(* parts: mptnode_decode_encode, mptnode_decode_collapse, mptnode_decode_wf, mptnode_decode_canonical, mptnode_hash_content_only, mptnode_reencoding_bound, mptnode_decode_total, mptnode_size_eq *)
Theorem C17_mptnode_codec :
  (forall H : list Z -> list Z, (forall b, length (H b) = 32%nat) ->
  forall n f d rest, mnode_wf n -> mnode_canonical n -> (2 <= f)%nat -> d + node_levels n <= 137 ->
  read_node f d (write_node H n ++ rest) = Some (n, rest)) /\
  (forall H : list Z -> list Z, (forall b, length (H b) = 32%nat) ->
  forall n f d rest, mnode_wf n -> (2 <= f)%nat -> d + node_levels n <= 137 ->
  read_node f d (write_node H n ++ rest) = Some (collapse1 H n, rest)) /\
  (forall f d bs n rest, bytes_ok bs -> read_node f d bs = Some (n, rest) ->
  mnode_wf n /\ bytes_ok rest /\ (length rest < length bs)%nat /\ Z.of_nat (mnode_depth n) + d <= 137) /\
  (forall H : list Z -> list Z, (forall b, length (H b) = 32%nat) ->
  forall bs n rest rest', bytes_ok bs -> decode_node bs = Some (n, rest) ->
  decode_node (write_node H n ++ rest') = Some (collapse1 H n, rest')) /\
  (forall (H : list Z -> list Z) n, node_hash H (collapse1 H n) = node_hash H n) /\
  (forall H : list Z -> list Z, (forall b, length (H b) = 32%nat) ->
  forall f d bs n rest, bytes_ok bs -> read_node f d bs = Some (n, rest) ->
  (length (write_node H n) + length rest <= length bs + 32 * inline_count n)%nat) /\
  (forall f f' d bs, (length bs < f)%nat -> (length bs < f')%nat -> read_node f d bs = read_node f' d bs) /\
  (forall H : list Z -> list Z, (forall b, length (H b) = 32%nat) ->
  forall n, mnode_wf n -> (forall k nx, n = MExt k nx -> nx <> MEmpty) -> node_size n + 1 = Z.of_nat (length (write_node H n))).
Proof. exact (conj node_decode_encode (conj node_decode_collapse (conj node_decode_wf (conj node_decode_canonical (conj node_hash_collapse1 (conj node_reencoding_bound (conj node_decode_total node_size_eq))))))). Qed.
Print Assumptions C17_mptnode_codec.

(* ---------- agreement of the byte-level node codec with the trie model of C10/C20 (coq/Trie/Model.v); the exclusion is the footprint of F19 ---------- *)
(* parts: node_codec_is_trie_enc, node_decoder_is_trie_decode *)
Theorem C17_mptnode_trie_codec :
  (forall (H : list N -> list N) t, trie_wf t -> no_leaf_65535 t ->
  map Z.of_N (NG.Trie.Model.enc H t) = write_node (HZ H) (of_trie t)) /\
  (forall f d bs,
  option_map (fun p => (to_trie (fst p), map Z.to_N (snd p))) (read_node f (Z.of_N d) (map Z.of_N bs)) = NG.Trie.Model.decode f d bs).
Proof. exact (conj node_codec_is_trie_enc node_decoder_is_trie_decode). Qed.
Print Assumptions C17_mptnode_trie_codec.

(* ---------- state.MPTRoot ---------- *)
(* parts: mptroot_decode_encode, mptroot_decode_wf, mptroot_decode_canonical, mptroot_decode_total, mptroot_size_eq, mptroot_hash_content_only *)
Theorem C17_mptroot_codec :
  (codec_ok mptroot_wf write_mptroot read_mptroot) /\
  (dec_wf mptroot_wf read_mptroot) /\
  (forall bs r, bytes_ok bs -> decode_all read_mptroot bs = Some r ->
  decode_all read_mptroot (write_mptroot r) = Some r /\ mptroot_wf r /\ (length (write_mptroot r) <= length bs)%nat) /\
  (dec_consumes read_mptroot) /\
  (forall r, mptroot_wf r -> Z.of_nat (length (write_mptroot r)) = 37 + array_size witness_size (rwitness r)) /\
  (forall bs1 bs2 r1 r2 rest1 rest2,
  read_mptroot bs1 = Some (r1, rest1) -> read_mptroot bs2 = Some (r2, rest2) ->
  rversion r1 = rversion r2 -> rindex r1 = rindex r2 -> rroot r1 = rroot r2 ->
  write_mptroot_unsigned r1 = write_mptroot_unsigned r2).
Proof. exact (conj mptroot_decode_encode (conj mptroot_decode_wf (conj mptroot_whole_canonical (conj mptroot_consumes (conj mptroot_size_eq mptroot_hash_content_only))))). Qed.
Print Assumptions C17_mptroot_codec.

(* ---------- stack-item serialisation, protected mode ---------- *)
(* parts: item_protected_decode_encode, item_protected_total *)
Theorem C17_item_protected_codec :
  (forall i, item_wf_p i -> (count_item i <= max_items)%nat -> deserialize_gen true (enc_item i) = Some i) /\
  (forall i,
  serialize_prot i = if (count_item i <=? max_items)%nat && (Z.of_nat (length (enc_item i)) <=? max_size) then enc_item i else [255]).
Proof. exact (conj deserialize_p_enc serialize_prot_total). Qed.
Print Assumptions C17_item_protected_codec.

(* ---------- state.NotificationEvent ---------- *)
(* parts: notification_decode_encode, notification_decode_wf, notification_decode_canonical *)
Theorem C17_notification_codec :
  (forall v bs rest, write_notification v = Some bs -> notification_wf v ->
  read_notification (bs ++ rest) = Some (v, rest)) /\
  (dec_wf notification_wf read_notification) /\
  (forall bs v rest rest', bytes_ok bs -> read_notification bs = Some (v, rest) -> notification_fits v ->
  exists bs', write_notification v = Some bs' /\ read_notification (bs' ++ rest') = Some (v, rest') /\ (length bs' + length rest <= length bs)%nat).
Proof. exact (conj notification_decode_encode (conj notification_decode_wf notification_decode_canonical)). Qed.
Print Assumptions C17_notification_codec.

(* ---------- state.ContractInvocation ---------- *)
(* parts: invocation_decode_encode *)
Theorem C17_invocation_codec :
  codec_ok invocation_wf write_invocation read_invocation.
Proof. exact invocation_decode_encode. Qed.
Print Assumptions C17_invocation_codec.

(* ---------- state.AppExecResult ---------- *)
(* parts: aer_decode_encode, aer_decode_wf, aer_decode_canonical, aer_decode_total, aer_stack_bounded *)
Theorem C17_aer_codec :
  (forall a bs rest, write_aer a = Some bs -> aer_wf a -> Forall item_fits (astack a) ->
  read_aer (bs ++ rest) = Some (a, rest)) /\
  (dec_wf aer_wf read_aer) /\
  (forall bs a rest rest', bytes_ok bs -> read_aer bs = Some (a, rest) -> aer_fits a ->
  exists bs', write_aer a = Some bs' /\ read_aer (bs' ++ rest') = Some (a, rest') /\ (length bs' + length rest <= length bs)%nat) /\
  (dec_consumes read_aer) /\
  (forall bs a rest, read_aer bs = Some (a, rest) -> (length (astack a) <= max_items)%nat).
Proof. exact (conj aer_decode_encode (conj aer_decode_wf (conj aer_decode_canonical (conj aer_consumes aer_stack_bounded)))). Qed.
Print Assumptions C17_aer_codec.

(* ---------- NEF file, for every checksum function below 2^32 ---------- *)
(* parts: nef_decode_encode, nef_decode_wf, nef_decode_canonical, nef_decode_total, nef_limits, nef_checksum_detects *)
Theorem C17_nef_codec :
  (forall checksum : list Z -> Z, (forall b, 0 <= checksum b < 2 ^ 32) ->
  forall f rest, nef_wf checksum f -> read_nef checksum (write_nef f ++ rest) = Some (f, rest)) /\
  (forall (checksum : list Z -> Z) bs f rest, bytes_ok bs -> read_nef checksum bs = Some (f, rest) ->
  nef_wf checksum f /\ bytes_ok rest) /\
  (forall checksum : list Z -> Z, (forall b, 0 <= checksum b < 2 ^ 32) ->
  forall bs f rest rest', bytes_ok bs -> read_nef checksum bs = Some (f, rest) -> read_nef checksum (write_nef f ++ rest') = Some (f, rest')) /\
  (forall checksum : list Z -> Z, dec_consumes (read_nef checksum)) /\
  (forall (checksum : list Z -> Z) bs f rest, bytes_ok bs -> read_nef checksum bs = Some (f, rest) ->
  Z.of_nat (length (nscript f)) <= 131070 /\ Z.of_nat (length (nsource f)) <= 256
  /\ Forall (fun t => Z.of_nat (length (kmethod t)) <= 32) (ntokens f)
  /\ Z.of_nat (length (ncompiler f)) <= 64 /\ Z.of_nat (length (ntokens f)) <= 16777216) /\
  (forall (checksum : list Z -> Z) bs f rest,
  read_nef checksum bs = Some (f, rest) -> nchecksum f = checksum (write_nef_body f)).
Proof. exact (conj nef_decode_encode (conj nef_decode_wf (conj nef_canonical (conj nef_consumes (conj nef_limits nef_checksum_detects))))). Qed.
Print Assumptions C17_nef_codec.

(* ---------- payload.Version (with capabilities) ---------- *)
(* parts: version_decode_encode, version_decode_wf *)
Theorem C17_version_codec :
  (codec_ok version_wf write_version read_version) /\
  (dec_wf version_wf read_version).
Proof. exact (conj version_decode_encode version_decode_wf). Qed.
Print Assumptions C17_version_codec.

(* ---------- payload.AddressList ---------- *)
(* parts: addrlist_decode_encode, addrlist_decode_wf *)
Theorem C17_addrlist_codec :
  (codec_ok addrlist_wf write_addrlist read_addrlist) /\
  (dec_wf addrlist_wf read_addrlist).
Proof. exact (conj addrlist_decode_encode addrlist_decode_wf). Qed.
Print Assumptions C17_addrlist_codec.

(* ---------- payload.Inventory ---------- *)
(* parts: inventory_decode_encode, inventory_decode_wf *)
Theorem C17_inventory_codec :
  (codec_ok inventory_wf write_inventory read_inventory) /\
  (dec_wf inventory_wf read_inventory).
Proof. exact (conj inventory_decode_encode inventory_decode_wf). Qed.
Print Assumptions C17_inventory_codec.

(* ---------- payload.GetBlocks ---------- *)
(* parts: getblocks_decode_encode *)
Theorem C17_getblocks_codec :
  codec_ok getblocks_wf write_getblocks read_getblocks.
Proof. exact getblocks_decode_encode. Qed.
Print Assumptions C17_getblocks_codec.

(* ---------- payload.GetBlockByIndex ---------- *)
(* parts: getbyindex_decode_encode *)
Theorem C17_getbyindex_codec :
  codec_ok getbyindex_wf write_getbyindex read_getbyindex.
Proof. exact getbyindex_decode_encode. Qed.
Print Assumptions C17_getbyindex_codec.

(* ---------- payload.Headers ---------- *)
(* parts: headers_decode_encode, headers_decode_wf *)
Theorem C17_headers_codec :
  (forall sr, codec_ok (headers_wf sr) (write_headers sr) (read_headers sr)) /\
  (forall sr, dec_wf (headers_wf sr) (read_headers sr)).
Proof. exact (conj headers_decode_encode headers_decode_wf). Qed.
Print Assumptions C17_headers_codec.

(* ---------- payload.MPTData ---------- *)
(* parts: mptdata_count_bounded *)
Theorem C17_mptdata_codec :
  forall bs l rest, read_mptdata bs = Some (l, rest) -> (length l + length rest < length bs)%nat.
Proof. exact mptdata_count_bounded. Qed.
Print Assumptions C17_mptdata_codec.

(* ---------- payload.Extensible (envelope of consensus and state-service messages) ---------- *)
(* parts: extensible_decode_encode, extensible_decode_wf, extensible_decode_canonical *)
Theorem C17_extensible_codec :
  (codec_ok extensible_wf write_extensible read_extensible) /\
  (dec_wf extensible_wf read_extensible) /\
  (forall bs v rest rest', bytes_ok bs -> read_extensible bs = Some (v, rest) ->
  read_extensible (write_extensible v ++ rest') = Some (v, rest')).
Proof. exact (conj extensible_decode_encode (conj extensible_decode_wf extensible_canonical)). Qed.
Print Assumptions C17_extensible_codec.

(* ---------- network.Message frame; compression abstract, only decompress_sane asked of it ---------- *)
(* parts: frame_decode_encode, frame_decode_encode_compressed, frame_decode_canonical, frame_alloc_bounded, frame_decode_total *)
Theorem C17_frame_codec :
  (forall decompress sr f rest, frame_wf sr f -> Z.even (fflags f) = true ->
  read_frame decompress sr (write_frame sr f ++ rest) = Some (f, rest)) /\
  (forall compress decompress, (forall x, decompress (compress x) = Some x) ->
  forall sr f rest, frame_wf sr f -> fpayload f <> PNull -> (1 <= length (compress (write_payload sr (fpayload f))))%nat ->
  Z.of_nat (length (compress (write_payload sr (fpayload f)))) <= max_payload_size ->
  read_frame decompress sr (write_frame_compressed compress sr f ++ rest) = Some (Frame (clear_compressed (fflags f) + 1) (fcmd f) (fpayload f), rest)) /\
  (forall decompress sr bs f rest rest', bytes_ok bs -> decompress_sane decompress ->
  read_frame decompress sr bs = Some (f, rest) ->
  frame_wf sr f /\ read_frame decompress sr (write_frame sr f ++ rest') = Some (Frame (clear_compressed (fflags f)) (fcmd f) (fpayload f), rest')) /\
  (forall decompress sr bs f rest, read_frame decompress sr bs = Some (f, rest) ->
  exists l, frame_length bs = Some l /\ l <= max_payload_size /\ (Z.to_nat l + length rest + 3 <= length bs)%nat) /\
  (forall decompress sr, dec_consumes (read_frame decompress sr)).
Proof. exact (conj frame_decode_encode (conj frame_decode_encode_compressed (conj frame_canonical (conj frame_alloc_bounded frame_consumes)))). Qed.
Print Assumptions C17_frame_codec.

(* ---------- the STORED (stack-item) form of a manifest: Manifest.ToStackItem / FromStackItem ---------- *)
(* parts: manifest_item_roundtrip (FromStackItem (ToStackItem m) = m), manifest_item_injective (the stored form determines
   the manifest), manifest_stored_form_distinguishes (wildcard trusts / explicit empty trusts, wildcard methods /
   explicit empty method list, safe / unsafe, another group signature are stored differently); the permission part is
   the C16 model coq/Auth/PermStore.v *)
Theorem C17_manifest_item_codec :
  (forall m, manifest_wf m -> manifest_from_item (manifest_to_item m) = Some m) /\
  (forall m m', manifest_wf m -> manifest_wf m' -> manifest_to_item m = manifest_to_item m' -> m = m') /\
  (trusts_to_item None <> trusts_to_item (Some []) /\
   (forall d, of_sitem (perm_to_item (mk_perm d MWild)) <> of_sitem (perm_to_item (mk_perm d (MList [])))) /\
   (forall n ps r o, method_to_item (MMethod n ps r o true) <> method_to_item (MMethod n ps r o false)) /\
   (forall k s s', s <> s' -> group_to_item (MGroup k s) <> group_to_item (MGroup k s'))).
Proof. exact (conj manifest_item_roundtrip (conj manifest_item_injective manifest_stored_form_distinguishes)). Qed.
Print Assumptions C17_manifest_item_codec.

(* ---------- consensus messages: the wire form depends on the network configuration (StateRootInHeader) ---------- *)
(* [sr] is a parameter of every writer and reader and is handed down to the nested decoders:
   message -> prepare request; message -> recovery message -> the embedded PrepareRequest message -> prepare request *)
Theorem C17_consensus_prepare_request_codec :
  forall sr, codec_ok (preq_wf sr) (write_preq sr) (read_preq sr).
Proof. exact preq_decode_encode. Qed.
Print Assumptions C17_consensus_prepare_request_codec.

Theorem C17_consensus_compact_codecs :
  codec_ok cvc_wf write_cvc read_cvc /\ codec_ok pc_wf write_pc read_pc /\ codec_ok cc_wf write_cc read_cc.
Proof. exact (conj cvc_decode_encode (conj pc_decode_encode cc_decode_encode)). Qed.
Print Assumptions C17_consensus_compact_codecs.

(* the PrepareRequest nested in a recovery message reads back under the setting of the enclosing message *)
Theorem C17_consensus_recovery_codec :
  (forall sr, codec_ok (emb_wf sr) (write_emb sr) (read_emb sr)) /\
  (forall sr, codec_ok (recovery_wf sr) (write_recovery sr) (read_recovery sr)).
Proof. exact (conj emb_decode_encode recovery_decode_encode). Qed.
Print Assumptions C17_consensus_recovery_codec.

(* every message type, both configuration values *)
Theorem C17_consensus_message_codec :
  (forall m rest, cmessage_wf true m -> read_cmessage true (write_cmessage true m ++ rest) = Some (m, rest)) /\
  (forall m rest, cmessage_wf false m -> read_cmessage false (write_cmessage false m ++ rest) = Some (m, rest)).
Proof. exact (conj (cmessage_roundtrip_both true) (cmessage_roundtrip_both false)). Qed.
Print Assumptions C17_consensus_message_codec.

(* a recovery decoder that creates the embedded message with the DEFAULT setting (new(message)) is not a decoder of what
   the node encodes: false with StateRootInHeader (and indistinguishable without it) *)
Theorem C17_consensus_default_nested_refuted :
  ~ (forall sr, codec_ok (cmessage_wf sr) (write_cmessage sr) (read_cmessage_default_nested sr)).
Proof. exact default_nested_refuted. Qed.
Print Assumptions C17_consensus_default_nested_refuted.

(* non-vacuity: a recovery message with the PrepareRequest, two preparations and a commit. With a non-zero state root the
   default-nested decoder refuses what was just encoded; with the zero root it accepts ANOTHER message (no preparations,
   no commits), silently *)
Example C17_consensus_example :
  cmessage_wf true (ex_recovery (ex_hash32 3))
  /\ read_cmessage true (write_cmessage true (ex_recovery (ex_hash32 3))) = Some (ex_recovery (ex_hash32 3), [])
  /\ read_cmessage_default_nested true (write_cmessage true (ex_recovery (ex_hash32 3))) = None
  /\ (forall bs, read_cmessage_default_nested false bs = read_cmessage false bs)
  /\ (exists rest, read_cmessage_default_nested true (write_cmessage true (ex_recovery zero32))
        = Some (CMessage 100 3 0 (BRecovery (Recovery [] (Some (Emb 100 1 0 (ex_preq zero32))) None [] [])), rest)
        /\ length rest = 301%nat).
Proof.
  pose proof default_nested_examples as (A & B & _ & D).
  exact (conj (ex_recovery_wf _ (proj1 (ex_hash32_wf 3))) (conj A (conj B (conj default_nested_same_without_sr D)))).
Qed.

(* ---------- documented per-field bounds: what a decoder accepts is within them ---------- *)
(* (each is a projection of the type's decode_wf theorem; gathered here because the harness drives a table of these
   maxima - field at max-1, max, max+1, all bytes present - through the Go decoders and, for these types, the same bytes
   through the model) *)
Theorem C17_field_bounds_enforced :
  (forall bs w rest, bytes_ok bs -> read_witness bs = Some (w, rest) ->
     Z.of_nat (length (winv w)) <= 1024 /\ Z.of_nat (length (wver w)) <= 1024) /\
  (forall bs i rest, bytes_ok bs -> read_inventory bs = Some (i, rest) -> Z.of_nat (length (ihashes i)) <= 500) /\
  (forall bs l rest, bytes_ok bs -> read_mptinv bs = Some (l, rest) -> Z.of_nat (length l) <= 32) /\
  (forall bs v rest, bytes_ok bs -> read_version bs = Some (v, rest) -> Z.of_nat (length (vagent v)) <= 1024) /\
  (forall bs l rest, bytes_ok bs -> read_addrlist bs = Some (l, rest) -> (1 <= length l <= 200)%nat) /\
  (forall sr bs l rest, bytes_ok bs -> read_headers sr bs = Some (l, rest) -> (1 <= length l <= 2000)%nat) /\
  (forall bs e rest, bytes_ok bs -> read_extensible bs = Some (e, rest) ->
     Z.of_nat (length (ecategory e)) <= 32 /\ Z.of_nat (length (edata e)) <= max_payload_size) /\
  (forall bs s rest, bytes_ok bs -> read_signer bs = Some (s, rest) ->
     Z.of_nat (length (scontracts s)) <= 16 /\ Z.of_nat (length (sgroups s)) <= 16 /\ Z.of_nat (length (srules s)) <= 16).
Proof.
  split; [intros bs w rest Hb H; destruct (witness_decode_wf bs w rest Hb H) as ((A & _ & B & _) & _); auto|].
  split; [intros bs i rest Hb H; destruct (inventory_decode_wf bs i rest Hb H) as ((_ & A & _) & _); exact A|].
  split; [intros bs l rest Hb H; destruct (mptinv_decode_wf bs l rest Hb H) as ((A & _) & _); exact A|].
  split; [intros bs v rest Hb H; destruct (version_decode_wf bs v rest Hb H) as ((_ & _ & _ & _ & A & _) & _); exact A|].
  split; [intros bs l rest Hb H; destruct (addrlist_decode_wf bs l rest Hb H) as ((A & _) & _); exact A|].
  split; [intros sr bs l rest Hb H; destruct (headers_decode_wf sr bs l rest Hb H) as ((A & _) & _); exact A|].
  split; [intros bs e rest Hb H; destruct (extensible_decode_wf bs e rest Hb H) as ((A & _ & _ & _ & _ & B & _) & _); auto|].
  intros bs s rest Hb H. destruct (signer_decode_wf bs s rest Hb H) as ((_ & _ & _ & A & _ & _ & B & _ & _ & C & _) & _). auto.
Qed.
Print Assumptions C17_field_bounds_enforced.

(* ---------- non-vacuity ---------- *)
(* non-vacuity: concrete boundary values, a non-minimal form that is read but never written *)
Example C17_prim_example :
  write_varuint 65535 = [253; 255; 255] /\ read_varuint [253; 1; 0; 7] = Some (1, [7]) /\ write_varuint 1 = [1]
  /\ read_varbytes 3 [3; 1; 2; 3] = Some ([1; 2; 3], []) /\ read_varbytes 2 [3; 1; 2; 3] = None.
Proof. repeat split; vm_compute; reflexivity. Qed.
(* non-vacuity: a concrete well-formed transaction with a Rules signer (And [Not (Boolean false); CalledByEntry]),
   two attributes and two witnesses round-trips; a 4-level condition is rejected *)
Example C17_tx_example : tx_wf ex_tx /\ tx_from_bytes (write_tx ex_tx) = Some ex_tx.
Proof. split; [exact (proj1 ex_tx_wf)|exact ex_tx_roundtrip]. Qed.
(* non-vacuity: a Map with Integer, Boolean and ByteString keys holding an Array of a Struct and -2^255 *)
Example C17_item_example : item_wf ex_item /\ deserialize (enc_item ex_item) = Some ex_item /\ count_item ex_item = 17%nat.
Proof. split; [exact ex_item_wf|]. split; vm_compute; reflexivity. Qed.

(* zero values are inside the wf premises where the code accepts them (coq/Codec/ZeroExamples.v has one per type):
   the genesis header of a StateRootInHeader network (PrevStateRoot = 0), a block without transactions, a transaction
   with zero fees / nonce / ValidUntilBlock, a state root with zero root and no witness, an execution result with an
   empty stack and an empty fault string *)
Example C17_zero_values_example :
  (header_wf true (zheader true) /\ header_wf false (zheader false)) /\
  (block_wf true (Block (zheader true) []) /\ block_wf false (Block (zheader false) [])) /\
  (tx_wf ztx /\ tx_from_bytes (write_tx ztx) = Some ztx) /\
  (mptroot_wf (MptRoot 0 0 z32 []) /\ mptroot_wf (MptRoot 0 0 z32 [zwit])) /\
  aer_wf zaer.
Proof. exact (conj zero_header_wf (conj zero_block_wf (conj zero_tx_wf (conj zero_mptroot_wf (proj1 zero_aer_wf))))). Qed.
