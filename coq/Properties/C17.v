(* C17 — wire formats round-trip, and identity depends only on content.
   Statements only; every proof is [exact lemma]. *)
From NG Require Import Common.Tactics Codec.Bigint Codec.Wire Codec.WireProofs Codec.TxCodec Codec.TxCodecProofs Codec.ItemCodec Codec.ItemCodecProofs.
Open Scope Z_scope.

(* ---------- reader / writer primitives (pkg/io) ---------- *)

(* var-uint: what the writer produces, the reader returns, leaving exactly the rest *)
Theorem C17_varuint_decode_encode : forall v rest, u64_ok v -> read_varuint (write_varuint v ++ rest) = Some (v, rest).
Proof. exact varuint_roundtrip. Qed.
Print Assumptions C17_varuint_decode_encode.

(* the reader accepts non-minimal forms: every wider form of a value that fits decodes to that value *)
Theorem C17_varuint_nonminimal_accepted : forall v rest,
  (0 <= v < 2 ^ 16 -> read_varuint (253 :: le_bytes 2 v ++ rest) = Some (v, rest)) /\
  (0 <= v < 2 ^ 32 -> read_varuint (254 :: le_bytes 4 v ++ rest) = Some (v, rest)) /\
  (0 <= v < 2 ^ 64 -> read_varuint (255 :: le_bytes 8 v ++ rest) = Some (v, rest)).
Proof. exact varuint_nonminimal_accepted. Qed.
Print Assumptions C17_varuint_nonminimal_accepted.

(* decode_canonical: whatever form was read, the writer's form of the value decodes to the same value *)
Theorem C17_varuint_decode_canonical : forall bs v rest rest',
  bytes_ok bs -> read_varuint bs = Some (v, rest) -> read_varuint (write_varuint v ++ rest') = Some (v, rest').
Proof. exact varuint_canonical. Qed.
Print Assumptions C17_varuint_decode_canonical.

(* ... and the writer's form is never longer than the form that was read *)
Theorem C17_varuint_minimal : forall bs v rest,
  bytes_ok bs -> read_varuint bs = Some (v, rest) -> (length (write_varuint v) + length rest <= length bs)%nat.
Proof. exact varuint_minimal. Qed.
Print Assumptions C17_varuint_minimal.

(* size_eq: io.getVarIntSize is the length of the written form for every length-like value *)
Theorem C17_varuint_size_eq : forall v, 0 <= v <= 4294967295 -> varuint_size v = Z.of_nat (length (write_varuint v)).
Proof. exact varuint_size_eq. Qed.
Print Assumptions C17_varuint_size_eq.

(* decode_total: a successful read consumes at least one byte and never invents input *)
Theorem C17_varuint_decode_total : forall bs v rest,
  bytes_ok bs -> read_varuint bs = Some (v, rest) -> u64_ok v /\ bytes_ok rest /\ (length rest < length bs)%nat.
Proof. exact read_varuint_some. Qed.
Print Assumptions C17_varuint_decode_total.

(* var-bytes with a maximum *)
Theorem C17_varbytes_decode_encode : forall max b rest,
  Z.of_nat (length b) <= max -> Z.of_nat (length b) < 2 ^ 64 -> read_varbytes max (write_varbytes b ++ rest) = Some (b, rest).
Proof. exact varbytes_roundtrip. Qed.
Print Assumptions C17_varbytes_decode_encode.

Theorem C17_varbytes_decode_canonical : forall max bs b rest rest',
  bytes_ok bs -> read_varbytes max bs = Some (b, rest) -> read_varbytes max (write_varbytes b ++ rest') = Some (b, rest').
Proof. exact varbytes_canonical. Qed.
Print Assumptions C17_varbytes_decode_canonical.

(* alloc_bounded: the length is checked against the maximum before the buffer exists *)
Theorem C17_varbytes_alloc_bounded : forall max bs b rest,
  bytes_ok bs -> read_varbytes max bs = Some (b, rest) -> Z.of_nat (length b) <= max.
Proof. exact varbytes_alloc_bounded. Qed.
Print Assumptions C17_varbytes_alloc_bounded.

Theorem C17_varbytes_rejects_over_max : forall max bs n r,
  read_varuint bs = Some (n, r) -> max < n -> read_varbytes max bs = None.
Proof. exact varbytes_rejects_over_max. Qed.
Print Assumptions C17_varbytes_rejects_over_max.

Theorem C17_varbytes_size_eq : forall b, Z.of_nat (length b) <= 4294967295 ->
  varbytes_size b = Z.of_nat (length (write_varbytes b)).
Proof. exact varbytes_size_eq. Qed.
Print Assumptions C17_varbytes_size_eq.

(* fixed-width little-endian integers *)
Theorem C17_fixed_int_decode_encode : forall n v rest,
  0 <= v < 2 ^ (8 * Z.of_nat n) -> read_u n (write_u n v ++ rest) = Some (v, rest).
Proof. exact read_u_write. Qed.
Print Assumptions C17_fixed_int_decode_encode.

Theorem C17_fixed_int_decode_unique : forall n bs v rest,
  bytes_ok bs -> read_u n bs = Some (v, rest) -> 0 <= v < 2 ^ (8 * Z.of_nat n) /\ bs = le_bytes n v ++ rest /\ bytes_ok rest.
Proof. exact read_u_some. Qed.
Print Assumptions C17_fixed_int_decode_unique.

(* arrays of any element codec: ReadArray(max) / WriteArray *)
Theorem C17_array_decode_encode : forall (A : Type) (wf : A -> Prop) w (d : dec A) max,
  codec_ok wf w d -> forall l rest, Forall wf l -> Z.of_nat (length l) <= max -> Z.of_nat (length l) < 2 ^ 64 ->
  read_array d max (write_array w l ++ rest) = Some (l, rest).
Proof. exact @array_roundtrip. Qed.
Print Assumptions C17_array_decode_encode.

Theorem C17_array_size_eq : forall (A : Type) (w : A -> list Z) (sz : A -> Z) l,
  Z.of_nat (length l) <= 4294967295 -> Forall (fun x => sz x = Z.of_nat (length (w x))) l ->
  array_size sz l = Z.of_nat (length (write_array w l)).
Proof. exact @array_size_eq. Qed.
Print Assumptions C17_array_size_eq.

(* non-vacuity: concrete boundary values, a non-minimal form that is read but never written *)
Example C17_prim_example :
  write_varuint 65535 = [253; 255; 255] /\ read_varuint [253; 1; 0; 7] = Some (1, [7]) /\ write_varuint 1 = [1]
  /\ read_varbytes 3 [3; 1; 2; 3] = Some ([1; 2; 3], []) /\ read_varbytes 2 [3; 1; 2; 3] = None.
Proof. repeat split; vm_compute; reflexivity. Qed.

(* ---------- transaction and its parts, header, block (pkg/core/transaction, pkg/core/block) ---------- *)
(* per type: decode_encode (codec_ok), decoded values are well-formed (dec_wf), the re-encoding is not longer than
   what was read (dec_min), every successful decode consumes input (dec_consumes: no stuck case, no amplification);
   decode_canonical follows from the first two (canonical_of) *)

Theorem C17_witness_decode_encode : codec_ok witness_wf write_witness read_witness.
Proof. exact witness_decode_encode. Qed.
Print Assumptions C17_witness_decode_encode.
Theorem C17_witness_decode_canonical : forall bs w rest rest', bytes_ok bs -> read_witness bs = Some (w, rest) ->
  read_witness (write_witness w ++ rest') = Some (w, rest').
Proof. exact witness_canonical. Qed.
Print Assumptions C17_witness_decode_canonical.
Theorem C17_witness_size_eq : forall w, witness_wf w -> witness_size w = Z.of_nat (length (write_witness w)).
Proof. exact witness_size_eq. Qed.
Print Assumptions C17_witness_size_eq.

Theorem C17_attr_decode_encode : codec_ok attr_wf write_attr read_attr.
Proof. exact attr_decode_encode. Qed.
Print Assumptions C17_attr_decode_encode.
Theorem C17_attr_decode_canonical : forall bs a rest rest', bytes_ok bs -> read_attr bs = Some (a, rest) ->
  read_attr (write_attr a ++ rest') = Some (a, rest').
Proof. exact attr_canonical. Qed.
Print Assumptions C17_attr_decode_canonical.

(* witness conditions: recursive, nesting limit = the decoder's own depth argument *)
Theorem C17_cond_decode_encode : forall d, codec_ok (cond_wf d) write_cond (read_cond d).
Proof. exact cond_decode_encode. Qed.
Print Assumptions C17_cond_decode_encode.
Theorem C17_cond_decode_wf : forall d, dec_wf (cond_wf d) (read_cond d).
Proof. exact cond_decode_wf. Qed.
Print Assumptions C17_cond_decode_wf.
Theorem C17_cond_decode_canonical : forall d bs c rest rest', bytes_ok bs -> read_cond d bs = Some (c, rest) ->
  read_cond d (write_cond c ++ rest') = Some (c, rest').
Proof. exact cond_canonical. Qed.
Print Assumptions C17_cond_decode_canonical.
Theorem C17_cond_depth_limit : forall d bs c rest, read_cond d bs = Some (c, rest) -> (cond_depth c <= d)%nat.
Proof. exact cond_depth_bound. Qed.
Print Assumptions C17_cond_depth_limit.
Theorem C17_cond_decode_total : forall d, dec_consumes (read_cond d).
Proof. exact cond_consumes. Qed.
Print Assumptions C17_cond_decode_total.

Theorem C17_signer_decode_encode : codec_ok signer_wf write_signer read_signer.
Proof. exact signer_decode_encode. Qed.
Print Assumptions C17_signer_decode_encode.
Theorem C17_signer_decode_wf : dec_wf signer_wf read_signer.
Proof. exact signer_decode_wf. Qed.
Print Assumptions C17_signer_decode_wf.
Theorem C17_signer_decode_canonical : forall bs v rest rest', bytes_ok bs -> read_signer bs = Some (v, rest) ->
  read_signer (write_signer v ++ rest') = Some (v, rest').
Proof. exact signer_canonical. Qed.
Print Assumptions C17_signer_decode_canonical.

(* transaction: the whole buffer (NewTransactionFromBytes) *)
Theorem C17_tx_decode_encode : forall t, tx_wf t -> tx_from_bytes (write_tx t) = Some t.
Proof. exact tx_roundtrip. Qed.
Print Assumptions C17_tx_decode_encode.
Theorem C17_tx_stream_decode_encode : codec_ok tx_wf write_tx read_tx.
Proof. exact tx_decode_encode. Qed.
Print Assumptions C17_tx_stream_decode_encode.
(* decode_canonical: anything accepted re-encodes to bytes that decode to the same transaction *)
Theorem C17_tx_decode_canonical : forall bs t, bytes_ok bs -> tx_from_bytes bs = Some t ->
  tx_from_bytes (write_tx t) = Some t /\ tx_wf t.
Proof. exact tx_canonical. Qed.
Print Assumptions C17_tx_decode_canonical.
(* size: the size of a transaction (length of its encoding) never exceeds what was received *)
Theorem C17_tx_size_le_received : forall bs t, bytes_ok bs -> tx_from_bytes bs = Some t -> tx_size t <= Z.of_nat (length bs).
Proof. exact tx_size_le_received. Qed.
Print Assumptions C17_tx_size_le_received.
(* identity cannot be taken from the received bytes: two different byte strings decode to one transaction (finding F9:
   the unchanged NewTransactionFromBytes hashes and sizes the received bytes). In the model identity is
   tx_hashed_bytes / tx_size, functions of the decoded value only. *)
Theorem C17_tx_identity_not_bytes : exists bs1 bs2 t, bs1 <> bs2 /\ tx_from_bytes bs1 = Some t /\ tx_from_bytes bs2 = Some t.
Proof. exact tx_identity_not_bytes. Qed.
Print Assumptions C17_tx_identity_not_bytes.
Theorem C17_tx_decode_total : dec_consumes read_tx.
Proof. exact tx_consumes. Qed.
Print Assumptions C17_tx_decode_total.

(* header and block *)
Theorem C17_header_decode_encode : forall sr h, header_wf sr h -> decode_all (read_header sr) (write_header sr h) = Some h.
Proof. exact header_roundtrip. Qed.
Print Assumptions C17_header_decode_encode.
Theorem C17_header_decode_canonical : forall sr bs h, bytes_ok bs -> decode_all (read_header sr) bs = Some h ->
  decode_all (read_header sr) (write_header sr h) = Some h /\ header_wf sr h /\ (length (write_header sr h) <= length bs)%nat.
Proof. exact header_whole_canonical. Qed.
Print Assumptions C17_header_decode_canonical.
Theorem C17_block_decode_encode : forall sr b, block_wf sr b -> decode_all (read_block sr) (write_block sr b) = Some b.
Proof. exact block_roundtrip. Qed.
Print Assumptions C17_block_decode_encode.
Theorem C17_block_decode_canonical : forall sr bs b, bytes_ok bs -> decode_all (read_block sr) bs = Some b ->
  decode_all (read_block sr) (write_block sr b) = Some b /\ block_wf sr b /\ (length (write_block sr b) <= length bs)%nat.
Proof. exact block_whole_canonical. Qed.
Print Assumptions C17_block_decode_canonical.
(* no amplification: the number of transactions a block decoder returns is below the number of bytes it consumed *)
Theorem C17_block_tx_count_bounded : forall sr bs b rest,
  read_block sr bs = Some (b, rest) -> (length (btxs b) + length rest < length bs)%nat.
Proof. exact block_tx_count_bounded. Qed.
Print Assumptions C17_block_tx_count_bounded.

(* non-vacuity: a concrete well-formed transaction with a Rules signer (And [Not (Boolean false); CalledByEntry]),
   two attributes and two witnesses round-trips; a 4-level condition is rejected *)
Example C17_tx_example : tx_wf ex_tx /\ tx_from_bytes (write_tx ex_tx) = Some ex_tx.
Proof. split; [exact (proj1 ex_tx_wf)|exact ex_tx_roundtrip]. Qed.

(* ---------- stack-item serialisation (pkg/vm/stackitem/serialization.go) ---------- *)

(* the stateful serialiser (budget of items, MaxSize check after every item) is the pure encoding under two limits *)
Theorem C17_item_serialize_spec : forall i,
  serialize i = if (count_item i <=? max_items)%nat && (Z.of_nat (length (enc_item i)) <=? max_size)
                then Some (enc_item i) else None.
Proof. exact serialize_spec. Qed.
Print Assumptions C17_item_serialize_spec.

(* decode_encode, with the item budget threaded through the decoder *)
Theorem C17_item_decode_encode : forall i bs, item_wf i -> serialize i = Some bs -> deserialize bs = Some i.
Proof. exact deserialize_serialize. Qed.
Print Assumptions C17_item_decode_encode.

(* decoded values are well-formed (32-byte integers, valid distinct map keys) and within the count limit *)
Theorem C17_item_decode_wf : forall bs i, bytes_ok bs -> deserialize bs = Some i -> item_wf i.
Proof. exact deserialize_wf. Qed.
Print Assumptions C17_item_decode_wf.
Theorem C17_item_count_bounded : forall bs i, deserialize bs = Some i -> (count_item i <= max_items)%nat.
Proof. exact deserialize_limits. Qed.
Print Assumptions C17_item_count_bounded.

(* decode_canonical: an accepted input within MaxSize re-serialises (never longer) to bytes that decode to the same item *)
Theorem C17_item_decode_canonical : forall bs i,
  bytes_ok bs -> Z.of_nat (length bs) <= max_size -> deserialize bs = Some i ->
  exists bs', serialize i = Some bs' /\ deserialize bs' = Some i /\ (length bs' <= length bs)%nat.
Proof. exact deserialize_canonical. Qed.
Print Assumptions C17_item_decode_canonical.

(* decode_total: fuel beyond the input length changes nothing — a None is a rejection, never "out of fuel";
   every successful decode consumes input and stays within the budget *)
Theorem C17_item_decode_total : forall f f' lim bs,
  (length bs < f)%nat -> (length bs < f')%nat -> read_item f lim bs = read_item f' lim bs.
Proof. exact read_item_fuel_enough. Qed.
Print Assumptions C17_item_decode_total.
Theorem C17_item_decode_budget : forall f lim bs i lim' rest,
  read_item f lim bs = Some (i, lim', rest) -> (lim' + count_item i <= lim)%nat /\ (length rest < length bs)%nat.
Proof. exact read_item_budget. Qed.
Print Assumptions C17_item_decode_budget.

(* non-vacuity: a Map with Integer, Boolean and ByteString keys holding an Array of a Struct and -2^255 *)
Example C17_item_example : item_wf ex_item /\ deserialize (enc_item ex_item) = Some ex_item /\ count_item ex_item = 17%nat.
Proof. split; [exact ex_item_wf|]. split; vm_compute; reflexivity. Qed.
