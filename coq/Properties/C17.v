(* C17 — wire formats round-trip, and identity depends only on content.
   Statements only; every proof is [exact lemma]. *)
From NG Require Import Common.Tactics Codec.Bigint Codec.Wire Codec.WireProofs Codec.TxCodec Codec.TxCodecProofs Codec.ItemCodec Codec.ItemCodecProofs.
From NG Require Import Codec.MptCodec Codec.MptCodecProofs Codec.MptCodecTrie Codec.StateCodec Codec.StateCodecProofs Codec.ExecCodec Codec.ExecCodecProofs Codec.NetCodec Codec.NetCodecProofs.
Open Scope Z_scope.

(* ---------- reader / writer primitives (pkg/io) ---------- *)

(* var-uint: what the writer produces, the reader returns, leaving exactly the rest *)
Theorem C17_varuint_decode_encode : forall v rest, u64_ok v -> read_varuint (write_varuint v ++ rest) = Some (v, rest).
Proof. exact varuint_roundtrip. Qed.
Print Assumptions C17_varuint_decode_encode.

(* the reader accepts non-minimal forms: every wider form of a value that fits decodes to that value *)
Theorem C17_varuint_nonminimal_accepted : forall v rest,
  (0 <= v < 2 ^ 16 -> read_varuint (253 :: le_bytes 2 v ++ rest) = Some (v, rest)) /\
  (0 <= v < 2 ^ 32 -> read_varuint (254 :: le_bytes 4 v ++ rest) = Some (v, rest)) /\
  (0 <= v < 2 ^ 64 -> read_varuint (255 :: le_bytes 8 v ++ rest) = Some (v, rest)).
Proof. exact varuint_nonminimal_accepted. Qed.
Print Assumptions C17_varuint_nonminimal_accepted.

(* decode_canonical: whatever form was read, the writer's form of the value decodes to the same value *)
Theorem C17_varuint_decode_canonical : forall bs v rest rest',
  bytes_ok bs -> read_varuint bs = Some (v, rest) -> read_varuint (write_varuint v ++ rest') = Some (v, rest').
Proof. exact varuint_canonical. Qed.
Print Assumptions C17_varuint_decode_canonical.

(* ... and the writer's form is never longer than the form that was read *)
Theorem C17_varuint_minimal : forall bs v rest,
  bytes_ok bs -> read_varuint bs = Some (v, rest) -> (length (write_varuint v) + length rest <= length bs)%nat.
Proof. exact varuint_minimal. Qed.
Print Assumptions C17_varuint_minimal.

(* size_eq: io.getVarIntSize is the length of the written form for every length-like value *)
Theorem C17_varuint_size_eq : forall v, 0 <= v <= 4294967295 -> varuint_size v = Z.of_nat (length (write_varuint v)).
Proof. exact varuint_size_eq. Qed.
Print Assumptions C17_varuint_size_eq.

(* decode_total: a successful read consumes at least one byte and never invents input *)
Theorem C17_varuint_decode_total : forall bs v rest,
  bytes_ok bs -> read_varuint bs = Some (v, rest) -> u64_ok v /\ bytes_ok rest /\ (length rest < length bs)%nat.
Proof. exact read_varuint_some. Qed.
Print Assumptions C17_varuint_decode_total.

(* var-bytes with a maximum *)
Theorem C17_varbytes_decode_encode : forall max b rest,
  Z.of_nat (length b) <= max -> Z.of_nat (length b) < 2 ^ 64 -> read_varbytes max (write_varbytes b ++ rest) = Some (b, rest).
Proof. exact varbytes_roundtrip. Qed.
Print Assumptions C17_varbytes_decode_encode.

Theorem C17_varbytes_decode_canonical : forall max bs b rest rest',
  bytes_ok bs -> read_varbytes max bs = Some (b, rest) -> read_varbytes max (write_varbytes b ++ rest') = Some (b, rest').
Proof. exact varbytes_canonical. Qed.
Print Assumptions C17_varbytes_decode_canonical.

(* alloc_bounded: the length is checked against the maximum before the buffer exists *)
Theorem C17_varbytes_alloc_bounded : forall max bs b rest,
  bytes_ok bs -> read_varbytes max bs = Some (b, rest) -> Z.of_nat (length b) <= max.
Proof. exact varbytes_alloc_bounded. Qed.
Print Assumptions C17_varbytes_alloc_bounded.

Theorem C17_varbytes_rejects_over_max : forall max bs n r,
  read_varuint bs = Some (n, r) -> max < n -> read_varbytes max bs = None.
Proof. exact varbytes_rejects_over_max. Qed.
Print Assumptions C17_varbytes_rejects_over_max.

Theorem C17_varbytes_size_eq : forall b, Z.of_nat (length b) <= 4294967295 ->
  varbytes_size b = Z.of_nat (length (write_varbytes b)).
Proof. exact varbytes_size_eq. Qed.
Print Assumptions C17_varbytes_size_eq.

(* fixed-width little-endian integers *)
Theorem C17_fixed_int_decode_encode : forall n v rest,
  0 <= v < 2 ^ (8 * Z.of_nat n) -> read_u n (write_u n v ++ rest) = Some (v, rest).
Proof. exact read_u_write. Qed.
Print Assumptions C17_fixed_int_decode_encode.

Theorem C17_fixed_int_decode_unique : forall n bs v rest,
  bytes_ok bs -> read_u n bs = Some (v, rest) -> 0 <= v < 2 ^ (8 * Z.of_nat n) /\ bs = le_bytes n v ++ rest /\ bytes_ok rest.
Proof. exact read_u_some. Qed.
Print Assumptions C17_fixed_int_decode_unique.

(* arrays of any element codec: ReadArray(max) / WriteArray *)
Theorem C17_array_decode_encode : forall (A : Type) (wf : A -> Prop) w (d : dec A) max,
  codec_ok wf w d -> forall l rest, Forall wf l -> Z.of_nat (length l) <= max -> Z.of_nat (length l) < 2 ^ 64 ->
  read_array d max (write_array w l ++ rest) = Some (l, rest).
Proof. exact @array_roundtrip. Qed.
Print Assumptions C17_array_decode_encode.

Theorem C17_array_size_eq : forall (A : Type) (w : A -> list Z) (sz : A -> Z) l,
  Z.of_nat (length l) <= 4294967295 -> Forall (fun x => sz x = Z.of_nat (length (w x))) l ->
  array_size sz l = Z.of_nat (length (write_array w l)).
Proof. exact @array_size_eq. Qed.
Print Assumptions C17_array_size_eq.

(* non-vacuity: concrete boundary values, a non-minimal form that is read but never written *)
Example C17_prim_example :
  write_varuint 65535 = [253; 255; 255] /\ read_varuint [253; 1; 0; 7] = Some (1, [7]) /\ write_varuint 1 = [1]
  /\ read_varbytes 3 [3; 1; 2; 3] = Some ([1; 2; 3], []) /\ read_varbytes 2 [3; 1; 2; 3] = None.
Proof. repeat split; vm_compute; reflexivity. Qed.

(* ---------- transaction and its parts, header, block (pkg/core/transaction, pkg/core/block) ---------- *)
(* per type: decode_encode (codec_ok), decoded values are well-formed (dec_wf), the re-encoding is not longer than
   what was read (dec_min), every successful decode consumes input (dec_consumes: no stuck case, no amplification);
   decode_canonical follows from the first two (canonical_of) *)

Theorem C17_witness_decode_encode : codec_ok witness_wf write_witness read_witness.
Proof. exact witness_decode_encode. Qed.
Print Assumptions C17_witness_decode_encode.
Theorem C17_witness_decode_canonical : forall bs w rest rest', bytes_ok bs -> read_witness bs = Some (w, rest) ->
  read_witness (write_witness w ++ rest') = Some (w, rest').
Proof. exact witness_canonical. Qed.
Print Assumptions C17_witness_decode_canonical.
Theorem C17_witness_size_eq : forall w, witness_wf w -> witness_size w = Z.of_nat (length (write_witness w)).
Proof. exact witness_size_eq. Qed.
Print Assumptions C17_witness_size_eq.

Theorem C17_attr_decode_encode : codec_ok attr_wf write_attr read_attr.
Proof. exact attr_decode_encode. Qed.
Print Assumptions C17_attr_decode_encode.
Theorem C17_attr_decode_canonical : forall bs a rest rest', bytes_ok bs -> read_attr bs = Some (a, rest) ->
  read_attr (write_attr a ++ rest') = Some (a, rest').
Proof. exact attr_canonical. Qed.
Print Assumptions C17_attr_decode_canonical.

(* witness conditions: recursive, nesting limit = the decoder's own depth argument *)
Theorem C17_cond_decode_encode : forall d, codec_ok (cond_wf d) write_cond (read_cond d).
Proof. exact cond_decode_encode. Qed.
Print Assumptions C17_cond_decode_encode.
Theorem C17_cond_decode_wf : forall d, dec_wf (cond_wf d) (read_cond d).
Proof. exact cond_decode_wf. Qed.
Print Assumptions C17_cond_decode_wf.
Theorem C17_cond_decode_canonical : forall d bs c rest rest', bytes_ok bs -> read_cond d bs = Some (c, rest) ->
  read_cond d (write_cond c ++ rest') = Some (c, rest').
Proof. exact cond_canonical. Qed.
Print Assumptions C17_cond_decode_canonical.
Theorem C17_cond_depth_limit : forall d bs c rest, read_cond d bs = Some (c, rest) -> (cond_depth c <= d)%nat.
Proof. exact cond_depth_bound. Qed.
Print Assumptions C17_cond_depth_limit.
Theorem C17_cond_decode_total : forall d, dec_consumes (read_cond d).
Proof. exact cond_consumes. Qed.
Print Assumptions C17_cond_decode_total.

Theorem C17_signer_decode_encode : codec_ok signer_wf write_signer read_signer.
Proof. exact signer_decode_encode. Qed.
Print Assumptions C17_signer_decode_encode.
Theorem C17_signer_decode_wf : dec_wf signer_wf read_signer.
Proof. exact signer_decode_wf. Qed.
Print Assumptions C17_signer_decode_wf.
Theorem C17_signer_decode_canonical : forall bs v rest rest', bytes_ok bs -> read_signer bs = Some (v, rest) ->
  read_signer (write_signer v ++ rest') = Some (v, rest').
Proof. exact signer_canonical. Qed.
Print Assumptions C17_signer_decode_canonical.

(* transaction: the whole buffer (NewTransactionFromBytes) *)
Theorem C17_tx_decode_encode : forall t, tx_wf t -> tx_from_bytes (write_tx t) = Some t.
Proof. exact tx_roundtrip. Qed.
Print Assumptions C17_tx_decode_encode.
Theorem C17_tx_stream_decode_encode : codec_ok tx_wf write_tx read_tx.
Proof. exact tx_decode_encode. Qed.
Print Assumptions C17_tx_stream_decode_encode.
(* decode_canonical: anything accepted re-encodes to bytes that decode to the same transaction *)
Theorem C17_tx_decode_canonical : forall bs t, bytes_ok bs -> tx_from_bytes bs = Some t ->
  tx_from_bytes (write_tx t) = Some t /\ tx_wf t.
Proof. exact tx_canonical. Qed.
Print Assumptions C17_tx_decode_canonical.
(* size: the size of a transaction (length of its encoding) never exceeds what was received *)
Theorem C17_tx_size_le_received : forall bs t, bytes_ok bs -> tx_from_bytes bs = Some t -> tx_size t <= Z.of_nat (length bs).
Proof. exact tx_size_le_received. Qed.
Print Assumptions C17_tx_size_le_received.
(* identity cannot be taken from the received bytes: two different byte strings decode to one transaction (finding F9:
   the unchanged NewTransactionFromBytes hashes and sizes the received bytes). In the model identity is
   tx_hashed_bytes / tx_size, functions of the decoded value only. *)
Theorem C17_tx_identity_not_bytes : exists bs1 bs2 t, bs1 <> bs2 /\ tx_from_bytes bs1 = Some t /\ tx_from_bytes bs2 = Some t.
Proof. exact tx_identity_not_bytes. Qed.
Print Assumptions C17_tx_identity_not_bytes.
Theorem C17_tx_decode_total : dec_consumes read_tx.
Proof. exact tx_consumes. Qed.
Print Assumptions C17_tx_decode_total.

(* header and block *)
Theorem C17_header_decode_encode : forall sr h, header_wf sr h -> decode_all (read_header sr) (write_header sr h) = Some h.
Proof. exact header_roundtrip. Qed.
Print Assumptions C17_header_decode_encode.
Theorem C17_header_decode_canonical : forall sr bs h, bytes_ok bs -> decode_all (read_header sr) bs = Some h ->
  decode_all (read_header sr) (write_header sr h) = Some h /\ header_wf sr h /\ (length (write_header sr h) <= length bs)%nat.
Proof. exact header_whole_canonical. Qed.
Print Assumptions C17_header_decode_canonical.
Theorem C17_block_decode_encode : forall sr b, block_wf sr b -> decode_all (read_block sr) (write_block sr b) = Some b.
Proof. exact block_roundtrip. Qed.
Print Assumptions C17_block_decode_encode.
Theorem C17_block_decode_canonical : forall sr bs b, bytes_ok bs -> decode_all (read_block sr) bs = Some b ->
  decode_all (read_block sr) (write_block sr b) = Some b /\ block_wf sr b /\ (length (write_block sr b) <= length bs)%nat.
Proof. exact block_whole_canonical. Qed.
Print Assumptions C17_block_decode_canonical.
(* no amplification: the number of transactions a block decoder returns is below the number of bytes it consumed *)
Theorem C17_block_tx_count_bounded : forall sr bs b rest,
  read_block sr bs = Some (b, rest) -> (length (btxs b) + length rest < length bs)%nat.
Proof. exact block_tx_count_bounded. Qed.
Print Assumptions C17_block_tx_count_bounded.

(* non-vacuity: a concrete well-formed transaction with a Rules signer (And [Not (Boolean false); CalledByEntry]),
   two attributes and two witnesses round-trips; a 4-level condition is rejected *)
Example C17_tx_example : tx_wf ex_tx /\ tx_from_bytes (write_tx ex_tx) = Some ex_tx.
Proof. split; [exact (proj1 ex_tx_wf)|exact ex_tx_roundtrip]. Qed.

(* ---------- stack-item serialisation (pkg/vm/stackitem/serialization.go) ---------- *)

(* the stateful serialiser (budget of items, MaxSize check after every item) is the pure encoding under two limits *)
Theorem C17_item_serialize_spec : forall i,
  serialize i = if plain i && (count_item i <=? max_items)%nat && (Z.of_nat (length (enc_item i)) <=? max_size)
                then Some (enc_item i) else None.
Proof. exact serialize_spec. Qed.
Print Assumptions C17_item_serialize_spec.

(* decode_encode, with the item budget threaded through the decoder *)
Theorem C17_item_decode_encode : forall i bs, item_wf i -> serialize i = Some bs -> deserialize bs = Some i.
Proof. exact deserialize_serialize. Qed.
Print Assumptions C17_item_decode_encode.

(* decoded values are well-formed (32-byte integers, valid distinct map keys) and within the count limit *)
Theorem C17_item_decode_wf : forall bs i, bytes_ok bs -> deserialize bs = Some i -> item_wf i.
Proof. exact deserialize_wf. Qed.
Print Assumptions C17_item_decode_wf.
Theorem C17_item_count_bounded : forall bs i, deserialize bs = Some i -> (count_item i <= max_items)%nat.
Proof. exact deserialize_limits. Qed.
Print Assumptions C17_item_count_bounded.

(* decode_canonical: an accepted input within MaxSize re-serialises (never longer) to bytes that decode to the same item *)
Theorem C17_item_decode_canonical : forall bs i,
  bytes_ok bs -> Z.of_nat (length bs) <= max_size -> deserialize bs = Some i ->
  exists bs', serialize i = Some bs' /\ deserialize bs' = Some i /\ (length bs' <= length bs)%nat.
Proof. exact deserialize_canonical. Qed.
Print Assumptions C17_item_decode_canonical.

(* decode_total: fuel beyond the input length changes nothing — a None is a rejection, never "out of fuel";
   every successful decode consumes input and stays within the budget *)
Theorem C17_item_decode_total : forall prot f f' lim bs,
  (length bs < f)%nat -> (length bs < f')%nat -> read_item prot f lim bs = read_item prot f' lim bs.
Proof. exact read_item_fuel_enough. Qed.
Print Assumptions C17_item_decode_total.
Theorem C17_item_decode_budget : forall prot f lim bs i lim' rest,
  read_item prot f lim bs = Some (i, lim', rest) -> (lim' + count_item i <= lim)%nat /\ (length rest < length bs)%nat.
Proof. exact read_item_budget. Qed.
Print Assumptions C17_item_decode_budget.

(* non-vacuity: a Map with Integer, Boolean and ByteString keys holding an Array of a Struct and -2^255 *)
Example C17_item_example : item_wf ex_item /\ deserialize (enc_item ex_item) = Some ex_item /\ count_item ex_item = 17%nat.
Proof. split; [exact ex_item_wf|]. split; vm_compute; reflexivity. Qed.

(* ================= extension round: MPT nodes, state root, execution results, NEF, P2P ================= *)

(* ---------- MPT node encodings (pkg/core/mpt), for every node hash function of 32 bytes ---------- *)
(* decode_encode for canonical nodes (children are references or empty: all the encoder ever writes) *)
Theorem C17_mptnode_decode_encode : forall H : list Z -> list Z, (forall b, length (H b) = 32%nat) ->
  forall n f d rest, mnode_wf n -> mnode_canonical n -> (2 <= f)%nat -> d + node_levels n <= 137 ->
  read_node f d (write_node H n ++ rest) = Some (n, rest).
Proof. exact node_decode_encode. Qed.
Print Assumptions C17_mptnode_decode_encode.
(* for ANY well-formed node: decoding its encoding gives the node with its children replaced by their references *)
Theorem C17_mptnode_decode_collapse : forall H : list Z -> list Z, (forall b, length (H b) = 32%nat) ->
  forall n f d rest, mnode_wf n -> (2 <= f)%nat -> d + node_levels n <= 137 ->
  read_node f d (write_node H n ++ rest) = Some (collapse1 H n, rest).
Proof. exact node_decode_collapse. Qed.
Print Assumptions C17_mptnode_decode_collapse.
(* decode_wf with the nesting limit (maxPathLength) and the allocation bounds of keys and values inside mnode_wf *)
Theorem C17_mptnode_decode_wf : forall f d bs n rest, bytes_ok bs -> read_node f d bs = Some (n, rest) ->
  mnode_wf n /\ bytes_ok rest /\ (length rest < length bs)%nat /\ Z.of_nat (mnode_depth n) + d <= 137.
Proof. exact node_decode_wf. Qed.
Print Assumptions C17_mptnode_decode_wf.
(* decode_canonical: inline children are ACCEPTED by the decoder (F8) but the re-encoding carries references only;
   the hash - identity of a node - is that of the canonical form *)
Theorem C17_mptnode_decode_canonical : forall H : list Z -> list Z, (forall b, length (H b) = 32%nat) ->
  forall bs n rest rest', bytes_ok bs -> decode_node bs = Some (n, rest) ->
  decode_node (write_node H n ++ rest') = Some (collapse1 H n, rest').
Proof. exact node_decode_canonical. Qed.
Print Assumptions C17_mptnode_decode_canonical.
Theorem C17_mptnode_hash_content_only : forall (H : list Z -> list Z) n, node_hash H (collapse1 H n) = node_hash H n.
Proof. exact node_hash_collapse1. Qed.
Print Assumptions C17_mptnode_hash_content_only.
Theorem C17_mptnode_reencoding_bound : forall H : list Z -> list Z, (forall b, length (H b) = 32%nat) ->
  forall f d bs n rest, bytes_ok bs -> read_node f d bs = Some (n, rest) ->
  (length (write_node H n) + length rest <= length bs + 32 * inline_count n)%nat.
Proof. exact node_reencoding_bound. Qed.
Print Assumptions C17_mptnode_reencoding_bound.
Theorem C17_mptnode_decode_total : forall f f' d bs, (length bs < f)%nat -> (length bs < f')%nat -> read_node f d bs = read_node f' d bs.
Proof. exact node_decode_total. Qed.
Print Assumptions C17_mptnode_decode_total.
Theorem C17_mptnode_size_eq : forall H : list Z -> list Z, (forall b, length (H b) = 32%nat) ->
  forall n, mnode_wf n -> (forall k nx, n = MExt k nx -> nx <> MEmpty) -> node_size n + 1 = Z.of_nat (length (write_node H n)).
Proof. exact node_size_eq. Qed.
Print Assumptions C17_mptnode_size_eq.
(* the byte-level codec and the trie model of C10/C20 (coq/Trie/Model.v) speak about the same bytes; the exclusion is
   the footprint of F19 (the trie model follows Go's PutVarUint at length 65535) *)
Theorem C17_node_codec_is_trie_enc : forall (H : list N -> list N) t, trie_wf t -> no_leaf_65535 t ->
  map Z.of_N (NG.Trie.Model.enc H t) = write_node (HZ H) (of_trie t).
Proof. exact node_codec_is_trie_enc. Qed.
Print Assumptions C17_node_codec_is_trie_enc.
Theorem C17_node_decoder_is_trie_decode : forall f d bs,
  option_map (fun p => (to_trie (fst p), map Z.to_N (snd p))) (read_node f (Z.of_N d) (map Z.of_N bs)) = NG.Trie.Model.decode f d bs.
Proof. exact node_decoder_is_trie_decode. Qed.
Print Assumptions C17_node_decoder_is_trie_decode.

(* ---------- state.MPTRoot ---------- *)
Theorem C17_mptroot_decode_encode : codec_ok mptroot_wf write_mptroot read_mptroot.
Proof. exact mptroot_decode_encode. Qed.
Print Assumptions C17_mptroot_decode_encode.
Theorem C17_mptroot_decode_wf : dec_wf mptroot_wf read_mptroot.
Proof. exact mptroot_decode_wf. Qed.
Print Assumptions C17_mptroot_decode_wf.
Theorem C17_mptroot_decode_canonical : forall bs r, bytes_ok bs -> decode_all read_mptroot bs = Some r ->
  decode_all read_mptroot (write_mptroot r) = Some r /\ mptroot_wf r /\ (length (write_mptroot r) <= length bs)%nat.
Proof. exact mptroot_whole_canonical. Qed.
Print Assumptions C17_mptroot_decode_canonical.
Theorem C17_mptroot_decode_total : dec_consumes read_mptroot.
Proof. exact mptroot_consumes. Qed.
Print Assumptions C17_mptroot_decode_total.
Theorem C17_mptroot_size_eq : forall r, mptroot_wf r -> Z.of_nat (length (write_mptroot r)) = 37 + array_size witness_size (rwitness r).
Proof. exact mptroot_size_eq. Qed.
Print Assumptions C17_mptroot_size_eq.
(* the hashed part is a function of version, index and root only: the witness encoding does not enter the identity *)
Theorem C17_mptroot_hash_content_only : forall bs1 bs2 r1 r2 rest1 rest2,
  read_mptroot bs1 = Some (r1, rest1) -> read_mptroot bs2 = Some (r2, rest2) ->
  rversion r1 = rversion r2 -> rindex r1 = rindex r2 -> rroot r1 = rroot r2 ->
  write_mptroot_unsigned r1 = write_mptroot_unsigned r2.
Proof. exact mptroot_hash_content_only. Qed.
Print Assumptions C17_mptroot_hash_content_only.

(* ---------- NotificationEvent / ContractInvocation / AppExecResult (on top of the item codec, protected mode) ---------- *)
Theorem C17_item_protected_decode_encode : forall i, item_wf_p i -> (count_item i <= max_items)%nat -> deserialize_gen true (enc_item i) = Some i.
Proof. exact deserialize_p_enc. Qed.
Print Assumptions C17_item_protected_decode_encode.
Theorem C17_item_protected_total : forall i,
  serialize_prot i = if (count_item i <=? max_items)%nat && (Z.of_nat (length (enc_item i)) <=? max_size) then enc_item i else [255].
Proof. exact serialize_prot_total. Qed.
Print Assumptions C17_item_protected_total.
Theorem C17_notification_decode_encode : forall v bs rest, write_notification v = Some bs -> notification_wf v ->
  read_notification (bs ++ rest) = Some (v, rest).
Proof. exact notification_decode_encode. Qed.
Print Assumptions C17_notification_decode_encode.
Theorem C17_notification_decode_wf : dec_wf notification_wf read_notification.
Proof. exact notification_decode_wf. Qed.
Print Assumptions C17_notification_decode_wf.
Theorem C17_notification_decode_canonical : forall bs v rest rest', bytes_ok bs -> read_notification bs = Some (v, rest) -> notification_fits v ->
  exists bs', write_notification v = Some bs' /\ read_notification (bs' ++ rest') = Some (v, rest') /\ (length bs' + length rest <= length bs)%nat.
Proof. exact notification_decode_canonical. Qed.
Print Assumptions C17_notification_decode_canonical.
Theorem C17_invocation_decode_encode : codec_ok invocation_wf write_invocation read_invocation.
Proof. exact invocation_decode_encode. Qed.
Print Assumptions C17_invocation_decode_encode.
Theorem C17_aer_decode_encode : forall a bs rest, write_aer a = Some bs -> aer_wf a -> Forall item_fits (astack a) ->
  read_aer (bs ++ rest) = Some (a, rest).
Proof. exact aer_decode_encode. Qed.
Print Assumptions C17_aer_decode_encode.
Theorem C17_aer_decode_wf : dec_wf aer_wf read_aer.
Proof. exact aer_decode_wf. Qed.
Print Assumptions C17_aer_decode_wf.
Theorem C17_aer_decode_canonical : forall bs a rest rest', bytes_ok bs -> read_aer bs = Some (a, rest) -> aer_fits a ->
  exists bs', write_aer a = Some bs' /\ read_aer (bs' ++ rest') = Some (a, rest') /\ (length bs' + length rest <= length bs)%nat.
Proof. exact aer_decode_canonical. Qed.
Print Assumptions C17_aer_decode_canonical.
Theorem C17_aer_decode_total : dec_consumes read_aer.
Proof. exact aer_consumes. Qed.
Print Assumptions C17_aer_decode_total.
Theorem C17_aer_stack_bounded : forall bs a rest, read_aer bs = Some (a, rest) -> (length (astack a) <= max_items)%nat.
Proof. exact aer_stack_bounded. Qed.
Print Assumptions C17_aer_stack_bounded.

(* ---------- NEF file, for every checksum function with values below 2^32 ---------- *)
Theorem C17_nef_decode_encode : forall checksum : list Z -> Z, (forall b, 0 <= checksum b < 2 ^ 32) ->
  forall f rest, nef_wf checksum f -> read_nef checksum (write_nef f ++ rest) = Some (f, rest).
Proof. exact nef_decode_encode. Qed.
Print Assumptions C17_nef_decode_encode.
Theorem C17_nef_decode_wf : forall (checksum : list Z -> Z) bs f rest, bytes_ok bs -> read_nef checksum bs = Some (f, rest) ->
  nef_wf checksum f /\ bytes_ok rest.
Proof. exact nef_decode_wf. Qed.
Print Assumptions C17_nef_decode_wf.
Theorem C17_nef_decode_canonical : forall checksum : list Z -> Z, (forall b, 0 <= checksum b < 2 ^ 32) ->
  forall bs f rest rest', bytes_ok bs -> read_nef checksum bs = Some (f, rest) -> read_nef checksum (write_nef f ++ rest') = Some (f, rest').
Proof. exact nef_canonical. Qed.
Print Assumptions C17_nef_decode_canonical.
Theorem C17_nef_decode_total : forall checksum : list Z -> Z, dec_consumes (read_nef checksum).
Proof. exact nef_consumes. Qed.
Print Assumptions C17_nef_decode_total.
(* limits = allocation bounds of everything the decoder accepts *)
Theorem C17_nef_limits : forall (checksum : list Z -> Z) bs f rest, bytes_ok bs -> read_nef checksum bs = Some (f, rest) ->
  Z.of_nat (length (nscript f)) <= 131070 /\ Z.of_nat (length (nsource f)) <= 256
  /\ Forall (fun t => Z.of_nat (length (kmethod t)) <= 32) (ntokens f)
  /\ Z.of_nat (length (ncompiler f)) <= 64 /\ Z.of_nat (length (ntokens f)) <= 16777216.
Proof. exact nef_limits. Qed.
Print Assumptions C17_nef_limits.
Theorem C17_nef_checksum_detects : forall (checksum : list Z -> Z) bs f rest,
  read_nef checksum bs = Some (f, rest) -> nchecksum f = checksum (write_nef_body f).
Proof. exact nef_checksum_detects. Qed.
Print Assumptions C17_nef_checksum_detects.

(* ---------- P2P payloads that are pure data, the extensible envelope, the frame ---------- *)
Theorem C17_version_decode_encode : codec_ok version_wf write_version read_version.
Proof. exact version_decode_encode. Qed.
Print Assumptions C17_version_decode_encode.
Theorem C17_version_decode_wf : dec_wf version_wf read_version.
Proof. exact version_decode_wf. Qed.
Print Assumptions C17_version_decode_wf.
Theorem C17_addrlist_decode_encode : codec_ok addrlist_wf write_addrlist read_addrlist.
Proof. exact addrlist_decode_encode. Qed.
Print Assumptions C17_addrlist_decode_encode.
Theorem C17_addrlist_decode_wf : dec_wf addrlist_wf read_addrlist.
Proof. exact addrlist_decode_wf. Qed.
Print Assumptions C17_addrlist_decode_wf.
Theorem C17_inventory_decode_encode : codec_ok inventory_wf write_inventory read_inventory.
Proof. exact inventory_decode_encode. Qed.
Print Assumptions C17_inventory_decode_encode.
Theorem C17_inventory_decode_wf : dec_wf inventory_wf read_inventory.
Proof. exact inventory_decode_wf. Qed.
Print Assumptions C17_inventory_decode_wf.
Theorem C17_getblocks_decode_encode : codec_ok getblocks_wf write_getblocks read_getblocks.
Proof. exact getblocks_decode_encode. Qed.
Print Assumptions C17_getblocks_decode_encode.
Theorem C17_getbyindex_decode_encode : codec_ok getbyindex_wf write_getbyindex read_getbyindex.
Proof. exact getbyindex_decode_encode. Qed.
Print Assumptions C17_getbyindex_decode_encode.
Theorem C17_headers_decode_encode : forall sr, codec_ok (headers_wf sr) (write_headers sr) (read_headers sr).
Proof. exact headers_decode_encode. Qed.
Print Assumptions C17_headers_decode_encode.
Theorem C17_headers_decode_wf : forall sr, dec_wf (headers_wf sr) (read_headers sr).
Proof. exact headers_decode_wf. Qed.
Print Assumptions C17_headers_decode_wf.
Theorem C17_mptdata_count_bounded : forall bs l rest, read_mptdata bs = Some (l, rest) -> (length l + length rest < length bs)%nat.
Proof. exact mptdata_count_bounded. Qed.
Print Assumptions C17_mptdata_count_bounded.
Theorem C17_extensible_decode_encode : codec_ok extensible_wf write_extensible read_extensible.
Proof. exact extensible_decode_encode. Qed.
Print Assumptions C17_extensible_decode_encode.
Theorem C17_extensible_decode_wf : dec_wf extensible_wf read_extensible.
Proof. exact extensible_decode_wf. Qed.
Print Assumptions C17_extensible_decode_wf.
Theorem C17_extensible_decode_canonical : forall bs v rest rest', bytes_ok bs -> read_extensible bs = Some (v, rest) ->
  read_extensible (write_extensible v ++ rest') = Some (v, rest').
Proof. exact extensible_canonical. Qed.
Print Assumptions C17_extensible_decode_canonical.

(* the frame: compression is an abstract function; only [decompress_sane] (what is decompressed from at most 32 MB of
   well-formed bytes is well-formed and at most 32 MB, as network.decompress enforces) is asked of it *)
Theorem C17_frame_decode_encode : forall decompress sr f rest, frame_wf sr f -> Z.even (fflags f) = true ->
  read_frame decompress sr (write_frame sr f ++ rest) = Some (f, rest).
Proof. exact frame_decode_encode. Qed.
Print Assumptions C17_frame_decode_encode.
Theorem C17_frame_decode_encode_compressed : forall compress decompress, (forall x, decompress (compress x) = Some x) ->
  forall sr f rest, frame_wf sr f -> fpayload f <> PNull -> (1 <= length (compress (write_payload sr (fpayload f))))%nat ->
  Z.of_nat (length (compress (write_payload sr (fpayload f)))) <= max_payload_size ->
  read_frame decompress sr (write_frame_compressed compress sr f ++ rest) = Some (Frame (clear_compressed (fflags f) + 1) (fcmd f) (fpayload f), rest).
Proof. exact frame_decode_encode_compressed. Qed.
Print Assumptions C17_frame_decode_encode_compressed.
(* decode_canonical: whatever compressed, padded or non-minimal form was received, the uncompressed re-encoding decodes
   to the same command and payload *)
Theorem C17_frame_decode_canonical : forall decompress sr bs f rest rest', bytes_ok bs -> decompress_sane decompress ->
  read_frame decompress sr bs = Some (f, rest) ->
  frame_wf sr f /\ read_frame decompress sr (write_frame sr f ++ rest') = Some (Frame (clear_compressed (fflags f)) (fcmd f) (fpayload f), rest').
Proof. exact frame_canonical. Qed.
Print Assumptions C17_frame_decode_canonical.
(* allocation: the announced length is at most 32 MB and is backed by input bytes *)
Theorem C17_frame_alloc_bounded : forall decompress sr bs f rest, read_frame decompress sr bs = Some (f, rest) ->
  exists l, frame_length bs = Some l /\ l <= max_payload_size /\ (Z.to_nat l + length rest + 3 <= length bs)%nat.
Proof. exact frame_alloc_bounded. Qed.
Print Assumptions C17_frame_alloc_bounded.
Theorem C17_frame_decode_total : forall decompress sr, dec_consumes (read_frame decompress sr).
Proof. exact frame_consumes. Qed.
Print Assumptions C17_frame_decode_total.
