(* C12 - the VM is total, bounded and memory-safe on every script.
   Statements only; every proof is [exact lemma]. *)
From NG Require Import VM.Model VM.Total VM.LimitsData VM.Limits VM.Reach VM.Static VM.StaticProofs VM.RefsFlat VM.RefsFlatOps VM.RefsFlatStep.
Open Scope Z_scope.

(* the premise on the price table generated from pkg/core/fee: every opcode costs at least one unit, except the
   ones that stop the VM or pop a context (today: RET, ABORT, ABORTMSG, SYSCALL) *)
Theorem C12_price_table_ok : forall o, price_ok o = true.
Proof. exact price_table_ok. Qed.
Print Assumptions C12_price_table_ok.

(* totality: under a finite gas limit and a price factor >= 1 every execution ends in HALT or FAULT within
   2*(limit - consumed) + depth + 1 instructions (the model has no stuck state: step is a total function) *)
Theorem C12_run_total : forall s,
  0 <= s_limit s /\ 1 <= s_base s /\ s_gas s <= s_limit s ->
  match run (Z.to_nat (2 * (s_limit s - s_gas s) + depth s) + 1) s with Running _ => False | _ => True end.
Proof. exact run_total. Qed.
Print Assumptions C12_run_total.

(* HALT implies consumed <= limit *)
Theorem C12_gas_bound : forall n s s',
  0 <= s_limit s /\ 1 <= s_base s /\ s_gas s <= s_limit s ->
  run n s = Halted s' -> s_gas s' <= s_limit s /\ s_limit s' = s_limit s.
Proof. exact gas_bound. Qed.
Print Assumptions C12_gas_bound.

(* the limits hold after every instruction that does not FAULT: item counter <= MaxStackSize, integers within
   256 bits, byte strings and buffers <= MaxItemSize (everywhere: stacks, slots, heap, pending exception),
   <= MaxInvocationStackSize contexts, <= MaxTryNestingDepth try blocks per context *)
Theorem C12_step_limits : forall s,
  limits_ok s ->
  match step s with
  | Running s' => limits_ok s' /\ s_refs s' <= MaxStackSize
  | Halted s' => limits_ok s' /\ s_refs s' <= MaxStackSize
  | Faulted _ => True
  end.
Proof. exact step_limits. Qed.
Print Assumptions C12_step_limits.

Theorem C12_run_limits : forall n prog sid base limit,
  match run n (init_state prog sid base limit) with
  | Running s' => limits_ok s'
  | Halted s' => limits_ok s' /\ s_refs s' <= MaxStackSize
  | Faulted _ => True
  end.
Proof. exact run_limits_init. Qed.
Print Assumptions C12_run_limits.

(* what limits_ok says, spelled out on the executing context, on integers, byte strings and buffers *)
Theorem C12_limits_ok_meaning : forall s, limits_ok s ->
  depth s <= MaxInvocationStackSize /\ zlen (f_try (s_fr s)) <= MaxTryNestingDepth /\
  Forall size_ok (final_stack s) /\ heap_size_ok (s_heap s).
Proof. exact limits_ok_meaning. Qed.
Print Assumptions C12_limits_ok_meaning.
Theorem C12_size_ok_int : forall z, size_ok (IInt z) <-> - 2 ^ 255 <= z < 2 ^ 255.
Proof. exact size_ok_int. Qed.
Print Assumptions C12_size_ok_int.
Theorem C12_size_ok_bytes : forall bs, size_ok (IBytes bs) <-> zlen bs <= MaxItemSize.
Proof. exact size_ok_bytes. Qed.
Print Assumptions C12_size_ok_bytes.
Theorem C12_size_ok_buffer : forall h l bs, heap_size_ok h -> hget h l = Some (CBuf bs) -> zlen bs <= MaxItemSize.
Proof. exact heap_size_ok_buf. Qed.
Print Assumptions C12_size_ok_buffer.

(* the static script check (model of scparser.IsScriptCorrect, tied to it by the correspondence): a script that passes it
   never stands at an offset that is not one of the instruction boundaries the check found, or the end of the script *)
Theorem C12_static_check_sound : forall prog sid base limit n s,
  script_correct prog = true ->
  run n (init_state prog sid base limit) = Running s ->
  In (f_ip (s_fr s)) (boundaries prog) \/ f_ip (s_fr s) = zlen prog.
Proof. exact static_check_sound. Qed.
Print Assumptions C12_static_check_sound.

(* binary fuel = unary fuel (the correspondence runs use runp) *)
Theorem C12_runp_is_run : forall p s, runp p s = run (Pos.to_nat p) s.
Proof. exact runp_run. Qed.
Print Assumptions C12_runp_is_run.

(* the item counter never under-counts what a walk of stacks and slots finds: full statement (not yet proved for
   the compound-type instructions; tied to the implementation by the c12 correspondence at every step) *)
Definition C12_refs_never_undercount_statement : Prop :=
  forall n prog sid base limit s,
    (run n (init_state prog sid base limit) = Running s \/ run n (init_state prog sid base limit) = Halted s) ->
    reach_count s <= s_refs s.

(* PARTIAL towards C12_refs_never_undercount_statement.  Proved: along an execution of one script, as long as none of the
   nine compound-creating instructions (NEWARRAY0 NEWARRAY NEWARRAY_T NEWSTRUCT0 NEWSTRUCT NEWMAP PACK PACKSTRUCT PACKMAP)
   has been executed - so no Array/Struct/Map exists - the item counter is exact (= the walk) after every instruction and
   at HALT, through every other instruction incl. slots, calls, exceptions and unloading.
   Missing: the compound-type instructions (the in-degree invariant of the per-compound counts); for those the
   inequality is checked on the real VM and on the model at every step of every generated execution (c12). *)
Theorem C12_refs_exact_flat_partial : forall n s,
  flat_inv s -> run_no_creator n s ->
  match run n s with
  | Running s' => reach_count s' = s_refs s'
  | Halted s' => reach_count s' = s_refs s'
  | Faulted _ => True
  end.
Proof. exact refs_exact_flat. Qed.
Print Assumptions C12_refs_exact_flat_partial.

(* its hypotheses hold, e.g., for INITSLOT 1 0; PUSH5; STLOC0; LDLOC0; PUSH3; ADD; CALL +3; RET; NOP; INC; RET *)
Example C12_refs_exact_flat_example :
  let s := init_state [87; 1; 0; 21; 112; 104; 19; 158; 52; 3; 64; 33; 156; 64] 1%N 1 100000 in
  flat_inv s /\ run_no_creator 20 s /\
  match run 20 s with Halted s' => final_stack s' = [IInt 9] /\ s_refs s' = 1 | _ => False end.
Proof.
  cbv zeta. split; [apply init_flat; repeat constructor; lia|].
  split; vm_compute; repeat split; try reflexivity.
Qed.

(* non-vacuity of the static check: PUSHA +7 / CALLA into a subroutine passes; the same with the pointer aimed into the
   middle of the PUSHA operand does not *)
Example C12_static_examples :
  script_correct [10; 7; 0; 0; 0; 54; 64; 17; 64] = true /\ boundaries [10; 7; 0; 0; 0; 54; 64; 17; 64] = [8; 7; 6; 5; 0] /\
  script_correct [10; 2; 0; 0; 0; 54; 64; 17; 64] = false.
Proof. vm_compute. repeat split; reflexivity. Qed.

(* non-vacuity: a looping script under a limit terminates by FAULT; a recursive one by the invocation limit *)
Example C12_examples :
  gas_inv (init_state [34; 0] 1%N 1 1000) /\
  run 600 (init_state [34; 0] 1%N 1 1000) = Faulted 1002 /\
  (exists g, run 2000 (init_state [52; 0] 1%N 1 10000000) = Faulted g) /\
  match run 10 (init_state [18; 19; 158] 1%N 1 1000) with Halted s => limits_ok s /\ reach_count s = 1 /\ s_refs s = 1 | _ => False end.
Proof.
  split; [repeat split; vm_compute; congruence|]. split; [vm_compute; reflexivity|].
  split; [eexists; vm_compute; reflexivity|].
  pose proof (C12_run_limits 10 [18; 19; 158] 1%N 1 1000) as L.
  destruct (run 10 (init_state [18; 19; 158] 1%N 1 1000)) eqn:E; try (vm_compute in E; discriminate).
  split; [apply L|]. vm_compute in E. inv E. split; vm_compute; reflexivity.
Qed.
