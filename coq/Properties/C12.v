(* C12 - the VM is total, bounded and memory-safe on every script.
   Statements only; every proof is [exact lemma]. *)
From NG Require Import VM.Model VM.Total VM.LimitsData VM.Limits VM.Reach VM.Static VM.StaticProofs VM.RefsFlat VM.RefsFlatOps VM.RefsFlatStep
  VM.RefsInv VM.RefsMoves VM.RefsData VM.RefsOps VM.RefsComp VM.RefsShape VM.RefsExact VM.RefsExactOps VM.Loader VM.LoaderProofs VM.RefsStep.
Open Scope Z_scope.

(* the premise on the price table generated from pkg/core/fee: every opcode costs at least one unit, except the
   ones that stop the VM or pop a context (today: RET, ABORT, ABORTMSG, SYSCALL) *)
Theorem C12_price_table_ok : forall o, price_ok o = true.
Proof. exact price_table_ok. Qed.
Print Assumptions C12_price_table_ok.

(* totality: under a finite gas limit and a price factor >= 1 every execution ends in HALT or FAULT within
   2*(limit - consumed) + depth + 1 instructions (the model has no stuck state: step is a total function) *)
Theorem C12_run_total : forall s,
  0 <= s_limit s /\ 1 <= s_base s /\ s_gas s <= s_limit s ->
  match run (Z.to_nat (2 * (s_limit s - s_gas s) + depth s) + 1) s with Running _ => False | _ => True end.
Proof. exact run_total. Qed.
Print Assumptions C12_run_total.

(* HALT implies consumed <= limit *)
Theorem C12_gas_bound : forall n s s',
  0 <= s_limit s /\ 1 <= s_base s /\ s_gas s <= s_limit s ->
  run n s = Halted s' -> s_gas s' <= s_limit s /\ s_limit s' = s_limit s.
Proof. exact gas_bound. Qed.
Print Assumptions C12_gas_bound.

(* the gas limit is any finite limit, 0 included (C12_run_total and C12_gas_bound ask 0 <= limit only; a negative limit is the
   implementation's "no limit" and outside the property): under limit 0 the first priced instruction faults (PUSH1 costs
   1 unit; JMP 0 cannot spin), the empty script and RET (price 0) halt having consumed 0 *)
Example C12_gas_limit_zero_example :
  run 5 (init_state [17] 1%N 1 0) = Faulted 1 /\ run 5 (init_state [34; 0] 1%N 30 0) = Faulted 60 /\
  match run 5 (init_state [] 1%N 1 0) with Halted s => s_gas s = 0 | _ => False end /\
  match run 5 (init_state [64] 1%N 1 0) with Halted s => s_gas s = 0 | _ => False end /\
  match run 5 (init_state [17; 17; 158] 1%N 1 10) with Halted s => s_gas s = 10 | _ => False end /\
  run 5 (init_state [17; 17; 158] 1%N 1 9) = Faulted 10.
Proof. vm_compute. repeat split; reflexivity. Qed.

(* the limits hold after every instruction that does not FAULT: item counter <= MaxStackSize, integers within
   256 bits, byte strings and buffers <= MaxItemSize (everywhere: stacks, slots, heap, pending exception),
   <= MaxInvocationStackSize contexts, <= MaxTryNestingDepth try blocks per context *)
Theorem C12_step_limits : forall s,
  limits_ok s ->
  match step s with
  | Running s' => limits_ok s' /\ s_refs s' <= MaxStackSize
  | Halted s' => limits_ok s' /\ s_refs s' <= MaxStackSize
  | Faulted _ => True
  end.
Proof. exact step_limits. Qed.
Print Assumptions C12_step_limits.

Theorem C12_run_limits : forall n prog sid base limit,
  match run n (init_state prog sid base limit) with
  | Running s' => limits_ok s'
  | Halted s' => limits_ok s' /\ s_refs s' <= MaxStackSize
  | Faulted _ => True
  end.
Proof. exact run_limits_init. Qed.
Print Assumptions C12_run_limits.

(* what limits_ok says, spelled out on the executing context, on integers, byte strings and buffers *)
Theorem C12_limits_ok_meaning : forall s, limits_ok s ->
  depth s <= MaxInvocationStackSize /\ zlen (f_try (s_fr s)) <= MaxTryNestingDepth /\
  Forall size_ok (final_stack s) /\ heap_size_ok (s_heap s).
Proof. exact limits_ok_meaning. Qed.
Print Assumptions C12_limits_ok_meaning.
Theorem C12_size_ok_int : forall z, size_ok (IInt z) <-> - 2 ^ 255 <= z < 2 ^ 255.
Proof. exact size_ok_int. Qed.
Print Assumptions C12_size_ok_int.
Theorem C12_size_ok_bytes : forall bs, size_ok (IBytes bs) <-> zlen bs <= MaxItemSize.
Proof. exact size_ok_bytes. Qed.
Print Assumptions C12_size_ok_bytes.
Theorem C12_size_ok_buffer : forall h l bs, heap_size_ok h -> hget h l = Some (CBuf bs) -> zlen bs <= MaxItemSize.
Proof. exact heap_size_ok_buf. Qed.
Print Assumptions C12_size_ok_buffer.

(* the static script check (model of scparser.IsScriptCorrect, tied to it by the correspondence): a script that passes it
   never stands at an offset that is not one of the instruction boundaries the check found, or the end of the script *)
Theorem C12_static_check_sound : forall prog sid base limit n s,
  script_correct prog = true ->
  run n (init_state prog sid base limit) = Running s ->
  In (f_ip (s_fr s)) (boundaries prog) \/ f_ip (s_fr s) = zlen prog.
Proof. exact static_check_sound. Qed.
Print Assumptions C12_static_check_sound.

(* the same check with a methods bit field, as Management.checkScriptAndMethods uses it (script_correct_m: the script passes
   and every method offset is one of the instruction offsets found): an execution entered at a method offset
   (LoadScript + Jump(offset), what a contract call does) never leaves the instruction boundaries either *)
Theorem C12_static_check_sound_methods : forall prog sid base limit methods m n s,
  script_correct_m prog methods = true -> In m methods ->
  run n (start_at prog sid base limit m) = Running s ->
  In (f_ip (s_fr s)) (boundaries prog) \/ f_ip (s_fr s) = zlen prog.
Proof. exact static_check_sound_methods. Qed.
Print Assumptions C12_static_check_sound_methods.

(* binary fuel = unary fuel (the correspondence runs use runp) *)
Theorem C12_runp_is_run : forall p s, runp p s = run (Pos.to_nat p) s.
Proof. exact runp_run. Qed.
Print Assumptions C12_runp_is_run.

(* ------------------------------------------------------------------------------------------------------------
   The item counter never under-counts what a walk of stacks and slots finds.

   Full statement: after every instruction of every execution of a script, and at HALT, reach_count <= refs.
   [prog] is a list of Z standing for the script bytes; the premise says they are bytes in so far as it matters
   (not negative) - without it the statement is false for the trivial reason shown in
   C12_refs_premise_needed_example (INITSSLOT with a "count byte" of -5).
   Scope here: the bare VM ([step]: SYSCALL / CALLT fault; several scripts: C12_refs_never_undercount_multi below), with REMOVE on a Map in the order of the
   repair F50 (fixes/F50-remove-map-entry-before-uncounting.diff): vm.go as found under-counts there, see notes/C12.md.
   ------------------------------------------------------------------------------------------------------------ *)
Definition C12_refs_never_undercount_statement : Prop :=
  forall n prog sid base limit s,
    Forall (fun b => 0 <= b) prog ->
    (run n (init_state prog sid base limit) = Running s \/ run n (init_state prog sid base limit) = Halted s) ->
    reach_count s <= s_refs s.

Theorem C12_refs_never_undercount : C12_refs_never_undercount_statement.
Proof. exact refs_never_undercount. Qed.
Print Assumptions C12_refs_never_undercount.

Example C12_refs_premise_needed_example :
  match run 1 (init_state [86; -5] 1%N 1 1000) with Running s => reach_count s = 0 /\ s_refs s = -5 | _ => False end.
Proof. vm_compute. split; reflexivity. Qed.

(* non-vacuity on a script that builds a cycle through a Map and removes the entry that closes it
   (NEWMAP DUP PUSH0 NEWARRAY0 DUP PUSH3 PICK APPEND SETITEM PUSH0 REMOVE PUSH1: the witness of F50) *)
Example C12_refs_cycle_example :
  match run 11 (init_state [200; 74; 16; 194; 74; 19; 77; 207; 208; 16; 210; 17] 1%N 1 100000) with
  | Running s => reach_count s = 0 /\ s_refs s = 0 /\ final_stack s = [] | _ => False end.
Proof. vm_compute. repeat split; reflexivity. Qed.

(* The proof goes through the in-degree invariant [sI] (VM/RefsStep.v, VM/RefsInv.v):
     for every compound l:   count(l) + 0 = (references to l from stacks, slots and leaked counts)
                                            + (references to l from compounds whose own count is > 0)
     refs                  = (number of stack and slot entries and leaked counts)
                             + (number of child references of compounds whose own count is > 0)
   It holds initially, is preserved by every instruction, and implies reach_count <= refs.  The steps are banked as
   separate theorems, instruction family by instruction family. *)

(* the invariant implies the inequality *)
Theorem C12_refs_invariant_sound : forall s, sI s -> reach_count s <= s_refs s.
Proof. exact sI_sound. Qed.
Print Assumptions C12_refs_invariant_sound.

Theorem C12_refs_invariant_init : forall prog sid base limit,
  Forall (fun b => 0 <= b) prog -> sI (init_state prog sid base limit).
Proof. exact init_sI. Qed.
Print Assumptions C12_refs_invariant_init.

(* family 1: every data instruction that does not touch a compound (constants, arithmetic, bitwise, comparison, splice,
   type tests, asserts, THROW, DROP..REVERSEN through compounds held on the stack, INITSLOT / LD* / ST* slots): the
   invariant is preserved with no leak.  [dI0 E d]: the invariant on the data view d of the executing context, E = the
   counted references held elsewhere *)
Theorem C12_refs_sound_basic : forall e op p d E,
  is_compound_op op = false -> Forall (fun b => 0 <= b) p -> dI0 E d -> dres_I E (exec_data e op p d).
Proof. exact exec_data_I_basic. Qed.
Print Assumptions C12_refs_sound_basic.

(* families 2-6: the compound instructions
     creation   NEWARRAY0 NEWSTRUCT0 NEWMAP NEWARRAY NEWARRAY_T NEWSTRUCT PACK PACKSTRUCT PACKMAP
     growth     APPEND (with Struct clone), REVERSEITEMS, CLEARITEMS, POPITEM
     readers    SIZE HASKEY PICKITEM KEYS CONVERT
     spreading  UNPACK VALUES (with Struct clones)
     removal    REMOVE (Array/Struct: vm.go's order; Map: the order of the repair F50), SETITEM
   and with them every data instruction: the invariant is preserved, possibly with more leaked counts Lk (SETITEM
   leaks when replacing an element frees the container it is stored into; an over-count, never an under-count) *)
Theorem C12_refs_sound_compound : forall e op p d E,
  Forall (fun b => 0 <= b) p -> dI0 E d -> exists Lk, dres_I (Lk ++ E) (exec_data e op p d).
Proof. exact exec_data_IL. Qed.
Print Assumptions C12_refs_sound_compound.

(* family 7: control - jumps, CALL / CALL_L / CALLA, RET and unloading (Slot.ClearRefs), TRY / ENDTRY / ENDFINALLY, THROW
   and exception unwinding through contexts; together with the above: every instruction *)
Theorem C12_refs_sound_control : forall cip op p s,
  sI s -> Forall (fun b => 0 <= b) p ->
  match exec_op no_sys cip op p s with XNext s' => sI s' | XHalt s' => sI s' | XFault => True end.
Proof. exact exec_op_sI. Qed.
Print Assumptions C12_refs_sound_control.

Theorem C12_refs_invariant_step : forall s,
  sI s -> match step s with Running s' => sI s' | Halted s' => sI s' | Faulted _ => True end.
Proof. exact step_sI. Qed.
Print Assumptions C12_refs_invariant_step.

(* the heap only grows and a location never changes between buffer and compound (keeps a pending exception well-formed
   while a finally block runs) *)
Theorem C12_heap_shape_monotone : forall e op p d,
  match exec_data e op p d with
  | DOk d' => same_shape (d_heap d) (d_heap d') | DThrow _ d' => same_shape (d_heap d) (d_heap d') | DFault => True end.
Proof. exact exec_data_shape. Qed.
Print Assumptions C12_heap_shape_monotone.

(* ------------------------------------------------------------------------------------------------------------
   The item accounting is exact as long as no cyclic structure was built.

     acyc h            no compound of the heap is reachable from itself: a rank exists that strictly increases along every
                       child reference (all cells of the model heap, also the ones nothing refers to any more)
     run_acyclic n s   acyc holds in every state the first n instructions pass through, incl. s and the state reached:
                       "no instruction ever closed a cycle" (a cycle never disappears unnoticed: it exists in some state)
   Same scope and premise as C12_refs_never_undercount.
   ------------------------------------------------------------------------------------------------------------ *)
Theorem C12_refs_exact_acyclic : forall n prog sid base limit,
  Forall (fun b => 0 <= b) prog -> run_acyclic n (init_state prog sid base limit) ->
  match run n (init_state prog sid base limit) with
  | Running s => reach_count s = s_refs s
  | Halted s => reach_count s = s_refs s
  | Faulted _ => True
  end.
Proof. exact refs_exact_acyclic. Qed.
Print Assumptions C12_refs_exact_acyclic.

(* the hypothesis can be decided: acycb computes ranks by relaxation and checks them *)
Theorem C12_acyclic_check_sound : forall h, acycb h = true -> acyc h.
Proof. exact acycb_sound. Qed.
Print Assumptions C12_acyclic_check_sound.
Theorem C12_run_acyclic_check_sound : forall n s, run_acyclicb n s = true -> run_acyclic n s.
Proof. exact run_acyclicb_sound. Qed.
Print Assumptions C12_run_acyclic_check_sound.

(* non-vacuity: NEWARRAY0 DUP NEWARRAY0 DUP PUSH5 APPEND APPEND DUP PUSH0 PICKITEM DROP DUP PUSH0 NEWMAP SETITEM builds
   [[5]], reads the inner array, then replaces it by a new Map (a newer compound stored into an older one; the inner
   array is un-counted with its element): acyclic throughout, counter = walk = 2.  The witness of F50 is acyclic for
   8 instructions; the 9th (SETITEM) closes the cycle m = {0: [m]}. *)
Example C12_refs_exact_acyclic_example :
  let s := init_state [194; 74; 194; 74; 21; 207; 207; 74; 16; 206; 69; 74; 16; 200; 208] 1%N 1 100000 in
  run_acyclic 20 s /\
  match run 20 s with Halted s' => reach_count s' = 2 /\ s_refs s' = 2 /\ final_stack s' = [IArr 0%nat] | _ => False end /\
  let f50 := init_state [200; 74; 16; 194; 74; 19; 77; 207; 208; 16; 210; 17] 1%N 1 100000 in
  run_acyclicb 8 f50 = true /\ run_acyclicb 9 f50 = false.
Proof.
  cbv zeta. split; [apply run_acyclicb_sound; vm_compute; reflexivity|].
  split; vm_compute; repeat split; reflexivity.
Qed.

(* The proof: the in-degree invariant WITHOUT leaked counts ([sIk []]) is preserved by every instruction that starts on an
   acyclic heap, and on an acyclic heap it makes the walk equal to the counter.  Banked pieces: *)

(* on an acyclic heap every compound with a count > 0 is reachable from a root, the walk visits every reachable compound
   once and completes within its fuel: walk = counter *)
Theorem C12_refs_exact_walk : forall h refs X R,
  G h refs [] X -> acyc h -> (forall it, In it R -> In it X) -> (forall it, In it X -> In it R) -> zlen R = zlen X ->
  reach_from h R = refs.
Proof. exact G_exact. Qed.
Print Assumptions C12_refs_exact_walk.

Theorem C12_refs_exact_invariant : forall s, sIk [] s -> acyc (s_heap s) -> reach_count s = s_refs s.
Proof. exact sIk_exact. Qed.
Print Assumptions C12_refs_exact_invariant.

(* families 1-6 except SETITEM: no count is leaked on any heap, cyclic or not (basic: C12_refs_sound_basic; creation, growth,
   readers, spreading, REMOVE) *)
Theorem C12_refs_exact_data_noleak : forall e op p d E,
  op <> SETITEM -> Forall (fun b => 0 <= b) p -> dI0 E d -> dres_I E (exec_data e op p d).
Proof. exact exec_data_noleak. Qed.
Print Assumptions C12_refs_exact_data_noleak.

(* SETITEM (and with it every data instruction) started on an acyclic heap: un-counting the replaced element cannot reach
   the container it was stored in (Remove only touches what is reachable from the removed item), so nothing is leaked *)
Theorem C12_refs_exact_data : forall e op p d E,
  Forall (fun b => 0 <= b) p -> acyc (d_heap d) -> dI0 E d -> dres_I E (exec_data e op p d).
Proof. exact exec_data_E. Qed.
Print Assumptions C12_refs_exact_data.

(* family 7 (control) and every instruction: the leaked counts stay what they were *)
Theorem C12_refs_exact_control : forall Lk cip op p s,
  sIk Lk s -> acyc (s_heap s) -> Forall (fun b => 0 <= b) p ->
  match exec_op no_sys cip op p s with XNext s' => sIk Lk s' | XHalt s' => sIk Lk s' | XFault => True end.
Proof. exact exec_op_sIk_acyc. Qed.
Print Assumptions C12_refs_exact_control.

Theorem C12_refs_exact_step : forall Lk s,
  sIk Lk s -> acyc (s_heap s) ->
  match step s with Running s' => sIk Lk s' | Halted s' => sIk Lk s' | Faulted _ => True end.
Proof. exact step_sIk_acyc. Qed.
Print Assumptions C12_refs_exact_step.

(* ------------------------------------------------------------------------------------------------------------
   Several scripts on one VM (contract calls), exceptions unwinding across script boundaries.

   [sys_load scripts] (VM/Loader.v) is the SYSCALL handler that loads script k on top of the executing one the way the
   node does it (own evaluation stack or the shared one, return-value count); [run_with] runs with a handler.  The
   invariant [sIk] covers any number of suspended script contexts: the static slot of a script is released when its LAST
   context is unloaded - also when an exception unwinds several of its contexts at once -, RET moves the results onto
   the stack below, an exception that leaves a script un-counts what is still on that script's own stack (the repair
   F58; vm.go as found drops the stack and keeps the counts: over-count without a cycle, known finding).
   ------------------------------------------------------------------------------------------------------------ *)
Theorem C12_refs_never_undercount_multi : forall n prog scripts sid base limit s,
  Forall (fun b => 0 <= b) prog -> Forall (Forall (fun b => 0 <= b)) scripts ->
  (run_with (sys_load scripts) n (init_state prog sid base limit) = Running s \/
   run_with (sys_load scripts) n (init_state prog sid base limit) = Halted s) ->
  reach_count s <= s_refs s.
Proof. exact refs_never_undercount_multi. Qed.
Print Assumptions C12_refs_never_undercount_multi.

Theorem C12_refs_exact_acyclic_multi : forall n prog scripts sid base limit,
  Forall (fun b => 0 <= b) prog -> Forall (Forall (fun b => 0 <= b)) scripts ->
  run_acyclic_with (sys_load scripts) n (init_state prog sid base limit) ->
  match run_with (sys_load scripts) n (init_state prog sid base limit) with
  | Running s => reach_count s = s_refs s
  | Halted s => reach_count s = s_refs s
  | Faulted _ => True
  end.
Proof. exact refs_exact_acyclic_multi. Qed.
Print Assumptions C12_refs_exact_acyclic_multi.

(* the steps that are new with several scripts: loading, and unloading a context in every situation (same script; last
   context of a loaded script by RET, on a shared stack, by an exception; last context of all) *)
Theorem C12_refs_sound_load : forall Lk s prog sid rv,
  sIk Lk s -> Forall (fun b => 0 <= b) prog -> sIk Lk (load_script s prog sid rv).
Proof. exact load_script_sI. Qed.
Print Assumptions C12_refs_sound_load.
Theorem C12_refs_sound_unload : forall Lk b s,
  sIk Lk s -> match unload b s with UNext s' => sIk Lk s' | ULast s' => sIk Lk s' | UFault => True end.
Proof. exact unload_sI. Qed.
Print Assumptions C12_refs_sound_unload.
Theorem C12_refs_sound_unwind : forall Lk fuel s s', sIk Lk s -> unwind fuel s = Some s' -> sIk Lk s'.
Proof. exact unwind_sI. Qed.
Print Assumptions C12_refs_sound_unwind.
Theorem C12_refs_sound_step_with : forall sys s,
  sys_ok sys -> sI s -> match step_with sys s with Running s' => sI s' | Halted s' => sI s' | Faulted _ => True end.
Proof. exact step_with_sI. Qed.
Print Assumptions C12_refs_sound_step_with.

(* non-vacuity: the caller TRY ... SYSCALL 1 ... catch: DROP ... DEPTH; the callee has three counted static fields (one
   an Array), calls an internal function that has a Map in its local slot and throws there: two contexts of the callee
   are unwound at once, its static slot is released once; afterwards counter = walk = 1.  Second callee: PUSH1 PUSH2
   PUSH3 THROW (items left on the abandoned stack: the F58 witness): likewise 1 = 1 in the model. *)
Example C12_refs_multi_example :
  let entry := [59; 10; 0; 65; 1; 0; 0; 0; 61; 5; 69; 61; 2; 67] in
  let callee := [86; 3; 17; 96; 194; 97; 52; 3; 64; 87; 1; 0; 200; 112; 23; 58] in
  run_acyclic_with (sys_load [callee]) 30 (init_state entry 1%N 1 1000000) /\
  match run_with (sys_load [callee]) 30 (init_state entry 1%N 1 1000000) with
  | Halted s => reach_count s = 1 /\ s_refs s = 1 /\ final_stack s = [IInt 0] | _ => False end /\
  match run_with (sys_load [[17; 18; 19; 58]]) 30 (init_state entry 1%N 1 1000000) with
  | Halted s => reach_count s = 1 /\ s_refs s = 1 | _ => False end.
Proof.
  cbv zeta. split; [apply run_acyclicb_with_sound; vm_compute; reflexivity|].
  split; vm_compute; repeat split; reflexivity.
Qed.

(* releasing the static slot of a script while one of its contexts remains (per-context release) is refuted: in the state
   just before the THROW of the example above (callee: two contexts, three static fields) one extra release of the static
   slot leaves the counter at 2 while 5 references are reachable *)
Example C12_static_release_per_context_refuted :
  let entry := [59; 10; 0; 65; 1; 0; 0; 0; 61; 5; 69; 61; 2; 67] in
  let callee := [86; 3; 17; 96; 194; 97; 52; 3; 64; 87; 1; 0; 200; 112; 23; 58] in
  match run_with (sys_load [callee]) 12 (init_state entry 1%N 1 1000000) with
  | Running s => depth s = 3 /\ reach_count s = 5 /\ s_refs s = 5 /\
                 snd (clear_slot (sc_static (s_sc s)) (s_heap s, s_refs s)) = 2
  | _ => False end.
Proof. vm_compute. repeat split; reflexivity. Qed.

(* ------------------------------------------------------------------------------------------------------------
   The limits hold through EVERY context-pushing entry point.  [sys_load] (VM/Loader.v) pushes contexts the way
   vm.LoadScript, LoadScriptWithFlags, LoadScriptWithHash, LoadDynamicScript, LoadNEFMethod (without and with _initialize, with
   the callbacks natives pass, with arguments moved as System.Contract.Call does) and Call do; each of them checks the
   invocation stack size before pushing.  So every state an execution reaches - any scripts, any mix of entry points -
   keeps all the limits of C12_step_limits; in particular it has at most 1024 contexts.
   ------------------------------------------------------------------------------------------------------------ *)
Theorem C12_run_with_limits : forall scripts n s,
  limits_ok s ->
  match run_with (sys_load scripts) n s with
  | Running s' => limits_ok s'
  | Halted s' => limits_ok s' /\ s_refs s' <= MaxStackSize
  | Faulted _ => True
  end.
Proof. exact run_with_limits. Qed.
Print Assumptions C12_run_with_limits.

Theorem C12_depth_bounded_all_loaders : forall n prog scripts sid base limit s,
  (run_with (sys_load scripts) n (init_state prog sid base limit) = Running s \/
   run_with (sys_load scripts) n (init_state prog sid base limit) = Halted s) ->
  depth s <= MaxInvocationStackSize /\ zlen (f_try (s_fr s)) <= MaxTryNestingDepth.
Proof. exact depth_bounded_all_loaders. Qed.
Print Assumptions C12_depth_bounded_all_loaders.

(* a loader without the check is refuted: the script SYSCALL(LoadNEFMethod, itself) nests for ever; with the unchecked
   loaders 1030 instructions give 1031 contexts, with the checked ones the 1024th load FAULTs *)
Example C12_loader_without_check_refuted :
  let prog := [65; 1; 3; 0; 0] in
  match run_with (sys_load_unchecked [prog]) 1030 (init_state prog 1%N 1 100000000) with
  | Running s => depth s = 1031 | _ => False end /\
  match run_with (sys_load [prog]) 1030 (init_state prog 1%N 1 100000000) with Faulted _ => True | _ => False end.
Proof. vm_compute. repeat split; reflexivity. Qed.

(* A special case proved in the first round (from any compound-free state, not only the initial one): as long as none of the
   nine compound-creating instructions (NEWARRAY0 NEWARRAY NEWARRAY_T NEWSTRUCT0 NEWSTRUCT NEWMAP PACK PACKSTRUCT PACKMAP)
   has been executed - so no Array/Struct/Map exists - the item counter is exact (= the walk) after every instruction and
   at HALT, through every other instruction incl. slots, calls, exceptions and unloading.
   Subsumed for executions from the initial state by C12_refs_exact_acyclic. *)
Theorem C12_refs_exact_flat_partial : forall n s,
  flat_inv s -> run_no_creator n s ->
  match run n s with
  | Running s' => reach_count s' = s_refs s'
  | Halted s' => reach_count s' = s_refs s'
  | Faulted _ => True
  end.
Proof. exact refs_exact_flat. Qed.
Print Assumptions C12_refs_exact_flat_partial.

(* its hypotheses hold, e.g., for INITSLOT 1 0; PUSH5; STLOC0; LDLOC0; PUSH3; ADD; CALL +3; RET; NOP; INC; RET *)
Example C12_refs_exact_flat_example :
  let s := init_state [87; 1; 0; 21; 112; 104; 19; 158; 52; 3; 64; 33; 156; 64] 1%N 1 100000 in
  flat_inv s /\ run_no_creator 20 s /\
  match run 20 s with Halted s' => final_stack s' = [IInt 9] /\ s_refs s' = 1 | _ => False end.
Proof.
  cbv zeta. split; [apply init_flat; repeat constructor; lia|].
  split; vm_compute; repeat split; try reflexivity.
Qed.

(* non-vacuity of the static check: PUSHA +7 / CALLA into a subroutine passes; the same with the pointer aimed into the
   middle of the PUSHA operand does not *)
Example C12_static_examples :
  script_correct [10; 7; 0; 0; 0; 54; 64; 17; 64] = true /\ boundaries [10; 7; 0; 0; 0; 54; 64; 17; 64] = [8; 7; 6; 5; 0] /\
  script_correct [10; 2; 0; 0; 0; 54; 64; 17; 64] = false /\
  script_correct_m [10; 7; 0; 0; 0; 54; 64; 17; 64] [0; 7] = true /\ script_correct_m [10; 7; 0; 0; 0; 54; 64; 17; 64] [0; 3] = false.
Proof. vm_compute. repeat split; reflexivity. Qed.

(* non-vacuity: a looping script under a limit terminates by FAULT; a recursive one by the invocation limit *)
Example C12_examples :
  gas_inv (init_state [34; 0] 1%N 1 1000) /\
  run 600 (init_state [34; 0] 1%N 1 1000) = Faulted 1002 /\
  (exists g, run 2000 (init_state [52; 0] 1%N 1 10000000) = Faulted g) /\
  match run 10 (init_state [18; 19; 158] 1%N 1 1000) with Halted s => limits_ok s /\ reach_count s = 1 /\ s_refs s = 1 | _ => False end.
Proof.
  split; [repeat split; vm_compute; congruence|]. split; [vm_compute; reflexivity|].
  split; [eexists; vm_compute; reflexivity|].
  pose proof (C12_run_limits 10 [18; 19; 158] 1%N 1 1000) as L.
  destruct (run 10 (init_state [18; 19; 158] 1%N 1 1000)) eqn:E; try (vm_compute in E; discriminate).
  split; [apply L|]. vm_compute in E. inv E. split; vm_compute; reflexivity.
Qed.
