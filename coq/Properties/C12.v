(* C12 - the VM is total, bounded and memory-safe on every script.
   Statements only; every proof is [exact lemma]. *)
From NG Require Import VM.Model VM.Total VM.LimitsData VM.Limits VM.Reach.
Open Scope Z_scope.

(* the premise on the price table generated from pkg/core/fee: every opcode costs at least one unit, except the
   ones that stop the VM or pop a context (today: RET, ABORT, ABORTMSG, SYSCALL) *)
Theorem C12_price_table_ok : forall o, price_ok o = true.
Proof. exact price_table_ok. Qed.
Print Assumptions C12_price_table_ok.

(* totality: under a finite gas limit and a price factor >= 1 every execution ends in HALT or FAULT within
   2*(limit - consumed) + depth + 1 instructions (the model has no stuck state: step is a total function) *)
Theorem C12_run_total : forall s,
  0 <= s_limit s /\ 1 <= s_base s /\ s_gas s <= s_limit s ->
  match run (Z.to_nat (2 * (s_limit s - s_gas s) + depth s) + 1) s with Running _ => False | _ => True end.
Proof. exact run_total. Qed.
Print Assumptions C12_run_total.

(* HALT implies consumed <= limit *)
Theorem C12_gas_bound : forall n s s',
  0 <= s_limit s /\ 1 <= s_base s /\ s_gas s <= s_limit s ->
  run n s = Halted s' -> s_gas s' <= s_limit s /\ s_limit s' = s_limit s.
Proof. exact gas_bound. Qed.
Print Assumptions C12_gas_bound.

(* the limits hold after every instruction that does not FAULT: item counter <= MaxStackSize, integers within
   256 bits, byte strings and buffers <= MaxItemSize (everywhere: stacks, slots, heap, pending exception),
   <= MaxInvocationStackSize contexts, <= MaxTryNestingDepth try blocks per context *)
Theorem C12_step_limits : forall s,
  state_ok s ->
  match step s with
  | Running s' => state_ok s' /\ s_refs s' <= MaxStackSize
  | Halted s' => state_ok s' /\ s_refs s' <= MaxStackSize
  | Faulted _ => True
  end.
Proof. exact step_limits. Qed.
Print Assumptions C12_step_limits.

Theorem C12_run_limits : forall n prog sid base limit,
  match run n (init_state prog sid base limit) with
  | Running s' => state_ok s'
  | Halted s' => state_ok s' /\ s_refs s' <= MaxStackSize
  | Faulted _ => True
  end.
Proof. exact run_limits_init. Qed.
Print Assumptions C12_run_limits.

(* what state_ok says, spelled out on the executing context *)
Theorem C12_state_ok_meaning : forall s, state_ok s ->
  depth s <= MaxInvocationStackSize /\ zlen (f_try (s_fr s)) <= MaxTryNestingDepth /\
  Forall item_ok (final_stack s) /\ heap_ok (s_heap s).
Proof. exact state_ok_meaning. Qed.
Print Assumptions C12_state_ok_meaning.

(* binary fuel = unary fuel (the correspondence runs use runp) *)
Theorem C12_runp_is_run : forall p s, runp p s = run (Pos.to_nat p) s.
Proof. exact runp_run. Qed.
Print Assumptions C12_runp_is_run.

(* the item counter never under-counts what a walk of stacks and slots finds: full statement (not yet proved for
   the compound-type instructions; tied to the implementation by the c12 correspondence at every step) *)
Definition C12_refs_never_undercount_statement : Prop :=
  forall n prog sid base limit s,
    (run n (init_state prog sid base limit) = Running s \/ run n (init_state prog sid base limit) = Halted s) ->
    reach_count s <= s_refs s.

(* non-vacuity: a looping script under a limit terminates by FAULT; a recursive one by the invocation limit *)
Example C12_examples :
  gas_inv (init_state [34; 0] 1%N 1 1000) /\
  run 600 (init_state [34; 0] 1%N 1 1000) = Faulted 1002 /\
  (exists g, run 2000 (init_state [52; 0] 1%N 1 10000000) = Faulted g) /\
  match run 10 (init_state [18; 19; 158] 1%N 1 1000) with Halted s => state_ok s /\ reach_count s = 1 /\ s_refs s = 1 | _ => False end.
Proof.
  split; [repeat split; vm_compute; congruence|]. split; [vm_compute; reflexivity|].
  split; [eexists; vm_compute; reflexivity|].
  pose proof (C12_run_limits 10 [18; 19; 158] 1%N 1 1000) as L.
  destruct (run 10 (init_state [18; 19; 158] 1%N 1 1000)) eqn:E; try (vm_compute in E; discriminate).
  split; [apply L|]. vm_compute in E. inv E. split; vm_compute; reflexivity.
Qed.
