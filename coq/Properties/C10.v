(* C10 — the state trie is a canonical authenticated map.
   Statements only; every proof is [exact lemma].  The model is coq/Trie/Model.v (put, delete, get,
   traverse/seek/find, get_proof, verify_proof, enc/hash over an arbitrary hash function H).
   Theorems quantify over ALL tries in normal form / ALL operation sequences / ALL byte strings. *)
From Coq Require Import Sorted.
From NG Require Import Common.Tactics Trie.Model Trie.Lemmas Trie.PutDelete Trie.Unique Trie.Batch Trie.History
  Trie.Range Trie.Collapse Trie.Merkle Trie.Store Trie.StoreProofs Trie.StoreRC Trie.Frame.

(* ---------- byte keys are nibble paths (toNibbles), injectively ---------- *)

Theorem C10_to_nibbles : forall bs, Forall (fun b => (b < 256)%N) bs ->
  path_ok (to_nibbles bs) /\ from_nibbles (to_nibbles bs) = bs.
Proof. exact to_nibbles_spec. Qed.
Print Assumptions C10_to_nibbles.

(* ---------- Put / Delete: the content is updated like a finite map; the normal form of doc.go is kept ---------- *)

Theorem C10_put_content : forall t p v, NF t -> path_ok p ->
  forall q, content (put t p v) q = if path_eqb q p then Some v else content t q.
Proof. exact put_content. Qed.
Print Assumptions C10_put_content.

Theorem C10_put_NF : forall t p v, NF t -> path_ok p -> NF (put t p v).
Proof. exact put_NF. Qed.
Print Assumptions C10_put_NF.

Theorem C10_delete_content : forall t p, NF t ->
  forall q, content (delete t p) q = if path_eqb q p then None else content t q.
Proof. exact delete_content. Qed.
Print Assumptions C10_delete_content.

Theorem C10_delete_NF : forall t p, NF t -> NF (delete t p).
Proof. exact delete_NF. Qed.
Print Assumptions C10_delete_NF.

(* ---------- canonicity ---------- *)

(* two tries in normal form with the same content are the same tree *)
Theorem C10_NF_unique : forall t t', NF t -> NF t' -> (forall p, content t p = content t' p) -> t = t'.
Proof. exact NF_unique. Qed.
Print Assumptions C10_NF_unique.

(* PutBatch (batch.go: lcpMany, newSubTrieMany, addToBranch/stripBranch, mergeExtension) on a key-sorted
   duplicate-free batch = the fold of its puts and deletions *)
Theorem C10_batch_content : forall t kv, NF t -> kv_ok kv ->
  NF (put_batch t kv) /\ forall q, content (put_batch t kv) q = fbatch (content t) kv q.
Proof. exact put_batch_spec. Qed.
Print Assumptions C10_batch_content.

(* after any sequence of puts, deletes and batches the trie is in normal form and denotes the map the sequence describes *)
Theorem C10_run_spec : forall ops, Forall op_ok ops ->
  NF (run ops) /\ forall q, content (run ops) q = spec_run ops q.
Proof. exact run_spec. Qed.
Print Assumptions C10_run_spec.

(* any two operation sequences (singles and batches, any order) with the same final content: the same tree ... *)
Theorem C10_history_independent : forall ops1 ops2, Forall op_ok ops1 -> Forall op_ok ops2 ->
  (forall q, spec_run ops1 q = spec_run ops2 q) -> run ops1 = run ops2.
Proof. exact history_independent. Qed.
Print Assumptions C10_history_independent.

(* ... hence the same root, for every hash function *)
Theorem C10_root_history_independent : forall (H : bytes -> bytes) ops1 ops2,
  Forall op_ok ops1 -> Forall op_ok ops2 ->
  (forall q, spec_run ops1 q = spec_run ops2 q) -> root H (run ops1) = root H (run ops2).
Proof. exact root_history_independent. Qed.
Print Assumptions C10_root_history_independent.

(* the root after a history is the root of the fresh trie built from any listing of the final content *)
Theorem C10_root_equals_fresh_build : forall (H : bytes -> bytes) ops es,
  Forall op_ok ops -> Forall (fun e => path_ok (fst e)) es ->
  (forall q, spec_run (map (fun e => OPut (fst e) (snd e)) es) q = spec_run ops q) ->
  run ops = build es /\ root H (run ops) = root H (build es).
Proof. exact root_equals_fresh_build. Qed.
Print Assumptions C10_root_equals_fresh_build.

(* collapsing sub-tries into hash references does not change the root *)
Theorem C10_collapse_root : forall (H : bytes -> bytes) t d, root H (collapse H d t) = root H t.
Proof. exact collapse_root. Qed.
Print Assumptions C10_collapse_root.

(* ---------- reads and ordered range searches ---------- *)

Theorem C10_get_spec : forall t p, get t p = content t p.
Proof. exact get_spec. Qed.
Print Assumptions C10_get_spec.

(* [entries] lists exactly the content ... *)
Theorem C10_entries_content : forall t, NF t -> forall p v, In (p, v) (entries t) <-> content t p = Some v.
Proof. exact entries_content. Qed.
Print Assumptions C10_entries_content.

(* ... in strictly ascending key order *)
Theorem C10_entries_sorted : forall t, NF t -> StronglySorted lt_entry (entries t).
Proof. exact entries_sorted. Qed.
Print Assumptions C10_entries_sorted.

(* billet.traverse (as specified, i.e. with fixes/F3 applied), any start point, both directions:
   forward = the entries >= from ascending; backward = the entries <= from or extending from, descending *)
Theorem C10_traverse_spec : forall t, NF t -> forall pth from bw,
  traverse t pth from bw = map (prepend pth) (range (entries t) from bw).
Proof. exact traverse_spec. Qed.
Print Assumptions C10_traverse_spec.

(* TrieStore.Seek (with fixes/F3 and F25=F31 applied) = range query on the content *)
Theorem C10_seek_spec : forall t P S bw, NF t -> seek t P S bw = range_query (entries t) P S bw.
Proof. exact seek_spec. Qed.
Print Assumptions C10_seek_spec.

(* Trie.Find: forward range without the start key itself, at most maxn items *)
Theorem C10_find_spec : forall t P S from_nil maxn, NF t ->
  trie_find t P S from_nil maxn =
  let sel := range_query (entries t) P S false in
  firstn maxn (if from_nil then sel else filter (fun e => negb (path_eqb (fst e) (P ++ S))) sel).
Proof. exact find_spec. Qed.
Print Assumptions C10_find_spec.

(* ---------- Merkle proofs ---------- *)

(* keys and values within the limits Trie.Put enforces give node sizes the decoder accepts *)
Theorem C10_content_bounded : forall t, NF t -> content_bounded t -> bounded t.
Proof. exact content_bounded_bounded. Qed.
Print Assumptions C10_content_bounded.

(* completeness: the proof of a present key verifies to its value — or two different byte strings with the
   same double hash are exhibited.  No injectivity of H is assumed, only the digest length. *)
Theorem C10_proof_complete : forall (H : bytes -> bytes), (forall x, length (H x) = 32) ->
  forall t p v, NFne t -> bounded t -> content t p = Some v ->
  exists pr, get_proof H t p = Some pr /\ (verify_proof H (root H t) p pr = Some v \/ collision H).
Proof. exact proof_complete. Qed.
Print Assumptions C10_proof_complete.

(* soundness: for ANY list of byte strings, a value returned by verification under the root of t is the value
   t stores under that key — or a collision is exhibited *)
Theorem C10_proof_sound : forall (H : bytes -> bytes), (forall x, length (H x) = 32) ->
  forall t p proofs v, NFne t -> bounded t ->
  verify_proof H (root H t) p proofs = Some v -> content t p = Some v \/ collision H.
Proof. exact proof_sound. Qed.
Print Assumptions C10_proof_sound.

Theorem C10_proof_sound_absent : forall (H : bytes -> bytes), (forall x, length (H x) = 32) ->
  forall t p proofs v, NFne t -> bounded t -> content t p = None ->
  verify_proof H (root H t) p proofs = Some v -> collision H.
Proof. exact proof_sound_absent. Qed.
Print Assumptions C10_proof_sound_absent.

(* the root of the empty trie is 32 zero bytes: nothing verifies under it without a preimage of that *)
Theorem C10_proof_sound_empty : forall (H : bytes -> bytes) p proofs v,
  verify_proof H (root H Empty) p proofs = Some v -> exists a, H (H a) = repeat 0%N 32.
Proof. exact proof_sound_empty. Qed.
Print Assumptions C10_proof_sound_empty.

(* ---------- Flush, Collapse, lazy expansion, reload from the store (Trie/Store.v) ---------- *)

(* the decoder inverts the encoder: a node of a normal-form trie decodes to itself with its children as hash
   references, consuming exactly its encoding *)
Theorem C10_decode_enc : forall (H : bytes -> bytes), (forall x, length (H x) = 32) ->
  forall f t r, 1 <= f -> NFne t -> bounded t -> decode (S f) 0 (enc H t ++ r) = Some (shallow H t, r).
Proof. exact decode_shallow. Qed.
Print Assumptions C10_decode_enc.

(* Flush keeps the store well-keyed, stores every node of the trie, and keeps what was stored *)
Theorem C10_flush_store : forall (H : bytes -> bytes) st t, store_wf H st ->
  store_wf H (flush H t st) /\ stored H (flush H t st) t /\ (forall t', stored H st t' -> stored H (flush H t st) t').
Proof. exact flush_store. Qed.
Print Assumptions C10_flush_store.

(* Trie.Collapse d produces a partial collapse *)
Theorem C10_collapse_partial : forall (H : bytes -> bytes) t d, pcol H (collapse H d t) t.
Proof. exact pcol_collapse. Qed.
Print Assumptions C10_collapse_partial.

(* for a store that contains Flush of t: expanding ANY partial collapse of t gives t back, or two different byte
   strings with the same double hash are exhibited *)
Theorem C10_flush_then_resolve : forall (H : bytes -> bytes), (forall x, length (H x) = 32) ->
  forall st t, NF t -> bounded t -> store_wf H st -> stored H st t ->
  forall c fuel, pcol H c t -> height t + 1 <= fuel -> expand fuel st c = Some t \/ collision H.
Proof. exact flush_then_resolve. Qed.
Print Assumptions C10_flush_then_resolve.

(* Get / Put / Delete / PutBatch / GetProof / Seek on a partial collapse of t, fetching hash nodes from the store
   where trie.go, batch.go, proof.go and billet.go do, never fail and return what they return on t, modulo
   collapse; in particular the same root *)
Theorem C10_collapsed_ops_agree : forall (H : bytes -> bytes), (forall x, length (H x) = 32) ->
  forall st t, NF t -> bounded t -> store_wf H st -> stored H st t ->
  forall c fuel, pcol H c t -> height t + 1 <= fuel ->
  collision H \/
  ((forall p, sget fuel st c p = content t p) /\
   (forall p v, exists c', sput fuel st c p v = Some c' /\ pcol H c' (put t p v) /\ root H c' = root H (put t p v)) /\
   (forall p, exists c', sdelete fuel st c p = Some c' /\ pcol H c' (delete t p) /\ root H c' = root H (delete t p)) /\
   (forall kv, kv_ok kv -> exists c', sput_batch st c kv = Some c' /\ pcol H c' (put_batch t kv) /\ root H c' = root H (put_batch t kv)) /\
   (forall p, sget_proof H fuel st c p = get_proof H t p) /\
   (forall P S bw, sseek fuel st c P S bw = seek t P S bw) /\
   root H c = root H t).
Proof. exact collapsed_ops_agree. Qed.
Print Assumptions C10_collapsed_ops_agree.

(* reopening the trie from its root: HashNode(root) over the store answers every read, range search and proof as t
   does, expands to t, and updates continue with the right roots *)
Theorem C10_reload_from_root : forall (H : bytes -> bytes), (forall x, length (H x) = 32) ->
  forall st t, NF t -> bounded t -> store_wf H st -> stored H st t ->
  forall fuel, NFne t -> height t + 1 <= fuel ->
  collision H \/
  (expand fuel st (HashRef (root H t)) = Some t /\
   (forall p, sget fuel st (HashRef (root H t)) p = content t p) /\
   (forall p, sget_proof H fuel st (HashRef (root H t)) p = get_proof H t p) /\
   (forall P S bw, sseek fuel st (HashRef (root H t)) P S bw = seek t P S bw) /\
   (forall p v, exists c', sput fuel st (HashRef (root H t)) p v = Some c' /\ root H c' = root H (put t p v)) /\
   (forall p, exists c', sdelete fuel st (HashRef (root H t)) p = Some c' /\ root H c' = root H (delete t p)) /\
   (forall kv, kv_ok kv -> exists c', sput_batch st (HashRef (root H t)) kv = Some c' /\ root H c' = root H (put_batch t kv))).
Proof. exact reload_from_root. Qed.
Print Assumptions C10_reload_from_root.

(* ---------- resolution is by value: updates frame every other path (Trie/Frame.v) ---------- *)

(* an update below path p leaves the sub-trie at every path q that p does not pass through unchanged *)
Theorem C10_put_frames_other_paths : forall t p v q, NF t -> path_ok p -> is_prefix q p = false ->
  forall r, content (put t p v) (q ++ r) = content t (q ++ r).
Proof. exact put_frames_other_paths. Qed.
Print Assumptions C10_put_frames_other_paths.

Theorem C10_delete_frames_other_paths : forall t p q, NF t -> is_prefix q p = false ->
  forall r, content (delete t p) (q ++ r) = content t (q ++ r).
Proof. exact delete_frames_other_paths. Qed.
Print Assumptions C10_delete_frames_other_paths.

(* the same through the store, on any partial collapse (byte-identical sub-tries are hash nodes with EQUAL hashes):
   after a Put through one of them every key — read through whichever hash node — has the value of the map update *)
Theorem C10_lazy_put_then_get : forall (H : bytes -> bytes), (forall x, length (H x) = 32) ->
  forall st t, NF t -> bounded t -> store_wf H st -> stored H st t ->
  forall c fuel p v, pcol H c t -> path_ok p -> height t + 1 <= fuel ->
  collision H \/
  exists c', sput fuel st c p v = Some c' /\
             forall q fuel', height (put t p v) + 1 <= fuel' ->
               sget fuel' st c' q = if path_eqb q p then Some v else content t q.
Proof. exact lazy_put_then_get. Qed.
Print Assumptions C10_lazy_put_then_get.

Theorem C10_lazy_delete_then_get : forall (H : bytes -> bytes), (forall x, length (H x) = 32) ->
  forall st t, NF t -> bounded t -> store_wf H st -> stored H st t ->
  forall c fuel p, pcol H c t -> height t + 1 <= fuel ->
  collision H \/
  exists c', sdelete fuel st c p = Some c' /\
             forall q fuel', height (delete t p) + 1 <= fuel' ->
               sget fuel' st c' q = if path_eqb q p then None else content t q.
Proof. exact lazy_delete_then_get. Qed.
Print Assumptions C10_lazy_delete_then_get.

(* ---------- the cached view of the stored reference counters (ModeLatest / ModeGC), Trie/StoreRC.v ---------- *)

(* any sequence of addRef/removeRef bumps, reloads of nodes (getFromStore refreshing the cached counter, or not:
   sequences without RReload are included), flushes and flushed collapses, ending with a RFlush: every stored
   counter is the sum of the bumps of its hash *)
Theorem C10_rc_exact : forall evs x, rc_ok true rc_init (evs ++ [RFlush]) ->
  rc_table (rc_run true rc_init (evs ++ [RFlush])) x = rc_want evs x.
Proof. exact rc_exact. Qed.
Print Assumptions C10_rc_exact.

(* with the bumps of every block summing to the change of the occurrence counts: after every RFlush the stored
   counter of a hash is the number of its occurrences in the current trie (so nothing referenced is dropped) *)
Theorem C10_rc_counts_occurrences : forall (H : bytes -> bytes) evs t h, rc_hist H evs t -> rc_ok true rc_init (evs ++ [RFlush]) ->
  rc_table (rc_run true rc_init (evs ++ [RFlush])) h = rc_occ H t h.
Proof. exact rc_counts_occurrences. Qed.
Print Assumptions C10_rc_counts_occurrences.

(* a RFlush that does not write the new counter back into the cache: a leaf hash shared by two keys, reloaded while
   a change is pending, two flushes without a collapse in between, ends with counter 0 while it is referenced once *)
Theorem C10_rc_flush_without_writeback_refuted :
  rc_ok false rc_init rc_witness /\
  rc_table (rc_run false rc_init rc_witness) [1%N] = 0%Z /\ rc_want rc_witness [1%N] = 1%Z /\
  rc_table (rc_run true rc_init rc_witness) [1%N] = 1%Z.
Proof. exact rc_flush_without_writeback_refuted. Qed.
Print Assumptions C10_rc_flush_without_writeback_refuted.

(* ---------- non-vacuity: the hypotheses are satisfied by concrete, non-trivial states ---------- *)

Definition ex_ops1 : list op :=
  [OPut [1;2;3;4] [7%N]; OPut [1;2] [8%N]; OPut [1;2;3;5] [9%N]; OPut [1;2;0;0] []; ODel [1;2;3;4]; OPut [15] [1%N]].
Definition ex_ops2 : list op :=
  [OPut [15] [1%N]; OBatch [([1;2], Some [8%N]); ([1;2;0;0], Some [5%N]); ([1;2;3;4], None); ([1;2;3;5], Some [9%N])];
   OPut [1;2;0;0] []; ODel [7;7]].

Example C10_ex_ops_ok : Forall op_ok ex_ops1 /\ Forall op_ok ex_ops2.
Proof. split; repeat (constructor; simpl; try lia). Qed.

(* different histories, same content: the same tree (a branch at the root, an extension, a branch with a value child) *)
Example C10_ex_same_tree : run ex_ops1 = run ex_ops2 /\ NFb (run ex_ops1) = true /\ length (entries (run ex_ops1)) = 4.
Proof. vm_compute. auto. Qed.

Example C10_ex_range :
  map fst (seek (run ex_ops1) [1;2] [3] true) = [[1;2;3;5]; [1;2;0;0]; [1;2]] /\
  map fst (seek (run ex_ops1) [1] [2;3] false) = [[1;2;3;5]].
Proof. vm_compute. auto. Qed.

(* a toy hash with 32-byte digests, to run the proof theorems on *)
Definition toyH (x : bytes) : bytes := firstn 32 (map (fun b => (b + 1)%N) x ++ repeat 0%N 32).
Lemma toyH_len : forall x, length (toyH x) = 32.
Proof. intros x. unfold toyH. rewrite firstn_length, app_length, repeat_length. lia. Qed.

Example C10_ex_proof :
  NFneb (run ex_ops1) = true /\
  match get_proof toyH (run ex_ops1) [1;2;3;5] with
  | Some pr => length pr = 5 /\ verify_proof toyH (root toyH (run ex_ops1)) [1;2;3;5] pr = Some [9%N]
               /\ verify_proof toyH (root toyH (run ex_ops1)) [1;2;3;4] pr = None
  | None => False
  end.
Proof. vm_compute. auto. Qed.

(* flush into an empty store, collapse at depth 1 / reopen from the root, then read, update and expand through the store *)
Example C10_ex_store :
  let t := run ex_ops1 in
  let st := flush toyH t [] in
  let c := collapse toyH 1 t in
  let r := HashRef (root toyH t) in
  sget 9 st c [1;2;3;5] = Some [9%N] /\ sget 9 st r [1;2] = Some [8%N] /\ sget 9 st r [1;2;3;4] = None /\
  expand 9 st r = Some t /\ expand 9 st c = Some t /\
  omap (root toyH) (sput 9 st r [1;2;3;6] [4%N]) = Some (root toyH (put t [1;2;3;6] [4%N])) /\
  omap (root toyH) (sdelete 9 st r [1;2;3;5]) = Some (root toyH (delete t [1;2;3;5])) /\
  omap (root toyH) (sput_batch st c [([1;2], None); ([1;2;0;0], None); ([7], Some [3%N])]) =
    Some (root toyH (put_batch t [([1;2], None); ([1;2;0;0], None); ([7], Some [3%N])])) /\
  sdelete 9 [] r [1;2] = None.
Proof. vm_compute. repeat split; reflexivity. Qed.

(* three byte-identical two-key sub-tries under 1, 2, 3: after flush + collapse they are hash nodes of ONE hash;
   a Put inside the copy under 1, then reads through the copies under 2 and 3 *)
Example C10_ex_replicated :
  let t := run [OPut [1;5;5] [7%N]; OPut [1;5;6] [8%N]; OPut [2;5;5] [7%N]; OPut [2;5;6] [8%N]; OPut [3;5;5] [7%N]; OPut [3;5;6] [8%N]] in
  let st := flush toyH t [] in
  let c := collapse toyH 1 t in
  nth 1 (match c with Branch cs _ => cs | _ => [] end) Empty = nth 2 (match c with Branch cs _ => cs | _ => [] end) Empty /\
  match sput 9 st c [1;5;5] [9%N] with
  | Some c' => sget 9 st c' [1;5;5] = Some [9%N] /\ sget 9 st c' [2;5;5] = Some [7%N] /\ sget 9 st c' [3;5;5] = Some [7%N]
               /\ root toyH c' = root toyH (put t [1;5;5] [9%N])
  | None => False
  end.
Proof. vm_compute. repeat split; reflexivity. Qed.
