(* C15 — witness scopes and witness rules are enforced exactly.
   Statements only; every proof is [exact lemma]. *)
From NG Require Import Common.Tactics Auth.Witness Auth.WitnessProofs.
Open Scope N_scope.

(* whenever the check returns (no fault), it grants exactly where the declarative predicate of the property holds:
   the caller is the account, or the FIRST signer entry for the account allows this context (Global; CalledByEntry in
   the entry script or a contract it calls directly; current contract listed; current contract in a listed group;
   first matching rule says Allow) — for every signer list, call context and condition tree of any nesting *)
Theorem C15_witness_iff_spec : forall x signers h b,
  check_hashed_witness x signers h = Ok b -> (b = true <-> witness_spec x signers h).
Proof. exact witness_iff_spec. Qed.
Print Assumptions C15_witness_iff_spec.

(* a fault (nothing granted) only for an empty signer list or a group lookup without ReadStates; none otherwise *)
Theorem C15_witness_error_only : forall x signers h,
  check_hashed_witness x signers h = Err -> signers = [] \/ read_states x = false.
Proof. exact witness_error_only. Qed.
Print Assumptions C15_witness_error_only.

Theorem C15_witness_total_with_readstates : forall x signers h,
  read_states x = true -> signers <> [] -> exists b, check_hashed_witness x signers h = Ok b.
Proof. exact witness_total_with_readstates. Qed.
Print Assumptions C15_witness_total_with_readstates.

(* Match computes the truth value of the condition, for trees of any nesting *)
Theorem C15_match_iff_holds : forall x c b, cmatch x c = Ok b -> (b = true <-> holds x c).
Proof. exact cmatch_spec. Qed.
Print Assumptions C15_match_iff_holds.

Theorem C15_match_error_only : forall x c, cmatch x c = Err -> read_states x = false.
Proof. exact cmatch_err. Qed.
Print Assumptions C15_match_error_only.

(* an account that did not sign never passes, except that a contract witnesses the calls it makes itself *)
Theorem C15_unsigned_never : forall x signers h,
  (forall s, In s signers -> s_account s <> h) ->
  check_hashed_witness x signers h = Ok true -> calling x <> 0 /\ h = calling x.
Proof. exact unsigned_never. Qed.
Print Assumptions C15_unsigned_never.

Theorem C15_unsigned_result : forall x signers h,
  (forall s, In s signers -> s_account s <> h) -> signers <> [] ->
  check_hashed_witness x signers h = Ok (negb (calling x =? 0) && (h =? calling x)).
Proof. exact unsigned_result. Qed.
Print Assumptions C15_unsigned_result.

(* Not flips the answer, passes errors through, and twice is the identity *)
Theorem C15_not_flips : forall x c,
  (forall b, cmatch x c = Ok b -> cmatch x (CNot c) = Ok (negb b)) /\
  (cmatch x c = Err -> cmatch x (CNot c) = Err) /\
  cmatch x (CNot (CNot c)) = cmatch x c.
Proof. exact not_flips. Qed.
Print Assumptions C15_not_flips.

(* the first rule whose condition matches decides, whatever rules follow it *)
Theorem C15_first_rule_wins : forall x pre r post,
  Forall (fun r' => cmatch x (r_cond r') = Ok false) pre ->
  cmatch x (r_cond r) = Ok true ->
  eval_rules x (pre ++ r :: post) = Ok (is_allow (r_action r)).
Proof. exact first_rule_wins. Qed.
Print Assumptions C15_first_rule_wins.

(* only the first signer entry for the account is consulted *)
Theorem C15_first_signer_decides : forall x pre s post h,
  Forall (fun s' => s_account s' <> h) pre -> s_account s = h ->
  check_scope_list x (pre ++ s :: post) h = check_signer x s.
Proof. exact first_signer_decides. Qed.
Print Assumptions C15_first_signer_decides.

(* the boolean evaluator of the specification used by the harness is the specification *)
Theorem C15_specb_is_spec : forall x signers h, witness_specb x signers h = true <-> witness_spec x signers h.
Proof. exact witness_specb_iff. Qed.
Print Assumptions C15_specb_is_spec.

(* the group tests read the CURRENT state of exactly two contracts — the executing and the calling one: two contract
   tables that agree on them give the same answer (so nothing loaded earlier, e.g. with the context, can matter) *)
Theorem C15_witness_reads_only_current_and_calling : forall x t1 t2,
  assoc (current x) t1 = assoc (current x) t2 -> assoc (calling x) t1 = assoc (calling x) t2 ->
  forall signers h,
  check_hashed_witness (with_table x t1) signers h = check_hashed_witness (with_table x t2) signers h.
Proof. exact witness_reads_only_current_and_calling. Qed.
Print Assumptions C15_witness_reads_only_current_and_calling.

(* evaluating against a stale table (groups as of context load) is refuted: a contract that left the group or
   destroyed itself earlier in the invocation would still be witnessed *)
Definition C15_stale_groups_statement : Prop := stale_groups_statement.
Theorem C15_stale_groups_refuted : ~ C15_stale_groups_statement.
Proof. exact stale_groups_refuted. Qed.
Print Assumptions C15_stale_groups_refuted.

(* the answer depends on the execution's OWN context only: evaluating the rules with the match context supplied per
   rule gives the model's answer whenever every rule sees the own context — nothing another execution does (over its
   own context) enters *)
Theorem C15_independent_of_other_executions : forall x ctx_at rules i,
  (forall j, ctx_at j = x) -> eval_rules_at ctx_at i rules = eval_rules x rules.
Proof. exact independent_of_other_executions. Qed.
Print Assumptions C15_independent_of_other_executions.

(* a shared mutable match context (rebound by a concurrent execution between two rules) is refuted *)
Definition C15_shared_match_context_statement : Prop := shared_match_context_statement.
Theorem C15_shared_match_context_refuted : ~ C15_shared_match_context_statement.
Proof. exact shared_match_context_refuted. Qed.
Print Assumptions C15_shared_match_context_refuted.

(* ---- non-vacuity ---- *)
Definition ex_ctx : wctx := mk_wctx 9 2 true true [(1, [1]); (2, [1; 2]); (3, [])].
Definition ex_signer : signer :=
  mk_signer 5 (SCustomGroups + SRules) [] [2]
    [mk_rule Deny (CAnd [CCalledByEntry; CNot (CGroup 2)]); mk_rule Allow (COr [CScriptHash 3; CCalledByContract 9])].

Example C15_ex_granted_by_group : check_hashed_witness ex_ctx [mk_signer 4 SGlobal [] [] []; ex_signer] 5 = Ok true.
Proof. vm_compute. reflexivity. Qed.

(* the same signer in contract 1 (group 1 only): the group scope fails, the Deny rule matches first *)
Example C15_ex_denied_by_first_rule :
  check_hashed_witness (mk_wctx 9 1 true true [(1, [1]); (2, [1; 2]); (3, [])]) [ex_signer] 5 = Ok false /\
  check_hashed_witness (mk_wctx 9 1 true true [(1, [1]); (2, [1; 2]); (3, [])])
     [mk_signer 5 SRules [] [] [mk_rule Allow (CCalledByContract 9)]] 5 = Ok true.
Proof. vm_compute. auto. Qed.

(* without ReadStates the group lookup faults; an unsigned account passes only as the caller *)
Example C15_ex_error_and_caller :
  check_hashed_witness (mk_wctx 9 2 true false [(2, [1; 2])]) [ex_signer] 5 = Err /\
  check_hashed_witness (mk_wctx 3 2 false true [(2, [1; 2])]) [ex_signer] 3 = Ok true /\
  check_hashed_witness (mk_wctx 3 2 false true [(2, [1; 2])]) [ex_signer] 4 = Ok false.
Proof. vm_compute. auto. Qed.
