(* C04 — failed execution leaves no trace: transaction atomicity and exception rollback.
   Statements only; every proof is [exact lemma].

   exec  (Exec/CallTree.v) : the machine as the code has it — a private store layer is pushed for a callee only when
                             the calling contract has a live handler and the effective flags allow writes or
                             notifications; commit / drop + notification truncation in the unload callback
                             (commit := no exception pending); copy-on-write native caches (Policy, NEO) per layer;
                             GAS and NEO transfers with payment callbacks, vote bookkeeping and GAS claims; the
                             transaction's layer is persisted iff the VM halted; one VM reused for a whole block.
                             policy Eager = ContractHasTryBlock as it is now (F13 repaired);
                             policy Lazy  = as it was (handlers in state eTry only).
   iexec (Exec/Spec.v)     : ideal transactional frames on one flat state.
   The guard of the *_partial theorems is SEMANTIC: the ghost flag [bad] of the machine stayed down, i.e. no layered
   call frame and no payment callback RETURNED while an exception was pending (clean _ = true for a transaction).
   Contract calls inside finally blocks are therefore covered whenever the block is entered by normal completion,
   and also when it is entered by an exception as long as the callee is not layered.  Finding F40 is exactly the
   excluded situation (C04_rollback_exact_refuted_pending).  [guard pol p] adds a syntactic condition for the Lazy
   policy only (g1: a catch block followed by a finally block makes no un-layered call — finding F13, repaired);
   for Eager it is [true]. *)
From NG Require Import Common.Tactics Exec.CallTree Exec.Spec Exec.CallTreeFrame Exec.CallTreeProofs Exec.CallTreeWitness Exec.BlockProofs Exec.HandlerProofs Exec.ReadsProofs.
Open Scope N_scope.

(* tx_atomic, fault half — for ALL call trees, both policies, any base state, sender and fee: a transaction that does
   not halt (fault, or a throw nobody catches) leaves the block-level state exactly as it was after the fee deduction *)
Theorem C04_tx_atomic_fault : forall pol base sender fee p,
  halted (apply_tx pol base sender fee p) = false -> after (apply_tx pol base sender fee p) = charge sender fee base.
Proof. exact tx_atomic_fault. Qed.
Print Assumptions C04_tx_atomic_fault.

(* tx_atomic, halt half: a transaction that halts has exactly the effects of the ideal semantics applied:
   storage of every namespace (contract storage, GAS and NEO balances, candidate votes, voters count, pending claims),
   Policy value, NEO votesChanged flag, notification list *)
Theorem C04_tx_atomic_halt_partial : forall pol base sender fee p,
  guard pol p = true -> clean (apply_tx pol base sender fee p) = true -> halted (apply_tx pol base sender fee p) = true ->
  let i := irun_tx (charge sender fee base) p in
  ihalted i = true /\ lst (after (apply_tx pol base sender fee p)) = ist (iafter i) /\
  dflt (lnc (after (apply_tx pol base sender fee p))) = ifee (iafter i) /\
  dflt (lvc (after (apply_tx pol base sender fee p))) = ivc (iafter i) /\
  events (apply_tx pol base sender fee p) = intf (iafter i).
Proof. exact tx_atomic_halt. Qed.
Print Assumptions C04_tx_atomic_halt_partial.

(* rollback_exact: full statement, what is proved, and why the guard cannot be dropped *)
Definition C04_rollback_exact_statement : Prop :=
  forall base p, tx_agree (run_tx Eager base p) (irun_tx base p).

Theorem C04_rollback_exact_partial : forall pol base p,
  guard pol p = true -> clean (run_tx pol base p) = true -> tx_agree (run_tx pol base p) (irun_tx base p).
Proof. exact run_tx_exact. Qed.
Print Assumptions C04_rollback_exact_partial.

(* the syntactic condition of the first round implies the semantic one: if no finally block contains a contract
   call, no frame ever returns while an exception is pending *)
Theorem C04_no_call_in_finally_is_clean : forall pol base p, g2 p = true -> clean (run_tx pol base p) = true.
Proof. exact g2_run_tx_clean. Qed.
Print Assumptions C04_no_call_in_finally_is_clean.

(* W2 (F40): a callee called from a finally block that was entered by an exception is dropped on normal return when
   it was layered (commit := uncaughtException == nil); the ghost flag is up; under either policy *)
Theorem C04_rollback_exact_refuted_pending : ~ C04_rollback_exact_statement.
Proof. exact (rollback_exact_refuted_pending Eager). Qed.
Print Assumptions C04_rollback_exact_refuted_pending.

(* W1 (F13, repaired in /repo): with the Lazy policy an un-layered callee called from a catch block throws; the finally
   block of the same try runs while the callee's token movement is still in the caller's layer (FAULT instead of HALT).
   With the Eager policy the machine agrees with the ideal semantics on W1 and its run is clean. *)
Theorem C04_rollback_exact_refuted_lazy : ~ rollback_exact_statement Lazy.
Proof. exact rollback_exact_refuted_lazy. Qed.
Print Assumptions C04_rollback_exact_refuted_lazy.

Theorem C04_w1_repaired_by_eager :
  halted (run_tx Lazy base0 w1) = false /\ ihalted (irun_tx base0 w1) = true /\
  lookup (2, 0) (ist (iafter (irun_tx base0 w1))) = Some 7 /\
  tx_agree (run_tx Eager base0 w1) (irun_tx base0 w1) /\ clean (run_tx Eager base0 w1) = true.
Proof. exact w1_lazy_faults_ideal_halts. Qed.
Print Assumptions C04_w1_repaired_by_eager.

(* the simulation behind rollback_exact, for every contract invocation and any pending-exception state at its start:
   if the ghost flag is down at the end, related flat views stay related on normal return, and on a throw whenever the
   program runs inside a try body or makes no call outside one; outcomes agree *)
Theorem C04_simulation : forall pol p, guard pol p = true ->
  forall cid fl it, simP (it || bare_free p) (exec pol p cid fl it) (iexec p cid fl).
Proof. exact exec_sim. Qed.
Print Assumptions C04_simulation.

(* the key lemma in the property's wording: a call from inside a try body that throws leaves the caller's view of
   storage, native settings and notifications exactly as it was at the call — whatever its layered and un-layered
   sub-callees did (token movements, votes, claims, cache flags included) *)
Theorem C04_failed_call_no_trace_partial : forall pol via c f body cid fl s s',
  guard pol body = true -> ne s ->
  exec pol (CallV via c f body) cid fl true s = Thrown s' -> bad s' = false ->
  abs s' = rollback (abs s).
Proof. exact failed_call_no_trace. Qed.
Print Assumptions C04_failed_call_no_trace_partial.

(* before_after_kept: a failing call caught on the spot is as if it were not there; everything before and after it
   has the same effect *)
Theorem C04_before_after_kept_partial : forall pol pre post via c f body cid fl it s,
  guard pol (Seq pre (Seq (caught via c f body) post)) = true ->
  ne s -> exc s = false ->
  (forall s1, exec pol pre cid fl it s = Normal s1 -> exists s2, exec pol (CallV via c f body) cid fl true s1 = Thrown s2) ->
  bad (rstate (exec pol (Seq pre (Seq (caught via c f body) post)) cid fl it s)) = false ->
  bad (rstate (exec pol (Seq pre post) cid fl it s)) = false ->
  obs_eq (exec pol (Seq pre (Seq (caught via c f body) post)) cid fl it s) (exec pol (Seq pre post) cid fl it s).
Proof. exact caught_call_no_trace. Qed.
Print Assumptions C04_before_after_kept_partial.

(* frame lemma, ALL call trees, no guard: with any outcome, the layers below the one an execution starts on keep their
   stores and visible cache values (copies may be materialised, never changed), the top layer and the notification
   list only grow *)
Theorem C04_lower_layers_untouched : forall pol p cid fl it s t rest,
  lay s = t :: rest -> frame_res t rest (ntf s) (exec pol p cid fl it s).
Proof. exact exec_frame. Qed.
Print Assumptions C04_lower_layers_untouched.

(* why a callee with read-only effective flags needs no layer: it cannot change anything, ALL call trees *)
Theorem C04_readonly_callee_changes_nothing : forall pol p cid fl it,
  ro fl = true -> pres (exec pol p cid fl it).
Proof. exact exec_ro. Qed.
Print Assumptions C04_readonly_callee_changes_nothing.

(* "in any block position": storeBlock runs the transactions of a block on one reused VM.  With VM.Reset between
   transactions the block is the fold of single transactions, each alone on what the halted ones before it left —
   whatever the registers held when the previous transaction ended; every fee is burnt from its own sender first *)
Theorem C04_block_is_fold : forall pol base txs,
  apply_block pol base txs = seq_txs pol (charge_all txs base) (map snd txs).
Proof. exact apply_block_is_fold. Qed.
Print Assumptions C04_block_is_fold.

(* per-transaction fee accounting with several senders: each sender loses exactly the sum of the fees of its own
   transactions, nothing else is touched, before anything runs and whatever the transactions then do *)
Theorem C04_block_fees_by_sender : forall txs a base,
  fees_of a txs <= dflt (lookup (GASNS, a) (lst base)) ->
  dflt (lookup (GASNS, a) (lst (charge_all txs base))) = dflt (lookup (GASNS, a) (lst base)) - fees_of a txs.
Proof. exact charge_all_sender. Qed.
Print Assumptions C04_block_fees_by_sender.
Theorem C04_block_fees_touch_nothing_else : forall txs k base,
  (forall a, k <> (GASNS, a)) -> lookup k (lst (charge_all txs base)) = lookup k (lst base).
Proof. exact charge_all_others. Qed.
Print Assumptions C04_block_fees_touch_nothing_else.

(* a transaction that does not halt, at ANY position of a block, is as if it were not there (fee aside): same final
   state, same results of every other transaction; ALL call trees, no guard *)
Theorem C04_block_position_independent : forall pol ps1 base p ps2,
  (forall b os, seq_txs pol base ps1 = (b, os) -> halted (run_tx pol b p) = false) ->
  let '(b, os) := seq_txs pol base (ps1 ++ p :: ps2) in
  let '(b', os') := seq_txs pol base (ps1 ++ ps2) in
  b = b' /\ firstn (length ps1) os = firstn (length ps1) os' /\ skipn (S (length ps1)) os = skipn (length ps1) os'.
Proof. exact seq_txs_skip_faulted. Qed.
Print Assumptions C04_block_position_independent.

(* ContractHasTryBlock's specification.  hs = the handlers of ALL contexts of the calling contract invocation with their
   states, innermost first; has_try = the predicate's walk, will_stop = handleException's walk (it pops handlers that are
   in their finally block or in a catch block without finally, and stops at the first one still in try, or in catch with
   a finally block).  A callee gets its own layer iff an exception thrown by it would be stopped by SOME handler of the
   calling invocation (and its effective flags allow writes or notifications) — whichever handler is innermost *)
Theorem C04_layer_iff_some_handler_will_catch : forall hs fl,
  wrapped (has_try Eager hs) fl = true <-> will_stop hs = true /\ ro fl = false.
Proof. exact layer_iff_some_handler_will_catch. Qed.
Print Assumptions C04_layer_iff_some_handler_will_catch.

Theorem C04_dead_handlers_do_not_matter : forall inner outer,
  forallb dead inner = true -> will_stop (inner ++ outer) = will_stop outer.
Proof. exact dead_handlers_do_not_matter. Qed.
Print Assumptions C04_dead_handlers_do_not_matter.

Theorem C04_live_handler_anywhere_decides : forall a h b, dead h = false -> will_stop (a ++ h :: b) = true.
Proof. exact live_handler_anywhere. Qed.
Print Assumptions C04_live_handler_anywhere_decides.

(* the machine that carries the handler stack explicitly (TRY pushes a handler, its state follows the block that runs,
   a callee starts with none, the layering decision walks the whole stack) is the machine of all theorems above *)
Theorem C04_handler_stack_machine : forall pol p cid fl hs s,
  exec_h pol p cid fl hs s = exec pol p cid fl (has_try pol hs) s.
Proof. exact exec_h_exec. Qed.
Print Assumptions C04_handler_stack_machine.

(* the two call forms: System.Contract.Call and the CALLT opcode through a method token of the calling contract's NEF
   (LoadToken -> callInternal).  The semantics ignores the form: at every position of every call tree layers are pushed,
   committed and dropped, notifications truncated, faults and throws propagated identically *)
Theorem C04_call_form_irrelevant : forall pol p cid fl it s, exec pol p cid fl it s = exec pol (erase p) cid fl it s.
Proof. exact call_form_irrelevant. Qed.
Print Assumptions C04_call_form_irrelevant.
Theorem C04_call_form_irrelevant_tx : forall pol base p, run_tx pol base p = run_tx pol base (erase p).
Proof. exact call_form_irrelevant_tx. Qed.
Print Assumptions C04_call_form_irrelevant_tx.

(* values are immutable, only writes change a layer: a call tree without Put / Delete / GAS or NEO transfer / Policy setter
   leaves the view of storage and of both native caches exactly as it was, whatever it reads, converts, scribbles on, passes to
   callees, and however its calls are layered, committed, dropped or faulted.  ALL such trees, no guard. *)
Theorem C04_reads_change_nothing : forall pol p, nowrites p = true -> forall cid fl it, keeps (exec pol p cid fl it).
Proof. exact reads_change_nothing. Qed.
Print Assumptions C04_reads_change_nothing.
Theorem C04_reads_change_nothing_tx : forall pol base p, nowrites p = true ->
  forall k, lookup k (lst (after (run_tx pol base p))) = lookup k (lst base).
Proof. exact reads_change_nothing_tx. Qed.
Print Assumptions C04_reads_change_nothing_tx.

(* a dynamic script (System.Runtime.LoadScript) between the catching caller and the failing callee: the script runs with
   caller & requested & ReadOnly and has no layer of its own — a frame with read-only effective flags.  Whatever happens in
   or below it, and whoever catches, layers and notification list are exactly as before: ALL bodies, no guard *)
Theorem C04_dyn_fault_or_catch_leaves_no_trace : forall pol f body cid fl it, pres (exec pol (Dyn f body) cid fl it).
Proof. exact dyn_leaves_no_trace. Qed.
Print Assumptions C04_dyn_fault_or_catch_leaves_no_trace.
Theorem C04_dyn_mask_is_readonly : forall fl f, ro (N.land fl (N.land f fRO)) = true.
Proof. exact ro_mask. Qed.
Print Assumptions C04_dyn_mask_is_readonly.
(* a mask that lets AllowNotify through is not read-only *)
Theorem C04_dyn_loose_mask_refuted : exists fl f, ro (N.land fl (N.land f 13)) = false /\ has (N.land fl (N.land f 13)) fN = true.
Proof. exact dyn_mask_refuted. Qed.
Print Assumptions C04_dyn_loose_mask_refuted.

(* non-vacuity *)
Example C04_example_guarded_tree :
  guard Lazy ex1 = true /\ guard Eager ex1 = true /\ g2 ex1 = false /\
  clean (run_tx Lazy base0 ex1) = true /\ clean (run_tx Eager base0 ex1) = true.
Proof. exact ex1_guarded. Qed.
Example C04_example_rollback :
  let m := run_tx Lazy base0 ex1 in
  halted m = true /\ events m = [EvN 0 9; EvV 0 0 (Some 1); EvP 0 1000] /\
  lookup (0, 0) (lst (after m)) = Some 1 /\ lookup (0, 1) (lst (after m)) = Some 3 /\
  lookup (1, 0) (lst (after m)) = None /\ lookup (2, 0) (lst (after m)) = None /\ lookup (2, 5) (lst (after m)) = Some 5 /\
  lookup (GASNS, 2) (lst (after m)) = Some 1000 /\ lookup (GASNS, 3) (lst (after m)) = None /\
  lnc (after m) = Some 1000.
Proof. exact ex1_runs. Qed.
Example C04_example_neo_rolled_back :
  let m := run_tx Eager base0 (ex_neo true) in
  halted m = true /\ clean m = true /\ events m = [EvN 1 1; EvN 1 2] /\
  lookup (kNeo 0) (lst (after m)) = Some 500 /\ lookup (kNeo 1) (lst (after m)) = Some 300 /\
  lookup kCand (lst (after m)) = Some 500 /\ lookup kVoters (lst (after m)) = Some 500 /\
  lookup (kClaim 0) (lst (after m)) = Some 7 /\ lookup (GASNS, 0) (lst (after m)) = Some 1000 /\
  lookup (1, 2) (lst (after m)) = None /\ lvc (after m) = Some 0.
Proof. exact ex_neo_rolled_back. Qed.
Example C04_example_neo_committed :
  let m := run_tx Eager base0 (ex_neo false) in
  halted m = true /\ clean m = true /\
  events m = [EvTN 0 1 200; EvT NIL 0 7; EvT NIL 1 4; EvN 1 2] /\
  lookup (kNeo 0) (lst (after m)) = Some 300 /\ lookup (kNeo 1) (lst (after m)) = Some 500 /\
  lookup kCand (lst (after m)) = Some 300 /\ lookup kVoters (lst (after m)) = Some 300 /\
  lookup (kClaim 0) (lst (after m)) = None /\ lookup (GASNS, 0) (lst (after m)) = Some 1007 /\
  lookup (GASNS, 1) (lst (after m)) = Some 1004 /\ lookup (1, 2) (lst (after m)) = Some 2 /\ lvc (after m) = Some 1.
Proof. exact ex_neo_committed. Qed.
Example C04_example_fault :
  halted (apply_tx Lazy base0 5 3 ex2) = false /\ after (apply_tx Lazy base0 5 3 ex2) = charge 5 3 base0.
Proof. exact ex2_faults. Qed.
Example C04_example_caught :
  exists s2, exec Lazy (Call 1 15 (Seq (Put 0 2) Throw)) 0 15 true (start base0) = Thrown s2 /\ bad s2 = false.
Proof. exact ex3_caught. Qed.
Example C04_example_pending_exception : forall pol,
  halted (run_tx pol base0 w2) = true /\ ihalted (irun_tx base0 w2) = true /\
  clean (run_tx pol base0 w2) = false /\
  lookup (1, 3) (lst (after (run_tx pol base0 w2))) = None /\
  lookup (1, 3) (ist (iafter (irun_tx base0 w2))) = Some 4.
Proof. exact w2_pending_exception_drops_callee. Qed.
Example C04_example_no_reset_position_matters :
  let '(st, os) := run_txs Lazy false (base0, false) [pend; later] in
  let '(st', os') := run_txs Lazy true (base0, false) [pend; later] in
  map halted os = [false; true] /\ map halted os' = [false; true] /\
  lookup (1, 0) (lst (fst st)) = None /\ lookup (1, 0) (lst (fst st')) = Some 5.
Proof. exact no_reset_position_matters. Qed.
Example C04_example_block :
  apply_block Lazy base0 [(5, 3, pend); (6, 4, later)] = seq_txs Lazy (charge 6 4 (charge 5 3 base0)) [pend; later] /\
  lookup (1, 0) (lst (fst (apply_block Lazy base0 [(5, 3, pend); (6, 4, later)]))) = Some 5.
Proof. exact block_example. Qed.
Example C04_example_lazy_misses_catch_with_finally : has_try Lazy [HCatch true] = false /\ will_stop [HCatch true] = true.
Proof. exact has_try_lazy_misses. Qed.
Example C04_example_nested_finally_call :
  let m := run_tx Eager (mkL [] (Some 1000) (Some 0)) nested_finally_call in
  halted m = true /\ clean m = true /\ events m = [EvN 0 9] /\
  lookup (0, 0) (lst (after m)) = Some 1 /\ lookup (0, 1) (lst (after m)) = Some 1 /\ lookup (1, 0) (lst (after m)) = None.
Proof. exact nested_finally_call_runs. Qed.
Example C04_example_reads_change_nothing :
  nowrites (Call 0 15 (Seq (NotifyVal 0) (Try (CallV true 1 15 (Seq (NotifyVal 2) Throw)) (Some NotifyFee) (Some (Notify 1))))) = true.
Proof. reflexivity. Qed.
