(* C16 — call flags and manifest permissions confine what called code can do.
   Statements only; every proof is [exact lemma].  Tables [interops], [native_methods], [native_methods_by_hf] are
   GENERATED from the Go source on every run (coq/gen); the classification lists are in Auth/Classify.v. *)
From NG Require Import Common.Tactics Auth.TableTypes Auth.Classify Auth.Flags Auth.FlagsProofs Auth.Permission Auth.PermissionProofs.
From NG Require Import Auth.PermStore Auth.PermStoreProofs.
From NG Require Import gen.Interops gen.NativeMethods.
Open Scope N_scope.

(* ---- flags only shrink along a call chain ---- *)
Theorem C16_flags_shrink : forall hops f, subflags (chain_flags f hops) f = true.
Proof. exact flags_shrink. Qed.
Print Assumptions C16_flags_shrink.

Theorem C16_flags_shrink_prefix : forall h1 h2 f, subflags (chain_flags f (h1 ++ h2)) (chain_flags f h1) = true.
Proof. exact flags_shrink_prefix. Qed.
Print Assumptions C16_flags_shrink_prefix.

(* a flag is still there at the end of a chain only if the first frame had it and every hop asked for it *)
Theorem C16_chain_needs_every_hop : forall hops f b,
  has (chain_flags f hops) b = true -> has f b = true /\ Forall (fun h => has (fst h) b = true) hops.
Proof. exact chain_needs_every_hop. Qed.
Print Assumptions C16_chain_needs_every_hop.

(* after a hop into a method marked safe nothing further down the chain has WriteStates or AllowNotify *)
Theorem C16_chain_safe_hop_readonly : forall h1 r h2 f,
  has (chain_flags f (h1 ++ (r, true) :: h2)) WriteStates = false /\
  has (chain_flags f (h1 ++ (r, true) :: h2)) AllowNotify = false.
Proof. exact chain_safe_hop_readonly. Qed.
Print Assumptions C16_chain_safe_hop_readonly.

(* ---- the generated tables (finite domain, bound = the table) ---- *)
Theorem C16_table_sys_writers_need_write : forall e, In e interops ->
  is_sys_writer (io_name e) = true -> has (io_flags e) WriteStates = true.
Proof. exact table_sys_writers_need_write. Qed.
Print Assumptions C16_table_sys_writers_need_write.

Theorem C16_table_sys_notifiers_need_notify : forall e, In e interops ->
  is_sys_notifier (io_name e) = true -> has (io_flags e) AllowNotify = true.
Proof. exact table_sys_notifiers_need_notify. Qed.
Print Assumptions C16_table_sys_notifiers_need_notify.

Theorem C16_table_sys_callers_need_call : forall e, In e interops ->
  is_sys_caller (io_name e) = true -> has (io_flags e) AllowCall = true.
Proof. exact table_sys_callers_need_call. Qed.
Print Assumptions C16_table_sys_callers_need_call.

(* native methods, for the method tables of EVERY hard-fork *)
Theorem C16_table_native_writers_need_write : forall hf l e, In (hf, l) native_methods_by_hf -> In e l ->
  is_native_writer (nm_contract e) (nm_name e) = true -> has (nm_flags e) WriteStates = true.
Proof. exact table_native_writers_need_write. Qed.
Print Assumptions C16_table_native_writers_need_write.

(* from hard-fork Faun (6) on; the older tables are consensus history (see Auth/FlagsProofs.v, native_ok_gen) *)
Theorem C16_table_native_notifiers_need_notify : forall hf l e, In (hf, l) native_methods_by_hf -> In e l ->
  (faun <=? hf) = true ->
  is_native_notifier (nm_contract e) (nm_name e) = true -> has (nm_flags e) AllowNotify = true.
Proof. exact table_native_notifiers_need_notify. Qed.
Print Assumptions C16_table_native_notifiers_need_notify.

(* partial: the methods whose own body calls a contract.  The full statement, including the methods that reach
   onNEP17Payment through GAS minting (NeoToken.vote, PolicyContract.blockAccount), is refuted: finding F39. *)
Theorem C16_table_native_callers_need_call_partial : forall hf l e, In (hf, l) native_methods_by_hf -> In e l ->
  is_native_caller (nm_contract e) (nm_name e) = true -> has (nm_flags e) AllowCall = true.
Proof. exact table_native_callers_need_call. Qed.
Print Assumptions C16_table_native_callers_need_call_partial.

Definition C16_table_native_all_callers_need_call_statement : Prop := native_all_callers_need_call_statement.
Theorem C16_table_native_all_callers_refuted : ~ C16_table_native_all_callers_need_call_statement.
Proof. exact native_all_callers_refuted. Qed.
Print Assumptions C16_table_native_all_callers_refuted.

(* a native method is published as safe exactly when it requires neither WriteStates nor AllowNotify *)
Theorem C16_table_native_safe_iff : forall hf l e, In (hf, l) native_methods_by_hf -> In e l ->
  (nm_safe e = true <-> N.land (nm_flags e) (N.lor WriteStates AllowNotify) = 0).
Proof. exact table_native_safe_iff. Qed.
Print Assumptions C16_table_native_safe_iff.

(* the table in force (all hard-forks enabled) is one of those *)
Theorem C16_latest_table_covered : In (latest_hardfork, native_methods) native_methods_by_hf.
Proof. exact latest_in_by_hf. Qed.
Print Assumptions C16_latest_table_covered.

(* every classified name occurs in the tables: none of the obligations above is vacuous for a listed entry *)
Theorem C16_classification_present :
  forallb sys_present (sys_writers ++ sys_notifiers ++ sys_callers) = true /\
  forallb native_present (native_writers ++ native_notifiers ++ native_callers ++ native_indirect_callers) = true.
Proof. exact classification_present. Qed.
Print Assumptions C16_classification_present.

(* ---- state-dependent paths of the native gate: the Policy fee whitelist ---- *)
(* whether a native method runs depends only on (required flags, context flags); the whitelist only changes the fee *)
Theorem C16_whitelist_affects_fee_only : forall required current wl wl' fee,
  gate_runs (native_call_gate required current wl fee) = gate_runs (native_call_gate required current wl' fee) /\
  (gate_runs (native_call_gate required current wl fee) = true <-> has current required = true).
Proof. exact whitelist_affects_fee_only. Qed.
Print Assumptions C16_whitelist_affects_fee_only.

(* the nesting in which the flag check sits inside the "not whitelisted => charge" branch does not have the property *)
Definition C16_nested_gate_statement : Prop := nested_gate_statement.
Theorem C16_nested_gate_refuted : ~ C16_nested_gate_statement.
Proof. exact nested_gate_refuted. Qed.
Print Assumptions C16_nested_gate_refuted.

(* ---- corollaries on the effect machine over the generated tables, for every program (call tree) ---- *)
(* every write / notification is performed by a frame whose flags are within the initial ones and contain the bit *)
Theorem C16_writes_notifies_in_order : forall i f, Forall (eff_ok_wn f) (fst (exec_now f i)).
Proof. exact writes_notifies_in_order_now. Qed.
Print Assumptions C16_writes_notifies_in_order.

Theorem C16_no_write_without_flag : forall i f, has f WriteStates = false -> has_effect EWrite (fst (exec_now f i)) = false.
Proof. exact no_write_without_flag_now. Qed.
Print Assumptions C16_no_write_without_flag.

Theorem C16_no_notify_without_flag : forall i f, has f AllowNotify = false -> has_effect ENotify (fst (exec_now f i)) = false.
Proof. exact no_notify_without_flag_now. Qed.
Print Assumptions C16_no_notify_without_flag.

(* a run started without AllowCall makes no call at all (System.Contract.Call, CALLT, LoadScript are refused); the one
   exception is the F39 primitive itself — native code calling back from a method that does not require AllowCall *)
Theorem C16_no_call_without_flag : forall i f,
  (forall r body, i <> ICallback false r body) ->
  has f AllowCall = false -> has_effect ECall (fst (exec_now f i)) = false.
Proof. exact no_call_without_flag_now. Qed.
Print Assumptions C16_no_call_without_flag.

(* CALLT (method tokens, contract.LoadToken) is a call primitive of the machine next to System.Contract.Call, so all
   machine theorems above and below quantify over it too.  It needs BOTH ReadStates and AllowCall in the executing
   frame whatever the token says, and its callee runs within the caller's flags and (non-safe) the token's flags *)
Theorem C16_callt_requires_both : forall f r s body,
  has f ReadStates = false \/ has f AllowCall = false -> exec_now f (ICallT r s body) = ([], false).
Proof. exact (callt_requires_both interops native_methods). Qed.
Print Assumptions C16_callt_requires_both.

Theorem C16_callt_callee_flags : forall f r s,
  subflags (callee_flags f r s) f = true /\ (s = false -> subflags (callee_flags f r s) r = true).
Proof. exact callt_callee_flags. Qed.
Print Assumptions C16_callt_callee_flags.

(* native -> contract callbacks (contract.CallFromNative: onNEP17Payment, _deploy, oracle callback) are a third call
   primitive of the machine.  NO guard: whether or not the native frame has AllowCall (F39), the callback runs with
   frame flags & requested flags, and everything below it stays within them *)
Theorem C16_callback_flags_shrink : forall f gated r body,
  let g := callback_flags f r in
  subflags g f = true /\ subflags g r = true /\
  Forall (eff_ok_wn g) (fst (run_with (exec_now g) body)) /\
  Forall (eff_ok_wn f) (fst (exec_now f (ICallback gated r body))).
Proof. exact callback_flags_shrink. Qed.
Print Assumptions C16_callback_flags_shrink.

(* frame level, calls included: partial — programs that do not call a method of the F39 class *)
Theorem C16_effects_in_order_partial : forall i f, f39_free i = true -> Forall (eff_ok f) (fst (exec_now f i)).
Proof. exact effects_in_order_now. Qed.
Print Assumptions C16_effects_in_order_partial.

Definition C16_effects_in_order_statement : Prop := effects_in_order_statement.
Theorem C16_effects_in_order_refuted : ~ C16_effects_in_order_statement.
Proof. exact effects_in_order_refuted. Qed.
Print Assumptions C16_effects_in_order_refuted.

(* whatever the caller has and asks for, the body of a method called as safe neither writes nor notifies *)
Theorem C16_safe_is_readonly : forall f r body,
  let tr := fst (run_with (exec_now (callee_flags f r true)) body) in
  has_effect EWrite tr = false /\ has_effect ENotify tr = false.
Proof. exact safe_is_readonly_now. Qed.
Print Assumptions C16_safe_is_readonly.

(* a dynamic script loaded with System.Runtime.LoadScript neither writes nor notifies *)
Theorem C16_dynamic_script_is_readonly : forall f r body,
  let tr := fst (run_with (exec_now (load_flags f r)) body) in
  has_effect EWrite tr = false /\ has_effect ENotify tr = false.
Proof. exact dynamic_script_is_readonly_now. Qed.
Print Assumptions C16_dynamic_script_is_readonly.

Theorem C16_safe_native_is_readonly : forall c m a r f e,
  find_native c m a native_methods = Some e -> nm_safe e = true ->
  let tr := fst (exec_now f (INative c m a r)) in
  has_effect EWrite tr = false /\ has_effect ENotify tr = false.
Proof. exact safe_native_is_readonly_now. Qed.
Print Assumptions C16_safe_native_is_readonly.

(* ---- manifest permissions (model of the repaired IsAllowed) ---- *)
Theorem C16_can_call_iff : forall perms c m, can_call perms c m = true <-> may_call perms c m.
Proof. exact can_call_iff. Qed.
Print Assumptions C16_can_call_iff.

Theorem C16_nonsafe_call_needs_permission : forall perms c m,
  call_permitted false true perms c m = true <-> may_call perms c m.
Proof. exact nonsafe_call_needs_permission. Qed.
Print Assumptions C16_nonsafe_call_needs_permission.

(* ---- the executing contract changes itself (update / destroy) and then calls ---- *)
(* Domovoi on: the gate is CanCall of the manifest the context was loaded with, total: no state of ContractManagement
   (updated, destroyed) makes a non-safe call pass without it *)
Theorem C16_gate_never_skipped : forall loaded current c m,
  call_gate true false true loaded current c m = can_call loaded c m /\
  (call_gate true false true loaded current c m = true <-> may_call loaded c m).
Proof. exact gate_never_skipped. Qed.
Print Assumptions C16_gate_never_skipped.

(* the lookup-gated check (the form in force before Domovoi) does not have the property *)
Definition C16_lookup_gated_statement : Prop := lookup_gated_statement.
Theorem C16_lookup_gated_refuted : ~ C16_lookup_gated_statement.
Proof. exact lookup_gated_refuted. Qed.
Print Assumptions C16_lookup_gated_refuted.

Theorem C16_gate_before_domovoi : forall loaded ps c m,
  call_gate false false true loaded (Some ps) c m = can_call ps c m.
Proof. exact gate_before_domovoi. Qed.
Print Assumptions C16_gate_before_domovoi.

(* ---- method overloads: the gate decides on the very overload that is executed ---- *)
Theorem C16_gate_uses_executed_overload : forall abi name n perms c f md,
  find_method abi name n = Some md ->
  overload_call abi name n perms c f =
    Some (call_permitted (md_safe md) true perms c name, N.land 15 (if md_safe md then N.ldiff f 10 else f)) /\
  (md_safe md = false -> (fst (call_permitted (md_safe md) true perms c name, 0) = true <-> may_call perms c name)) /\
  (md_safe md = true -> N.land (N.land 15 (N.ldiff f 10)) 10 = 0).
Proof. exact gate_uses_executed_overload. Qed.
Print Assumptions C16_gate_uses_executed_overload.

(* resolving the Safe bit by name only (first ABI entry) is refuted on an ABI with a safe and a non-safe overload *)
Definition C16_by_name_lookup_statement : Prop := by_name_lookup_statement.
Theorem C16_by_name_lookup_refuted : ~ C16_by_name_lookup_statement.
Proof. exact by_name_lookup_refuted. Qed.
Print Assumptions C16_by_name_lookup_refuted.

(* F6: the mechanism before the repair (group case returns at once) does not meet the specification *)
Definition C16_can_call_unfixed_statement : Prop := can_call_unfixed_statement.
Theorem C16_can_call_unfixed_refuted : ~ C16_can_call_unfixed_statement.
Proof. exact can_call_unfixed_refuted. Qed.
Print Assumptions C16_can_call_unfixed_refuted.

(* ---- the stored form (what a restarted node rebuilds its permissions from) ---- *)
Theorem C16_perm_stored_roundtrip : forall p, perm_from_item (perm_to_item p) = Some p.
Proof. exact perm_roundtrip. Qed.
Print Assumptions C16_perm_stored_roundtrip.

Theorem C16_perms_stored_roundtrip : forall ps, perms_from_item (perms_to_item ps) = Some ps.
Proof. exact perms_roundtrip. Qed.
Print Assumptions C16_perms_stored_roundtrip.

(* hence the permissions read back from the stored form allow exactly what the original ones allow *)
Theorem C16_stored_allows_same : forall ps ps' c m,
  perms_from_item (perms_to_item ps) = Some ps' -> can_call ps' c m = can_call ps c m.
Proof. exact stored_allows_same. Qed.
Print Assumptions C16_stored_allows_same.

(* the stored form keeps wildcard methods apart from the empty list, the wildcard contract apart from a hash, and a
   hash apart from a group; it is injective *)
Theorem C16_stored_form_distinguishes :
  methods_to_item MWild <> methods_to_item (MList []) /\
  desc_to_item DWild <> desc_to_item (DHash 0) /\
  (forall h g, desc_to_item (DHash h) <> desc_to_item (DGroup g)).
Proof. exact stored_form_distinguishes. Qed.
Print Assumptions C16_stored_form_distinguishes.

Theorem C16_stored_form_injective : forall p q, perm_to_item p = perm_to_item q -> p = q.
Proof. exact to_item_injective. Qed.
Print Assumptions C16_stored_form_injective.

(* ---- non-vacuity ---- *)
Example C16_ex_stored :
  perm_to_item (mk_perm (DGroup 7) (MList [])) = SStruct [SBytes 33 7; SArray []] /\
  perm_to_item (mk_perm DWild MWild) = SStruct [SNull; SNull] /\
  perm_from_item (SStruct [SBytes 20 3; SArray [SStr "a"%string]]) = Some (mk_perm (DHash 3) (MList ["a"%string])) /\
  perm_from_item (SStruct [SBytes 21 3; SNull]) = None.
Proof. vm_compute. auto. Qed.

Example C16_ex_chain : chain_flags 15 [(7, false); (15, true); (15, false)] = 5 /\
                       has 5 WriteStates = false /\ has 5 AllowCall = true.
Proof. vm_compute. auto. Qed.

(* a frame with Read|Write writes; a frame with Read only is refused; System.Storage.Put is in the table *)
Example C16_ex_machine :
  exec_now 15 (ICall 3 false [ISys "System.Storage.Put"]) = ([(ECall, 15); (EWrite, 3)], true) /\
  exec_now 15 (ICall 1 false [ISys "System.Storage.Put"]) = ([(ECall, 15)], false) /\
  exec_now 15 (ICall 15 true [ISys "System.Storage.Put"]) = ([(ECall, 15)], false) /\
  f39_free (ICall 3 false [ISys "System.Storage.Put"]) = true.
Proof. vm_compute. auto. Qed.

Example C16_ex_callt :
  exec_now 15 (ICall 7 false [ICallT 15 false [ISys "System.Storage.Local.Put"]]) = ([(ECall, 15); (ECall, 7); (EWrite, 7)], true) /\
  exec_now 15 (ICall 7 false [ICallT 5 false [ISys "System.Storage.Local.Put"]]) = ([(ECall, 15); (ECall, 7)], false) /\
  exec_now 15 (ICall 11 false [ICallT 15 false [ISys "System.Storage.Local.Put"]]) = ([(ECall, 15)], false) /\
  exec_now 15 (ICall 4 false [ICallT 15 false []]) = ([(ECall, 15)], false).
Proof. vm_compute. auto. Qed.

(* the F39 path: the callback runs under Read|Write|Notify, can write and notify, cannot call on *)
Example C16_ex_callback :
  exec_now 11 (ICallback false 15 [ISys "System.Storage.Local.Put"]) = ([(ECall, 11); (EWrite, 11)], true) /\
  exec_now 11 (ICallback false 15 [ICall 15 false []]) = ([(ECall, 11)], false) /\
  exec_now 11 (ICallback true 15 []) = ([], false) /\
  exec_now 15 (ICallback true 15 [ICall 15 false []]) = ([(ECall, 15); (ECall, 15)], true).
Proof. vm_compute. auto. Qed.

Example C16_ex_native :
  exec_now 15 (INative "GasToken" "transfer" 4 15) = ([(ECall, 15); (EWrite, 15); (ENotify, 15); (ECall, 15)], true) /\
  fst (exec_now 15 (INative "GasToken" "transfer" 4 7)) = [(ECall, 15)] /\
  exec_now 15 (INative "GasToken" "balanceOf" 1 15) = ([(ECall, 15)], true).
Proof. vm_compute. auto. Qed.

Example C16_ex_perm :
  can_call [mk_perm (DGroup 7) (MList ["a"%string])] (mk_callee 1 [7]) "a"%string = true /\
  can_call [mk_perm (DGroup 7) (MList ["a"%string])] (mk_callee 1 [7]) "b"%string = false /\
  can_call_unfixed [mk_perm (DGroup 7) (MList ["a"%string])] (mk_callee 1 [7]) "b"%string = true /\
  can_call [mk_perm (DHash 2) MWild; mk_perm DWild (MList ["b"%string])] (mk_callee 1 []) "b"%string = true.
Proof. vm_compute. auto. Qed.
