(* C18 — keys, signatures, addresses and number encodings obey their algebra.
   Statements only; every proof is [exact lemma]. *)
From NG Require Import Common.Tactics Codec.Bigint Codec.BigintProofs.
Open Scope Z_scope.

(* VM integers decode back to exactly what was encoded *)
Theorem C18_bigint_roundtrip : forall z, from_bytes (to_bytes z) = z.
Proof. exact bigint_roundtrip. Qed.
Print Assumptions C18_bigint_roundtrip.

(* the model of FromBytes (strip, magnitude, invert under mask) is plain two's complement *)
Theorem C18_bigint_decode_is_twos_complement : forall l, bytes_ok l -> from_bytes l = from_bytes_spec l.
Proof. exact from_bytes_is_spec. Qed.
Print Assumptions C18_bigint_decode_is_twos_complement.

(* always in minimal form: no byte string denoting the same integer is shorter *)
Theorem C18_bigint_minimal : forall l, bytes_ok l -> (length (to_bytes (from_bytes l)) <= length l)%nat.
Proof. exact bigint_minimal. Qed.
Print Assumptions C18_bigint_minimal.

(* a byte string re-encodes to itself exactly when it is minimal *)
Theorem C18_bigint_canonical : forall l, bytes_ok l ->
  (to_bytes (from_bytes l) = l <-> length l = length (to_bytes (from_bytes l))).
Proof. exact bigint_canonical. Qed.
Print Assumptions C18_bigint_canonical.

(* the VM's 256-bit range is exactly "encodes in at most 32 bytes" *)
Theorem C18_fits256_iff_len : forall z, in_int256 z = true <-> (length (to_bytes z) <= 32)%nat.
Proof. exact fits256_iff_len. Qed.
Print Assumptions C18_fits256_iff_len.

(* non-vacuity: a concrete boundary value *)
Example C18_bigint_example : to_bytes (- 2 ^ 255) = repeat 0 31 ++ [128] /\ from_bytes (repeat 0 31 ++ [128]) = - 2 ^ 255.
Proof. split; vm_compute; reflexivity. Qed.
