(* C18 — keys, signatures, addresses and number encodings obey their algebra.
   Statements only; every proof is [exact lemma]. *)
From NG Require Import Common.Tactics Codec.Bigint Codec.BigintProofs.
From NG Require Import Codec.Base58 Codec.Base58Proofs Codec.Fixed Codec.FixedProofs Codec.UintStr Codec.Merkle Codec.MerkleProofs Codec.Multisig Codec.MultisigProofs Codec.Nep2 Codec.Nep2Proofs Codec.EmitInt.
Open Scope Z_scope.

(* VM integers decode back to exactly what was encoded *)
Theorem C18_bigint_roundtrip : forall z, from_bytes (to_bytes z) = z.
Proof. exact bigint_roundtrip. Qed.
Print Assumptions C18_bigint_roundtrip.

(* the model of FromBytes (strip, magnitude, invert under mask) is plain two's complement *)
Theorem C18_bigint_decode_is_twos_complement : forall l, bytes_ok l -> from_bytes l = from_bytes_spec l.
Proof. exact from_bytes_is_spec. Qed.
Print Assumptions C18_bigint_decode_is_twos_complement.

(* always in minimal form: no byte string denoting the same integer is shorter *)
Theorem C18_bigint_minimal : forall l, bytes_ok l -> (length (to_bytes (from_bytes l)) <= length l)%nat.
Proof. exact bigint_minimal. Qed.
Print Assumptions C18_bigint_minimal.

(* a byte string re-encodes to itself exactly when it is minimal *)
Theorem C18_bigint_canonical : forall l, bytes_ok l ->
  (to_bytes (from_bytes l) = l <-> length l = length (to_bytes (from_bytes l))).
Proof. exact bigint_canonical. Qed.
Print Assumptions C18_bigint_canonical.

(* the VM's 256-bit range is exactly "encodes in at most 32 bytes" *)
Theorem C18_fits256_iff_len : forall z, in_int256 z = true <-> (length (to_bytes z) <= 32)%nat.
Proof. exact fits256_iff_len. Qed.
Print Assumptions C18_fits256_iff_len.

(* non-vacuity: a concrete boundary value *)
Example C18_bigint_example : to_bytes (- 2 ^ 255) = repeat 0 31 ++ [128] /\ from_bytes (repeat 0 31 ++ [128]) = - 2 ^ 255.
Proof. split; vm_compute; reflexivity. Qed.

(* ---------- Base58, Base58Check, addresses ---------- *)

(* leading zero bytes included; the empty byte string is excluded because Decode("") is an error *)
Theorem C18_base58_roundtrip : forall bs, bytes_ok bs -> bs <> [] -> b58_decode (b58_encode bs) = Some bs.
Proof. exact base58_roundtrip. Qed.
Print Assumptions C18_base58_roundtrip.

(* the other way, on every valid string: it re-encodes to itself (each byte string has exactly one Base58 form) *)
Theorem C18_base58_roundtrip_rev : forall s bs, b58_decode s = Some bs -> b58_encode bs = s /\ bytes_ok bs.
Proof. exact base58_roundtrip_rev. Qed.
Print Assumptions C18_base58_roundtrip_rev.

Theorem C18_base58_decode_fails_iff : forall s,
  b58_decode s = None <-> s = [] \/ exists c, In c s /\ digit_of_char c = None.
Proof. exact b58_decode_none_iff. Qed.
Print Assumptions C18_base58_decode_fails_iff.

(* Base58Check over any 4-byte checksum function (hash.Checksum = first four bytes of the double SHA-256) *)
Theorem C18_base58check_roundtrip : forall (checksum : list Z -> list Z),
  (forall b, length (checksum b) = 4%nat) -> (forall b, bytes_ok (checksum b)) ->
  forall b, bytes_ok b -> b <> [] -> check_decode checksum (check_encode checksum b) = Some b.
Proof. exact check_roundtrip. Qed.
Print Assumptions C18_base58check_roundtrip.

Theorem C18_base58check_roundtrip_rev : forall (checksum : list Z -> list Z),
  (forall b, length (checksum b) = 4%nat) -> (forall b, bytes_ok (checksum b)) ->
  forall s b, check_decode checksum s = Some b -> check_encode checksum b = s.
Proof. exact check_roundtrip_rev. Qed.
Print Assumptions C18_base58check_roundtrip_rev.

Theorem C18_address_roundtrip : forall (checksum : list Z -> list Z),
  (forall b, length (checksum b) = 4%nat) -> (forall b, bytes_ok (checksum b)) ->
  forall prefix u, bytes_ok (prefix :: u) -> length u = 20%nat ->
  addr_decode checksum prefix (addr_encode checksum prefix u) = Some u.
Proof. exact addr_roundtrip. Qed.
Print Assumptions C18_address_roundtrip.

(* everything the address decoder accepts is a 20-byte hash whose address is the string that was read *)
Theorem C18_address_decode_sound : forall (checksum : list Z -> list Z),
  (forall b, length (checksum b) = 4%nat) -> (forall b, bytes_ok (checksum b)) ->
  forall p s u, addr_decode checksum p s = Some u -> length u = 20%nat /\ addr_encode checksum p u = s.
Proof. exact addr_decode_sound. Qed.
Print Assumptions C18_address_decode_sound.

Example C18_base58_example :
  b58_encode [0; 0; 1; 2] = [49; 49; 53; 84] /\ b58_decode [49; 49; 53; 84] = Some [0; 0; 1; 2] /\ b58_decode [49; 49; 49] = Some [0; 0; 0].
Proof. repeat split; vm_compute; reflexivity. Qed.

(* ---------- fixed-point decimals ---------- *)

(* every integer at every precision, negative fractions included *)
Theorem C18_fixed_roundtrip : forall v prec, from_string (to_string v prec) prec = Some v.
Proof. exact fixed_roundtrip. Qed.
Print Assumptions C18_fixed_roundtrip.

Theorem C18_fixed_canonical : forall s p v, from_string s p = Some v -> from_string (to_string v p) p = Some v.
Proof. exact fixed_canonical. Qed.
Print Assumptions C18_fixed_canonical.

Theorem C18_fixed8_roundtrip : forall v, - 2 ^ 63 < v < 2 ^ 63 -> fixed8_from_string (fixed8_string v) = Some v.
Proof. exact fixed8_roundtrip. Qed.
Print Assumptions C18_fixed8_roundtrip.

Example C18_fixed_example :
  to_string (-50000000) 8 = [45; 48; 46; 53] /\ from_string [45; 48; 46; 53] 8 = Some (-50000000) /\ to_string 1 8 = [48; 46; 48; 48; 48; 48; 48; 48; 48; 49].
Proof. repeat split; vm_compute; reflexivity. Qed.

(* ---------- Uint160 / Uint256 forms ---------- *)

Theorem C18_hex_roundtrip : forall b, bytes_ok b -> hex_decode (hex_encode b) = Some b.
Proof. exact hex_roundtrip. Qed.
Print Assumptions C18_hex_roundtrip.

Theorem C18_uint_string_be_roundtrip : forall n u, bytes_ok u -> length u = n -> decode_string_be n (string_be u) = Some u.
Proof. exact uint_string_be_roundtrip. Qed.
Print Assumptions C18_uint_string_be_roundtrip.

Theorem C18_uint_string_le_roundtrip : forall n u, bytes_ok u -> length u = n -> decode_string_le n (string_le u) = Some u.
Proof. exact uint_string_le_roundtrip. Qed.
Print Assumptions C18_uint_string_le_roundtrip.

Theorem C18_uint_bytes_le_roundtrip : forall n u, length u = n -> decode_bytes_le n (bytes_le u) = Some u.
Proof. exact uint_bytes_le_roundtrip. Qed.
Print Assumptions C18_uint_bytes_le_roundtrip.

Theorem C18_uint_reverse_involutive : forall u, reverse (reverse u) = u.
Proof. exact uint_reverse_involutive. Qed.
Print Assumptions C18_uint_reverse_involutive.

Theorem C18_uint_le_is_reverse_be : forall u, string_le u = string_be (reverse u).
Proof. exact uint_le_is_reverse_be. Qed.
Print Assumptions C18_uint_le_is_reverse_be.

Theorem C18_uint_json_roundtrip : forall n u, bytes_ok u -> length u = n -> json_decode n (json_string u) = Some u.
Proof. exact uint_json_roundtrip. Qed.
Print Assumptions C18_uint_json_roundtrip.

(* every accepted string denotes a value whose canonical string is the lower-case input *)
Theorem C18_uint_decode_string_sound : forall n s u, decode_string_be n s = Some u ->
  length u = n /\ bytes_ok u /\ string_be u = lowercase s.
Proof. exact uint_decode_string_be_sound. Qed.
Print Assumptions C18_uint_decode_string_sound.

Example C18_uint_example : decode_string_le 20 (string_le ex_u160) = Some ex_u160 /\ string_le ex_u160 <> string_be ex_u160.
Proof. split; [vm_compute; reflexivity|vm_compute; discriminate]. Qed.

(* ---------- Merkle root: for every hash function, every list length ---------- *)

(* CalcMerkleRoot (in place on the caller's slice, slot i overwritten after slots 2i, 2i+1 were read) computes the
   recursively defined pairwise root, odd levels duplicating their last element *)
Theorem C18_merkle_eq_recursive : forall (hash : Type) (H : hash -> hash -> hash) (zero : hash) (l : list hash),
  calc_merkle_root hash H zero l = merkle_root hash H zero l.
Proof. exact merkle_inplace_eq_recursive. Qed.
Print Assumptions C18_merkle_eq_recursive.

(* one in-place pass leaves exactly the pair level in the prefix of the scratch array *)
Theorem C18_merkle_inplace_level : forall (hash : Type) (H : hash -> hash -> hash) (zero : hash) (a : list hash),
  (2 <= length a)%nat ->
  firstn ((length a + 1) / 2) (inplace_loop hash H zero (length a) ((length a + 1) / 2) 0 a) = pair_level hash H a.
Proof. exact inplace_level_correct. Qed.
Print Assumptions C18_merkle_inplace_level.

(* NewMerkleTree builds a well-formed tree whose root hash is the same value *)
Theorem C18_merkle_tree_eq_recursive : forall (hash : Type) (H : hash -> hash -> hash) (zero : hash) (l : list hash),
  l <> [] -> exists t, new_merkle_tree hash H zero l = Some t /\ tree_root t = merkle_root hash H zero l /\ tree_wf hash H t.
Proof. exact new_merkle_tree_correct. Qed.
Print Assumptions C18_merkle_tree_eq_recursive.

(* the level-wise definition is a genuine binary-tree recursion: root = H (left subtree) (right subtree), a missing right
   subtree being a copy of the left one *)
Theorem C18_merkle_root_is_tree_recursion : forall (hash : Type) (H : hash -> hash -> hash) (zero : hash) (d : nat) (l : list hash),
  l <> [] -> (length l <= 2 ^ d)%nat -> (d = 0%nat \/ (2 ^ (d - 1) < length l)%nat) ->
  merkle_root hash H zero l = sub_root hash H zero d l.
Proof. exact merkle_root_eq_sub_root. Qed.
Print Assumptions C18_merkle_root_is_tree_recursion.

(* ---------- multi-signature check: every schedule of the parallel checker ---------- *)

(* the sequential in-order matcher accepts exactly when an order-preserving injective matching exists *)
Theorem C18_seq_match_iff_matching : forall (K Sg : Type) (verify : K -> Sg -> bool) keys sigs,
  seq_match verify keys sigs = true <-> matching verify keys sigs.
Proof. exact seq_match_iff_matching. Qed.
Print Assumptions C18_seq_match_iff_matching.

Theorem C18_matching_iff_index_matching : forall (K Sg : Type) (verify : K -> Sg -> bool) keys sigs,
  matching verify keys sigs <-> index_matching verify keys sigs.
Proof. exact matching_iff_index_matching. Qed.
Print Assumptions C18_matching_iff_index_matching.

(* EVERY arrival order of worker results: whatever run of the interleaving system terminates, it returns the sequential answer *)
Theorem C18_multisig_schedule_free : forall (K Sg : Type) (verify : K -> Sg -> bool) (keys : list K) (sigs : list Sg),
  (2 <= length sigs <= length keys)%nat ->
  forall b, run verify keys sigs (init keys sigs) b -> b = seq_match verify keys sigs.
Proof. exact multisig_schedule_free. Qed.
Print Assumptions C18_multisig_schedule_free.

(* no deadlock, no blocked send, termination: at most two tasks are in flight (the capacity of the task channel), every
   in-flight result can be delivered, and every delivery decreases the measure *)
Theorem C18_multisig_progress : forall (K Sg : Type) (verify : K -> Sg -> bool) (keys : list K) (sigs : list Sg),
  (2 <= length sigs <= length keys)%nat ->
  forall c st, steps verify keys sigs c (init keys sigs) st ->
  (1 <= length (inflight st) <= 2)%nat /\ taskCount st = length (inflight st) /\
  (k1 st < k2 st < length keys)%nat /\ (s1 st < s2 st < length sigs)%nat /\
  (c + measure st = length keys + 1)%nat /\ (2 <= measure st)%nat /\
  (forall j, (j < length (inflight st))%nat ->
     exists o, deliver verify keys sigs j st = Some o /\ o <> Crash /\
               (forall st', o = Running st' -> (measure st' + 1 = measure st)%nat)).
Proof. exact multisig_progress. Qed.
Print Assumptions C18_multisig_progress.

(* the executable form used by the correspondence: for every schedule *)
Theorem C18_multisig_par_check_correct : forall (K Sg : Type) (verify : K -> Sg -> bool) (keys : list K) (sigs : list Sg),
  (2 <= length sigs <= length keys)%nat ->
  forall sched, par_check verify sched keys sigs = Some (seq_match verify keys sigs).
Proof. exact par_check_correct. Qed.
Print Assumptions C18_multisig_par_check_correct.

(* the property's sentence: accepted exactly when the signatures can be matched to keys in order, whatever the schedule *)
Theorem C18_multisig_accepts_iff_matching : forall (K Sg : Type) (verify : K -> Sg -> bool) (keys : list K) (sigs : list Sg),
  (1 <= length sigs <= length keys)%nat ->
  forall sched, exists b, par_check verify sched keys sigs = Some b /\ (b = true <-> matching verify keys sigs).
Proof. exact multisig_accepts_iff_matching. Qed.
Print Assumptions C18_multisig_accepts_iff_matching.

(* non-vacuity: repeated keys, two schedules that verify different (key, signature) pairs and agree *)
Example C18_multisig_example :
  par_check Nat.eqb [] [1; 2; 2; 3; 4]%nat [2; 2; 4]%nat = Some true /\
  par_check Nat.eqb [1; 1; 1; 1]%nat [1; 2; 2; 3; 4]%nat [2; 2; 4]%nat = Some true /\
  par_check Nat.eqb [1; 0; 1]%nat [1; 2; 2; 3; 4]%nat [2; 4; 2]%nat = Some false /\
  seq_match Nat.eqb [1; 2; 2; 3; 4]%nat [2; 9; 4]%nat = false.
Proof. repeat split; vm_compute; reflexivity. Qed.

(* ---------- NEP-2: the envelope, over abstract scrypt / AES / address hash / passphrase normalisers ---------- *)
(* checksum: Base58Check; addr_hash: key -> 4 bytes; kdf: 64 bytes; enc/dec: inverse on 32-byte blocks under a 32-byte key.
   n_enc / n_dec: what the encrypting / decrypting side does to the passphrase before the KDF (NEP-2: NFC on both). *)
Section C18_Nep2.
Variable checksum : list Z -> list Z.
Hypothesis checksum_len : forall b, length (checksum b) = 4%nat.
Hypothesis checksum_ok : forall b, bytes_ok (checksum b).
Variable addr_hash : list Z -> list Z.
Hypothesis addr_hash_len : forall k, length (addr_hash k) = 4%nat.
Hypothesis addr_hash_ok : forall k, bytes_ok (addr_hash k).
Variable key_valid : list Z -> bool.
Variable kdf : list Z -> list Z -> list Z.
Hypothesis kdf_len : forall p s, length (kdf p s) = 64%nat.
Hypothesis kdf_ok : forall p s, bytes_ok (kdf p s).
Variable enc dec : list Z -> list Z -> list Z.
Hypothesis enc_len : forall key x, length key = 32%nat -> length x = 32%nat -> length (enc key x) = 32%nat.
Hypothesis enc_ok : forall key x, bytes_ok key -> bytes_ok x -> bytes_ok (enc key x).
Hypothesis dec_enc : forall key x, length key = 32%nat -> length x = 32%nat -> bytes_ok x -> dec key (enc key x) = x.

(* the frame: 01 42 e0 ++ address hash ++ 32-byte body under Base58Check reads back; whatever reads as a frame is one *)
Theorem C18_nep2_frame_roundtrip : forall ah body,
  length ah = 4%nat -> bytes_ok ah -> length body = 32%nat -> bytes_ok body ->
  nep2_unframe checksum (nep2_frame checksum ah body) = Some (ah, body).
Proof. exact (nep2_unframe_frame checksum checksum_len checksum_ok addr_hash addr_hash_len addr_hash_ok key_valid kdf kdf_len kdf_ok enc dec enc_len enc_ok dec_enc). Qed.

Theorem C18_nep2_frame_sound : forall s ah body, nep2_unframe checksum s = Some (ah, body) ->
  length ah = 4%nat /\ length body = 32%nat /\ bytes_ok ah /\ bytes_ok body /\ nep2_frame checksum ah body = s.
Proof. exact (nep2_unframe_sound checksum checksum_len checksum_ok addr_hash addr_hash_len addr_hash_ok key_valid kdf kdf_len kdf_ok enc dec enc_len enc_ok dec_enc). Qed.

(* decrypt (encrypt k p) q = k whenever the two sides bring p and q to the same bytes: with one normaliser on both
   sides, every q with normalise q = normalise p decrypts (q = p in particular) *)
Theorem C18_nep2_roundtrip : forall n_enc n_dec k p q, key_wf key_valid k -> n_enc p = n_dec q ->
  nep2_decrypt checksum addr_hash key_valid kdf dec n_dec (nep2_encrypt checksum addr_hash kdf enc n_enc k p) q = Some k.
Proof.
  exact (nep2_roundtrip checksum checksum_len checksum_ok addr_hash addr_hash_len addr_hash_ok key_valid kdf kdf_len kdf_ok enc dec enc_len enc_ok dec_enc).
Qed.

(* a passphrase whose derived key recovers bytes that are not a key with the envelope's address hash is refused
   (that a different derived key is noticed holds up to collisions of a 4-byte hash: a premise, not a law) *)
Theorem C18_nep2_mismatch_refused : forall n_enc n_dec k p q, key_wf key_valid k ->
  (let k' := nep2_recover dec (kdf (n_dec q) (addr_hash k)) (body_of addr_hash kdf enc n_enc k p) in
   key_valid k' = false \/ addr_hash k' <> addr_hash k) ->
  nep2_decrypt checksum addr_hash key_valid kdf dec n_dec (nep2_encrypt checksum addr_hash kdf enc n_enc k p) q = None.
Proof.
  exact (nep2_mismatch_refused checksum checksum_len checksum_ok addr_hash addr_hash_len addr_hash_ok key_valid kdf kdf_len kdf_ok enc dec enc_len enc_ok dec_enc).
Qed.

(* what comes back is a valid key with the address hash of a well-framed envelope *)
Theorem C18_nep2_decrypt_sound : forall n_dec s q k,
  nep2_decrypt checksum addr_hash key_valid kdf dec n_dec s q = Some k ->
  key_valid k = true /\ exists body, nep2_unframe checksum s = Some (addr_hash k, body) /\ length body = 32%nat /\
                                     nep2_frame checksum (addr_hash k) body = s /\
                                     k = nep2_recover dec (kdf (n_dec q) (addr_hash k)) body.
Proof. exact (nep2_decrypt_sound checksum checksum_len checksum_ok addr_hash addr_hash_len addr_hash_ok key_valid kdf kdf_len kdf_ok enc dec enc_len enc_ok dec_enc). Qed.
End C18_Nep2.
Print Assumptions C18_nep2_frame_roundtrip.
Print Assumptions C18_nep2_frame_sound.
Print Assumptions C18_nep2_roundtrip.
Print Assumptions C18_nep2_mismatch_refused.
Print Assumptions C18_nep2_decrypt_sound.

(* the two sides MUST normalise alike: "the key comes back whatever each side does to the passphrase" is false
   (instance: one side folds the ligature U+FB01 to "fi" as NFKC does, the other does not; the right passphrase is refused) *)
Theorem C18_nep2_roundtrip_any_normalisers_refuted : ~ nep2_roundtrip_any_normalisers.
Proof. exact nep2_roundtrip_any_normalisers_refuted. Qed.
Print Assumptions C18_nep2_roundtrip_any_normalisers_refuted.

(* non-vacuity: an instance of every hypothesis above; agreeing normalisers, disagreeing ones in both directions *)
Example C18_nep2_example :
  toy_decrypt no_fold (toy_encrypt no_fold toy_key pass_lig) pass_lig = Some toy_key /\
  toy_decrypt no_fold (toy_encrypt no_fold toy_key pass_lig) pass_fi = None /\
  toy_decrypt fold_fi (toy_encrypt no_fold toy_key pass_lig) pass_lig = None /\
  toy_decrypt no_fold (toy_encrypt fold_fi toy_key pass_lig) pass_lig = None /\
  toy_decrypt no_fold (toy_encrypt fold_fi toy_key pass_lig) pass_fi = Some toy_key.
Proof. pose proof nep2_toy_examples as (A & B & C & D & E & _). exact (conj A (conj B (conj C (conj D E)))). Qed.

(* ---------- the integer emitter (emit.BigInt / Int, behind Any / Array / StackItem, the builders and the compiler) ---------- *)
(* whatever is written for an integer of the VM range is one instruction that, decoded by the VM model (VM/Decode.v) with
   the value VM/Data.v pushes, gives the integer back: small forms, width choice and sign extension included *)
Theorem C18_emit_int_roundtrip : forall try_small n, in_int256 n = true ->
  exists s, emit_gen pad_right try_small n = Some s /\ decode_pushint s = Some n.
Proof. exact emit_decode. Qed.
Print Assumptions C18_emit_int_roundtrip.

(* the sign extension of padRight keeps the value, for every operand width *)
Theorem C18_emit_sign_extension : forall s buf, buf <> [] -> from_bytes (pad_right s buf) = from_bytes buf.
Proof. exact pad_right_value. Qed.
Print Assumptions C18_emit_sign_extension.

(* outside [-2^255, 2^255) nothing is written *)
Theorem C18_emit_int_refuses_out_of_range : forall try_small n, in_int256 n = false -> emit_gen pad_right try_small n = None.
Proof. exact emit_refuses_out_of_range. Qed.
Print Assumptions C18_emit_int_refuses_out_of_range.

(* the opcode is the narrowest that fits: no PUSHINT* operand of a smaller width denotes n *)
Theorem C18_emit_int_width_minimal : forall n s, in_int256 n = true -> emit_gen pad_right false n = Some s -> n <> 0 ->
  forall k' param, bytes_ok param -> length param = (2 ^ k')%nat -> from_bytes param = n -> (emitted_width s <= 2 ^ k')%nat.
Proof. exact emit_width_minimal. Qed.
Print Assumptions C18_emit_int_width_minimal.

(* a padding that fills at most 8 bytes with 0xFF (and leaves the zeroes of the fresh buffer above) is not an emitter *)
Theorem C18_emit_capped_padding_refuted :
  ~ (forall n, in_int256 n = true -> exists s, emit_capped8 n = Some s /\ decode_pushint s = Some n).
Proof. exact emit_capped8_refuted. Qed.
Print Assumptions C18_emit_capped_padding_refuted.

(* non-vacuity: -2^130 (17 bytes minimal) is PUSHINT256; capped at 8 it reads back as 2^200 - 2^130; 16-byte and 24-byte
   negatives and every positive are unaffected by the cap *)
Example C18_emit_int_example :
  (exists s, emit_bigint (- 2 ^ 130) = Some s /\ length s = 33%nat /\ decode_pushint s = Some (- 2 ^ 130))
  /\ (exists s, emit_capped8 (- 2 ^ 130) = Some s /\ length s = 33%nat /\ decode_pushint s = Some (2 ^ 200 - 2 ^ 130))
  /\ (exists s, emit_capped8 (- 2 ^ 127) = Some s /\ decode_pushint s = Some (- 2 ^ 127))
  /\ emit_bigint (2 ^ 255) = None /\ emit_bigint (- 2 ^ 255 - 1) = None
  /\ emit_bigint (-1) = Some [15] /\ emit_bigint 16 = Some [0; 16] /\ emit_bigint 128 = Some [1; 128; 0] /\ emit_bigint (-129) = Some [1; 127; 255].
Proof.
  destruct emit_capped8_examples as (A & B & C & _).
  split; [exact B|]. split; [exact A|]. split; [exact C|]. repeat split; vm_compute; reflexivity.
Qed.
