(* C01 — replicated state transition is deterministic and restart-transparent.
   Statements only; every proof is [exact lemma].
   Store part (Node/Layers.v): a node = database + write-cache layers + height + results; the transaction interpreter
   [exec] is a parameter (any function of the state keys it is shown and of the block).
   Governance part (Node/Gov.v, Node/GovProofs.v over Tokens/Model.v): the NEO and Policy caches (committee, next-epoch
   committee, votesChanged, gas-per-vote cache, gas-per-block, register price, blocked accounts, fee settings) as
   derived state with their incremental update rules and their re-initialisation from storage ([reinit]).
   The governance theorems are for the REPAIRED code (flags fix_block_dirty: finding F7, fix_gpv_drop: finding F23);
   for each unrepaired behaviour a counter-example history is proved. *)
From NG Require Import Common.Tactics Tokens.Model Tokens.Inv Tokens.OpProofs Node.Layers Node.FlushFail Node.Gov Node.GovProofs Node.Restart Node.Witness Node.C01Theorems Tokens.Names Auth.Permission Auth.PermStore.
Open Scope Z_scope.

(* a flush of any number of layers at any time changes no answer of the node *)
Theorem C01_flush_transparent : forall (K V R : Type) (n : node K V R) (k : nat) (key : K),
  view K V R (flush K V R k n) key = view K V R n key.
Proof. exact flush_transparent. Qed.
Print Assumptions C01_flush_transparent.

(* two replicas fed the same blocks under ANY schedules of flushes, prunings of history keys (KeepOnlyLatestState,
   RemoveUntraceableBlocks + GC) and restarts agree on every state key, every execution result and the height;
   the interpreter is any function that reads state keys only *)
Theorem C01_replicas_agree : forall (K V B R : Type) (is_hist : K -> bool) (exec : store K V -> B -> overlay K V * R),
  (forall a b blk, state_eq K V is_hist a b -> exec a blk = exec b blk) ->
  forall (s0 : store K V) (es1 es2 : list (event K B)),
  blocks_of K B es1 = blocks_of K B es2 ->
  let n1 := run K V B R is_hist exec (mkNode K V R s0 [] 0 []) es1 in
  let n2 := run K V B R is_hist exec (mkNode K V R s0 [] 0 []) es2 in
  state_eq K V is_hist (view K V R n1) (view K V R n2) /\ results K V R n1 = results K V R n2
  /\ nheight K V R n1 = nheight K V R n2.
Proof. exact replicas_agree. Qed.
Print Assumptions C01_replicas_agree.

(* config_transparent, in the form carried: node-local options only remove history keys, so every node answers on
   state keys like the single-map reference without layers or options *)
Theorem C01_config_transparent : forall (K V B R : Type) (is_hist : K -> bool) (exec : store K V -> B -> overlay K V * R),
  (forall a b blk, state_eq K V is_hist a b -> exec a blk = exec b blk) ->
  forall (s0 : store K V) (es : list (event K B)),
  let n := run K V B R is_hist exec (mkNode K V R s0 [] 0 []) es in
  state_eq K V is_hist (view K V R n) (fst (ideal K V B R exec s0 (blocks_of K B es)))
  /\ results K V R n = snd (ideal K V B R exec s0 (blocks_of K B es)).
Proof. exact node_refines_ideal. Qed.
Print Assumptions C01_config_transparent.

(* cache_coherent: for EVERY history of blocks (votes, candidate registration, NEO transfers, Policy block/unblock,
   settings, committee refresh at epoch boundaries, ...) the incrementally maintained caches are coherent with storage
   after every block (repaired code) *)
Theorem C01_cache_coherent : forall cfg, cfg_wf cfg -> fix_block_dirty cfg = true -> fix_gpv_drop cfg = true -> fix_whitelist cfg = true ->
  0 < csize cfg -> forall bs, blocks_ok cfg bs -> Coh cfg (reach cfg bs).
Proof. exact cache_coherent. Qed.
Print Assumptions C01_cache_coherent.

(* ... hence a node restarted after any block gives the same answers (committee, next block validators, validators of
   the next epoch, blocked accounts, fee settings, register price) over the same storage, and is coherent again *)
Theorem C01_restart_answers_and_coherence : forall cfg, cfg_wf cfg -> fix_block_dirty cfg = true -> fix_gpv_drop cfg = true -> fix_whitelist cfg = true ->
  0 < csize cfg -> forall bs, blocks_ok cfg bs ->
  obs cfg (reinit cfg (reach cfg bs)) = obs cfg (reach cfg bs)
  /\ (forall role index a, obsX (reinit cfg (reach cfg bs)) role index a = obsX (reach cfg bs) role index a)
  /\ sto (reinit cfg (reach cfg bs)) = sto (reach cfg bs)
  /\ Coh cfg (reinit cfg (reach cfg bs)).
Proof. exact restart_transparent_partial. Qed.
Print Assumptions C01_restart_answers_and_coherence.

(* restart_transparent, in full: the storage of the modelled contracts and every answer of a node restarted after ANY
   block coincide with those of the node that kept running, after ANY continuation ([step]: a block of any transactions).
   Proof: a simulation relation (Node/Restart.v, [Sim]) that allows the two nodes to differ exactly in what a restart
   changes — votesChanged, the gas-per-vote cache, shadowed duplicates in the gas-per-block cache — is preserved by every
   operation of the model with equal results; where the two nodes take different branches (one recomputes the
   next-epoch committee, the other does not) coherence makes the outcomes equal. *)
Theorem C01_restart_transparent : forall cfg, cfg_wf cfg -> fix_block_dirty cfg = true -> fix_gpv_drop cfg = true -> fix_whitelist cfg = true ->
  0 < csize cfg -> forall bs bs', blocks_ok cfg bs -> blocks_ok cfg bs' ->
  sto (fold_left (step cfg) bs' (reinit cfg (reach cfg bs))) = sto (fold_left (step cfg) bs' (reach cfg bs))
  /\ obs cfg (fold_left (step cfg) bs' (reinit cfg (reach cfg bs))) = obs cfg (fold_left (step cfg) bs' (reach cfg bs))
  /\ (forall role index a, obsX (fold_left (step cfg) bs' (reinit cfg (reach cfg bs))) role index a
                           = obsX (fold_left (step cfg) bs' (reach cfg bs)) role index a).
Proof. exact restart_transparent_full. Qed.
Print Assumptions C01_restart_transparent.

(* ... and with any number of restarts at any block boundaries ([gstep]: a block or a restart) *)
Theorem C01_restarts_transparent : forall cfg, cfg_wf cfg -> fix_block_dirty cfg = true -> fix_gpv_drop cfg = true -> fix_whitelist cfg = true ->
  0 < csize cfg -> forall es, blocks_ok cfg (gblocks es) ->
  sto (fold_left (gstep cfg) es (genesis cfg)) = sto (reach cfg (gblocks es))
  /\ obs cfg (fold_left (gstep cfg) es (genesis cfg)) = obs cfg (reach cfg (gblocks es))
  /\ (forall role index a, obsX (fold_left (gstep cfg) es (genesis cfg)) role index a = obsX (reach cfg (gblocks es)) role index a).
Proof. exact restarts_transparent_full. Qed.
Print Assumptions C01_restarts_transparent.

(* the two findings as theorems about the unrepaired mechanism: F7 — after Policy.blockAccount of an elected candidate
   with no NEO movement until the epoch ends, a restarted node announces other validators than the running one *)
Theorem C01_cache_coherent_refuted_F7 :
  let cfg := w_cfg false true in
  cfg_wf cfg /\ blocks_ok cfg w_f7
  /\ compute_next_validators cfg (reach cfg w_f7) <> compute_next_validators cfg (reinit cfg (reach cfg w_f7)).
Proof. exact cache_coherent_refuted_F7. Qed.
Print Assumptions C01_cache_coherent_refuted_F7.

(* F23 — after a candidate's record was dropped and re-created, a vote stores a different LastGasPerVote on a
   restarted node than on the running one *)
Theorem C01_restart_refuted_F23 :
  let cfg := w_cfg true false in
  cfg_wf cfg /\ blocks_ok cfg w_f23
  /\ nlgpv (neo_acc (step cfg (reach cfg w_f23) w_f23_next) 1)
     <> nlgpv (neo_acc (step cfg (reinit cfg (reach cfg w_f23)) w_f23_next) 1).
Proof. exact restart_refuted_F23. Qed.
Print Assumptions C01_restart_refuted_F23.

(* F47 — Policy.setWhitelistFeeContract on an existing entry updates storage only: the running node keeps charging the
   old whitelisted fee, a restarted node the new one *)
Theorem C01_restart_refuted_F47 :
  let cfg := w_cfg47 false in
  cfg_wf cfg /\ blocks_ok cfg w_f47
  /\ whitelisted_fee (reach cfg w_f47) 2 <> whitelisted_fee (reinit cfg (reach cfg w_f47)) 2.
Proof. exact restart_refuted_F47. Qed.
Print Assumptions C01_restart_refuted_F47.

(* The gas-per-block history.  The cache is an append-only slice: two successful setGasPerBlock calls in one block leave
   two records with the same index (storage keeps the last).  GetGASPerBlock(index) read from the incrementally extended
   slice = read from the list a restart rebuilds from storage, for every index, in every reachable state ... *)
Theorem C01_gas_per_block_lookup_coherent : forall cfg, cfg_wf cfg -> fix_block_dirty cfg = true -> fix_gpv_drop cfg = true -> fix_whitelist cfg = true ->
  0 < csize cfg -> forall bs idx, blocks_ok cfg bs ->
  gas_per_block (reinit cfg (reach cfg bs)) idx = gas_per_block (reach cfg bs) idx.
Proof. exact gas_per_block_lookup_coherent. Qed.
Print Assumptions C01_gas_per_block_lookup_coherent.

(* ... and stays so after any continuation, together with the sum CalculateNEOHolderReward takes over the history *)
Theorem C01_gas_per_block_restart_transparent : forall cfg, cfg_wf cfg -> fix_block_dirty cfg = true -> fix_gpv_drop cfg = true -> fix_whitelist cfg = true ->
  0 < csize cfg -> forall bs bs' idx start en, blocks_ok cfg bs -> blocks_ok cfg bs' ->
  gas_per_block (fold_left (step cfg) bs' (reinit cfg (reach cfg bs))) idx = gas_per_block (fold_left (step cfg) bs' (reach cfg bs)) idx
  /\ gas_sum_over (fold_left (step cfg) bs' (reinit cfg (reach cfg bs))) start en = gas_sum_over (fold_left (step cfg) bs' (reach cfg bs)) start en.
Proof. exact gas_per_block_restart_transparent_full. Qed.
Print Assumptions C01_gas_per_block_restart_transparent.

(* it is "the LAST appended of the records with one index" that makes this true: on the history w_gpb (one block setting
   6 GAS then 2 GAS) the reading "first appended of equal indices" answers 6 on the running node and 2 after a restart *)
Theorem C01_gas_per_block_first_of_equal_refuted :
  let cfg := w_cfg true true in
  cfg_wf cfg /\ fix_block_dirty cfg = true /\ fix_gpv_drop cfg = true /\ fix_whitelist cfg = true /\ blocks_ok cfg w_gpb
  /\ gas_per_block (reach cfg w_gpb) 3 = gas_per_block (reinit cfg (reach cfg w_gpb)) 3
  /\ gpb_at_first (c_gpb (A (reach cfg w_gpb))) 3 <> gpb_at_first (c_gpb (A (reinit cfg (reach cfg w_gpb)))) 3.
Proof. exact gas_per_block_first_of_equal_refuted. Qed.
Print Assumptions C01_gas_per_block_first_of_equal_refuted.

(* Management: the cached contract state of a restarted node -- rebuilt from the stored stack-item form of the manifest
   (Permission.FromStackItem . ToStackItem = identity, Auth/PermStoreProofs.v) -- equals the running node's, parsed from
   JSON at deploy / update time, field by field (id, update counter, permissions, groups, safe methods) after any
   continuation; hence Manifest.CanCall answers the same on both for every callee and method *)
Theorem C01_contract_state_restart_transparent : forall cfg, cfg_wf cfg -> fix_block_dirty cfg = true -> fix_gpv_drop cfg = true -> fix_whitelist cfg = true ->
  0 < csize cfg -> forall bs bs' a, blocks_ok cfg bs -> blocks_ok cfg bs' ->
  contract_of (fold_left (step cfg) bs' (reinit cfg (reach cfg bs))) a = contract_of (fold_left (step cfg) bs' (reach cfg bs)) a
  /\ (forall c m, can_call (mc_perms (contract_of (fold_left (step cfg) bs' (reinit cfg (reach cfg bs))) a)) c m
                  = can_call (mc_perms (contract_of (fold_left (step cfg) bs' (reach cfg bs)) a)) c m).
Proof. exact contract_state_restart_transparent. Qed.
Print Assumptions C01_contract_state_restart_transparent.

(* what the round trip must not do: a contract deployed with the permission "every contract, EXPLICITLY EMPTY method list"
   may not call Management.update; a stored-form reader that turns the empty list into the wildcard (load_bug) would let
   the restarted node permit it *)
Theorem C01_manifest_empty_methods_as_wildcard_refuted :
  let cfg := w_cfg true true in
  let st := reach cfg w_mf in
  cfg_wf cfg /\ blocks_ok cfg w_mf
  /\ contract_of (reinit cfg st) 2 = contract_of st 2
  /\ can_call (mc_perms (contract_of st 2)) mgmt_callee m_update
     <> can_call (mc_perms (load_bug (aget ms0 (caddr 2) (mg_store (X st))))) mgmt_callee m_update.
Proof. exact manifest_empty_methods_as_wildcard_refuted. Qed.
Print Assumptions C01_manifest_empty_methods_as_wildcard_refuted.

(* Flushes that FAIL (Node/FlushFail.v: the write cache as one map, the batch of a flush in progress between it and the
   database, blocks added meanwhile).  A persist whose write fails puts the batch back UNDER whatever the cache received
   meanwhile (maps.Copy(tempstore.mem, s.mem)): for EVERY such map -- any keys, values and deletions, overlapping the
   batch or not, more or fewer entries than it -- no answer changes and the database is what it was *)
Theorem C01_failed_flush_transparent : forall (K V R : Type) (n : fnode K V R),
  (forall k, fview K V R (f_end_fail K V R n) k = fview K V R n k) /\ fdb K V R (f_end_fail K V R n) = fdb K V R n.
Proof. exact (fun K V R n => conj (failed_flush_transparent K V R n) (failed_flush_keeps_db K V R n)). Qed.
Print Assumptions C01_failed_flush_transparent.

(* a node under ANY schedule of blocks, begun / succeeded / failed flushes (any number of failures in a row, blocks
   between begin and end), prunings and restarts agrees on every state key and every execution result with every
   replica of Node/Layers.v fed the same blocks under any schedule of its own *)
Theorem C01_failed_flushes_replicas_agree : forall (K V B R : Type) (is_hist : K -> bool) (exec : store K V -> B -> overlay K V * R),
  (forall a b blk, state_eq K V is_hist a b -> exec a blk = exec b blk) ->
  forall (s0 : store K V) (es : list (fevent K B)) (es' : list (event K B)),
  f_blocks K B es = blocks_of K B es' ->
  let n := f_run K V B R is_hist exec (f_start K V R s0) es in
  let m := run K V B R is_hist exec (mkNode K V R s0 [] 0 []) es' in
  state_eq K V is_hist (fview K V R n) (view K V R m) /\ fresults K V R n = results K V R m.
Proof. exact faulty_node_agrees_with_replica. Qed.
Print Assumptions C01_failed_flushes_replicas_agree.

(* the merge matters: on the state w_node (database {2:9}; batch in flight 0:=1, 2:=1; meanwhile 0:=7, 2 deleted, 1:=5)
   the code's merge keeps 0 -> 7 and 2 -> absent, while "older wins" and "the bigger map is the target" (the newer map
   is the bigger one here) answer 0 -> 1, "batch dropped" loses 0 -> 1 when nothing was written meanwhile, and
   "newer deletions lost" resurrects 2 -> 1 *)
Theorem C01_failed_flush_wrong_merges_refuted :
  (fview nat nat unit (f_end_fail nat nat unit w_node) 0 = fview nat nat unit w_node 0
  /\ fview nat nat unit (f_end_fail nat nat unit w_node) 2 = None
  /\ fview nat nat unit w_node 0 = Some 7 /\ fview nat nat unit w_node 2 = None
  /\ fview nat nat unit (f_end_fail_with nat nat unit over_swapped w_node) 0 = Some 1
  /\ fview nat nat unit (f_end_fail_with nat nat unit over_bigger_target w_node) 0 = Some 1
  /\ (osize w_batch < osize w_newer)
  /\ fview nat nat unit (f_end_fail_with nat nat unit over_dropped w_node) 2 = None
  /\ fview nat nat unit (f_end_fail_with nat nat unit over_dropped (mkF nat nat unit w_db (Some w_batch) (no_writes nat nat) 3 [])) 0 = None
  /\ fview nat nat unit (mkF nat nat unit w_db (Some w_batch) (no_writes nat nat) 3 []) 0 = Some 1
  /\ fview nat nat unit (f_end_fail_with nat nat unit over_no_tombstones w_node) 2 = Some 1)%nat.
Proof. exact wrong_merges_refuted. Qed.
Print Assumptions C01_failed_flush_wrong_merges_refuted.

(* non-vacuity: the hypotheses of C01_cache_coherent hold for a concrete configuration and history (the F7 and F23
   histories on the repaired settings), where the committee was elected and changes *)
Example C01_example :
  let cfg := w_cfg true true in
  cfg_wf cfg /\ fix_block_dirty cfg = true /\ fix_gpv_drop cfg = true /\ fix_whitelist cfg = true /\ 0 < csize cfg /\ blocks_ok cfg w_f7
  /\ committee_sorted (reach cfg w_f7) = [1;2;3]%N
  /\ compute_next_validators cfg (reach cfg w_f7) = [0;1]%N
  /\ sto (step cfg (reach cfg w_f23) w_f23_next) = sto (step cfg (reinit cfg (reach cfg w_f23)) w_f23_next).
Proof. exact c01_example. Qed.
