(* C20 — a node syncing from peers converges to the same chain and state.
   Statements only; every proof is [exact lemma].
   Part 1: the block queue (pkg/network/bqueue), all interleavings of producers, drainer and other block sources.
   Part 2: MPT-based state synchronisation (pkg/core/statesync, mpt.Billet), all delivery orders/batchings/duplications,
           foreign and undecodable data, restarts at any point. *)
From NG Require Import Common.Tactics Sync.Queue Sync.QueueProofs Sync.Restore Sync.RestoreProofs Sync.RestoreExamples.
From NG Require Sync.Blocks.
From NG Require Sync.Ledger.
From NG Require Import Sync.Crash Sync.CrashProofs.
Open Scope N_scope.

(* ---------- part 1: block queue ---------- *)

(* For every trace of Put (any index, any duplication, any staleness of the height it read), drainer steps, additions by other
   sources and Discard: the chain accepted exactly h0+1, h0+2, ..., height, in this order, each once; the drainer only ever
   offered blocks that had been Put, and a successful offer is one of the accepted indices. *)
Theorem C20_queue_in_order_once : forall c h0, 0 < c -> forall tr s,
  Queue.run (Queue.init c h0) tr = Some s ->
  rev (applied s) = iota (h0 + 1) (N.to_nat (height s - h0)) /\
  (forall b ok, In (b, ok) (attempts s) -> In b (puts s) /\ (ok = true -> In (bidx b) (applied s))).
Proof. exact queue_in_order_once. Qed.
Print Assumptions C20_queue_in_order_once.

(* no lost wake-up: when the drainer is at rest (parked, no signal pending, its last look saw the current height, not
   discarded) the successor of the tip is not sitting in the queue *)
Theorem C20_queue_no_lost_wakeup : forall c h0, 0 < c -> forall tr s,
  Queue.run (Queue.init c h0) tr = Some s -> quiescent s ->
  forall b, slots s (pos c (height s + 1)) = Some b -> bidx b <> height s + 1.
Proof. exact queue_no_lost_wakeup. Qed.
Print Assumptions C20_queue_no_lost_wakeup.

(* the node reaches the highest contiguous block it was given.  [delivered s i]: some Put(i) passed the window check
   (hseen < i <= hseen + capacity: blocks further ahead are dropped by the code and must be delivered again) and was not
   afterwards cleared by the drainer after a failed AddItem (a block exactly one capacity ahead of a stale height reading) *)
Theorem C20_queue_reaches_max_contiguous : forall c h0, 0 < c -> forall tr s M,
  Queue.run (Queue.init c h0) tr = Some s -> quiescent s ->
  (forall i, h0 < i <= M -> i <= height s \/ delivered s i) ->
  M <= height s.
Proof. exact queue_reaches_max_contiguous. Qed.
Print Assumptions C20_queue_reaches_max_contiguous.

(* pure synchronisation (no other block source): every block that passed the window check once is applied by the time the
   drainer parks with no signal pending *)
Theorem C20_queue_sync_only : forall c h0, 0 < c -> forall tr s M,
  Queue.run (Queue.init c h0) tr = Some s -> next s = 0 ->
  dpc s = Idle -> token s = false -> discarded s = false ->
  (forall i, h0 < i <= M -> In i (accd s)) ->
  M <= height s.
Proof. exact queue_sync_only. Qed.
Print Assumptions C20_queue_sync_only.

(* non-vacuity: capacity 4 from height 10; blocks 12, 13 arrive first, 15 is beyond the window and dropped, consensus adds 11,
   a duplicate of 12, then the drainer runs; 14 arrives late; at rest the height is 14 *)
Example C20_queue_example :
  let tr := [APut (mkBlk 12 1) 10; APut (mkBlk 13 2) 10; APut (mkBlk 15 3) 10; AWake; ARead; APeek; AExt;
             APut (mkBlk 12 4) 11; AWake; ARead; APeek; AAdd; AClear; ARead; APeek; AAdd; AClear; ARead; APeek;
             APut (mkBlk 14 5) 13; AWake; ARead; APeek; AAdd; AClear; ARead; APeek] in
  exists s, Queue.run (Queue.init 4 10) tr = Some s /\ quiescent s /\ height s = 14 /\
            rev (applied s) = [11; 12; 13; 14] /\ accd s = [14; 12; 13; 12] /\ lost s = [] /\ qlen s = 0%Z.
Proof. eexists. split; [vm_compute; reflexivity|]. vm_compute. repeat split; reflexivity. Qed.

(* ---------- part 2: state synchronisation ---------- *)

(* The repaired mechanism (canonical-encoding check on, pool callback skipping): for every trie (rank: children are
   strictly lower; closed under children), every sequence of deliveries — any order, batching, duplication, nodes never
   asked for, undecodable bytes, non-canonical encodings — and restarts at any point, the run never fails; the pool is
   empty exactly when every node of the trie is in the database; then the restored (path, node) pairs are exactly the
   occurrences of the trie; nothing that is not an occurrence is ever stored; the "synced" stage implies an empty pool. *)
Theorem C20_restore_converges : forall (T : tree) (root : hash) (rank : hash -> nat),
  (forall h n l c, lookup T h = Some n -> In (l, c) (kids n) -> (rank c < rank h)%nat) ->
  (forall h n l c, lookup T h = Some n -> In (l, c) (kids n) -> exists nc, lookup T c = Some nc) ->
  (exists n, lookup T root = Some n) ->
  forall fuel ops s,
  fuel_ok T rank fuel -> Forall (genuine_op T) ops ->
  Restore.run true true fuel T root ops (Restore.init root) = Some s ->
  (pool s = [] <-> forall p h, occ T root p h -> stored (store s) h = true) /\
  (pool s = [] -> forall p h, In (p, h) (store s) <-> occ T root p h) /\
  (forall p h, In (p, h) (store s) -> occ T root p h) /\
  (synced s = true -> pool s = []).
Proof. exact restore_converges. Qed.
Print Assumptions C20_restore_converges.

Theorem C20_restore_never_fails : forall (T : tree) (root : hash) (rank : hash -> nat),
  (forall h n l c, lookup T h = Some n -> In (l, c) (kids n) -> (rank c < rank h)%nat) ->
  (forall h n l c, lookup T h = Some n -> In (l, c) (kids n) -> exists nc, lookup T c = Some nc) ->
  (exists n, lookup T root = Some n) ->
  forall fuel ops, fuel_ok T rank fuel -> Forall (genuine_op T) ops ->
  exists s, Restore.run true true fuel T root ops (Restore.init root) = Some s.
Proof. exact restore_never_fails. Qed.
Print Assumptions C20_restore_never_fails.

(* a requested node, once delivered, is stored: the request/deliver loop ends after at most |nodes| effective rounds *)
Theorem C20_restore_progress : forall (T : tree) (root : hash) (rank : hash -> nat),
  (forall h n l c, lookup T h = Some n -> In (l, c) (kids n) -> (rank c < rank h)%nat) ->
  (forall h n l c, lookup T h = Some n -> In (l, c) (kids n) -> exists nc, lookup T c = Some nc) ->
  forall fuel s p h n,
  fuel_ok T rank fuel -> Good T root s -> synced s = false -> In (p, h) (pool s) -> lookup T h = Some n ->
  let s' := fst (add_nodes true fuel T [IWire h n []] s) in
  stored (store s) h = false /\ stored (store s') h = true /\
  (forall c, stored (store s) c = true -> stored (store s') c = true).
Proof. exact restore_progress. Qed.
Print Assumptions C20_restore_progress.

(* data whose hash was not requested changes nothing — in the code as it is and as repaired *)
Theorem C20_restore_rejects_foreign : forall canon fuel T it s,
  (forall h n il, it = IWire h n il -> ~ In h (pool_hashes s)) ->
  let s' := fst (add_nodes canon fuel T [it] s) in store s' = store s /\ pool s' = pool s.
Proof. exact restore_rejects_foreign. Qed.
Print Assumptions C20_restore_rejects_foreign.

(* the code as it is, where it does not panic, does what the repaired code does *)
Theorem C20_restart_asis_refines : forall T fuel R h cq r,
  trav false fuel T R h cq = Some r -> trav true fuel T R h cq = Some r.
Proof. exact trav_asis. Qed.
Print Assumptions C20_restart_asis_refines.

(* Full-strength statement for the code as it is (no canonical-encoding check, panicking callback) — NOT provable: *)
Definition C20_restore_converges_asis_statement : Prop :=
  forall (T : tree) (root : hash) (rank : hash -> nat),
  (forall h n l c, lookup T h = Some n -> In (l, c) (kids n) -> (rank c < rank h)%nat) ->
  (forall h n l c, lookup T h = Some n -> In (l, c) (kids n) -> exists nc, lookup T c = Some nc) ->
  (exists n, lookup T root = Some n) ->
  forall fuel ops, fuel_ok T rank fuel -> Forall (genuine_op T) ops ->
  exists s, Restore.run false false fuel T root ops (Restore.init root) = Some s /\
            (pool s = [] <-> forall p h, occ T root p h -> stored (store s) h = true).

(* F8: a node delivered with one child inline is accepted; the pool empties, the stage is "synced", nodes 3 and 4 are missing *)
Theorem C20_restore_inline_refuted :
  exists s, Restore.run false true 5 exT 1 exInline (Restore.init 1) = Some s /\ pool s = [] /\ synced s = true /\
            stored (store s) 3 = false /\ stored (store s) 4 = false.
Proof. exact restore_inline_refuted. Qed.
Print Assumptions C20_restore_inline_refuted.

(* restart after a node has been stored at two paths: the pool callback panics *)
Theorem C20_restore_restart_refuted : Restore.run true false 5 exT 1 exRestart (Restore.init 1) = None.
Proof. exact restore_restart_refuted. Qed.
Print Assumptions C20_restore_restart_refuted.

(* non-vacuity of the hypotheses of C20_restore_converges: a concrete trie with a shared leaf, deliveries out of order with
   duplicates, a foreign node, undecodable bytes and two restarts *)
Example C20_restore_example :
  (forall h n l c, lookup exT h = Some n -> In (l, c) (kids n) -> (exRank c < exRank h)%nat) /\
  fuel_ok exT exRank 5 /\ Forall (genuine_op exT) exOps /\
  exists s, Restore.run true true 5 exT 1 exOps (Restore.init 1) = Some s /\ pool s = [] /\ synced s = true /\
            count_of s 2 = 2%nat /\ count_of s 1 = 1%nat /\
            temp_storage exT s = [([2; 5; 6], 8); ([0], 7); ([1], 7)].
Proof. split; [exact exT_rank|]. split; [exact exT_fuel|]. split; [exact ex_ops_genuine|exact ex_run_completes]. Qed.

(* ---------- the pool after a restart (added after the fourth independent mutation round) ---------- *)

(* In every reachable state of the repaired mechanism — in particular right after a restart, which re-derives the pool by
   traversing what is stored — the pool is EXACT: it holds (path, hash) iff the hash is missing and the pair is the root's
   or the child pair, along that path, of a restored (path, parent) pair.  Every path of a missing node below EVERY path of
   its stored parent, none lost, none invented: what an uninterrupted run holds at the same database. *)
Theorem C20_restart_pool_exact : forall (T : tree) (root : hash) (rank : hash -> nat),
  (forall h n l c, lookup T h = Some n -> In (l, c) (kids n) -> (rank c < rank h)%nat) ->
  (forall h n l c, lookup T h = Some n -> In (l, c) (kids n) -> exists nc, lookup T c = Some nc) ->
  (exists n, lookup T root = Some n) ->
  forall fuel ops s,
  fuel_ok T rank fuel -> Forall (genuine_op T) ops ->
  Restore.run true true fuel T root ops (Restore.init root) = Some s ->
  forall x, In x (pool s) <-> rootkid T root (store s) x /\ stored (store s) (snd x) = false.
Proof. exact restart_pool_exact. Qed.
Print Assumptions C20_restart_pool_exact.

(* the traversal that keeps only the children of the LAST path of a node stored at several paths: a branch with two
   same-hash interior children, restart after the twin is stored and before its leaf is — one path of the leaf is lost, the
   pool still empties, the leaf is stored with count 1 instead of 2 and a storage item is missing *)
Theorem C20_restart_overwrite_refuted :
  exists s, tw_before = Some s /\
    (exists s', restart true 5 twT 1 s = Some s' /\ pool s' = [([0; 5], 3); ([1; 5], 3)] /\
       exists s'', Restore.run true true 5 twT 1 [ODeliver [tw 3]] s' = Some s'' /\ pool s'' = [] /\ count_of s'' 3 = 2%nat /\
                   temp_storage twT s'' = [([0; 5], 9); ([1; 5], 9)]) /\
    let q := snd (trav_ow 5 twT (store s) 1 ([], [([], 1)])) in
    q = [([1; 5], 3)] /\
    exists s'', Restore.run true true 5 twT 1 [ODeliver [tw 3]] (Restore.mkSt (store s) q false) = Some s'' /\ pool s'' = [] /\
                count_of s'' 3 = 1%nat /\ temp_storage twT s'' = [([1; 5], 9)].
Proof. exact restart_overwrite_refuted. Qed.
Print Assumptions C20_restart_overwrite_refuted.

(* ---------- crashes (added after the sixth independent mutation round) ---------- *)

(* A crash at any operation boundary keeps the database as flushed there and loses the pool and the stage bit; the restart
   rebuilds the pool from the database alone; with any further deliveries and restarts the run never fails, the pool empties
   exactly when every trie node is stored, the stored pairs are then exactly the trie's occurrences, and the pool is exact. *)
Theorem C20_crash_restart_converges : forall (T : tree) (root : hash) (rank : hash -> nat),
  (forall h n l c, lookup T h = Some n -> In (l, c) (kids n) -> (rank c < rank h)%nat) ->
  (forall h n l c, lookup T h = Some n -> In (l, c) (kids n) -> exists nc, lookup T c = Some nc) ->
  (exists n, lookup T root = Some n) ->
  forall fuel ops1 ops2 s1,
  fuel_ok T rank fuel -> Forall (genuine_op T) ops1 -> Forall (genuine_op T) ops2 ->
  Restore.run true true fuel T root ops1 (Restore.init root) = Some s1 ->
  exists s1' s, restart true fuel T root (crashed s1) = Some s1' /\ store s1' = store s1 /\
    Restore.run true true fuel T root ops2 s1' = Some s /\
    (pool s = [] <-> forall p h, occ T root p h -> stored (store s) h = true) /\
    (pool s = [] -> forall p h, In (p, h) (store s) <-> occ T root p h) /\
    (forall x, In x (pool s) <-> rootkid T root (store s) x /\ stored (store s) (snd x) = false).
Proof. exact crash_restart_converges. Qed.
Print Assumptions C20_crash_restart_converges.

(* The ledger's own records.  A node starts iff the jump-stage marker is present or the state-root record of its current block
   exists.  EXPLICIT PREMISE: records that depend on each other reach the backend in ONE batch — every batch, as a whole,
   takes a startable disk to a startable disk; then every prefix of the batches (every crash point) is startable. *)
Theorem C20_crash_batches_keep_startable : forall (bs : list (list wr)) (d : disk),
  startable d = true ->
  (forall d' b, In b bs -> startable d' = true -> startable (apply_batch d' b) = true) ->
  forall k, startable (apply_batches d (firstn k bs)) = true.
Proof. exact batches_keep_startable. Qed.
Print Assumptions C20_crash_batches_keep_startable.

(* the jump as the code writes it (current block pointer under the marker; root record of the sync point together with the
   marker removal): whichever batch was the last to reach the backend, the node starts *)
Theorem C20_crash_jump_safe : forall p d k,
  startable d = true -> startable (apply_batches d (firstn k (jump_good p))) = true.
Proof. exact jump_crash_safe. Qed.
Print Assumptions C20_crash_jump_safe.

(* the root record written after the last flush of the jump: a crash before the next periodic flush leaves no marker,
   current block 16 and no state root for it — the node cannot start ("can't init MPT at height 16") *)
Theorem C20_crash_late_root_refuted :
  let d0 := mkD 0 [0] false in
  startable d0 = true /\
  startable (apply_batches d0 (firstn 4 (jump_late_root 16))) = false /\
  startable (apply_batches d0 (jump_late_root 16)) = true.
Proof. exact jump_late_root_refuted. Qed.
Print Assumptions C20_crash_late_root_refuted.

(* ---------- part 2b: the blocks stage (added after the third independent mutation round) ---------- *)

(* A block is accepted by the blocks stage only as the next index, only if its Blocks.header hash is the hash of the Blocks.header
   synchronised before AND the Merkle root of the delivered transaction list is the one in its Blocks.header — for every block,
   also one delivered with an empty list; the accepted block is what gets Blocks.stored *)
Theorem C20_blocks_stage_accepts_only_committed : forall (tx : Type) (merkle : list tx -> N) (hhash : Blocks.header -> N)
  (s : Blocks.bst tx) (b : Blocks.blk tx) (s' : Blocks.bst tx),
  Blocks.add_block tx merkle hhash s b = Some s' ->
  hhash (Blocks.bhdr tx b) = Blocks.synced_hash tx s (Blocks.hidx (Blocks.bhdr tx b)) /\ merkle (Blocks.btxs tx b) = Blocks.hmerkle (Blocks.bhdr tx b) /\
  Blocks.hidx (Blocks.bhdr tx b) = Blocks.bheight tx s + 1 /\ Blocks.stored tx s' = b :: Blocks.stored tx s.
Proof. exact Blocks.add_block_sound. Qed.
Print Assumptions C20_blocks_stage_accepts_only_committed.

(* with collision-free Blocks.header hash and Merkle root: data that is not the source chain's block of that index — Blocks.header or
   transaction list — is refused *)
Theorem C20_blocks_stage_rejects_foreign : forall (tx : Type) (merkle : list tx -> N) (hhash : Blocks.header -> N),
  (forall a b, hhash a = hhash b -> a = b) -> (forall a b, merkle a = merkle b -> a = b) ->
  forall (s : Blocks.bst tx) (b : Blocks.blk tx) (s' : Blocks.bst tx) (src : N -> Blocks.blk tx),
  (forall i, hhash (Blocks.bhdr tx (src i)) = Blocks.synced_hash tx s i /\ merkle (Blocks.btxs tx (src i)) = Blocks.hmerkle (Blocks.bhdr tx (src i))) ->
  Blocks.add_block tx merkle hhash s b = Some s' -> b = src (Blocks.hidx (Blocks.bhdr tx b)).
Proof. exact Blocks.blocks_stage_rejects_foreign. Qed.
Print Assumptions C20_blocks_stage_rejects_foreign.

(* non-vacuity: transactions are numbers, the "Merkle root" of a list is a positional sum, the Blocks.header hash a pairing; the
   genuine block 8 with transactions [3; 4] is accepted, the same Blocks.header with the list stripped or reordered is not *)
Example C20_blocks_stage_example :
  let merkle := fun l : list N => fold_left (fun a x => 10 * a + x + 1) l 0 in
  let hhash := fun h : Blocks.header => 1000 * Blocks.hidx h + 100 * Blocks.hrest h + Blocks.hmerkle h in
  let hd := Blocks.mkH 8 45 2 in
  let s := Blocks.mkBS N true 7 9 (fun i => if i =? 8 then hhash hd else 0) [] in
  (exists s', Blocks.add_block N merkle hhash s (Blocks.mkB N hd [3; 4]) = Some s' /\ Blocks.bheight N s' = 8) /\
  Blocks.add_block N merkle hhash s (Blocks.mkB N hd []) = None /\
  Blocks.add_block N merkle hhash s (Blocks.mkB N hd [4; 3]) = None.
Proof. vm_compute. split; [eexists; split; reflexivity|split; reflexivity]. Qed.

(* ---------- part 4: the ledger under concurrent producers (after the seventh mutation round) ---------- *)

(* Blockchain.AddBlock is one critical section of the block-addition lock {compare the index with height+1; verify; store;
   send the event}.  For EVERY sequence of such calls — any producers, any indices, any repetition — on a ledger at height h0:
   the blocks applied are exactly h0+1 .. h0+k in this order, each once; the events are the same list; the state is the
   reference node's at h0+k; and for every index the number of calls answered "added" is 1 if it was applied, 0 otherwise. *)
Theorem C20_ledger_atomic_calls_once_in_order : forall (state : Type) (apply : state -> N -> state)
  (l0 : Ledger.led state) (calls : list N),
  Ledger.applied state l0 = [] -> Ledger.events state l0 = [] ->
  let l := fst (Ledger.run state apply l0 calls) in let rs := snd (Ledger.run state apply l0 calls) in
  exists k,
    Ledger.height state l = Ledger.height state l0 + N.of_nat k /\
    Ledger.applied state l = Ledger.down (Ledger.height state l0) k /\
    Ledger.events state l = Ledger.applied state l /\
    Ledger.lst state l = Ledger.ref_from state apply (Ledger.lst state l0) (Ledger.height state l0) k /\
    NoDup (Ledger.applied state l) /\
    (forall i, Ledger.oks calls rs i = if existsb (N.eqb i) (Ledger.applied state l) then 1%nat else 0%nat).
Proof. exact Ledger.atomic_calls_once_in_order. Qed.
Print Assumptions C20_ledger_atomic_calls_once_in_order.

(* Concurrent producers: whatever interleaving of their call lists the lock order produces, if one of them (the queue's
   drainer: C20_queue_in_order_once) offers h0+1 .. h0+k in order, the ledger ends at a height >= h0+k, with every block
   applied once, in order, and in the reference node's state at that height. *)
Theorem C20_ledger_concurrent_producers_converge : forall (state : Type) (apply : state -> N -> state)
  (l0 : Ledger.led state) (ts : list (list N)) (calls : list N) (k : nat),
  Ledger.applied state l0 = [] -> Ledger.events state l0 = [] ->
  Ledger.interleave ts calls ->
  In (Ledger.up (Ledger.height state l0) k) ts ->
  let l := fst (Ledger.run state apply l0 calls) in
  exists k', (k <= k')%nat /\ Ledger.height state l = Ledger.height state l0 + N.of_nat k' /\
             Ledger.applied state l = Ledger.down (Ledger.height state l0) k' /\ Ledger.events state l = Ledger.applied state l /\
             Ledger.lst state l = Ledger.ref_from state apply (Ledger.lst state l0) (Ledger.height state l0) k' /\
             NoDup (Ledger.applied state l).
Proof. exact Ledger.concurrent_producers_converge. Qed.
Print Assumptions C20_ledger_concurrent_producers_converge.

(* The premise "one section" is necessary.  Check and store in two sections: two producers with block 1 both pass the check
   before either stores — block 1 is executed twice and the state is not the reference node's. *)
Theorem C20_ledger_split_check_apply_refuted :
  let s := Ledger.run2 Ledger.init2 [Ledger.ACheck 0 1; Ledger.ACheck 1 1; Ledger.AApply 0 1; Ledger.AApply 1 1] in
  Ledger.applied _ (Ledger.l2 s) = [1; 1] /\ Ledger.lst _ (Ledger.l2 s) = [1; 1] /\
  Ledger.lst _ (Ledger.l2 s) <> Ledger.ref_from _ Ledger.lapply [] 0 1.
Proof. exact Ledger.split_check_apply_refuted. Qed.
Print Assumptions C20_ledger_split_check_apply_refuted.

(* ... and a producer that passed its check at height 0 stores block 1 over block 2 *)
Theorem C20_ledger_split_stale_apply_refuted :
  let s := Ledger.run2 Ledger.init2 [Ledger.ACheck 0 1; Ledger.ACheck 1 1; Ledger.AApply 0 1; Ledger.ACheck 2 2; Ledger.AApply 2 2; Ledger.AApply 1 1] in
  Ledger.applied _ (Ledger.l2 s) = [1; 2; 1] /\ Ledger.height _ (Ledger.l2 s) = 1.
Proof. exact Ledger.split_stale_apply_refuted. Qed.
Print Assumptions C20_ledger_split_stale_apply_refuted.

(* The event in a later section with the height read again: blocks 1 and 2 applied, both events say 2. *)
Theorem C20_ledger_event_reread_refuted :
  let s := Ledger.run2 Ledger.init2 [Ledger.ACheck 0 1; Ledger.AApply 0 1; Ledger.ACheck 1 2; Ledger.AApply 1 2; Ledger.AEvent 0; Ledger.AEvent 1] in
  Ledger.applied _ (Ledger.l2 s) = [2; 1] /\ Ledger.events _ (Ledger.l2 s) = [2; 2].
Proof. exact Ledger.event_reread_refuted. Qed.
Print Assumptions C20_ledger_event_reread_refuted.

(* ---------- part 2, messages (after the eighth mutation round) ---------- *)

(* One MPTData message = a list of nodes in one AddMPTNodes call: the per-node restore is folded over it and stops at the first
   node that errors, KEEPING the accepted prefix in database and pool (the code persists each node's own batch before the next
   node).  A failing message preserves the invariant [Good] (what the trie needs below the stored nodes is stored or requested
   and nothing else; nothing requested is stored — by C20_restart_pool_exact's lemma the pool is then exactly the missing
   children of stored nodes) and nothing that was stored is lost. *)
Theorem C20_failed_message_keeps_invariant : forall (T : tree) (root : hash) (rank : hash -> nat),
  (forall h n l c, lookup T h = Some n -> In (l, c) (kids n) -> (rank c < rank h)%nat) ->
  (forall h n l c, lookup T h = Some n -> In (l, c) (kids n) -> exists nc, lookup T c = Some nc) ->
  (exists n, lookup T root = Some n) ->
  forall (fuel : nat) (b : list item) (s : st),
  fuel_ok T rank fuel -> Forall (genuine T) b -> Good T root s ->
  snd (add_nodes true fuel T b s) = true ->
  Good T root (fst (add_nodes true fuel T b s)) /\
  (forall c, stored (store s) c = true -> stored (store (fst (add_nodes true fuel T b s))) c = true).
Proof. exact failed_message_keeps_invariant. Qed.
Print Assumptions C20_failed_message_keeps_invariant.

(* "batch dropped, pool kept": the accepted prefix of a failing message is thrown away with the message's batch while the pool
   has moved on — node 3 is neither requested nor stored, the remaining nodes arrive, the pool empties, the stage is
   "synchronised" with node 3 missing *)
Theorem C20_failed_message_dropped_batch_refuted :
  let s1 := fst (add_nodes true 5 exT [w 1] (Restore.init 1)) in
  let s2 := fst (add_nodes_drop 5 exT [w 3; IBad] s1) in
  let s3 := fst (add_nodes true 5 exT [w 2; w 4] s2) in
  snd (add_nodes_drop 5 exT [w 3; IBad] s1) = true /\ ~ In 3 (pool_hashes s2) /\ stored (store s2) 3 = false /\
  pool s3 = [] /\ synced s3 = true /\ stored (store s3) 3 = false.
Proof. exact failed_message_dropped_batch_refuted. Qed.
Print Assumptions C20_failed_message_dropped_batch_refuted.
