(* C19 — consensus through the node's dBFT integration is safe, and live under synchrony.  PARTIAL by design: dBFT itself
   (github.com/nspcc-dev/dbft) is a dependency; what is proved is the safety of the abstract dBFT 2.0 node of
   Consensus/Dbft.v for all n, f with n >= 3f+1, all traces, any network behaviour and any behaviour of up to f validators;
   that the real library + the repository's glue act within the guards of that abstract node is checked on the traces of
   real 4- and 7-validator networks (Harness/C19.v).  Liveness: only the round-progress lemmas below.
   Statements only; every proof is [exact lemma]. *)
From NG Require Import Common.Tactics Codec.Multisig Consensus.Dbft Consensus.DbftProofs Consensus.Witness Consensus.WitnessProofs Consensus.Recovery Consensus.RecoveryProofs.
From NG Require Consensus.Packing.
Close Scope N_scope.

(* agreement: no two honest validators accept different blocks at a height — for every number of validators n and bound f
   with n >= 3f+1 and at most f faulty validators (which may send anything under their own index), every trace of proposals,
   responses, commits, view changes and deliveries (any delay, order, duplication, loss) *)
Theorem C19_agreement : forall p : params,
  (3 * pf p + 1 <= pn p)%nat -> (length (faulty p) <= pf p)%nat ->
  forall tr s i j b b',
  run p init tr = Some s -> honest p i -> honest p j ->
  acc (nodes s i) = Some b -> acc (nodes s j) = Some b' -> b = b'.
Proof. exact agreement. Qed.
Print Assumptions C19_agreement.

(* an accepted block carries M = n - f matching commits and passed the glue's proposal checks (verifyRequest, verifyBlock)
   at an honest validator that committed to it *)
Theorem C19_committed_block_valid : forall p : params,
  (3 * pf p + 1 <= pn p)%nat -> (length (faulty p) <= pf p)%nat ->
  forall tr s i b,
  run p init tr = Some s -> honest p i -> acc (nodes s i) = Some b ->
  valid p b = true /\
  exists v S, NoDup S /\ (pm p <= length S)%nat /\ forall j, In j S -> In (MCommit j v b) (net s).
Proof. exact committed_block_valid. Qed.
Print Assumptions C19_committed_block_valid.

(* the commit lock: an honest validator commits at most once per height *)
Theorem C19_commit_once : forall p tr s j v b v' b',
  run p init tr = Some s -> honest p j ->
  In (MCommit j v b) (net s) -> In (MCommit j v' b') (net s) -> v = v' /\ b = b'.
Proof. exact commit_once. Qed.
Print Assumptions C19_commit_once.

(* two quorums of n - f out of n >= 3f+1 share a member outside any set of f validators *)
Theorem C19_quorum_intersection : forall n f m (S S' F : list nat),
  (3 * f + 1 <= n)%nat -> m = (n - f)%nat ->
  NoDup S -> NoDup S' -> (forall x, In x S -> x < n)%nat -> (forall x, In x S' -> x < n)%nat ->
  (m <= length S)%nat -> (m <= length S')%nat -> (length F <= f)%nat ->
  exists x, In x S /\ In x S' /\ ~ In x F.
Proof. exact quorum_intersection. Qed.
Print Assumptions C19_quorum_intersection.

(* liveness under synchrony is claimed only as round progress: every step of a round is enabled once its messages are there *)
Theorem C19_round_progress_propose : forall p s i b,
  honest p i -> i = prim p (vw (nodes s i)) -> valid p b = true -> prop (nodes s i) = None -> lock (nodes s i) = None ->
  exists s', step p s (APropose i b) = Some s' /\ In (MPrepReq i (vw (nodes s i)) b) (net s') /\ prop (nodes s' i) = Some b.
Proof. exact progress_propose. Qed.
Print Assumptions C19_round_progress_propose.

Theorem C19_round_progress_respond : forall p s i b,
  honest p i -> i <> prim p (vw (nodes s i)) -> valid p b = true -> prop (nodes s i) = None -> lock (nodes s i) = None ->
  In (MPrepReq (prim p (vw (nodes s i))) (vw (nodes s i)) b) (inbox (nodes s i)) ->
  exists s', step p s (ARespond i b) = Some s' /\ In (MPrepResp i (vw (nodes s i)) b) (net s').
Proof. exact progress_respond. Qed.
Print Assumptions C19_round_progress_respond.

Theorem C19_round_progress_commit : forall p s i b,
  honest p i -> prop (nodes s i) = Some b -> lock (nodes s i) = None ->
  (pm p <= length (prep_senders p (inbox (nodes s i)) (vw (nodes s i)) b))%nat ->
  exists s', step p s (ACommit i) = Some s' /\ In (MCommit i (vw (nodes s i)) b) (net s').
Proof. exact progress_commit. Qed.
Print Assumptions C19_round_progress_commit.

Theorem C19_round_progress_accept : forall p s i b,
  honest p i -> prop (nodes s i) = Some b -> acc (nodes s i) = None ->
  (pm p <= length (commit_senders (inbox (nodes s i)) (vw (nodes s i)) b))%nat ->
  exists s', step p s (AAccept i) = Some s' /\ acc (nodes s' i) = Some b.
Proof. exact progress_accept. Qed.
Print Assumptions C19_round_progress_accept.

(* view 0, honest primary, everything delivered: the round completes and every validator accepts the proposal — checked by
   evaluation for 4, 7 and 10 validators and every choice of primary (finite domain, bound stated) *)
Theorem C19_round0_completes_4_7_10 :
  forallb (fun nf => forallb (fun pr =>
     match run (ok_params (fst nf) (snd nf) pr) init (round0 (fst nf) pr 42%N) with
     | Some s => all_accept (fst nf) s 42%N
     | None => false end) (seq 0 (fst nf))) [(4, 1); (7, 2); (10, 3)]%nat = true.
Proof. exact round0_completes. Qed.
Print Assumptions C19_round0_completes_4_7_10.


(* ---------- the block witness built by the glue (added after the first independent mutation round) ---------- *)

(* dBFT keeps the Commit payloads of older views in its table across a view change.  The witness assembled as "the first M
   signatures, in validator order, of the commits OF THE CURRENT VIEW" consists of M signatures over the accepted block's
   header and passes the multi-signature check (in-order matching of signatures to validator keys, Codec/Multisig —
   C18's seq_match_iff_matching), whatever older commits the table holds *)
Theorem C19_witness_from_current_view : forall (cur h : N) (t : table) (m : nat),
  table_ok cur h t -> (m <= cur_count cur t)%nat ->
  let w := assemble true m cur t in
  length w = m /\ (forall s, In s w -> over s = h) /\
  seq_match (verify_hd h) (seq 0 (length t)) w = true.
Proof. exact witness_from_current_view. Qed.
Print Assumptions C19_witness_from_current_view.

(* without the view test: four validators, validator 0 holds a Commit of view 0, the others committed in view 1 — the
   assembled witness fails the check (with the test it passes) *)
Theorem C19_witness_unfiltered_refuted :
  table_ok 1%N 11%N ex_table /\ (3 <= cur_count 1%N ex_table)%nat /\
  seq_match (verify_hd 11%N) (seq 0 4) (assemble false 3 1%N ex_table) = false /\
  seq_match (verify_hd 11%N) (seq 0 4) (assemble true 3 1%N ex_table) = true.
Proof. exact witness_unfiltered_refuted. Qed.
Print Assumptions C19_witness_unfiltered_refuted.


(* ---------- one block, several valid witnesses (added after the fifth independent mutation round) ---------- *)

(* For EVERY selection of the current-view commits in the table, taken in validator order, the assembled witness consists of
   signatures over the accepted block's header and passes the multi-signature check: validators that complete the same
   block from different M-subsets of the commits build different, equally valid witnesses, and a ledger's acceptance cannot
   depend on whose copy arrives — also when it already knows the header from another copy (C06: the known-header branch of
   AddBlock verifies the witness of the block it is given, accept_iff_valid). *)
Theorem C19_any_current_view_quorum_witness_valid : forall (cur h : N) (t : table) (sel : list bool),
  table_ok cur h t ->
  let w := picked_sel cur sel t in
  (forall s, In s w -> over s = h) /\ seq_match (verify_hd h) (seq 0 (length t)) w = true.
Proof. exact any_current_view_quorum_witness_valid. Qed.
Print Assumptions C19_any_current_view_quorum_witness_valid.

(* ---------- the recovery glue (added after the second independent mutation round) ---------- *)

(* A RecoveryMessage is a projection of the sender's payload tables and the receiver's reconstruction is its inverse: for a
   sender whose tables are those of a validator at height h, view v (preparations and commits of view v, ChangeViews with
   their own original views) the rebuilt payloads ARE the sender's payloads — validator, height, VIEW, body, witness *)
Theorem C19_recovery_roundtrip : forall c : ctx, wf c -> restore (project c) = payloads c.
Proof. exact recovery_roundtrip. Qed.
Print Assumptions C19_recovery_roundtrip.

Theorem C19_recovery_views_preserved : forall c : ctx, wf c ->
  forall p, In p (restore (project c)) -> In p (payloads c) /\ (pkind p <> KCV -> pview p = cview c).
Proof. exact recovery_views_preserved. Qed.
Print Assumptions C19_recovery_views_preserved.

(* progress through recovery (abstract validator): holding M-1 commits of its view for its proposal, a validator that is
   handed — out of a recovery message of a committed peer — the commit of one more validator has M commits; by
   C19_round_progress_accept it then accepts.  Liveness remains PARTIAL: this and the round-progress lemmas only *)
Theorem C19_recovery_progress : forall (p : params) (s : gst) (i j : node) (b : blockid) (rest : list msg),
  honest p i -> prop (nodes s i) = Some b -> acc (nodes s i) = None ->
  (pm p <= S (length (commit_senders (inbox (nodes s i)) (vw (nodes s i)) b)))%nat ->
  ~ In (MCommit j (vw (nodes s i)) b) (inbox (nodes s i)) ->
  forall inbox', (forall m, In m (MCommit j (vw (nodes s i)) b :: rest ++ inbox (nodes s i)) -> In m inbox') ->
  (pm p <= length (commit_senders inbox' (vw (nodes s i)) b))%nat.
Proof. exact recovery_progress. Qed.
Print Assumptions C19_recovery_progress.

(* non-vacuity: a sender at height 5, view 2 holding the request, two responses, one commit and ChangeViews of views 0 and 1 *)
Example C19_recovery_example :
  let c := mkCtx 5%N 2%N (Some (mkPl KReq 3%N 5%N 2%N 70%N 1%N))
                 [mkPl KResp 0%N 5%N 2%N 71%N 2%N; mkPl KResp 1%N 5%N 2%N 71%N 3%N]
                 [mkPl KCommit 0%N 5%N 2%N 90%N 4%N]
                 [mkPl KCV 0%N 5%N 0%N 11%N 5%N; mkPl KCV 1%N 5%N 1%N 12%N 6%N] in
  wf c /\ restore (project c) = payloads c /\ length (payloads c) = 6%nat.
Proof.
  intros c. split; [|split; reflexivity].
  unfold wf, at_view. split; [|split; [|split]].
  - intros q E. inv E. simpl. repeat split; congruence.
  - intros q E. simpl in E. repeat (destruct E as [E|E]; [subst q; simpl; repeat split; congruence|]). contradiction.
  - intros q E. simpl in E. repeat (destruct E as [E|E]; [subst q; simpl; repeat split; congruence|]). contradiction.
  - intros q E. simpl in E. repeat (destruct E as [E|E]; [subst q; simpl; repeat split; congruence|]). contradiction.
Qed.


(* ---------- full blocks (added after the third independent mutation round) ---------- *)

(* What the primary proposes — its verified transactions cut to MaxTransactionsPerBlock and then at the first transaction
   with which the running size (from the empty block with the default witness) or the running system fee EXCEEDS its limit
   (core.ApplyPolicyToTxSet) — passes the backup's three guards (verifyRequest: count <= MaxTransactionsPerBlock;
   verifyBlock: size <= MaxBlockSize, fee <= MaxBlockSystemFee), also when it sits exactly at a limit; the backup measures
   the empty block no larger than the primary does.  Abstract limits; the bounds of the packed block over the real size
   function are C07's packing theorem (Properties/C07.v, C07_pack_valid). *)
Theorem C19_primary_proposal_passes_backup_checks :
  forall (max_tx : nat) (max_size max_fee hdr_p hdr_b : N) (l : list Packing.tx),
  (hdr_b <= hdr_p)%N -> (hdr_p <= max_size)%N ->
  Packing.backup_accepts max_tx max_size max_fee hdr_b (Packing.pack max_tx max_size max_fee hdr_p l) = true.
Proof. exact Packing.primary_proposal_passes_backup_checks. Qed.
Print Assumptions C19_primary_proposal_passes_backup_checks.

Example C19_pack_at_the_limits :
  let t := Packing.mkTx 100%N 7%N in
  Packing.pack 3 350%N 21%N 50%N [t; t; t; t] = [t; t; t] /\ Packing.backup_accepts 3 350%N 21%N 50%N [t; t; t] = true /\
  Packing.pack 3 350%N 20%N 50%N [t; t; t; t] = [t; t] /\ Packing.backup_accepts 3 349%N 21%N 50%N [t; t; t] = false.
Proof. exact Packing.pack_at_the_limits. Qed.

(* NOT proved (the property's liveness clause in full): under eventual synchrony with all validators honest, every height is
   eventually decided and every pending valid transaction is eventually included.  Kept visible as a statement only. *)
Definition C19_liveness_statement : Prop :=
  forall p : params, faulty p = [] -> (3 * pf p + 1 <= pn p)%nat ->
  forall tr s, run p init tr = Some s ->
  exists tr' s' b, run p s tr' = Some s' /\ forall i, (i < pn p)%nat -> acc (nodes s' i) = Some b.

(* non-vacuity of the agreement theorem: a 4-validator run in which validator 3 is faulty and equivocates, view 0 fails,
   the others change view and decide in view 1 *)
Example C19_agreement_example :
  let p := mkP 4 1 [3%nat] (fun v => ((4 + 1 - v mod 4) mod 4)%nat) (fun _ => true) in
  let tr := [ AFaulty (MPrepResp 3 0 7%N); AFaulty (MCommit 3 0 7%N); AFaulty (MCommit 3 1 9%N);
              ASendCV 0; ASendCV 1; ASendCV 2;
              ADeliver 0 (MChangeView 1 1); ADeliver 0 (MChangeView 2 1); ADoCV 0 1;
              ADeliver 1 (MChangeView 0 1); ADeliver 1 (MChangeView 2 1); ADoCV 1 1;
              ADeliver 2 (MChangeView 0 1); ADeliver 2 (MChangeView 1 1); ADoCV 2 1;
              APropose 0 8%N; ADeliver 1 (MPrepReq 0 1 8%N); ADeliver 2 (MPrepReq 0 1 8%N); ARespond 1 8%N; ARespond 2 8%N;
              ADeliver 0 (MPrepResp 1 1 8%N); ADeliver 0 (MPrepResp 2 1 8%N); ACommit 0;
              ADeliver 1 (MPrepResp 2 1 8%N); ACommit 1; ADeliver 2 (MPrepResp 1 1 8%N); ACommit 2;
              ADeliver 0 (MCommit 1 1 8%N); ADeliver 0 (MCommit 2 1 8%N); AAccept 0;
              ADeliver 1 (MCommit 0 1 8%N); ADeliver 1 (MCommit 2 1 8%N); AAccept 1 ] in
  (3 * pf p + 1 <= pn p)%nat /\ (length (faulty p) <= pf p)%nat /\
  exists s, run p init tr = Some s /\ acc (nodes s 0%nat) = Some 8%N /\ acc (nodes s 1%nat) = Some 8%N /\ acc (nodes s 2%nat) = None.
Proof.
  intros p tr. split; [vm_compute; lia|]. split; [vm_compute; lia|].
  eexists. split; [vm_compute; reflexivity|]. vm_compute. auto.
Qed.
