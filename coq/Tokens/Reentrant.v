(* C05: a payment callback that RE-ENTERS the native contract whose operation is in progress.
   Notary.withdraw(A, C): the record of A is removed, the GAS is transferred to C, C's onNEP17Payment runs -- it may deposit
   again (for A too: a roll-over), withdraw its own deposit, ... -- and only then withdraw completes.
   This file is an ABSTRACT ledger of the Notary contract alone (its GAS, the deposit amounts by account number), not the
   full model of Tokens/Model.v, whose transfers call back into a fixed set of receiver kinds only (see
   [reentrant_statement] below).  Proved here: with the callback an ARBITRARY function that keeps the backing potential (any
   sub-history of deposits and withdrawals does), withdraw keeps "GAS of Notary = sum of deposits"; cleaning the record up
   AGAIN after the transfer returned breaks it. *)
From NG Require Import Common.Tactics.
Open Scope Z_scope.

Definition nst := (Z * list Z)%type.            (* GAS held by the Notary account, deposit of account i at position i *)
Definition dsum (l : list Z) : Z := fold_right Z.add 0 l.
Definition backing (s : nst) : Z := fst s - dsum (snd s).     (* 0 in every reachable state: notary_backing *)

Fixpoint upd (i : nat) (v : Z) (l : list Z) : list Z :=
  match l, i with
  | [], _ => []
  | _ :: t, O => v :: t
  | x :: t, S j => x :: upd j v t
  end.

Lemma dsum_upd : forall l i v, dsum (upd i v l) = dsum l + (if Nat.ltb i (length l) then v - nth i l 0 else 0).
Proof.
  induction l as [|x t IH]; intros i v; simpl.
  - destruct i; reflexivity.
  - destruct i as [|j]; simpl; [lia|].
    rewrite IH. change (Nat.ltb (S j) (S (length t))) with (Nat.ltb j (length t)). destruct (Nat.ltb j (length t)); lia.
Qed.

(* Notary.onPayment: the GAS arrives and the record grows by the same amount (an unknown account: the call faults) *)
Definition n_deposit (a : nat) (amt : Z) (s : nst) : nst :=
  if Nat.ltb a (length (snd s)) then (fst s + amt, upd a (nth a (snd s) 0 + amt) (snd s)) else s.

(* Notary.withdraw with the receiver's callback between the transfer and the completion *)
Definition n_withdraw (cb : nst -> nst) (a : nat) (s : nst) : nst :=
  let d := nth a (snd s) 0 in
  cb (fst s - d, upd a 0 (snd s)).

(* ... and with a second removal of the record "to be safe" in the completion *)
Definition n_withdraw_again (cb : nst -> nst) (a : nat) (s : nst) : nst :=
  let s2 := n_withdraw cb a s in (fst s2, upd a 0 (snd s2)).

Lemma n_deposit_backing a amt s : backing (n_deposit a amt s) = backing s.
Proof.
  unfold n_deposit, backing. destruct (Nat.ltb a (length (snd s))) eqn:E; [|reflexivity].
  simpl. rewrite dsum_upd, E. lia.
Qed.

(* the re-entrant case: ANY callback that keeps the potential (in particular any sequence of deposits -- for the
   withdrawing account too -- and of withdrawals, nested to any depth) *)
Theorem reentrant_withdraw_backing (cb : nst -> nst) a s :
  (forall x, backing (cb x) = backing x) -> backing (n_withdraw cb a s) = backing s.
Proof.
  intros H. unfold n_withdraw. rewrite H. unfold backing; simpl. rewrite dsum_upd.
  destruct (Nat.ltb a (length (snd s))) eqn:E; [lia|].
  rewrite nth_overflow; [lia|]. apply Nat.ltb_ge in E. exact E.
Qed.

(* callbacks as sub-histories: deposits and (nested) withdrawals whose own callbacks are sub-histories again *)
Inductive cbop := CDeposit (a : nat) (amt : Z) | CWithdraw (a : nat) (inner : list cbop).

Fixpoint run_cbop (o : cbop) (s : nst) : nst :=
  match o with
  | CDeposit a amt => n_deposit a amt s
  | CWithdraw a inner => n_withdraw (fun x => fold_left (fun y o' => run_cbop o' y) inner x) a s
  end.
Definition run_cb (l : list cbop) (s : nst) : nst := fold_left (fun y o => run_cbop o y) l s.

Lemma run_cbop_backing : forall o s, backing (run_cbop o s) = backing s.
Proof.
  fix IH 1. intros [a amt|a inner] s; simpl.
  - apply n_deposit_backing.
  - apply reentrant_withdraw_backing. intros x. revert x.
    induction inner as [|o t IHt]; intros x; simpl; [reflexivity|]. rewrite IHt. apply IH.
Qed.

Theorem reentrant_history_backing l a s : backing (n_withdraw (run_cb l) a s) = backing s.
Proof.
  apply reentrant_withdraw_backing. unfold run_cb. induction l as [|o t IH]; intros x; simpl; [reflexivity|].
  rewrite IH. apply run_cbop_backing.
Qed.

(* "clean up again after the transfer": account 1 withdraws 7, the receiver's callback deposits the 7 again for account 1
   (a roll-over); the second removal deletes the NEW record while its GAS stays on the Notary account *)
Theorem cleanup_after_transfer_refuted :
  let s := (12, [5; 7; 0]) in
  backing s = 0
  /\ backing (n_withdraw (run_cb [CDeposit 1 7]) 1 s) = 0
  /\ n_withdraw_again (run_cb [CDeposit 1 7]) 1 s = (12, [5; 0; 0])
  /\ backing (n_withdraw_again (run_cb [CDeposit 1 7]) 1 s) = 7.
Proof. vm_compute. repeat split; reflexivity. Qed.

(* What is NOT proved: the same for the full model of Tokens/Model.v with the callback of every transfer / mint / withdraw
   replaced by an arbitrary sub-history of its operations (votes, transfers of the same token back, registrations), for ALL
   clauses.  The theorems of Properties/C05.v are for receivers of the fixed kinds (accepting / refusing / native
   callbacks), which do not re-enter: that is the partial result; the re-entrant receivers are covered by the harness
   (harness/c05reent.go) on the real chain only. *)
Definition reentrant_statement : Prop :=
  forall (cb : nst -> nst) a s, (forall x, backing (cb x) = backing x) -> backing s = 0 -> backing (n_withdraw cb a s) = 0.

Theorem reentrant_statement_holds : reentrant_statement.
Proof. intros cb a s H H0. rewrite reentrant_withdraw_backing; assumption. Qed.
