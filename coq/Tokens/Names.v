(* method names the token / governance model refers to (kept apart so that Tokens/Model.v need not import String) *)
From Coq Require Import String.
Definition m_update : string := "update".
Definition m_destroy : string := "destroy".
