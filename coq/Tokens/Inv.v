(* C05: measures, invariants and the effect calculus used to prove them.
   Potentials of a ledger (all zero exactly when the conservation clauses hold):
     P_neo  = sum of NEO balances - NEO total supply
     P_gas  = sum of GAS balances - GAS total supply
     P_not  = GAS of the Notary contract - sum of deposits
     P_ev tk a = balance of a in token tk - net amount of the Transfer events emitted so far for a
   and the structural part WF (vote tallies, voters count, candidate records of voted keys, non-negativity).
   [Eff st st' dneo dgas dnot dev] says how one piece of the mechanism moves the potentials; pieces compose by
   addition, and an operation is conservative when its total effect is zero. *)
From NG Require Import Common.Tactics Tokens.Model Tokens.MapLemmas.
Open Scope Z_scope.

Definition fvote (k : N) (x : neoacc) : Z :=
  match nvote x with Some k' => if N.eqb k k' then nbal x else 0 | None => 0 end.
Definition fvoting (x : neoacc) : Z := match nvote x with Some _ => nbal x | None => 0 end.
Definition idz (z : Z) : Z := z.

Definition neo_sum (l : ledger) : Z := sumf nbal (l_neo l).
Definition gas_sum (l : ledger) : Z := sumf idz (l_gas l).
Definition votes_for (k : N) (l : ledger) : Z := sumf (fvote k) (l_neo l).
Definition voting_sum (l : ledger) : Z := sumf fvoting (l_neo l).
Definition dep_sum (l : ledger) : Z := sumf damt (l_deps l).

Definition tok_eqb (a b : token) : bool := match a, b with NEO, NEO | GAS, GAS => true | _, _ => false end.

(* net amount of the Transfer events of token tk for account a: received - sent *)
Definition ev_amt (tk : token) (a : N) (e : event) : Z :=
  if tok_eqb (etok e) tk
  then (match eto e with Some x => if N.eqb x a then eamt e else 0 | None => 0 end)
       - (match efrom e with Some x => if N.eqb x a then eamt e else 0 | None => 0 end)
  else 0.
Definition ev_net (tk : token) (a : N) (evs : list event) : Z := fold_right (fun e s => ev_amt tk a e + s) 0 evs.

Definition bal (tk : token) (l : ledger) (a : N) : Z :=
  match tk with
  | NEO => nbal (aget na0 a (l_neo l))
  | GAS => aget 0 a (l_gas l)
  end.

Definition neo_ok (x : neoacc) : Prop := 0 <= nbal x /\ (nbal x = 0 -> x = na0).

Section Inv.
Variable cfg : config.

Definition P_neo (l : ledger) : Z := neo_sum l - l_neo_total l.
Definition P_gas (l : ledger) : Z := gas_sum l - l_gas_total l.
Definition P_not (l : ledger) : Z := aget 0 (a_notary cfg) (l_gas l) - dep_sum l.
Definition P_ev (tk : token) (a : N) (l : ledger) : Z := bal tk l a - ev_net tk a (l_events l).

(* the structural invariant: holds between any two steps of the mechanism *)
Record WF (l : ledger) : Prop := mkWF {
  wf_votes : forall k, cvotes (aget cand0 k (l_cands l)) = votes_for k l;
  wf_cand : forall k, cpresent (aget cand0 k (l_cands l)) = false -> cvotes (aget cand0 k (l_cands l)) = 0;
  wf_voters : l_voters l = voting_sum l;
  wf_neo : all_entries neo_ok (l_neo l);
  wf_gas : all_entries (fun z => 0 <= z) (l_gas l);
  wf_deps : all_entries (fun d => 0 <= damt d) (l_deps l)
}.

Lemma neo_ok_na0 : neo_ok na0.
Proof. split; simpl; [lia|reflexivity]. Qed.

Lemma wf_neo_acc l a : WF l -> neo_ok (aget na0 a (l_neo l)).
Proof. intros H. apply all_entries_aget; [apply H|apply neo_ok_na0]. Qed.

Lemma fvote_nonneg_entries l k : WF l -> all_entries (fun x => 0 <= fvote k x) (l_neo l).
Proof.
  intros H. eapply all_entries_impl; [|apply (wf_neo _ H)].
  intros v [Hv _]. unfold fvote. destruct (nvote v); [destruct (N.eqb k n)|]; lia.
Qed.

(* every account votes for a key that has a candidate record (what makes the credit half of a transfer total) *)
Lemma wf_present l a k : WF l -> nvote (aget na0 a (l_neo l)) = Some k -> cpresent (aget cand0 k (l_cands l)) = true.
Proof.
  intros H Hv. destruct (cpresent (aget cand0 k (l_cands l))) eqn:E; [reflexivity|exfalso].
  pose proof (wf_cand _ H k E) as Hz. rewrite (wf_votes _ H) in Hz.
  pose proof (wf_neo_acc l a H) as [Hn Hw].
  pose proof (sumf_ge_aget (fvote k) na0 a (l_neo l) (fvote_nonneg_entries l k H) eq_refl) as Hle.
  fold (votes_for k l) in Hle. unfold fvote at 1 in Hle. rewrite Hv, N.eqb_refl in Hle.
  assert (nbal (aget na0 a (l_neo l)) = 0) by lia.
  rewrite (Hw H0) in Hv. discriminate.
Qed.

(* the property of C05 at a block boundary *)
Record Inv (l : ledger) : Prop := mkInv {
  inv_wf : WF l;
  inv_neo_total : l_neo_total l = 100000000;
  inv_neo : P_neo l = 0;
  inv_gas : P_gas l = 0;
  inv_not : P_not l = 0
}.

Record Eff (st st' : state) (dneo dgas dnot : Z) (dev : token -> N -> Z) : Prop := mkEff {
  e_wf : WF (L st) -> WF (L st');
  e_total : l_neo_total (L st') = l_neo_total (L st);
  e_neo : P_neo (L st') = P_neo (L st) + dneo;
  e_gas : P_gas (L st') = P_gas (L st) + dgas;
  e_not : P_not (L st') = P_not (L st) + dnot;
  e_ev : forall tk b, P_ev tk b (L st') = P_ev tk b (L st) + dev tk b
}.

Definition zero_ev : token -> N -> Z := fun _ _ => 0.
Definition Bal (st st' : state) : Prop := Eff st st' 0 0 0 zero_ev.

Lemma Eff_refl st : Bal st st.
Proof. constructor; intros; unfold zero_ev; auto; lia. Qed.

Lemma Eff_trans st st1 st2 a b c f a' b' c' f' :
  Eff st st1 a b c f -> Eff st1 st2 a' b' c' f' ->
  Eff st st2 (a + a') (b + b') (c + c') (fun tk x => f tk x + f' tk x).
Proof.
  intros [w1 t1 n1 g1 o1 v1] [w2 t2 n2 g2 o2 v2]. constructor; intros; auto; try congruence; try lia.
  all: try (rewrite v2, v1; lia).
Qed.

Lemma Eff_ext st st' a b c f a' b' c' f' :
  Eff st st' a b c f -> a = a' -> b = b' -> c = c' -> (forall tk x, f tk x = f' tk x) -> Eff st st' a' b' c' f'.
Proof. intros [] -> -> -> Hf. constructor; auto. intros. rewrite <- Hf. auto. Qed.

Lemma Bal_trans st st1 st2 : Bal st st1 -> Bal st1 st2 -> Bal st st2.
Proof.
  intros H1 H2. eapply Eff_ext; [exact (Eff_trans _ _ _ _ _ _ _ _ _ _ _ H1 H2)|..]; auto.
Qed.

(* a change of the aux part only has no effect *)
Lemma Eff_withA st a : Bal st (withA st a).
Proof. constructor; intros; unfold zero_ev; simpl; auto; lia. Qed.

Lemma Eff_sameL st st' : L st' = L st -> Bal st st'.
Proof. intros E. constructor; intros; unfold zero_ev; rewrite ?E; auto; lia. Qed.

Lemma Bal_Inv st st' : Bal st st' -> Inv (L st) -> Inv (L st').
Proof.
  intros [] []. constructor; auto; try lia; congruence.
Qed.

Lemma Bal_ev st st' : Bal st st' -> forall tk a, P_ev tk a (L st') = P_ev tk a (L st).
Proof. intros [] tk a. rewrite e_ev0. unfold zero_ev. lia. Qed.

End Inv.
