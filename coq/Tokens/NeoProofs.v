(* Effects of the NEO pieces: increaseBalance / updateAccBalance (with ModifyAccountVotes, dropCandidateIfZero,
   modifyVoterTurnout), vote, register / unregister; and the lemma that crediting cannot fail on a well-formed
   ledger (hypothesis H3 of the design). *)
From NG Require Import Common.Tactics Tokens.Model Tokens.MapLemmas Tokens.Inv Tokens.GasProofs.
Open Scope Z_scope.

Section NeoProofs.
Variable cfg : config.

Notation Eff := (Eff cfg).
Notation Bal := (Bal cfg).

Definition norm (x : neoacc) : neoacc := if nbal x =? 0 then na0 else x.

Lemma nbal_norm x : nbal (norm x) = nbal x.
Proof. unfold norm. destruct (nbal x =? 0) eqn:E; simpl; lia. Qed.
Lemma fvote_norm k x : fvote k (norm x) = fvote k x.
Proof.
  unfold norm. destruct (nbal x =? 0) eqn:E; [|reflexivity].
  unfold fvote; simpl. destruct (nvote x); [destruct (N.eqb k n)|]; lia.
Qed.
Lemma fvoting_norm x : fvoting (norm x) = fvoting x.
Proof.
  unfold norm. destruct (nbal x =? 0) eqn:E; [|reflexivity].
  unfold fvoting; simpl. destruct (nvote x); lia.
Qed.
Lemma neo_ok_norm x : 0 <= nbal x -> neo_ok (norm x).
Proof.
  intros H. unfold norm. destruct (nbal x =? 0) eqn:E; [apply neo_ok_na0|].
  split; [exact H|intros; lia].
Qed.

(* an update of one NEO account together with the tallies that depend on it *)
Record NeoUpd (l l' : ledger) (a : N) (e : neoacc) : Prop := mkNU {
  nu_neo : l_neo l' = aset a e (l_neo l);
  nu_neo_total : l_neo_total l' = l_neo_total l;
  nu_gas : l_gas l' = l_gas l;
  nu_gas_total : l_gas_total l' = l_gas_total l;
  nu_deps : l_deps l' = l_deps l;
  nu_events : l_events l' = l_events l;
  nu_votes : forall k, cvotes (aget cand0 k (l_cands l'))
                       = cvotes (aget cand0 k (l_cands l)) - fvote k (aget na0 a (l_neo l)) + fvote k e;
  nu_cand : forall k, cpresent (aget cand0 k (l_cands l')) = false -> cvotes (aget cand0 k (l_cands l')) = 0;
  nu_voters : l_voters l' = l_voters l - fvoting (aget na0 a (l_neo l)) + fvoting e
}.

Lemma NeoUpd_WF l l' a e : NeoUpd l l' a e -> neo_ok e -> WF l -> WF l'.
Proof.
  intros [h1 h2 h3 h4 h5 h6 h7 h8 h9] He H. constructor.
  - intros k. rewrite h7. unfold votes_for. rewrite h1, (sumf_aset (fvote k) na0) by reflexivity.
    rewrite (wf_votes _ H). unfold votes_for. lia.
  - exact h8.
  - rewrite h9. unfold voting_sum. rewrite h1, (sumf_aset fvoting na0) by reflexivity.
    rewrite (wf_voters _ H). unfold voting_sum. lia.
  - rewrite h1. apply all_entries_aset; [apply H|exact He].
  - rewrite h3. apply H.
  - rewrite h5. apply H.
Qed.

Lemma NeoUpd_eff st st' a e :
  NeoUpd (L st) (L st') a e -> neo_ok e ->
  Eff st st' (nbal e - nbal (neo_acc st a)) 0 0 (d_neo_acct a (nbal e - nbal (neo_acc st a))).
Proof.
  intros U He. pose proof U as [h1 h2 h3 h4 h5 h6 h7 h8 h9]. unfold neo_acc. constructor.
  - apply (NeoUpd_WF _ _ _ _ U He).
  - exact h2.
  - unfold P_neo, neo_sum. rewrite h1, h2, (sumf_aset nbal na0) by reflexivity. lia.
  - unfold P_gas, gas_sum. rewrite h3, h4. lia.
  - unfold P_not, dep_sum. rewrite h3, h5. lia.
  - intros tk b. unfold P_ev, bal, d_neo_acct. rewrite h6. destruct tk.
    + rewrite h1, aget_aset. destruct (N.eqb_spec b a); subst; lia.
    + rewrite h3. lia.
Qed.

(* ---------- distributeGas ---------- *)
Lemma distribute_gas_spec st acc acc1 d :
  distribute_gas st acc = (acc1, d) -> nbal acc1 = nbal acc /\ nvote acc1 = nvote acc.
Proof.
  unfold distribute_gas. destruct ((height (A st) =? 0) || (height (A st) =? nheight acc)); intros H; inv H; auto.
Qed.

(* ---------- ModifyAccountVotes ---------- *)
Lemma modify_account_votes_L st v value is_new st1 :
  modify_account_votes cfg st v value is_new = Some st1 ->
  match v with
  | None => L st1 = L st
  | Some k =>
      cpresent (cand_of st k) = true /\
      exists c', L st1 = set_cands (L st) (aset k c' (l_cands (L st))) /\
        ((c' = mkCand true (creg (cand_of st k)) (cvotes (cand_of st k) + value)) \/
         (c' = cand0 /\ cvotes (cand_of st k) + value = 0 /\ is_new = false))
  end.
Proof.
  unfold modify_account_votes. destruct v as [k|]; [|intros H; inv H; reflexivity].
  change (cand_of (withA st (set_votes_changed (A st) true)) k) with (cand_of st k).
  destruct (cpresent (cand_of st k)) eqn:Ep; simpl; [|discriminate].
  intros H. split; [reflexivity|].
  destruct (negb is_new && negb (creg (cand_of st k)) && (cvotes (cand_of st k) + value =? 0)) eqn:Ed; inv H.
  - exists cand0. split; [reflexivity|]. right.
    apply andb_true_iff in Ed as [Ed1 Ed2]. apply andb_true_iff in Ed1 as [Ed0 Ed1].
    repeat split; [lia|]. destruct is_new; [discriminate|reflexivity].
  - eexists. split; [reflexivity|]. left. reflexivity.
Qed.

(* the candidate's tally after the update, for every key *)
Lemma cands_after_put (cands : amap cand) k c' k0 :
  aget cand0 k0 (aset k c' cands) = if N.eqb k0 k then c' else aget cand0 k0 cands.
Proof. apply aget_aset. Qed.

(* ---------- increaseBalance ---------- *)
Lemma neo_inc_balance_upd st a amount check st' dist :
  WF (L st) ->
  neo_inc_balance cfg st a (neo_acc st a) amount check = Some (st', dist) ->
  exists e, NeoUpd (L st) (L st') a e /\ neo_ok e /\ nbal e = nbal (neo_acc st a) + amount.
Proof.
  intros Hwf. unfold neo_inc_balance.
  set (acc := neo_acc st a).
  pose proof (wf_neo_acc _ a Hwf) as [Hnn Hz]. fold (neo_acc st a) in Hnn, Hz. fold acc in Hnn, Hz.
  destruct (((amount <? 0) && (nbal acc <? - amount))
            || ((amount =? 0) && match check with Some c => nbal acc <? c | None => false end)) eqn:Echk; [discriminate|].
  apply orb_false_iff in Echk as [Echk _].
  destruct (distribute_gas st acc) as [acc1 d] eqn:Ed.
  destruct (distribute_gas_spec _ _ _ _ Ed) as [Hb1 Hv1].
  destruct (amount =? 0) eqn:E0.
  - (* a claim: only the height / last gas per vote of the account change *)
    intros H. inv H. exists (norm acc1). assert (amount = 0) by lia. subst amount.
    split; [|split; [apply neo_ok_norm; lia|rewrite nbal_norm; lia]].
    constructor; simpl; auto.
    + intros k. rewrite fvote_norm. fold (neo_acc st a). fold acc. unfold fvote. rewrite Hb1, Hv1. lia.
    + apply Hwf.
    + rewrite fvoting_norm. fold (neo_acc st a). fold acc. unfold fvoting. rewrite Hb1, Hv1. lia.
  - destruct (modify_account_votes cfg st (nvote acc1) amount false) as [st1|] eqn:Em; [|discriminate].
    pose proof (modify_account_votes_L _ _ _ _ _ Em) as HL.
    intros H. inv H.
    set (acc2 := mkNA (nbal acc1 + amount) (nheight acc1) (nvote acc1) (nlgpv acc1)).
    assert (Hnn2 : 0 <= nbal acc2) by (simpl; lia).
    exists (norm acc2).
    split; [|split; [apply neo_ok_norm; exact Hnn2|rewrite nbal_norm; simpl; lia]].
    destruct (nvote acc1) as [k|] eqn:Ev.
    + destruct HL as [Hp [c' [HL Hc']]].
      constructor; simpl; rewrite ?HL; simpl; auto.
      * intros k0. rewrite cands_after_put, fvote_norm. fold (neo_acc st a). fold acc.
        unfold fvote. simpl. rewrite <- Hv1.
        destruct (N.eqb_spec k0 k) as [->|Hk].
        -- fold (cand_of st k). destruct Hc' as [->|[-> [Hz' _]]]; simpl; lia.
        -- lia.
      * intros k0. rewrite cands_after_put. destruct (N.eqb_spec k0 k) as [->|Hk].
        -- destruct Hc' as [->|[-> _]]; simpl; [discriminate|reflexivity].
        -- apply Hwf.
      * rewrite fvoting_norm. fold (neo_acc st a). fold acc. unfold fvoting. simpl.
        rewrite <- Hv1. lia.
    + constructor; simpl; rewrite ?HL; simpl; auto.
      * intros k0. rewrite fvote_norm. fold (neo_acc st a). fold acc. unfold fvote. simpl.
        rewrite <- Hv1. lia.
      * apply Hwf.
      * rewrite fvoting_norm. fold (neo_acc st a). fold acc. unfold fvoting. simpl.
        rewrite <- Hv1. lia.
Qed.

(* ---------- updateAccBalance ---------- *)
Definition d_neo (a : N) (d : Z) : token -> N -> Z := d_neo_acct a d.

Lemma neo_upd_acc_balance_eff st a amount req st' dist :
  WF (L st) ->
  neo_upd_acc_balance cfg st a amount req = Some (st', dist) ->
  Eff st st' amount 0 0 (d_neo a amount).
Proof.
  intros Hwf. unfold neo_upd_acc_balance.
  pose proof (wf_neo_acc _ a Hwf) as [Hnn Hz]. fold (neo_acc st a) in Hnn, Hz.
  assert (Hgo : neo_inc_balance cfg st a (neo_acc st a) amount req = Some (st', dist) -> Eff st st' amount 0 0 (d_neo a amount)).
  { intros H. destruct (neo_inc_balance_upd _ _ _ _ _ _ Hwf H) as [e [U [He Hb]]].
    eapply Eff_ext; [apply (NeoUpd_eff _ _ _ _ U He)|..]; auto; try lia.
    intros tk x. unfold d_neo, d_neo_acct. destruct tk; auto. destruct (N.eqb x a); lia. }
  destruct (nbal (neo_acc st a) =? 0) eqn:E0; [|exact Hgo].
  assert (Hna : neo_acc st a = na0) by (apply Hz; lia).
  destruct (amount <? 0); [discriminate|].
  destruct (match req with Some r => r >? 0 | None => false end); [discriminate|].
  destruct (amount =? 0) eqn:Ea.
  - intros H. inv H. assert (amount = 0) by lia. subst.
    eapply Eff_ext; [apply Eff_refl|..]; auto.
    intros [] x; unfold zero_ev, d_neo, d_neo_acct; auto. destruct (N.eqb x a); auto.
  - rewrite <- Hna. exact Hgo.
Qed.

(* H3: on a well-formed ledger, crediting (amount >= 0, no required balance) cannot fail *)
Lemma neo_credit_cannot_fail st a amount :
  WF (L st) -> 0 <= amount -> neo_upd_acc_balance cfg st a amount None <> None.
Proof.
  intros Hwf Ha. unfold neo_upd_acc_balance.
  pose proof (wf_neo_acc _ a Hwf) as [Hnn Hz]. fold (neo_acc st a) in Hnn, Hz.
  assert (Hgo : forall acc, (acc = neo_acc st a \/ acc = na0) ->
                neo_inc_balance cfg st a acc amount None <> None).
  { intros acc Hacc. unfold neo_inc_balance.
    assert (Hb : 0 <= nbal acc) by (destruct Hacc; subst; simpl; lia).
    replace ((amount <? 0) && (nbal acc <? - amount) || (amount =? 0) && false) with false
      by (destruct (amount <? 0) eqn:E; [lia|]; simpl; destruct (amount =? 0); reflexivity).
    destruct (distribute_gas st acc) as [acc1 d] eqn:Ed.
    destruct (distribute_gas_spec _ _ _ _ Ed) as [Hb1 Hv1].
    destruct (amount =? 0); [discriminate|].
    unfold modify_account_votes. destruct (nvote acc1) as [k|] eqn:Ev; [|discriminate].
    change (cand_of (withA st (set_votes_changed (A st) true)) k) with (cand_of st k).
    assert (Hp : cpresent (cand_of st k) = true).
    { destruct Hacc as [->| ->]; [|discriminate].
      apply (wf_present _ a k Hwf). symmetry. exact Hv1. }
    rewrite Hp. simpl.
    destruct (negb (creg (cand_of st k)) && (cvotes (cand_of st k) + amount =? 0)); discriminate. }
  destruct (nbal (neo_acc st a) =? 0).
  - destruct (amount <? 0) eqn:E; [lia|]. destruct (amount =? 0); [discriminate|].
    apply Hgo. right; reflexivity.
  - apply Hgo. left; reflexivity.
Qed.

(* ---------- register / unregister ---------- *)
Lemma WF_cands_same_votes l cands' :
  WF l ->
  (forall k, cvotes (aget cand0 k cands') = cvotes (aget cand0 k (l_cands l))) ->
  (forall k, cpresent (aget cand0 k cands') = false -> cvotes (aget cand0 k cands') = 0) ->
  WF (set_cands l cands').
Proof.
  intros H Hv Hc. constructor; simpl; try apply H; auto.
  intros k. rewrite Hv. apply (wf_votes _ H).
Qed.

Lemma Bal_cands st cands' :
  (forall k, cvotes (aget cand0 k cands') = cvotes (aget cand0 k (l_cands (L st)))) ->
  (forall k, cpresent (aget cand0 k cands') = false -> cvotes (aget cand0 k cands') = 0) ->
  Bal st (withL st (set_cands (L st) cands')).
Proof.
  intros Hv Hc. constructor; simpl; auto; unfold zero_ev.
  - intros H. apply WF_cands_same_votes; auto.
  - unfold P_neo, neo_sum; simpl; lia.
  - unfold P_gas, gas_sum; simpl; lia.
  - unfold P_not, dep_sum; simpl; lia.
  - intros tk b. unfold P_ev, bal; simpl. destruct tk; lia.
Qed.

Lemma cand_put_bal st k c' :
  WF (L st) -> cvotes c' = cvotes (cand_of st k) -> (cpresent c' = false -> cvotes c' = 0) ->
  Bal st (cand_put st k c').
Proof.
  intros Hwf Hv Hc. apply Bal_cands.
  - intros k0. rewrite cands_after_put. destruct (N.eqb_spec k0 k); subst; auto.
  - intros k0. rewrite cands_after_put. destruct (N.eqb_spec k0 k); subst; auto. apply Hwf.
Qed.

Lemma register_internal_bal st k : WF (L st) -> Bal st (register_internal st k).
Proof.
  intros Hwf. unfold register_internal.
  set (c := cand_of st k).
  assert (B : Bal st (cand_put st k (mkCand true true (if cpresent c then cvotes c else 0)))).
  { apply cand_put_bal; auto; simpl; [|discriminate].
    fold c. destruct (cpresent c) eqn:E; [reflexivity|]. symmetry. apply (wf_cand _ Hwf k E). }
  destruct (cpresent c && creg c); [exact B|].
  eapply Bal_trans; [exact B|apply Eff_withA].
Qed.

Lemma drop_gpv_L st k : L (drop_gpv cfg st k) = L st.
Proof. reflexivity. Qed.

Lemma unregister_candidate_bal st w k st' r :
  WF (L st) -> unregister_candidate cfg st w k = Some (st', r) -> Bal st st'.
Proof.
  intros Hwf. unfold unregister_candidate, ok.
  destruct (negb w); [intros H; inv H; apply Eff_refl|].
  destruct (negb (cpresent (cand_of st k))); [intros H; inv H; apply Eff_refl|].
  set (st1 := withA st (set_votes_changed (A st) true)).
  assert (B1 : Bal st st1) by apply Eff_withA.
  assert (Hwf1 : WF (L st1)) by exact Hwf.
  destruct (cvotes (cand_of st k) =? 0) eqn:E0; intros H; inv H.
  - eapply Bal_trans; [exact B1|]. eapply Bal_trans; [|apply Eff_sameL; apply drop_gpv_L].
    apply cand_put_bal; auto. simpl. change (cand_of st1 k) with (cand_of st k). lia.
  - eapply Bal_trans; [exact B1|]. apply cand_put_bal; auto. simpl. discriminate.
Qed.

(* ---------- vote ---------- *)
Definition ind (v : option N) (k0 : N) : Z :=
  match v with Some k' => if N.eqb k0 k' then 1 else 0 | None => 0 end.

Lemma fvote_ind k0 x : fvote k0 x = ind (nvote x) k0 * nbal x.
Proof. unfold fvote, ind. destruct (nvote x); [destruct (N.eqb k0 n)|]; lia. Qed.

Definition cands_ok (cands : amap cand) : Prop :=
  forall k0, cpresent (aget cand0 k0 cands) = false -> cvotes (aget cand0 k0 cands) = 0.

Lemma modify_account_votes_frame st v value is_new st1 :
  modify_account_votes cfg st v value is_new = Some st1 ->
  l_neo (L st1) = l_neo (L st) /\ l_neo_total (L st1) = l_neo_total (L st) /\ l_gas (L st1) = l_gas (L st)
  /\ l_gas_total (L st1) = l_gas_total (L st) /\ l_voters (L st1) = l_voters (L st) /\ l_deps (L st1) = l_deps (L st)
  /\ l_events (L st1) = l_events (L st)
  /\ (forall k0, cvotes (aget cand0 k0 (l_cands (L st1))) = cvotes (aget cand0 k0 (l_cands (L st))) + ind v k0 * value)
  /\ (cands_ok (l_cands (L st)) -> cands_ok (l_cands (L st1)))
  /\ (forall k0, cpresent (aget cand0 k0 (l_cands (L st))) = true -> creg (aget cand0 k0 (l_cands (L st))) = true ->
                 cpresent (aget cand0 k0 (l_cands (L st1))) = true /\ creg (aget cand0 k0 (l_cands (L st1))) = true).
Proof.
  intros H. pose proof (modify_account_votes_L _ _ _ _ _ H) as HL. unfold ind.
  destruct v as [k|].
  - destruct HL as [Hp [c' [HL Hc']]]. rewrite HL. simpl. repeat split; auto.
    + intros k0. rewrite cands_after_put. destruct (N.eqb_spec k0 k) as [->|Hk]; [|lia].
      fold (cand_of st k). destruct Hc' as [->|[-> [Hz _]]]; cbn [cvotes cand0]; lia.
    + intros Hok k0. rewrite cands_after_put. destruct (N.eqb_spec k0 k) as [->|Hk]; [|apply Hok].
      destruct Hc' as [->|[-> _]]; simpl; [discriminate|reflexivity].
    + rewrite cands_after_put. destruct (N.eqb_spec k0 k) as [->|Hk]; [|assumption].
      destruct Hc' as [->|[-> [Hz Hnew]]]; [reflexivity|exfalso].
      (* a registered candidate is not dropped *)
      unfold modify_account_votes in H.
      change (cand_of (withA st (set_votes_changed (A st) true)) k) with (cand_of st k) in H.
      rewrite Hp in H. simpl in H. fold (cand_of st k) in H1. rewrite H1 in H. rewrite andb_false_r in H. simpl in H.
      inv H. assert (E : aget cand0 k (l_cands (L (cand_put (withA st (set_votes_changed (A st) true)) k
                 (mkCand true true (cvotes (cand_of st k) + value))))) = cand0).
      { rewrite HL. simpl. apply aget_aset_same. }
      simpl in E. rewrite aget_aset_same in E. discriminate.
    + rewrite cands_after_put. destruct (N.eqb_spec k0 k) as [->|Hk]; [|assumption].
      destruct Hc' as [->|[-> [Hz Hnew]]]; [simpl; assumption|exfalso].
      unfold modify_account_votes in H.
      change (cand_of (withA st (set_votes_changed (A st) true)) k) with (cand_of st k) in H.
      rewrite Hp in H. simpl in H. fold (cand_of st k) in H1. rewrite H1 in H. rewrite andb_false_r in H. simpl in H.
      inv H. assert (E : aget cand0 k (l_cands (L (cand_put (withA st (set_votes_changed (A st) true)) k
                 (mkCand true true (cvotes (cand_of st k) + value))))) = cand0).
      { rewrite HL. simpl. apply aget_aset_same. }
      simpl in E. rewrite aget_aset_same in E. discriminate.
  - rewrite HL. repeat split; auto. intros; lia.
Qed.

Lemma modify_account_votes_none st v value is_new :
  modify_account_votes cfg st v value is_new = None ->
  exists k, v = Some k /\ cpresent (cand_of st k) = false.
Proof.
  unfold modify_account_votes. destruct v as [k|]; [|discriminate].
  change (cand_of (withA st (set_votes_changed (A st) true)) k) with (cand_of st k).
  destruct (cpresent (cand_of st k)) eqn:E; simpl.
  - destruct (negb is_new && negb (creg (cand_of st k)) && (cvotes (cand_of st k) + value =? 0)); discriminate.
  - intros _. exists k. auto.
Qed.

Lemma vote_internal_eff st a k st' b :
  WF (L st) -> a <> a_notary cfg ->
  vote_internal cfg st a k = Some (st', b) -> Bal st st'.
Proof.
  intros Hwf Hn. unfold vote_internal.
  set (acc := neo_acc st a).
  pose proof (wf_neo_acc _ a Hwf) as [Hnn Hz]. fold (neo_acc st a) in Hnn, Hz. fold acc in Hnn, Hz.
  destruct (nbal acc =? 0) eqn:E0; [intros H; inv H; apply Eff_refl|].
  destruct (match k with
            | Some key => negb (cpresent (cand_of st key)) || negb (creg (cand_of st key))
            | None => false
            end) eqn:Ek; [intros H; inv H; apply Eff_refl|].
  set (dv := match nvote acc, k with
             | None, Some _ => nbal acc
             | Some _, None => - nbal acc
             | _, _ => 0 end).
  set (st1 := match nvote acc, k with
              | None, Some _ => modify_voter_turnout st (nbal acc)
              | Some _, None => modify_voter_turnout st (- nbal acc)
              | _, _ => st
              end).
  assert (HL1 : l_cands (L st1) = l_cands (L st) /\ l_neo (L st1) = l_neo (L st) /\ l_gas (L st1) = l_gas (L st)
                /\ l_deps (L st1) = l_deps (L st) /\ l_events (L st1) = l_events (L st)
                /\ l_neo_total (L st1) = l_neo_total (L st) /\ l_gas_total (L st1) = l_gas_total (L st)
                /\ l_voters (L st1) = l_voters (L st) + dv).
  { unfold st1, dv. destruct (nvote acc), k; simpl; repeat split; lia. }
  destruct HL1 as [Hc1 [Hn1 [Hg1 [Hd1 [He1 [Hnt1 [Hgt1 Hvt1]]]]]]].
  destruct (distribute_gas st1 acc) as [acc1 new_gas] eqn:Ed.
  destruct (distribute_gas_spec _ _ _ _ Ed) as [Hb1 Hv1].
  destruct (modify_account_votes cfg st1 (nvote acc1) (- nbal acc1) false) as [st2|] eqn:Em1.
  2:{ exfalso. destruct (modify_account_votes_none _ _ _ _ Em1) as [k1 [Ev1 Hp]].
      unfold cand_of in Hp. rewrite Hc1 in Hp. rewrite Hv1 in Ev1.
      rewrite (wf_present _ a k1 Hwf Ev1) in Hp. discriminate. }
  destruct (modify_account_votes_frame _ _ _ _ _ Em1) as [F1 [F2 [F3 [F4 [F5 [F6 [F7 [F8 [F9 F10]]]]]]]]].
  destruct (modify_account_votes cfg st2 k (nbal acc1) true) as [st3|] eqn:Em2.
  2:{ exfalso. destruct (modify_account_votes_none _ _ _ _ Em2) as [k2 [-> Hp]].
      apply orb_false_iff in Ek as [Ekp Ekr]. apply negb_false_iff in Ekp, Ekr.
      unfold cand_of in Hp, Ekp, Ekr. rewrite <- Hc1 in Ekp, Ekr.
      destruct (F10 k2 Ekp Ekr) as [Hp' _]. rewrite Hp' in Hp. discriminate. }
  destruct (modify_account_votes_frame _ _ _ _ _ Em2) as [G1 [G2 [G3 [G4 [G5 [G6 [G7 [G8 [G9 G10]]]]]]]]].
  set (lg := match k with Some key => latest_gpv st2 key | None => nlgpv acc1 end).
  set (e := mkNA (nbal acc1) (nheight acc1) k (match k with None => 0 | Some _ => lg end)).
  destruct (mint_opt cfg (neo_put st3 a e) a new_gas true) as [st5|] eqn:Emint; [|discriminate].
  intros H. inv H.
  assert (U : NeoUpd (L st) (L (neo_put st3 a e)) a (norm e)).
  { constructor; simpl; try congruence.
    - rewrite G1, F1, Hn1. reflexivity.
    - intros k0. rewrite G8, F8, Hc1, fvote_norm, !fvote_ind. fold (neo_acc st a). fold acc. simpl.
      rewrite Hv1, Hb1. lia.
    - apply G9, F9. rewrite Hc1. exact (wf_cand _ Hwf).
    - rewrite G5, F5, Hvt1, fvoting_norm. fold (neo_acc st a). fold acc. unfold fvoting, dv. simpl.
      rewrite Hb1. destruct (nvote acc), k; lia. }
  assert (He : neo_ok (norm e)) by (apply neo_ok_norm; simpl; lia).
  pose proof (NeoUpd_eff _ _ _ _ U He) as E4.
  assert (B4 : Bal st (neo_put st3 a e)).
  { eapply Eff_ext; [exact E4|..]; auto; rewrite nbal_norm; simpl; fold acc; try lia.
    intros tk x. unfold d_neo_acct, zero_ev. destruct tk; auto. destruct (N.eqb x a); lia. }
  eapply Bal_trans; [exact B4|].
  apply (mint_opt_eff cfg _ _ _ _ _ Emint); [|exact Hn].
  apply (e_wf _ _ _ _ _ _ _ B4 Hwf).
Qed.

End NeoProofs.
