(* Model of the native NEO / GAS / Notary / Policy accounting and governance of neo-go
   (pkg/core/native: native_nep17.go, native_gas.go, native_neo.go, notary.go, policy.go).
   Definitions only; everything computes with vm_compute.  The model follows the mechanism of the Go code:
   updateAccBalance / increaseBalance / distributeGas / ModifyAccountVotes / dropCandidateIfZero /
   modifyVoterTurnout / addTokens / postTransfer, the OnPersist / PostPersist handlers, and the NEO and Policy
   caches as separate fields beside the storage they are derived from.

   State = ledger (what the C05 invariants speak about: balances, supplies, candidates, voters count, deposits,
   emitted Transfer events) + aux (heights, committee, reward bookkeeping, caches, policy values).
   Accounts and public keys are small numbers assigned by the harness (key ids are ordered like PublicKey.Cmp). *)
From NG Require Import Common.Tactics.
From NG Require Import Auth.Permission Auth.PermStore Tokens.Names.
From Coq Require String.
Open Scope Z_scope.

(* ---------- association maps with a default ---------- *)
Definition amap (V : Type) := list (N * V).

Fixpoint aget {V} (d : V) (k : N) (m : amap V) : V :=
  match m with
  | [] => d
  | (k', v) :: t => if N.eqb k k' then v else aget d k t
  end.

Fixpoint aset {V} (k : N) (v : V) (m : amap V) : amap V :=
  match m with
  | [] => [(k, v)]
  | (k', v') :: t => if N.eqb k k' then (k, v) :: t else (k', v') :: aset k v t
  end.

(* ---------- data ---------- *)
Record neoacc := mkNA { nbal : Z; nheight : Z; nvote : option N; nlgpv : Z }.
Definition na0 := mkNA 0 0 None 0.                       (* = no storage item *)
Record cand := mkCand { cpresent : bool; creg : bool; cvotes : Z }.
Definition cand0 := mkCand false false 0.                (* = no storage item *)
Record dep := mkDep { dpresent : bool; damt : Z; dtill : Z }.
Definition dep0 := mkDep false 0 0.

Inductive token := NEO | GAS.
Record event := mkEv { etok : token; efrom : option N; eto : option N; eamt : Z }.

Inductive akind := KPlain | KAcceptor | KNoCb | KRejector | KNotary | KNeo | KGas | KNative.

Record config := mkCfg {
  acct_of_key : list N;      (* key id -> account (script hash of the key's signature contract) *)
  standby : list N;          (* standby committee (key ids, configuration order); committee size = its length *)
  nvalidators : nat;
  kinds : list akind;        (* account -> kind; accounts beyond the list are plain *)
  a_notary : N; a_neo : N; a_gas : N;
  gas_initial : Z;           (* InitialGASSupply *)
  hf_faun : bool; hf_gorgon : bool;
  fix_block_dirty : bool;    (* F7 repaired: Policy block/unblock mark the NEO committee cache dirty *)
  fix_gpv_drop : bool;       (* F23 repaired: dropCandidateIfZero removes the cached gas-per-vote entry *)
  fix_whitelist : bool       (* F47 repaired: setWhitelistFeeContract refreshes the cached fee of an existing entry *)
}.

Record ledger := mkL {
  l_neo : amap neoacc; l_neo_total : Z;
  l_gas : amap Z; l_gas_total : Z;
  l_cands : amap cand; l_voters : Z;
  l_deps : amap dep;
  l_events : list event                      (* newest first *)
}.

Record aux := mkA {
  height : Z;                                (* index of the block being / last persisted *)
  committee : list (N * Z);                  (* storage item 14 = cache.committee: (key, votes when computed) *)
  ne_committee : list (N * Z);               (* cache.newEpochCommittee *)
  votes_changed : bool;                      (* cache.votesChanged *)
  s_gpv : amap Z;                            (* storage prefix 23: gas per vote *)
  c_gpv : amap (option Z);                   (* cache.gasPerVoteCache *)
  s_gpb : list (Z * Z);                      (* storage prefix 29 (index, value), NEWEST FIRST (descending index) *)
  c_gpb : list (Z * Z);                      (* cache.gasPerBlock, NEWEST FIRST (the Go slice is appended to and walked backwards) *)
  s_regprice : Z; c_regprice : Z;
  s_blocked : list N;                        (* Policy storage prefix 15, ascending *)
  c_blocked : list N;                        (* PolicyCache.blockedAccounts, ascending *)
  p_store : amap Z; p_cache : amap Z         (* Policy numeric settings by storage key (10, 18, 19, 20*256+attr) *)
}.

(* Management contract record of a deployed contract: id, update counter, version of the NEF/manifest (1 or 2) *)
(* the manifest details a node enforces: permissions (Auth/Permission.v), groups (key ids), names of the safe methods *)
Record mshape := mkShape { sh_perms : list permission; sh_groups : list N; sh_safe : list String.string }.

(* a contract state as ManagementCache.contracts holds it (manifest parsed from JSON at deploy / update time) ... *)
Record mcontract := mkMC { mc_present : bool; mc_id : Z; mc_counter : Z; mc_version : Z;
                           mc_perms : list permission; mc_groups : list N; mc_safe : list String.string }.
Definition mc0 := mkMC false 0 0 0 [] [] [].

(* ... and as storage holds it: the manifest in its stack-item form; the permissions go through
   Permission.ToStackItem / FromStackItem (Auth/PermStore.v), groups and safe flags are stored as they are *)
Record mstored := mkMS { ms_present : bool; ms_id : Z; ms_counter : Z; ms_version : Z;
                         ms_perms : sitem; ms_groups : list N; ms_safe : list String.string }.
Definition store_of (c : mcontract) : mstored :=
  mkMS (mc_present c) (mc_id c) (mc_counter c) (mc_version c) (perms_to_item (mc_perms c)) (mc_groups c) (mc_safe c).
(* Management.InitializeCache: DeserializeConvertible -> Manifest.FromStackItem *)
Definition load (s : mstored) : mcontract :=
  mkMC (ms_present s) (ms_id s) (ms_counter s) (ms_version s)
       (match perms_from_item (ms_perms s) with Some ps => ps | None => [] end) (ms_groups s) (ms_safe s).
Definition ms0 := store_of mc0.

(* Designate (RoleManagement) and ContractManagement: storage and caches *)
Record ext := mkX {
  ds_store : amap (list (Z * list N));   (* role -> records (effective height, sorted keys), NEWEST FIRST *)
  ds_cache : amap (Z * list N);          (* DesignationCache: role -> (height, nodes) of the latest record *)
  mg_store : amap mstored;               (* storage prefix 8: contract account -> state (stored form) *)
  mg_cache : amap mcontract;             (* ManagementCache.contracts *)
  mg_ids : amap (option N);              (* storage prefix 12: id -> contract account *)
  mg_next : Z                            (* storage key 15: nextAvailableID *)
}.

Record state := mkSt { L : ledger; A : aux; X : ext }.

(* ledger setters *)
Definition set_neo (l : ledger) v := mkL v (l_neo_total l) (l_gas l) (l_gas_total l) (l_cands l) (l_voters l) (l_deps l) (l_events l).
Definition set_neo_total (l : ledger) v := mkL (l_neo l) v (l_gas l) (l_gas_total l) (l_cands l) (l_voters l) (l_deps l) (l_events l).
Definition set_gas (l : ledger) v := mkL (l_neo l) (l_neo_total l) v (l_gas_total l) (l_cands l) (l_voters l) (l_deps l) (l_events l).
Definition set_gas_total (l : ledger) v := mkL (l_neo l) (l_neo_total l) (l_gas l) v (l_cands l) (l_voters l) (l_deps l) (l_events l).
Definition set_cands (l : ledger) v := mkL (l_neo l) (l_neo_total l) (l_gas l) (l_gas_total l) v (l_voters l) (l_deps l) (l_events l).
Definition set_voters (l : ledger) v := mkL (l_neo l) (l_neo_total l) (l_gas l) (l_gas_total l) (l_cands l) v (l_deps l) (l_events l).
Definition set_deps (l : ledger) v := mkL (l_neo l) (l_neo_total l) (l_gas l) (l_gas_total l) (l_cands l) (l_voters l) v (l_events l).
Definition set_events (l : ledger) v := mkL (l_neo l) (l_neo_total l) (l_gas l) (l_gas_total l) (l_cands l) (l_voters l) (l_deps l) v.

(* aux setters *)
Definition set_height (a : aux) v := mkA v (committee a) (ne_committee a) (votes_changed a) (s_gpv a) (c_gpv a) (s_gpb a) (c_gpb a) (s_regprice a) (c_regprice a) (s_blocked a) (c_blocked a) (p_store a) (p_cache a).
Definition set_committee (a : aux) v := mkA (height a) v (ne_committee a) (votes_changed a) (s_gpv a) (c_gpv a) (s_gpb a) (c_gpb a) (s_regprice a) (c_regprice a) (s_blocked a) (c_blocked a) (p_store a) (p_cache a).
Definition set_ne_committee (a : aux) v := mkA (height a) (committee a) v (votes_changed a) (s_gpv a) (c_gpv a) (s_gpb a) (c_gpb a) (s_regprice a) (c_regprice a) (s_blocked a) (c_blocked a) (p_store a) (p_cache a).
Definition set_votes_changed (a : aux) v := mkA (height a) (committee a) (ne_committee a) v (s_gpv a) (c_gpv a) (s_gpb a) (c_gpb a) (s_regprice a) (c_regprice a) (s_blocked a) (c_blocked a) (p_store a) (p_cache a).
Definition set_gpv (a : aux) s c := mkA (height a) (committee a) (ne_committee a) (votes_changed a) s c (s_gpb a) (c_gpb a) (s_regprice a) (c_regprice a) (s_blocked a) (c_blocked a) (p_store a) (p_cache a).
Definition set_gpb (a : aux) s c := mkA (height a) (committee a) (ne_committee a) (votes_changed a) (s_gpv a) (c_gpv a) s c (s_regprice a) (c_regprice a) (s_blocked a) (c_blocked a) (p_store a) (p_cache a).
Definition set_regprice (a : aux) s c := mkA (height a) (committee a) (ne_committee a) (votes_changed a) (s_gpv a) (c_gpv a) (s_gpb a) (c_gpb a) s c (s_blocked a) (c_blocked a) (p_store a) (p_cache a).
Definition set_blocked (a : aux) s c := mkA (height a) (committee a) (ne_committee a) (votes_changed a) (s_gpv a) (c_gpv a) (s_gpb a) (c_gpb a) (s_regprice a) (c_regprice a) s c (p_store a) (p_cache a).
Definition set_policy (a : aux) s c := mkA (height a) (committee a) (ne_committee a) (votes_changed a) (s_gpv a) (c_gpv a) (s_gpb a) (c_gpb a) (s_regprice a) (c_regprice a) (s_blocked a) (c_blocked a) s c.

Definition withL (st : state) (l : ledger) := mkSt l (A st) (X st).
Definition withA (st : state) (a : aux) := mkSt (L st) a (X st).
Definition withX (st : state) (x : ext) := mkSt (L st) (A st) x.

(* ---------- readers ---------- *)
Definition neo_acc (st : state) (a : N) : neoacc := aget na0 a (l_neo (L st)).
Definition gas_bal (st : state) (a : N) : Z := aget 0 a (l_gas (L st)).
Definition cand_of (st : state) (k : N) : cand := aget cand0 k (l_cands (L st)).
Definition dep_of (st : state) (a : N) : dep := aget dep0 a (l_deps (L st)).

(* the storage contract deployed by account a has the account index 100 + a *)
Definition caddr (a : N) : N := (100 + a)%N.
Definition contract_of (st : state) (a : N) : mcontract := aget mc0 (caddr a) (mg_cache (X st)).

Definition emit (st : state) (e : event) : state := withL st (set_events (L st) (e :: l_events (L st))).

Section WithConfig.
Variable cfg : config.

Definition csize : Z := Z.of_nat (length (standby cfg)).
Definition nval : Z := Z.of_nat (nvalidators cfg).
Definition kind_of (a : N) : akind := nth (N.to_nat a) (kinds cfg) KPlain.
Definition key_acct (k : N) : N := nth (N.to_nat k) (acct_of_key cfg) 0%N.

Definition opt_N_eqb (a b : option N) : bool :=
  match a, b with Some x, Some y => N.eqb x y | None, None => true | _, _ => false end.

(* ---------- GAS: increaseBalance / updateAccBalance / addTokens / mint / burn ---------- *)
(* GAS.increaseBalance on the stored balance (an absent item is balance 0; an item is deleted when it reaches 0) *)
Definition gas_inc_balance (st : state) (a : N) (amount : Z) (check : option Z) : option state :=
  let b := gas_bal st a in
  if amount =? 0 then
    match check with
    | Some c => if b <? c then None else Some st
    | None => Some st
    end
  else if (amount <? 0) && (b <? - amount) then None
  else Some (withL st (set_gas (L st) (aset a (b + amount) (l_gas (L st))))).

(* nep17TokenNative.addTokens for GAS: balance and total supply together; None = panic *)
Definition gas_add_tokens (st : state) (a : N) (amount : Z) : option state :=
  if amount =? 0 then Some st else
  match gas_inc_balance st a amount None with
  | None => None
  | Some st1 => Some (withL st1 (set_gas_total (L st1) (l_gas_total (L st1) + amount)))
  end.

(* what calling onNEP17Payment on the receiver does when the caller is GAS / NEO and data is null:
   true = returns normally, false = the execution faults (missing method, abort, native refusing) *)
Definition plain_callback_ok (a : N) : bool :=
  match kind_of a with
  | KPlain | KAcceptor => true
  | _ => false
  end.

(* GAS.MintDeferrable (callOnPayment says whether onNEP17Payment of a contract receiver is called) *)
Definition gas_mint (st : state) (a : N) (amount : Z) (call : bool) : option state :=
  if amount =? 0 then Some st else
  match gas_add_tokens st a amount with
  | None => None
  | Some st1 =>
      let st2 := emit st1 (mkEv GAS None (Some a) amount) in
      if call && negb (plain_callback_ok a) then None else Some st2
  end.

(* GAS.Burn *)
Definition gas_burn (st : state) (a : N) (amount : Z) : option state :=
  if amount =? 0 then Some st else
  match gas_add_tokens st a (- amount) with
  | None => None
  | Some st1 => Some (emit st1 (mkEv GAS (Some a) None amount))
  end.

Definition mint_opt (st : state) (a : N) (d : option Z) (call : bool) : option state :=
  match d with
  | None => Some st
  | Some g => gas_mint st a g call
  end.

(* ---------- NEO reward bookkeeping ---------- *)
Definition latest_gpv (st : state) (k : N) : Z :=
  match aget None k (c_gpv (A st)) with
  | Some v => v
  | None => aget 0 k (s_gpv (A st))
  end.

(* CalculateNEOHolderReward: walk the gas-per-block records from the newest *)
Fixpoint holder_sum (rev_gr : list (Z * Z)) (start en : Z) (acc : Z) : Z :=
  match rev_gr with
  | [] => acc
  | (idx, g) :: t =>
      if idx >=? en then holder_sum t start en acc
      else if idx <=? start then acc + (en - start) * g
      else holder_sum t start idx (acc + (en - idx) * g)
  end.

Definition holder_reward (st : state) (value start en : Z) : Z :=
  if (value =? 0) || (start >=? en) then 0
  else value * holder_sum (c_gpb (A st)) start en 0 * 10 / (100 * 100000000).

Definition calc_bonus (st : state) (acc : neoacc) (en : Z) : Z :=
  let r := holder_reward st (nbal acc) (nheight acc) en in
  match nvote acc with
  | None => r
  | Some k => (latest_gpv st k - nlgpv acc) * nbal acc / 100000000 + r
  end.

(* NEO.distributeGas: (updated account, amount to mint if a distribution happens) *)
Definition distribute_gas (st : state) (acc : neoacc) : neoacc * option Z :=
  let h := height (A st) in
  if (h =? 0) || (h =? nheight acc) then (acc, None)
  else
    let gen := calc_bonus st acc h in
    let lg := match nvote acc with Some k => latest_gpv st k | None => nlgpv acc end in
    (mkNA (nbal acc) h (nvote acc) lg, Some gen).

(* ---------- candidates ---------- *)
Definition drop_gpv (st : state) (k : N) : state :=
  withA st (set_gpv (A st) (aset k 0 (s_gpv (A st)))
                    (if fix_gpv_drop cfg then aset k None (c_gpv (A st)) else c_gpv (A st))).

Definition cand_put (st : state) (k : N) (c : cand) : state :=
  withL st (set_cands (L st) (aset k c (l_cands (L st)))).

(* NEO.ModifyAccountVotes; None = "invalid validator" *)
Definition modify_account_votes (st : state) (vote : option N) (value : Z) (is_new : bool) : option state :=
  let st1 := withA st (set_votes_changed (A st) true) in
  match vote with
  | None => Some st1
  | Some k =>
      let c := cand_of st1 k in
      if negb (cpresent c) then None else
      let c' := mkCand true (creg c) (cvotes c + value) in
      if negb is_new && negb (creg c') && (cvotes c' =? 0)
      then Some (drop_gpv (cand_put st1 k cand0) k)
      else Some (cand_put st1 k c')
  end.

Definition modify_voter_turnout (st : state) (d : Z) : state :=
  withL st (set_voters (L st) (l_voters (L st) + d)).

Definition neo_put (st : state) (a : N) (acc : neoacc) : state :=
  withL st (set_neo (L st) (aset a (if nbal acc =? 0 then na0 else acc) (l_neo (L st)))).

(* NEO.increaseBalance on a decoded account; returns the new state (candidate / voters updated, account
   written by the caller as in updateAccBalance) and the GAS distribution *)
Definition neo_inc_balance (st : state) (a : N) (acc : neoacc) (amount : Z) (check : option Z)
  : option (state * option Z) :=
  if ((amount <? 0) && (nbal acc <? - amount))
     || ((amount =? 0) && match check with Some c => nbal acc <? c | None => false end)
  then None else
  let '(acc1, dist) := distribute_gas st acc in
  if amount =? 0 then Some (neo_put st a acc1, dist) else
  match modify_account_votes st (nvote acc1) amount false with
  | None => None
  | Some st1 =>
      let st2 := match nvote acc1 with Some _ => modify_voter_turnout st1 amount | None => st1 end in
      Some (neo_put st2 a (mkNA (nbal acc1 + amount) (nheight acc1) (nvote acc1) (nlgpv acc1)), dist)
  end.

(* nep17TokenNative.updateAccBalance for NEO *)
Definition neo_upd_acc_balance (st : state) (a : N) (amount : Z) (required : option Z)
  : option (state * option Z) :=
  let acc := neo_acc st a in
  if nbal acc =? 0 then
    if amount <? 0 then None
    else if match required with Some r => r >? 0 | None => false end then None
    else if amount =? 0 then Some (st, None)
    else neo_inc_balance st a na0 amount required
  else neo_inc_balance st a acc amount required.

(* ---------- results ---------- *)
(* an operation returns None when the execution faults, else the new state and the boolean it pushed
   (None for methods returning nothing) *)
Definition result := option (state * option bool).
Definition ok (st : state) (b : bool) : result := Some (st, Some b).

(* NEO.transfer; [witnessed] = the transaction carries the witness of [from] *)
Definition neo_transfer (st : state) (witnessed : bool) (from to : N) (amount : Z) : result :=
  if amount <? 0 then None else
  if negb witnessed then ok st false else
  let empty := N.eqb from to || (amount =? 0) in
  match neo_upd_acc_balance st from (if empty then 0 else - amount) (Some amount) with
  | None => ok st false
  | Some (st1, dist1) =>
      match (if empty then Some (st1, None) else neo_upd_acc_balance st1 to amount None) with
      | None => ok st1 false            (* H3: debited, not credited, "false" *)
      | Some (st2, dist2) =>
          let st3 := emit st2 (mkEv NEO (Some from) (Some to) amount) in
          if negb (plain_callback_ok to) then None else
          match mint_opt st3 from dist1 true with
          | None => None
          | Some st4 =>
              match mint_opt st4 to dist2 true with
              | None => None
              | Some st5 => ok st5 true
              end
          end
      end
  end.

(* ---------- candidates: register / unregister / vote ---------- *)
Definition register_internal (st : state) (k : N) : state :=
  let c := cand_of st k in
  let st1 := cand_put st k (mkCand true true (if cpresent c then cvotes c else 0)) in
  if cpresent c && creg c then st1 else withA st1 (set_votes_changed (A st1) true).

(* NEO.registerCandidate (Echidna on: no witness check in this method); [budget] = system fee of the transaction *)
Definition register_candidate (st : state) (k : N) (budget : Z) : result :=
  if c_regprice (A st) >? budget then None else ok (register_internal st k) true.

Definition unregister_candidate (st : state) (witnessed : bool) (k : N) : result :=
  if negb witnessed then ok st false else
  let c := cand_of st k in
  if negb (cpresent c) then ok st true else
  let st1 := withA st (set_votes_changed (A st) true) in
  if cvotes c =? 0 then ok (drop_gpv (cand_put st1 k cand0) k) true
  else ok (cand_put st1 k (mkCand true false (cvotes c))) true.

(* NEO.voteInternalUncheckedDeferrable: Some (state, true) done, Some (state, false) = returned an error
   (possibly after partial writes, as in the code), None = fault *)
Definition vote_internal (st : state) (a : N) (k : option N) : option (state * bool) :=
  let acc := neo_acc st a in
  if nbal acc =? 0 then Some (st, false) else
  if match k with
     | Some key => let c := cand_of st key in negb (cpresent c) || negb (creg c)
     | None => false
     end then Some (st, false) else
  let st1 := match nvote acc, k with
             | None, Some _ => modify_voter_turnout st (nbal acc)
             | Some _, None => modify_voter_turnout st (- nbal acc)
             | _, _ => st
             end in
  let '(acc1, new_gas) := distribute_gas st1 acc in
  match modify_account_votes st1 (nvote acc1) (- nbal acc1) false with
  | None => Some (st1, false)
  | Some st2 =>
      let lg := match k with Some key => latest_gpv st2 key | None => nlgpv acc1 end in
      match modify_account_votes st2 k (nbal acc1) true with
      | None => Some (st2, false)
      | Some st3 =>
          let lg' := match k with None => 0 | Some _ => lg end in
          let st4 := neo_put st3 a (mkNA (nbal acc1) (nheight acc1) k lg') in
          match mint_opt st4 a new_gas true with
          | None => None
          | Some st5 => Some (st5, true)
          end
      end
  end.

Definition vote (st : state) (witnessed : bool) (a : N) (k : option N) : result :=
  if negb witnessed then ok st false else
  match vote_internal st a k with
  | None => None
  | Some (st1, b) => ok st1 b
  end.

(* ---------- Policy ---------- *)
Fixpoint mem_N (x : N) (l : list N) : bool :=
  match l with [] => false | y :: t => N.eqb x y || mem_N x t end.
Fixpoint insert_N (x : N) (l : list N) : list N :=
  match l with
  | [] => [x]
  | y :: t => if N.ltb x y then x :: l else if N.eqb x y then l else y :: insert_N x t
  end.
Fixpoint remove_N (x : N) (l : list N) : list N :=
  match l with [] => [] | y :: t => if N.eqb x y then t else y :: remove_N x t end.

Definition is_blocked (st : state) (a : N) : bool := mem_N a (c_blocked (A st)).

Definition mark_dirty (st : state) : state :=
  if fix_block_dirty cfg then withA st (set_votes_changed (A st) true) else st.

(* Policy.blockAccount after the committee check; natives cannot be blocked *)
Definition block_account (st : state) (a : N) : result :=
  match kind_of a with
  | KNotary | KNeo | KGas | KNative => None
  | _ =>
      if is_blocked st a then ok st false else
      let r := if hf_faun cfg then vote_internal st a None else Some (st, false) in
      match r with
      | None => None
      | Some (st1, _) =>
          ok (mark_dirty (withA st1 (set_blocked (A st1) (insert_N a (s_blocked (A st1))) (insert_N a (c_blocked (A st1)))))) true
      end
  end.

Definition unblock_account (st : state) (a : N) : result :=
  if negb (is_blocked st a) then ok st false else
  ok (mark_dirty (withA st (set_blocked (A st) (remove_N a (s_blocked (A st))) (remove_N a (c_blocked (A st)))))) true.

(* numeric settings: key 10 feePerByte, 18 execFeeFactor, 19 storagePrice, 5120 + t attribute fee of type t *)
Definition policy_in_range (key v : Z) : bool :=
  if key =? 10 then (0 <=? v) && (v <=? 100000000)
  else if key =? 18 then (1 <=? v) && (v <=? (if hf_faun cfg then 1000000 else 100))
  else if key =? 19 then (1 <=? v) && (v <=? 10000000)
  else (0 <=? v) && (v <=? 1000000000).

Definition policy_set (st : state) (key v : Z) : result :=
  if negb (policy_in_range key v) then None else
  Some (withA st (set_policy (A st) (aset (Z.to_N key) v (p_store (A st))) (aset (Z.to_N key) v (p_cache (A st)))), None).

(* whitelisted fee of the method "put" of the storage contract deployed by account a: Policy storage prefix 16 /
   PolicyCache.whitelistedContracts, kept under key 8192 + a as fee + 1 (0 = no entry) *)
Definition wl_key (a : N) : N := (8192 + a)%N.

(* Policy.setWhitelistFeeContract: storage is always written; the cached entry is inserted only when there was none
   (the unrepaired code leaves an existing cached entry with its old fee) *)
Definition whitelist_set (st : state) (a : N) (fee : Z) : result :=
  if fee <? 0 then None else
  if negb (mc_present (contract_of st a)) then None else
  let k := wl_key a in
  let c := if negb (aget 0 k (p_cache (A st)) =? 0) && negb (fix_whitelist cfg)
           then p_cache (A st) else aset k (fee + 1) (p_cache (A st)) in
  Some (withA st (set_policy (A st) (aset k (fee + 1) (p_store (A st))) c), None).

(* Policy.removeWhitelistFeeContract: panics when the cache has no such entry *)
Definition whitelist_remove (st : state) (a : N) : result :=
  let k := wl_key a in
  if negb (mc_present (contract_of st a)) then None else
  if aget 0 k (p_cache (A st)) =? 0 then None else
  Some (withA st (set_policy (A st) (aset k 0 (p_store (A st))) (aset k 0 (p_cache (A st)))), None).

Definition whitelisted_fee (st : state) (a : N) : option Z :=
  let v := aget 0 (wl_key a) (p_cache (A st)) in if v =? 0 then None else Some (v - 1).

Definition attr_fee_notary (st : state) : Z := aget 0 (Z.to_N (5120 + 34)) (p_cache (A st)).

(* ---------- NEO settings ---------- *)
(* putGASRecord: the key is the index; block indices only grow, so a new record either replaces the newest one
   (same block) or becomes the newest *)
Definition gpb_store_put (idx v : Z) (l : list (Z * Z)) : list (Z * Z) :=
  match l with
  | (i, x) :: t => if idx =? i then (idx, v) :: t else (idx, v) :: l
  | [] => [(idx, v)]
  end.

Definition set_gas_per_block (st : state) (v : Z) : result :=
  if (v <? 0) || (v >? 10 * 100000000) then None else
  let idx := height (A st) + 1 in
  Some (withA st (set_gpb (A st) (gpb_store_put idx v (s_gpb (A st))) ((idx, v) :: c_gpb (A st))), None).

Definition set_register_price (st : state) (v : Z) : result :=
  if v <=? 0 then None else Some (withA st (set_regprice (A st) v v), None).

(* ---------- GAS.transfer with the receiver's callback ---------- *)
Inductive gdata :=
| DNone                                   (* data = null *)
| DDeposit (to : option N) (till : Z)     (* [to|null, till] *)
| DKey (k : N).                           (* a public key *)

Definition dep_put (st : state) (a : N) (d : dep) : state :=
  withL st (set_deps (L st) (aset a d (l_deps (L st)))).

(* Notary.onPayment; sender = transaction sender *)
Definition notary_on_payment (st : state) (sender from : N) (amount : Z) (d : gdata) : option state :=
  match d with
  | DDeposit to0 till =>
      let to := match to0 with Some t => t | None => from end in
      let allowed := N.eqb sender to in
      let cur := height (A st) - 1 in
      let old := dep_of st to in
      if till <? cur + 2 then None else
      if dpresent old && (till <? dtill old) then None else
      let fee := attr_fee_notary st in
      if negb (dpresent old) && (amount <? 2 * fee) then None else
      let till' := if dpresent old then (if allowed then till else dtill old)
                   else (if allowed then till else cur + 5760) in
      Some (dep_put st to (mkDep true (damt old + amount) till'))
  | _ => None
  end.

(* the body of GAS.transfer after the witness check *)
Definition gas_transfer_core (st : state) (sender wit from to : N) (amount : Z) (d : gdata) : result :=
  let empty := N.eqb from to || (amount =? 0) in
  match gas_inc_balance st from (if empty then 0 else - amount) (Some amount) with
  | None => ok st false
  | Some st1 =>
      match (if empty then Some st1 else gas_inc_balance st1 to amount None) with
      | None => ok st1 false
      | Some st2 =>
          let st3 := emit st2 (mkEv GAS (Some from) (Some to) amount) in
          match kind_of to with
          | KPlain | KAcceptor => ok st3 true
          | KNotary =>
              match notary_on_payment st3 sender from amount d with
              | None => None
              | Some st4 => ok st4 true
              end
          | KNeo =>
              (* NEO.onNEP17Payment: the exact register price, data = key witnessed by the transaction ([wit]) *)
              match d with
              | DKey k =>
                  if negb (amount =? c_regprice (A st3)) then None else
                  if negb (N.eqb (key_acct k) wit) then None else
                  match gas_burn (register_internal st3 k) (a_neo cfg) amount with
                  | None => None
                  | Some st4 => ok st4 true
                  end
              | _ => None
              end
          | _ => None
          end
      end
  end.

Definition gas_transfer (st : state) (witnessed : bool) (sender wit from to : N) (amount : Z) (d : gdata) : result :=
  if amount <? 0 then None else
  if negb witnessed then ok st false else
  gas_transfer_core st sender wit from to amount d.

(* Notary.withdraw *)
Definition notary_withdraw (st : state) (witnessed : bool) (sender wit from : N) (to0 : option N) : result :=
  if negb witnessed then ok st false else
  let to := match to0 with Some t => t | None => from end in
  let d := dep_of st from in
  if negb (dpresent d) then ok st false else
  if height (A st) - 1 <? dtill d then ok st false else
  let st1 := dep_put st from dep0 in
  match gas_transfer_core st1 sender wit (a_notary cfg) to (damt d) DNone with
  | Some (st2, Some true) => ok st2 true
  | _ => None
  end.

Definition notary_lock (st : state) (witnessed : bool) (a : N) (till : Z) : result :=
  if negb witnessed then ok st false else
  if till <? height (A st) - 1 + 2 then ok st false else
  let d := dep_of st a in
  if negb (dpresent d) then ok st false else
  if till <? dtill d then ok st false else
  ok (dep_put st a (mkDep true (damt d) till)) true.

(* ---------- Designate (RoleManagement) ---------- *)
Fixpoint nodup_N (l : list N) : bool :=
  match l with [] => true | x :: t => negb (mem_N x t) && nodup_N t end.

Definition ds_latest (st : state) (role : N) : Z * list N := aget (0, []) role (ds_cache (X st)).

Fixpoint ds_lookup (recs : list (Z * list N)) (index : Z) : Z * list N :=
  match recs with
  | [] => (0, [])
  | (h, ks) :: t => if h <=? index then (h, ks) else ds_lookup t index
  end.

(* Designate.GetDesignatedByRole: the cache holds the latest record only, older ones are looked up in storage *)
Definition designated (st : state) (role : N) (index : Z) : Z * list N :=
  let '(h, ks) := ds_latest st role in
  if h <=? index then (h, ks) else ds_lookup (aget [] role (ds_store (X st))) index.

Definition valid_role (role : N) : bool := N.eqb role 4 || N.eqb role 8 || N.eqb role 16 || N.eqb role 32.

Fixpoint insert_key' (x : N) (l : list N) : list N :=
  match l with [] => [x] | y :: t => if N.leb x y then x :: l else y :: insert_key' x t end.
Definition sort_keys' (l : list N) : list N := fold_right insert_key' [] l.

(* Designate.DesignateAsRole after the committee check: effective from the next block *)
Definition designate_as_role (st : state) (role : N) (ks : list N) : result :=
  if (Nat.eqb (length ks) 0) || (Nat.ltb 32 (length ks)) || negb (valid_role role) then None else
  let idx := height (A st) + 1 in
  let recs := aget [] role (ds_store (X st)) in
  if match recs with (h, _) :: _ => h =? idx | [] => false end then None else
  if negb (nodup_N ks) then None else
  let rec := (idx, sort_keys' ks) in
  let x := X st in
  Some (withX st (mkX (aset role (rec :: recs) (ds_store x)) (aset role rec (ds_cache x))
                      (mg_store x) (mg_cache x) (mg_ids x) (mg_next x)), None).

(* ---------- ContractManagement ---------- *)
Definition mg_put (st : state) (h : N) (c : mcontract) (ids : amap (option N)) (next : Z) : state :=
  let x := X st in
  withX st (mkX (ds_store x) (ds_cache x) (aset h (store_of c) (mg_store x)) (aset h c (mg_cache x)) ids next).

(* Policy.CleanWhitelist *)
Definition whitelist_clean (st : state) (a : N) : state :=
  withA st (set_policy (A st) (aset (wl_key a) 0 (p_store (A st))) (aset (wl_key a) 0 (p_cache (A st)))).

(* the manifest the compiler writes by default: may call every method of every contract; no groups, no safe methods *)
Definition shape_wild : mshape := mkShape [mk_perm DWild MWild] [] [].

(* the Management contract as a callee (abstract hash number 64, no groups) *)
Definition mgmt_callee : callee := mk_callee 64 [].

(* Management.deploy by account a (hash depends on the sender) with the manifest details m *)
Definition mg_deploy (st : state) (a : N) (m : mshape) : result :=
  let h := caddr a in
  if is_blocked st h then None else
  if mc_present (contract_of st a) then None else
  let id := mg_next (X st) in
  Some (mg_put st h (mkMC true id 0 1 (sh_perms m) (sh_groups m) (sh_safe m))
               (aset (Z.to_N id) (Some h) (mg_ids (X st))) (id + 1), None).

(* Management.update called by the contract of account a (its CACHED manifest must permit the call): whitelist cleaned,
   counter incremented, the new manifest details in place *)
Definition mg_update (st : state) (a : N) (m : mshape) : result :=
  let c := contract_of st a in
  if negb (mc_present c) then None else
  if negb (can_call (mc_perms c) mgmt_callee m_update) then None else
  if mc_counter c =? 65535 then None else
  let st1 := whitelist_clean st a in
  Some (mg_put st1 (caddr a) (mkMC true (mc_id c) (mc_counter c + 1) 2 (sh_perms m) (sh_groups m) (sh_safe m))
               (mg_ids (X st1)) (mg_next (X st1)), None).

(* Management.destroy called by the contract of account a: its hash is blocked, its whitelist entries and records go *)
Definition mg_destroy (st : state) (a : N) : result :=
  let c := contract_of st a in
  if negb (mc_present c) then None else
  if negb (can_call (mc_perms c) mgmt_callee m_destroy) then None else
  match block_account st (caddr a) with
  | None => None
  | Some (st1, _) =>
      let st2 := whitelist_clean st1 a in
      Some (mg_put st2 (caddr a) mc0 (aset (Z.to_N (mc_id c)) None (mg_ids (X st2))) (mg_next (X st2)), None)
  end.

(* ---------- committee ---------- *)
Definition cand_better (x y : N * Z) : bool :=      (* most votes first, ties by key order *)
  (snd x >? snd y) || ((snd x =? snd y) && N.ltb (fst x) (fst y)).

Fixpoint insert_cand (x : N * Z) (l : list (N * Z)) : list (N * Z) :=
  match l with
  | [] => [x]
  | y :: t => if cand_better x y then x :: l else y :: insert_cand x t
  end.
Definition sort_cands (l : list (N * Z)) : list (N * Z) := fold_right insert_cand [] l.

(* registered, not blocked candidates *)
Definition eligible (st : state) : list (N * Z) :=
  fold_right (fun '(k, c) acc =>
                if cpresent c && creg c && negb (is_blocked st (key_acct k))
                then (k, cvotes c) :: acc else acc) []
             (l_cands (L st)).

Definition compute_committee (st : state) : list (N * Z) :=
  let cs := sort_cands (eligible st) in
  let turnout := l_voters (L st) * 5 / l_neo_total (L st) in
  let n := length (standby cfg) in
  if (turnout >? 0) && (Nat.leb n (length cs)) then firstn n cs
  else map (fun k => (k, aget 0 k cs)) (standby cfg).

Fixpoint insert_key (x : N) (l : list N) : list N :=
  match l with [] => [x] | y :: t => if N.leb x y then x :: l else y :: insert_key x t end.
Definition sort_keys (l : list N) : list N := fold_right insert_key [] l.

Definition validators_of (cm : list (N * Z)) : list N := sort_keys (firstn (nvalidators cfg) (map fst cm)).
Definition next_validators (st : state) : list N := validators_of (committee (A st)).
Definition compute_next_validators (st : state) : list N := validators_of (ne_committee (A st)).
Definition committee_sorted (st : state) : list N := sort_keys (map fst (committee (A st))).

Definition storage_votes (st : state) (k : N) : Z :=
  let c := cand_of st k in if cpresent c && creg c then cvotes c else -1.

Fixpoint gpb_at (rev_gr : list (Z * Z)) (idx : Z) : Z :=
  match rev_gr with
  | [] => 0
  | (i, g) :: t => if i <=? idx then g else gpb_at t idx
  end.

(* ---------- operations, transactions, blocks ---------- *)
(* the operations that can be wrapped by notifications of a helper contract (OLim) *)
Inductive lop :=
| LNeoT (from to : N) (a : Z)
| LGasT (from to : N) (a : Z) (d : gdata)
| LVote (acc : N) (k : option N).

Inductive op :=
| OLim (pre : Z) (o : lop) (post : Z) (nacct : N)
    (* one execution: a helper contract emits [pre] notifications, the native method [o] is called, the helper emits
       [post] more.  [nacct] is the account of the helper contract itself: its onNEP17Payment emits (amount mod 1000)
       notifications.  Every native post-effect (Transfer, Vote, CandidateStateChanged) is a notification too, and
       since Echidna the 513th notification of an execution fails: AddNotification returns an error, the native
       panics, the execution FAULTs *)
| ONeoT (from to : N) (a : Z)
| OGasT (from to : N) (a : Z) (d : gdata)
| OVote (acc : N) (k : option N)
| OReg (k : N) (budget : Z)
| OUnreg (k : N)
| OWithdraw (from : N) (to : option N)
| OLock (a : N) (till : Z)
| OSetGPB (v : Z) | OSetReg (v : Z)
| OBlock (a : N) | OUnblock (a : N)
| OPolicy (key v : Z)
| OWhitelist (a : N) (fee : option Z)   (* set / remove the whitelisted fee of the method "put" of the contract of a *)
| ODesignate (role : N) (ks : list N)
| ODeploy (a : N) (m : mshape) | OUpdate (a : N) (m : mshape) | ODestroy (a : N)
| ODeployOther            (* a deployment of a contract the model does not follow: it takes the next contract id *)
| OAbort                 (* a script that faults *)
| OOpaque.               (* an invocation that does not touch the modelled contracts *)

(* a transaction: sender account (pays), system fee, network fee, the committee key set that co-signed (empty when
   none), the operation, what the implementation reported (halted, boolean result), and the NotaryAssisted
   attribute when there is one: (NKeys, payer).  A transaction with the attribute is either sent by the Notary
   contract itself (signers = [Notary with scope None; payer]: the fees are burnt from the contract's GAS and charged
   to the payer's deposit in Notary.OnPersist, the payer's witness is the one the script sees) or has Notary among
   its further signers (then the payer is the sender and pays as usual). *)
Record tx := mkTxA { t_signer : N; t_sysfee : Z; t_netfee : Z; t_csig : list N; t_op : op;
                     i_halt : bool; i_res : option bool; t_na : option (Z * N) }.
Definition mkTx s f n c o h r : tx := mkTxA s f n c o h r None.

(* the account whose witness the script sees *)
Definition t_wit (t : tx) : N :=
  if N.eqb (t_signer t) (a_notary cfg)
  then match t_na t with Some (_, p) => p | None => t_signer t end
  else t_signer t.

Definition committee_witness (st : state) (t : tx) : bool :=
  match t_csig t with
  | [] => false
  | l => if list_eq_dec N.eq_dec (sort_keys l) (committee_sorted st) then true else false
  end.

(* ---------- the notification limit (interop.MaxNotificationCount, enforced from Echidna on) ---------- *)
Definition notif_limit : Z := 512.

(* the post-effect as an action that can FAIL: n more notifications when [count] were emitted already;
   None = AddNotification returned an error *)
Definition add_notifs (count n : Z) : option Z :=
  if count + n >? notif_limit then None else Some (count + n).

(* the Transfer events one execution added (the ledger's list is newest first) *)
Definition new_events (l l' : ledger) : list event :=
  firstn (length (l_events l') - length (l_events l)) (l_events l').

(* the notifications of the helper contract's onNEP17Payment: called once for every transfer / mint to it *)
Definition cb_notifs (nacct : N) (evs : list event) : Z :=
  fold_right (fun e s => (if opt_N_eqb (eto e) (Some nacct) then eamt e mod 1000 else 0) + s) 0 evs.

(* native notifications that are not Transfer events: "Vote" of a successful vote, "CandidateStateChanged" of a
   registration by payment that changes the candidate's state *)
Definition own_notifs (l : ledger) (o : lop) (r : option bool) : Z :=
  match o, r with
  | LVote _ _, Some true => 1
  | LGasT _ to _ (DKey k), Some true =>
      match kind_of to with
      | KNeo => let c := aget cand0 k (l_cands l) in if cpresent c && creg c then 0 else 1
      | _ => 0
      end
  | _, _ => 0
  end.

Definition lop_notifs (l l' : ledger) (o : lop) (r : option bool) (nacct : N) : Z :=
  Z.of_nat (length (new_events l l')) + own_notifs l o r + cb_notifs nacct (new_events l l').

(* [body] = what the native method does when no notification fails.  A failing notification panics: the execution
   faults as a whole, whatever was done before it *)
Definition run_lim (st : state) (pre post : Z) (o : lop) (nacct : N) (body : result) : result :=
  match add_notifs 0 pre with
  | None => None
  | Some c1 =>
      match body with
      | None => None
      | Some (st', r) =>
          match add_notifs c1 (lop_notifs (L st) (L st') o r nacct) with
          | None => None
          | Some c2 =>
              match add_notifs c2 post with
              | None => None
              | Some _ => Some (st', r)
              end
          end
      end
  end.

(* the native method of a wrapped operation, as if no notification could fail *)
Definition run_lop (st : state) (t : tx) (o : lop) : result :=
  let s := t_signer t in
  let w := t_wit t in
  match o with
  | LNeoT from to a => neo_transfer st (N.eqb from w) from to a
  | LGasT from to a d => gas_transfer st (N.eqb from w) s w from to a d
  | LVote acc k => vote st (N.eqb acc w) acc k
  end.

Definition run_op (st : state) (t : tx) : result :=
  let s := t_signer t in
  let w := t_wit t in
  match t_op t with
  | OLim pre o post nacct => run_lim st pre post o nacct (run_lop st t o)
  | ONeoT from to a => neo_transfer st (N.eqb from w) from to a
  | OGasT from to a d => gas_transfer st (N.eqb from w) s w from to a d
  | OVote acc k => vote st (N.eqb acc w) acc k
  | OReg k budget => register_candidate st k budget
  | OUnreg k => unregister_candidate st (N.eqb (key_acct k) w) k
  | OWithdraw from to => notary_withdraw st (N.eqb from w) s w from to
  | OLock a till => notary_lock st (N.eqb a w) a till
  | OSetGPB v => if committee_witness st t then set_gas_per_block st v else None
  | OSetReg v => if committee_witness st t then set_register_price st v else None
  | OBlock a => if committee_witness st t then block_account st a else None
  | OUnblock a => if committee_witness st t then unblock_account st a else None
  | OPolicy key v => if committee_witness st t then policy_set st key v else None
  | OWhitelist a fee =>
      if committee_witness st t && hf_faun cfg   (* the methods exist from Faun on *)
      then match fee with Some f => whitelist_set st a f | None => whitelist_remove st a end
      else None
  | ODesignate role ks => if committee_witness st t then designate_as_role st role ks else None
  | ODeploy a m => mg_deploy st a m
  | OUpdate a m => mg_update st a m
  | ODestroy a => mg_destroy st a
  | ODeployOther =>
      if i_halt t then
        let x := X st in
        Some (withX st (mkX (ds_store x) (ds_cache x) (mg_store x) (mg_cache x) (mg_ids x) (mg_next x + 1)), i_res t)
      else None
  | OAbort => None
  | OOpaque => if i_halt t then Some (st, i_res t) else None
  end.

(* a faulted transaction leaves no trace (its fee was burnt in OnPersist) *)
Definition exec_tx (st : state) (t : tx) : state :=
  match run_op st t with
  | Some (st', _) => st'
  | None => st
  end.

(* NEO.OnPersist *)
Definition neo_on_persist (st : state) : state :=
  if height (A st) mod csize =? 0
  then withA st (set_votes_changed (set_committee (A st) (ne_committee (A st))) false)
  else st.

(* GAS.OnPersist: burn every fee, mint the network fees to the primary; None = a fee is not covered (invalid block) *)
Fixpoint burn_fees (st : state) (txs : list tx) : option state :=
  match txs with
  | [] => Some st
  | t :: r =>
      match gas_burn st (t_signer t) (t_sysfee t + t_netfee t) with
      | None => None
      | Some st1 => burn_fees st1 r
      end
  end.

Definition primary (st : state) : N := key_acct (nth 0 (next_validators st) 0%N).

(* NKeys + 1 summed over the transactions with the NotaryAssisted attribute *)
Definition na_fees (txs : list tx) : Z :=
  fold_right (fun t s => match t_na t with Some (nk, _) => nk + 1 + s | None => s end) 0 txs.

(* the primary gets the network fees less the NotaryAssisted part, which Notary.OnPersist mints to the notary nodes *)
Definition gas_on_persist (st : state) (txs : list tx) : option state :=
  match txs with
  | [] => Some st
  | _ =>
      match burn_fees st txs with
      | None => None
      | Some st1 =>
          gas_mint st1 (primary st1)
                   (fold_right (fun t s => t_netfee t + s) 0 txs - na_fees txs * attr_fee_notary st1) false
      end
  end.

(* Notary.OnPersist, first half: the fees of the transactions sent by the Notary contract are taken from the payer's
   deposit; None = panic (no deposit / negative deposit: the block is invalid) *)
Fixpoint charge_deposits (st : state) (txs : list tx) : option state :=
  match txs with
  | [] => Some st
  | t :: r =>
      match t_na t with
      | Some (_, p) =>
          if N.eqb (t_signer t) (a_notary cfg) then
            let d := dep_of st p in
            if negb (dpresent d) then None else
            let amt := damt d - (t_sysfee t + t_netfee t) in
            if amt <? 0 then None else
            charge_deposits (dep_put st p (if amt =? 0 then dep0 else mkDep true amt (dtill d))) r
          else charge_deposits st r
      | None => charge_deposits st r
      end
  end.

Fixpoint mint_each (st : state) (accts : list N) (amount : Z) : option state :=
  match accts with
  | [] => Some st
  | a :: r => match gas_mint st a amount false with None => None | Some st1 => mint_each st1 r amount end
  end.

(* the nodes designated for the role P2PNotary (32) as GetDesignatedByRole(.., MaxUint32) answers *)
Definition notary_nodes (st : state) : list N := snd (designated st 32%N 4294967295).

(* Notary.OnPersist, second half: (NKeys + 1) * fee per key, divided evenly (rounding down) between the notary nodes *)
Definition notary_on_persist (st : state) (txs : list tx) : option state :=
  match charge_deposits st txs with
  | None => None
  | Some st1 =>
      let nf := na_fees txs in
      if nf =? 0 then Some st1 else
      match notary_nodes st1 with
      | [] => Some st1
      | ns => mint_each st1 (map key_acct ns) (nf * attr_fee_notary st1 / Z.of_nat (length ns))
      end
  end.

(* OnPersist of GAS, then of Notary (the order of the contract ids; NEO's ran before) *)
Definition natives_on_persist (st : state) (txs : list tx) : option state :=
  match gas_on_persist st txs with
  | None => None
  | Some st1 => notary_on_persist st1 txs
  end.

(* voter rewards of NEO.PostPersist at an epoch start *)
Fixpoint reward_voters (st : state) (cm : list (N * Z)) (i : Z) (voter_reward : Z) : state :=
  match cm with
  | [] => st
  | (k, v) :: t =>
      let votes := if hf_gorgon cfg && votes_changed (A st) then storage_votes st k else v in
      let st1 :=
        if votes >? 0 then
          let tmp := (if i <? nval then 2 else 1) * voter_reward / votes in
          let nv := latest_gpv st k + tmp in
          withA st (set_gpv (A st) (aset k nv (s_gpv (A st))) (aset k (Some nv) (c_gpv (A st))))
        else st in
      reward_voters st1 t (i + 1) voter_reward
  end.

Definition neo_post_persist (st : state) : option state :=
  let idx := height (A st) in
  (* GetGASPerBlock(ic.BlockHeight()+1): native Ledger's PostPersist ran before, so BlockHeight() is the block's index *)
  let gas := gpb_at (c_gpb (A st)) (idx + 1) in
  let member := fst (nth (Z.to_nat (idx mod csize)) (committee (A st)) (0%N, 0)) in
  match gas_mint st (key_acct member) (gas * 10 / 100) false with
  | None => None
  | Some st1 =>
      let st2 :=
        if idx mod csize =? 0 then
          let vr := 80 * gas * (100000000 * csize) / (csize + nval) / 100 in
          reward_voters st1 (committee (A st1)) 0 vr
        else st1 in
      Some (if ((idx + 1) mod csize =? 0) && votes_changed (A st2)
            then withA st2 (set_ne_committee (A st2) (compute_committee st2))
            else st2)
  end.

(* one block; None = the model considers the block invalid (a fee not covered) *)
Definition run_block (st : state) (txs : list tx) : option state :=
  let st0 := withA st (set_height (A st) (height (A st) + 1)) in
  match natives_on_persist (neo_on_persist st0) txs with
  | None => None
  | Some st1 => neo_post_persist (fold_left exec_tx txs st1)
  end.

(* ---------- genesis ---------- *)
Definition validators_acct : N := 0%N.

(* the state written by Initialize of the natives (inside OnPersist of block 0) *)
Definition genesis_init : state :=
  let cm := map (fun k => (k, 0)) (standby cfg) in
  mkSt (mkL [(validators_acct, mkNA 100000000 0 None 0)] 100000000
            [(validators_acct, gas_initial cfg)] (gas_initial cfg)
            [] 0 []
            [mkEv GAS None (Some validators_acct) (gas_initial cfg); mkEv NEO None (Some validators_acct) 100000000])
       (mkA 0 cm cm true [] [] [(0, 500000000)] [(0, 500000000)] 100000000000 100000000000 [] []
            [(10%N, 1000); (18%N, if hf_faun cfg then 300000 else 30); (19%N, 100000); (Z.to_N (5120 + 34), 10000000)]
            [(10%N, 1000); (18%N, if hf_faun cfg then 300000 else 30); (19%N, 100000); (Z.to_N (5120 + 34), 10000000)])
       (mkX [] [] [] [] [] 1).

(* block 0: after Initialize, NEO.OnPersist (height 0 starts an epoch) and NEO.PostPersist run like in every block *)
Definition genesis : state :=
  match neo_post_persist (neo_on_persist genesis_init) with
  | Some st => st
  | None => genesis_init
  end.

(* Designate.InitializeCache / Management.InitializeCache: the caches are what storage says *)
Definition reinit_ext (x : ext) : ext :=
  mkX (ds_store x) (map (fun '(r, recs) => (r, match recs with rec :: _ => rec | [] => (0, []) end)) (ds_store x))
      (mg_store x) (map (fun '(h, s) => (h, load s)) (mg_store x)) (mg_ids x) (mg_next x).

(* ---------- restart: the caches re-initialised from storage (InitializeCache of NEO and Policy) ---------- *)
Definition reinit (st : state) : state :=
  let a := A st in
  let a1 := mkA (height a) (committee a) (committee a) true (s_gpv a) [] (s_gpb a) (s_gpb a)
                (s_regprice a) (s_regprice a) (s_blocked a) (s_blocked a) (p_store a) (p_store a) in
  let st1 := mkSt (L st) a1 (reinit_ext (X st)) in
  if (height a + 1) mod csize =? 0
  then withA st1 (set_ne_committee a1 (compute_committee st1))
  else st1.

End WithConfig.
