(* The clauses of property C05 as separate statements over every reachable state of the model
   (reach cfg bs = the state after any list of blocks bs, each a list of transactions, applied to genesis). *)
From NG Require Import Common.Tactics Tokens.Model Tokens.MapLemmas Tokens.Inv Tokens.GasProofs Tokens.NeoProofs Tokens.OpProofs.
Open Scope Z_scope.

Section C05.
Variable cfg : config.
Hypothesis CW : cfg_wf cfg.
Variable bs : list (list tx).
Hypothesis OK : blocks_ok cfg bs.

Let st := reach cfg bs.
Let I := invariants_hold cfg CW bs OK.

Lemma neo_supply : l_neo_total (L st) = 100000000 /\ neo_sum (L st) = 100000000.
Proof. pose proof (inv_neo _ _ I) as H. pose proof (inv_neo_total _ _ I) as T. unfold P_neo in H. fold st in H, T. lia. Qed.

Lemma gas_supply : gas_sum (L st) = l_gas_total (L st).
Proof. pose proof (inv_gas _ _ I) as H. unfold P_gas in H. fold st in H. lia. Qed.

Lemma candidate_votes : forall k, cvotes (cand_of st k) = votes_for k (L st).
Proof. intros k. apply (wf_votes _ (inv_wf _ _ I)). Qed.

Lemma voted_keys_have_records : forall a k, nvote (neo_acc st a) = Some k -> cpresent (cand_of st k) = true.
Proof. intros a k. apply (wf_present _ a k (inv_wf _ _ I)). Qed.

Lemma voters_count : l_voters (L st) = voting_sum (L st).
Proof. apply (wf_voters _ (inv_wf _ _ I)). Qed.

Lemma notary_backing : gas_bal st (a_notary cfg) = dep_sum (L st).
Proof. pose proof (inv_not _ _ I) as H. unfold P_not in H. fold st in H. unfold gas_bal. lia. Qed.

Lemma no_negative :
  (forall a, 0 <= nbal (neo_acc st a)) /\ (forall a, 0 <= gas_bal st a)
  /\ (forall k, 0 <= cvotes (cand_of st k)) /\ (forall a, 0 <= damt (dep_of st a)) /\ 0 <= l_voters (L st).
Proof.
  pose proof (inv_wf _ _ I) as W. fold st in W. repeat split.
  - intros a. apply (wf_neo_acc _ a W).
  - intros a. apply (gas_nonneg_of_wf _ a W).
  - intros k. rewrite candidate_votes. apply sumf_nonneg, fvote_nonneg_entries, W.
  - intros a. apply (dep_nonneg st a W).
  - rewrite voters_count. apply sumf_nonneg. eapply all_entries_impl; [|apply (wf_neo _ W)].
    intros v [Hv _]. unfold fvoting. destruct (nvote v); lia.
Qed.

End C05.
