(* Effects of the GAS pieces: increaseBalance, addTokens, mint, burn, emit. *)
From NG Require Import Common.Tactics Tokens.Model Tokens.MapLemmas Tokens.Inv.
Open Scope Z_scope.

Section GasProofs.
Variable cfg : config.

Notation Eff := (Eff cfg).
Notation Bal := (Bal cfg).
Notation WF := WF.

Definition d_gas_acct (a : N) (d : Z) : token -> N -> Z :=
  fun tk b => match tk with GAS => if N.eqb b a then d else 0 | NEO => 0 end.
Definition d_neo_acct (a : N) (d : Z) : token -> N -> Z :=
  fun tk b => match tk with NEO => if N.eqb b a then d else 0 | GAS => 0 end.
Definition at_notary (a : N) (d : Z) : Z := if N.eqb a (a_notary cfg) then d else 0.

Lemma gas_nonneg_of_wf l a : WF l -> 0 <= aget 0 a (l_gas l).
Proof. intros H. apply (all_entries_aget (fun z => 0 <= z)); [apply H|lia]. Qed.

(* setting one GAS balance *)
Lemma Eff_gas_set st a v :
  0 <= v ->
  Eff st (withL st (set_gas (L st) (aset a v (l_gas (L st)))))
      0 (v - gas_bal st a) (at_notary a (v - gas_bal st a)) (d_gas_acct a (v - gas_bal st a)).
Proof.
  intros Hv. unfold gas_bal. constructor; simpl.
  - intros [w1 w2 w3 w4 w5 w6]. constructor; simpl; auto.
    apply all_entries_aset; auto.
  - reflexivity.
  - unfold P_neo, neo_sum; simpl. lia.
  - unfold P_gas, gas_sum; simpl. rewrite (sumf_aset idz 0) by reflexivity. unfold idz. lia.
  - unfold P_not, dep_sum, at_notary; simpl. rewrite aget_aset. rewrite (N.eqb_sym (a_notary cfg) a).
    destruct (N.eqb_spec a (a_notary cfg)); subst; lia.
  - intros tk b. unfold P_ev, bal, d_gas_acct; simpl. destruct tk; [lia|].
    rewrite aget_aset. destruct (N.eqb_spec b a); subst; lia.
Qed.

Lemma gas_inc_balance_eff st a amt chk st' :
  gas_inc_balance st a amt chk = Some st' -> WF (L st) ->
  Eff st st' 0 amt (at_notary a amt) (d_gas_acct a amt) /\ A st' = A st.
Proof.
  unfold gas_inc_balance. intros H Hwf.
  destruct (amt =? 0) eqn:E0.
  - assert (amt = 0) by lia. subst amt.
    assert (st' = st) by (destruct chk; [destruct (gas_bal st a <? z)|]; congruence). subst st'.
    split; [|reflexivity].
    eapply Eff_ext; [apply Eff_refl|..]; auto.
    + unfold at_notary. destruct (N.eqb a (a_notary cfg)); reflexivity.
    + intros [] x; unfold zero_ev, d_gas_acct; auto. destruct (N.eqb x a); auto.
  - destruct ((amt <? 0) && (gas_bal st a <? - amt)) eqn:E1; [discriminate|]. inv H.
    split; [|reflexivity].
    pose proof (gas_nonneg_of_wf _ a Hwf) as Hb. fold (gas_bal st a) in Hb.
    assert (0 <= gas_bal st a + amt) by lia.
    eapply Eff_ext; [apply (Eff_gas_set st a (gas_bal st a + amt)); assumption|..]; auto; try lia.
    + f_equal; lia.
    + intros tk x. unfold d_gas_acct. destruct tk; auto. destruct (N.eqb x a); lia.
Qed.

Lemma Eff_gas_total st d :
  Eff st (withL st (set_gas_total (L st) (l_gas_total (L st) + d))) 0 (- d) 0 zero_ev.
Proof.
  constructor; simpl; auto.
  - intros [w1 w2 w3 w4 w5 w6]. constructor; simpl; auto.
  - unfold P_neo, neo_sum; simpl; lia.
  - unfold P_gas, gas_sum; simpl; lia.
  - unfold P_not, dep_sum; simpl; lia.
  - intros tk b. unfold P_ev, bal, zero_ev; simpl. destruct tk; lia.
Qed.

Lemma gas_add_tokens_eff st a amt st' :
  gas_add_tokens st a amt = Some st' -> WF (L st) ->
  Eff st st' 0 0 (at_notary a amt) (d_gas_acct a amt) /\ A st' = A st.
Proof.
  unfold gas_add_tokens. intros H Hwf.
  destruct (amt =? 0) eqn:E0.
  - inv H. assert (amt = 0) by lia. subst. split; [|reflexivity].
    eapply Eff_ext; [apply Eff_refl|..]; auto.
    + unfold at_notary. destruct (N.eqb a (a_notary cfg)); reflexivity.
    + intros [] x; unfold zero_ev, d_gas_acct; auto. destruct (N.eqb x a); auto.
  - destruct (gas_inc_balance st a amt None) as [st1|] eqn:E1; [|discriminate]. inv H.
    destruct (gas_inc_balance_eff _ _ _ _ _ E1 Hwf) as [He HA].
    split; [|simpl; exact HA].
    eapply Eff_ext; [exact (Eff_trans _ _ _ _ _ _ _ _ _ _ _ _ He (Eff_gas_total st1 amt))|..]; try lia.
    intros tk x. unfold zero_ev. lia.
Qed.

Definition d_event (e : event) : token -> N -> Z := fun tk b => - ev_amt tk b e.

Lemma Eff_emit st e : Eff st (emit st e) 0 0 0 (d_event e).
Proof.
  constructor; simpl; auto.
  - intros [w1 w2 w3 w4 w5 w6]. constructor; simpl; auto.
  - unfold P_neo, neo_sum; simpl; lia.
  - unfold P_gas, gas_sum; simpl; lia.
  - unfold P_not, dep_sum; simpl; lia.
  - intros tk b. unfold P_ev, bal, d_event; simpl. destruct tk; lia.
Qed.

Lemma emit_A st e : A (emit st e) = A st.
Proof. reflexivity. Qed.

Lemma d_event_mint a amt tk b : d_gas_acct a amt tk b + d_event (mkEv GAS None (Some a) amt) tk b = 0.
Proof.
  unfold d_gas_acct, d_event, ev_amt; simpl. destruct tk; simpl; try lia.
  rewrite (N.eqb_sym a b). destruct (N.eqb b a); lia.
Qed.

Lemma d_event_burn a amt tk b : d_gas_acct a (- amt) tk b + d_event (mkEv GAS (Some a) None amt) tk b = 0.
Proof.
  unfold d_gas_acct, d_event, ev_amt; simpl. destruct tk; simpl; try lia.
  rewrite (N.eqb_sym a b). destruct (N.eqb b a); lia.
Qed.

(* minting to any account but the Notary contract is conservative *)
Lemma gas_mint_eff st a amt call st' :
  gas_mint cfg st a amt call = Some st' -> WF (L st) -> a <> a_notary cfg ->
  Bal st st' /\ A st' = A st.
Proof.
  unfold gas_mint. intros H Hwf Hn.
  destruct (amt =? 0); [inv H; split; [apply Eff_refl|reflexivity]|].
  destruct (gas_add_tokens st a amt) as [st1|] eqn:E1; [|discriminate].
  destruct (gas_add_tokens_eff _ _ _ _ E1 Hwf) as [He HA].
  destruct (call && negb (plain_callback_ok cfg a)); [discriminate|]. inv H.
  split; [|simpl; exact HA].
  eapply Eff_ext; [exact (Eff_trans _ _ _ _ _ _ _ _ _ _ _ _ He (Eff_emit st1 _))|..]; try lia.
  - unfold at_notary. destruct (N.eqb_spec a (a_notary cfg)); [contradiction|lia].
  - intros tk x. cbv beta. rewrite d_event_mint. reflexivity.
Qed.

Lemma gas_burn_eff st a amt st' :
  gas_burn st a amt = Some st' -> WF (L st) -> a <> a_notary cfg ->
  Bal st st' /\ A st' = A st.
Proof.
  unfold gas_burn. intros H Hwf Hn.
  destruct (amt =? 0); [inv H; split; [apply Eff_refl|reflexivity]|].
  destruct (gas_add_tokens st a (- amt)) as [st1|] eqn:E1; [|discriminate].
  destruct (gas_add_tokens_eff _ _ _ _ E1 Hwf) as [He HA]. inv H.
  split; [|simpl; exact HA].
  eapply Eff_ext; [exact (Eff_trans _ _ _ _ _ _ _ _ _ _ _ _ He (Eff_emit st1 _))|..]; try lia.
  - unfold at_notary. destruct (N.eqb_spec a (a_notary cfg)); [contradiction|lia].
  - intros tk x. cbv beta. rewrite d_event_burn. reflexivity.
Qed.

Lemma mint_opt_eff st a d call st' :
  mint_opt cfg st a d call = Some st' -> WF (L st) -> a <> a_notary cfg ->
  Bal st st' /\ A st' = A st.
Proof.
  unfold mint_opt. destruct d; [apply gas_mint_eff|].
  intros H _ _. inv H. split; [apply Eff_refl|reflexivity].
Qed.

End GasProofs.
