(* A decidable check of the configuration hypotheses of the C05 theorems (used by the examples and by the harness). *)
From NG Require Import Common.Tactics Tokens.Model Tokens.OpProofs.
Open Scope Z_scope.

Definition is_notary_kind (k : akind) : bool := match k with KNotary => true | _ => false end.

Fixpoint kinds_ok (notary : N) (i : N) (l : list akind) : bool :=
  match l with
  | [] => true
  | k :: t => Bool.eqb (is_notary_kind k) (N.eqb i notary) && kinds_ok notary (N.succ i) t
  end.

Definition cfg_wf_b (cfg : config) : bool :=
  kinds_ok (a_notary cfg) 0 (kinds cfg)
  && N.ltb (a_notary cfg) (N.of_nat (length (kinds cfg)))
  && negb (N.eqb (a_neo cfg) (a_notary cfg))
  && forallb (fun a => negb (N.eqb a (a_notary cfg))) (acct_of_key cfg)
  && negb (N.eqb 0 (a_notary cfg))
  && (0 <=? gas_initial cfg).

Lemma kinds_ok_nth notary l : forall i n,
  kinds_ok notary i l = true -> (n < length l)%nat ->
  is_notary_kind (nth n l KPlain) = N.eqb (i + N.of_nat n) notary.
Proof.
  induction l as [|k t IH]; intros i n H Hn; simpl in *; [lia|].
  apply andb_true_iff in H as [H1 H2]. apply Bool.eqb_prop in H1.
  destruct n as [|n].
  - rewrite H1. f_equal. lia.
  - rewrite (IH (N.succ i) n H2) by lia. f_equal. lia.
Qed.

Lemma cfg_wf_of_check cfg : cfg_wf_b cfg = true -> cfg_wf cfg.
Proof.
  unfold cfg_wf_b. intros H.
  repeat (apply andb_true_iff in H as [H ?]).
  constructor.
  - intros a. unfold kind_of.
    destruct (Nat.ltb_spec (N.to_nat a) (length (kinds cfg))) as [Hlt|Hge].
    + pose proof (kinds_ok_nth _ _ 0%N (N.to_nat a) H Hlt) as E.
      rewrite N2Nat.id, N.add_0_l in E.
      destruct (nth (N.to_nat a) (kinds cfg) KPlain) eqn:K; simpl in E;
        destruct (N.eqb_spec a (a_notary cfg)); split; intros; congruence.
    + rewrite nth_overflow by lia. split; [discriminate|]. intros ->.
      apply N.ltb_lt in H4. lia.
  - apply N.eqb_neq. apply negb_true_iff. assumption.
  - intros k. unfold key_acct.
    destruct (Nat.ltb_spec (N.to_nat k) (length (acct_of_key cfg))) as [Hlt|Hge].
    + rewrite forallb_forall in H2. specialize (H2 _ (nth_In _ 0%N Hlt)).
      apply N.eqb_neq. apply negb_true_iff. exact H2.
    + rewrite nth_overflow by lia. apply N.eqb_neq. apply negb_true_iff. assumption.
  - unfold validators_acct. apply N.eqb_neq. apply negb_true_iff. assumption.
  - lia.
Qed.
