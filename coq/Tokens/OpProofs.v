(* Every operation, transaction and block of the model is conservative: its total effect on the potentials of
   Tokens/Inv.v is zero and it keeps the ledger well-formed.  Consequences: the invariants of C05 hold after any
   sequence of blocks, and balance changes equal the net Transfer events. *)
From NG Require Import Common.Tactics Tokens.Model Tokens.MapLemmas Tokens.Inv Tokens.GasProofs Tokens.NeoProofs.
Open Scope Z_scope.

Section OpProofs.
Variable cfg : config.

Notation Eff := (Eff cfg).
Notation Bal := (Bal cfg).

(* what the proofs need to know about the configuration *)
Record cfg_wf : Prop := mkCW {
  cw_notary_kind : forall a, kind_of cfg a = KNotary <-> a = a_notary cfg;
  cw_neo : a_neo cfg <> a_notary cfg;
  cw_keys : forall k, key_acct cfg k <> a_notary cfg;
  cw_validators : validators_acct <> a_notary cfg;
  cw_gas_initial : 0 <= gas_initial cfg
}.
Hypothesis CW : cfg_wf.

Lemma callback_ok_not_notary a : plain_callback_ok cfg a = true -> a <> a_notary cfg.
Proof.
  unfold plain_callback_ok. intros H E. subst.
  assert (K : kind_of cfg (a_notary cfg) = KNotary) by (apply (cw_notary_kind CW); reflexivity).
  rewrite K in H. discriminate.
Qed.

Lemma ev_transfer_zero tk from to amount inc b :
  (N.eqb from to || (amount =? 0) = true -> inc = 0) ->
  (N.eqb from to || (amount =? 0) = false -> inc = amount) ->
  (match tk with NEO => if N.eqb b from then - inc else 0 | GAS => 0 end)
  + (match tk with NEO => if N.eqb b to then inc else 0 | GAS => 0 end)
  + d_event (mkEv NEO (Some from) (Some to) amount) tk b = 0.
Proof.
  intros H1 H2. unfold d_event, ev_amt; simpl. destruct tk; simpl; [|lia].
  rewrite (N.eqb_sym to b), (N.eqb_sym from b).
  destruct (N.eqb from to || (amount =? 0)) eqn:E.
  - rewrite (H1 eq_refl). apply orb_true_iff in E as [E|E].
    + apply N.eqb_eq in E. subst. destruct (N.eqb b to); lia.
    + assert (amount = 0) by lia. subst. destruct (N.eqb b to), (N.eqb b from); lia.
  - rewrite (H2 eq_refl). destruct (N.eqb b to), (N.eqb b from); lia.
Qed.

(* ---------- NEO.transfer ---------- *)
Lemma neo_transfer_bal st w from to amount st' r :
  WF (L st) -> (w = true -> from <> a_notary cfg) ->
  neo_transfer cfg st w from to amount = Some (st', r) -> Bal st st'.
Proof.
  intros Hwf Hfrom. unfold neo_transfer, ok.
  destruct (amount <? 0) eqn:Eneg; [discriminate|].
  destruct w; simpl; [|intros H; inv H; apply Eff_refl].
  specialize (Hfrom eq_refl).
  set (empty := N.eqb from to || (amount =? 0)).
  destruct (neo_upd_acc_balance cfg st from (if empty then 0 else - amount) (Some amount)) as [[st1 dist1]|] eqn:E1;
    [|intros H; inv H; apply Eff_refl].
  pose proof (neo_upd_acc_balance_eff cfg _ _ _ _ _ _ Hwf E1) as F1.
  pose proof (e_wf _ _ _ _ _ _ _ F1 Hwf) as Hwf1.
  destruct (if empty then Some (st1, None) else neo_upd_acc_balance cfg st1 to amount None) as [[st2 dist2]|] eqn:E2.
  2:{ exfalso. destruct empty; [discriminate|].
      apply (neo_credit_cannot_fail cfg st1 to amount Hwf1); [lia|exact E2]. }
  set (inc := if empty then 0 else amount).
  assert (F2 : Eff st1 st2 inc 0 0 (d_neo to inc)).
  { unfold inc. destruct empty.
    - inv E2. eapply Eff_ext; [apply Eff_refl|..]; auto.
      intros [] x; unfold zero_ev, d_neo, d_neo_acct; auto. destruct (N.eqb x to); auto.
    - apply (neo_upd_acc_balance_eff cfg _ _ _ _ _ _ Hwf1 E2). }
  pose proof (e_wf _ _ _ _ _ _ _ F2 Hwf1) as Hwf2.
  set (st3 := emit st2 (mkEv NEO (Some from) (Some to) amount)).
  assert (B3 : Bal st st3).
  { eapply Eff_ext; [exact (Eff_trans _ _ _ _ _ _ _ _ _ _ _ _ (Eff_trans _ _ _ _ _ _ _ _ _ _ _ _ F1 F2) (Eff_emit cfg st2 _))|..];
      try lia.
    - unfold inc. destruct empty; lia.
    - intros tk x. cbv beta. unfold d_neo, d_neo_acct, zero_ev.
      replace (if empty then 0 else - amount) with (- inc) by (unfold inc; destruct empty; lia).
      apply ev_transfer_zero; unfold inc; fold empty; intros ->; reflexivity. }
  pose proof (e_wf _ _ _ _ _ _ _ B3 Hwf) as Hwf3.
  destruct (negb (plain_callback_ok cfg to)) eqn:Ecb; [discriminate|].
  apply negb_false_iff in Ecb.
  destruct (mint_opt cfg st3 from dist1 true) as [st4|] eqn:E4; [|discriminate].
  destruct (mint_opt_eff cfg _ _ _ _ _ E4 Hwf3 Hfrom) as [B4 _].
  pose proof (e_wf _ _ _ _ _ _ _ B4 Hwf3) as Hwf4.
  destruct (mint_opt cfg st4 to dist2 true) as [st5|] eqn:E5; [|discriminate].
  destruct (mint_opt_eff cfg _ _ _ _ _ E5 Hwf4 (callback_ok_not_notary _ Ecb)) as [B5 _].
  intros H. inv H.
  eapply Bal_trans; [exact B3|]. eapply Bal_trans; [exact B4|exact B5].
Qed.

(* H3 in its sharpest form: when NEO.transfer answers false, nothing was changed (the branch "debited, then the
   credit failed, return false" of transferDeferrable is dead on a well-formed ledger) *)
Lemma neo_transfer_false_unchanged st w from to amount st' :
  WF (L st) -> neo_transfer cfg st w from to amount = Some (st', Some false) -> st' = st.
Proof.
  intros Hwf. unfold neo_transfer, ok.
  destruct (amount <? 0) eqn:Eneg; [discriminate|].
  destruct (negb w); [intros H; inv H; reflexivity|].
  set (empty := N.eqb from to || (amount =? 0)).
  destruct (neo_upd_acc_balance cfg st from (if empty then 0 else - amount) (Some amount)) as [[st1 dist1]|] eqn:E1;
    [|intros H; inv H; reflexivity].
  pose proof (neo_upd_acc_balance_eff cfg _ _ _ _ _ _ Hwf E1) as F1.
  pose proof (e_wf _ _ _ _ _ _ _ F1 Hwf) as Hwf1.
  destruct (if empty then Some (st1, None) else neo_upd_acc_balance cfg st1 to amount None) as [[st2 dist2]|] eqn:E2.
  2:{ exfalso. destruct empty; [discriminate|].
      apply (neo_credit_cannot_fail cfg st1 to amount Hwf1); [lia|exact E2]. }
  destruct (negb (plain_callback_ok cfg to)); [discriminate|].
  destruct (mint_opt cfg _ from dist1 true) as [st4|]; [|discriminate].
  destruct (mint_opt cfg st4 to dist2 true) as [st5|]; discriminate.
Qed.

(* ---------- deposits ---------- *)
Lemma Eff_dep_put st a d :
  0 <= damt d ->
  Eff st (dep_put st a d) 0 0 (- (damt d - damt (dep_of st a))) zero_ev.
Proof.
  intros Hd. unfold dep_put, dep_of. constructor; simpl; auto.
  - intros [w1 w2 w3 w4 w5 w6]. constructor; simpl; auto. apply all_entries_aset; auto.
  - unfold P_neo, neo_sum; simpl; lia.
  - unfold P_gas, gas_sum; simpl; lia.
  - unfold P_not, dep_sum; simpl. rewrite (sumf_aset damt dep0) by reflexivity. lia.
  - intros tk b. unfold P_ev, bal, zero_ev; simpl. destruct tk; lia.
Qed.

Lemma dep_nonneg st a : WF (L st) -> 0 <= damt (dep_of st a).
Proof. intros H. apply (all_entries_aget (fun d => 0 <= damt d)); [apply H|simpl; lia]. Qed.

Lemma notary_on_payment_eff st sender from amount d st' :
  WF (L st) -> 0 <= amount ->
  notary_on_payment st sender from amount d = Some st' ->
  Eff st st' 0 0 (- amount) zero_ev.
Proof.
  intros Hwf Ha. unfold notary_on_payment. destruct d as [|to0 till|]; try discriminate.
  set (to := match to0 with Some t => t | None => from end).
  destruct (till <? height (A st) - 1 + 2); [discriminate|].
  destruct (dpresent (dep_of st to) && (till <? dtill (dep_of st to))); [discriminate|].
  destruct (negb (dpresent (dep_of st to)) && (amount <? 2 * attr_fee_notary st)); [discriminate|].
  intros H. inv H.
  pose proof (dep_nonneg st to Hwf).
  eapply Eff_ext; [apply Eff_dep_put; simpl; lia|..]; auto. simpl. lia.
Qed.

(* ---------- GAS.transfer ---------- *)
Lemma ev_gas_transfer_zero tk from to amount inc b :
  (N.eqb from to || (amount =? 0) = true -> inc = 0) ->
  (N.eqb from to || (amount =? 0) = false -> inc = amount) ->
  d_gas_acct from (- inc) tk b + d_gas_acct to inc tk b
  + d_event (mkEv GAS (Some from) (Some to) amount) tk b = 0.
Proof.
  intros H1 H2. unfold d_gas_acct, d_event, ev_amt; simpl. destruct tk; simpl; [lia|].
  rewrite (N.eqb_sym to b), (N.eqb_sym from b).
  destruct (N.eqb from to || (amount =? 0)) eqn:E.
  - rewrite (H1 eq_refl). apply orb_true_iff in E as [E|E].
    + apply N.eqb_eq in E. subst. destruct (N.eqb b to); lia.
    + assert (amount = 0) by lia. subst. destruct (N.eqb b to), (N.eqb b from); lia.
  - rewrite (H2 eq_refl). destruct (N.eqb b to), (N.eqb b from); lia.
Qed.

Lemma gas_credit_cannot_fail st a amount : 0 <= amount -> gas_inc_balance st a amount None <> None.
Proof.
  intros Ha. unfold gas_inc_balance. destruct (amount =? 0); [discriminate|].
  destruct (amount <? 0) eqn:E; [lia|]. simpl. discriminate.
Qed.

(* the state after debit, credit and the Transfer event, before the receiver's callback *)
Lemma gas_transfer_core_moved st from to amount st1 st2 :
  WF (L st) -> 0 <= amount ->
  let empty := N.eqb from to || (amount =? 0) in
  gas_inc_balance st from (if empty then 0 else - amount) (Some amount) = Some st1 ->
  (if empty then Some st1 else gas_inc_balance st1 to amount None) = Some st2 ->
  let inc := if empty then 0 else amount in
  Eff st (emit st2 (mkEv GAS (Some from) (Some to) amount)) 0 0
      (at_notary cfg from (- inc) + at_notary cfg to inc) zero_ev
  /\ WF (L (emit st2 (mkEv GAS (Some from) (Some to) amount))).
Proof.
  intros Hwf Ha empty E1 E2 inc.
  destruct (gas_inc_balance_eff cfg _ _ _ _ _ E1 Hwf) as [F1 _].
  pose proof (e_wf _ _ _ _ _ _ _ F1 Hwf) as Hwf1.
  assert (F2 : Eff st1 st2 0 inc (at_notary cfg to inc) (d_gas_acct to inc)).
  { unfold inc. destruct empty.
    - inv E2. eapply Eff_ext; [apply Eff_refl|..]; auto.
      + unfold at_notary. destruct (N.eqb to (a_notary cfg)); reflexivity.
      + intros [] x; unfold zero_ev, d_gas_acct; auto. destruct (N.eqb x to); auto.
    - apply (gas_inc_balance_eff cfg _ _ _ _ _ E2 Hwf1). }
  pose proof (e_wf _ _ _ _ _ _ _ F2 Hwf1) as Hwf2.
  assert (F3 := Eff_emit cfg st2 (mkEv GAS (Some from) (Some to) amount)).
  split; [|apply (e_wf _ _ _ _ _ _ _ F3 Hwf2)].
  eapply Eff_ext; [exact (Eff_trans _ _ _ _ _ _ _ _ _ _ _ _ (Eff_trans _ _ _ _ _ _ _ _ _ _ _ _ F1 F2) F3)|..]; try lia.
  - unfold inc. destruct empty; lia.
  - unfold inc. destruct empty; simpl; lia.
  - intros tk x. cbv beta. unfold zero_ev.
    replace (if empty then 0 else - amount) with (- inc) by (unfold inc; destruct empty; lia).
    apply ev_gas_transfer_zero; unfold inc; fold empty; intros ->; reflexivity.
Qed.

Lemma at_notary_other a d : a <> a_notary cfg -> at_notary cfg a d = 0.
Proof. intros H. unfold at_notary. destruct (N.eqb_spec a (a_notary cfg)); [contradiction|reflexivity]. Qed.
Lemma at_notary_self d : at_notary cfg (a_notary cfg) d = d.
Proof. unfold at_notary. rewrite N.eqb_refl. reflexivity. Qed.

Lemma gas_transfer_core_bal st sender wit from to amount d st' r :
  WF (L st) -> 0 <= amount -> from <> a_notary cfg ->
  gas_transfer_core cfg st sender wit from to amount d = Some (st', r) -> Bal st st'.
Proof.
  intros Hwf Ha Hfrom. unfold gas_transfer_core, ok.
  set (empty := N.eqb from to || (amount =? 0)).
  destruct (gas_inc_balance st from (if empty then 0 else - amount) (Some amount)) as [st1|] eqn:E1;
    [|intros H; inv H; apply Eff_refl].
  destruct (if empty then Some st1 else gas_inc_balance st1 to amount None) as [st2|] eqn:E2.
  2:{ exfalso. destruct empty; [discriminate|]. apply (gas_credit_cannot_fail st1 to amount Ha E2). }
  destruct (gas_transfer_core_moved _ _ _ _ _ _ Hwf Ha E1 E2) as [F3 Hwf3]. fold empty in F3.
  set (st3 := emit st2 (mkEv GAS (Some from) (Some to) amount)) in *.
  set (inc := if empty then 0 else amount) in *.
  rewrite (at_notary_other from _ Hfrom) in F3.
  destruct (kind_of cfg to) eqn:Ek; try discriminate.
  - (* plain *) intros H. inv H.
    assert (to <> a_notary cfg) by (intros ->; rewrite (proj2 (cw_notary_kind CW _) eq_refl) in Ek; discriminate).
    eapply Eff_ext; [exact F3|..]; auto. rewrite at_notary_other by assumption. lia.
  - (* acceptor *) intros H. inv H.
    assert (to <> a_notary cfg) by (intros ->; rewrite (proj2 (cw_notary_kind CW _) eq_refl) in Ek; discriminate).
    eapply Eff_ext; [exact F3|..]; auto. rewrite at_notary_other by assumption. lia.
  - (* the Notary contract: the payment becomes a deposit *)
    assert (to = a_notary cfg) by (apply (cw_notary_kind CW); exact Ek). subst to.
    destruct (notary_on_payment st3 sender from amount d) as [st4|] eqn:E4; [|discriminate].
    intros H. inv H.
    pose proof (notary_on_payment_eff _ _ _ _ _ _ Hwf3 Ha E4) as F4.
    eapply Eff_ext; [exact (Eff_trans _ _ _ _ _ _ _ _ _ _ _ _ F3 F4)|lia|lia| |intros tk x; unfold zero_ev; lia].
    rewrite at_notary_self. unfold inc, empty.
    destruct (N.eqb_spec from (a_notary cfg)); [contradiction|]. simpl.
    destruct (amount =? 0) eqn:E0; lia.
  - (* the NEO contract: registration by payment *)
    assert (Hto : to <> a_notary cfg) by (intros ->; rewrite (proj2 (cw_notary_kind CW _) eq_refl) in Ek; discriminate).
    destruct d as [| |k]; try discriminate.
    destruct (negb (amount =? c_regprice (A st3))); [discriminate|].
    destruct (negb (N.eqb (key_acct cfg k) wit)); [discriminate|].
    destruct (gas_burn (register_internal st3 k) (a_neo cfg) amount) as [st4|] eqn:E4; [|discriminate].
    intros H. inv H.
    pose proof (register_internal_bal cfg st3 k Hwf3) as B4.
    pose proof (e_wf _ _ _ _ _ _ _ B4 Hwf3) as Hwf4.
    destruct (gas_burn_eff cfg _ _ _ _ E4 Hwf4 (cw_neo CW)) as [B5 _].
    eapply Bal_trans; [|exact B5]. eapply Bal_trans; [|exact B4].
    eapply Eff_ext; [exact F3|..]; auto. rewrite at_notary_other by assumption. lia.
Qed.

(* the transfer out of the Notary contract made by withdraw *)
Lemma gas_transfer_core_from_notary st sender wit to amount st' :
  WF (L st) -> 0 <= amount ->
  gas_transfer_core cfg st sender wit (a_notary cfg) to amount DNone = Some (st', Some true) ->
  Eff st st' 0 0 (- amount) zero_ev.
Proof.
  intros Hwf Ha. unfold gas_transfer_core, ok.
  set (from := a_notary cfg).
  set (empty := N.eqb from to || (amount =? 0)).
  destruct (gas_inc_balance st from (if empty then 0 else - amount) (Some amount)) as [st1|] eqn:E1;
    [|intros H; inv H].
  destruct (if empty then Some st1 else gas_inc_balance st1 to amount None) as [st2|] eqn:E2; [|intros H; inv H].
  destruct (gas_transfer_core_moved _ _ _ _ _ _ Hwf Ha E1 E2) as [F3 Hwf3]. fold empty in F3.
  destruct (kind_of cfg to) eqn:Ek; try discriminate.
  - intros H. inv H.
    assert (Hto : to <> a_notary cfg) by (intros ->; rewrite (proj2 (cw_notary_kind CW _) eq_refl) in Ek; discriminate).
    eapply Eff_ext; [exact F3|..]; auto.
    unfold from. rewrite at_notary_self, at_notary_other by assumption. unfold empty, from.
    destruct (N.eqb_spec (a_notary cfg) to); [congruence|]. simpl. destruct (amount =? 0) eqn:E0; lia.
  - intros H. inv H.
    assert (Hto : to <> a_notary cfg) by (intros ->; rewrite (proj2 (cw_notary_kind CW _) eq_refl) in Ek; discriminate).
    eapply Eff_ext; [exact F3|..]; auto.
    unfold from. rewrite at_notary_self, at_notary_other by assumption. unfold empty, from.
    destruct (N.eqb_spec (a_notary cfg) to); [congruence|]. simpl. destruct (amount =? 0) eqn:E0; lia.
Qed.

Lemma gas_transfer_bal st w sender wit from to amount d st' r :
  WF (L st) -> (w = true -> from <> a_notary cfg) ->
  gas_transfer cfg st w sender wit from to amount d = Some (st', r) -> Bal st st'.
Proof.
  intros Hwf Hf. unfold gas_transfer, ok.
  destruct (amount <? 0) eqn:E; [discriminate|].
  destruct w; simpl; [|intros H; inv H; apply Eff_refl].
  apply gas_transfer_core_bal; auto. lia.
Qed.

(* ---------- Notary.withdraw / lockDepositUntil ---------- *)
Lemma notary_withdraw_bal st w sender wit from to0 st' r :
  WF (L st) -> notary_withdraw cfg st w sender wit from to0 = Some (st', r) -> Bal st st'.
Proof.
  intros Hwf. unfold notary_withdraw, ok.
  destruct (negb w); [intros H; inv H; apply Eff_refl|].
  destruct (negb (dpresent (dep_of st from))); [intros H; inv H; apply Eff_refl|].
  destruct (height (A st) - 1 <? dtill (dep_of st from)); [intros H; inv H; apply Eff_refl|].
  pose proof (dep_nonneg st from Hwf) as Hd.
  assert (F1 := Eff_dep_put st from dep0 (Z.le_refl 0)).
  pose proof (e_wf _ _ _ _ _ _ _ F1 Hwf) as Hwf1.
  destruct (gas_transfer_core cfg (dep_put st from dep0) sender wit (a_notary cfg)
              match to0 with Some t => t | None => from end (damt (dep_of st from)) DNone)
    as [[st2 [[|]|]]|] eqn:E2; try discriminate.
  intros H. inv H.
  pose proof (gas_transfer_core_from_notary _ _ _ _ _ _ Hwf1 Hd E2) as F2.
  eapply Eff_ext; [exact (Eff_trans _ _ _ _ _ _ _ _ _ _ _ _ F1 F2)|..]; auto; simpl; try lia.
  all: try (intros tk x; unfold zero_ev; lia).
Qed.

Lemma notary_lock_bal st w a till st' r :
  WF (L st) -> notary_lock st w a till = Some (st', r) -> Bal st st'.
Proof.
  intros Hwf. unfold notary_lock, ok.
  destruct (negb w); [intros H; inv H; apply Eff_refl|].
  destruct (till <? height (A st) - 1 + 2); [intros H; inv H; apply Eff_refl|].
  destruct (negb (dpresent (dep_of st a))); [intros H; inv H; apply Eff_refl|].
  destruct (till <? dtill (dep_of st a)); intros H; inv H; [apply Eff_refl|].
  pose proof (dep_nonneg st a Hwf) as Hd.
  eapply Eff_ext; [apply (Eff_dep_put st a (mkDep true (damt (dep_of st a)) till)); simpl; exact Hd|..]; auto.
  simpl. lia.
Qed.

(* ---------- vote, candidates ---------- *)
Lemma vote_bal st w a k st' r :
  WF (L st) -> (w = true -> a <> a_notary cfg) -> vote cfg st w a k = Some (st', r) -> Bal st st'.
Proof.
  intros Hwf Ha. unfold vote, ok. destruct w; simpl; [|intros H; inv H; apply Eff_refl].
  destruct (vote_internal cfg st a k) as [[st1 b]|] eqn:E; [|discriminate].
  intros H. inv H. apply (vote_internal_eff cfg _ _ _ _ _ Hwf (Ha eq_refl) E).
Qed.

Lemma register_candidate_bal st k budget st' r :
  WF (L st) -> register_candidate st k budget = Some (st', r) -> Bal st st'.
Proof.
  intros Hwf. unfold register_candidate, ok. destruct (c_regprice (A st) >? budget); [discriminate|].
  intros H. inv H. apply register_internal_bal; assumption.
Qed.

(* ---------- Policy and settings ---------- *)
Lemma mark_dirty_L st : L (mark_dirty cfg st) = L st.
Proof. unfold mark_dirty. destruct (fix_block_dirty cfg); reflexivity. Qed.

Lemma block_account_bal st a st' r :
  WF (L st) -> block_account cfg st a = Some (st', r) -> Bal st st'.
Proof.
  intros Hwf. unfold block_account, ok.
  assert (Hk : forall x, kind_of cfg a = x -> x <> KNotary -> a <> a_notary cfg).
  { intros x Hx Hn E. subst a. rewrite (proj2 (cw_notary_kind CW _) eq_refl) in Hx. congruence. }
  assert (Hgo : a <> a_notary cfg ->
                (if is_blocked st a then Some (st, Some false) else
                 match (if hf_faun cfg then vote_internal cfg st a None else Some (st, false)) with
                 | None => None
                 | Some (st1, _) =>
                     Some (mark_dirty cfg (withA st1 (set_blocked (A st1) (insert_N a (s_blocked (A st1))) (insert_N a (c_blocked (A st1))))), Some true)
                 end) = Some (st', r) -> Bal st st').
  { intros Ha. destruct (is_blocked st a); [intros H; inv H; apply Eff_refl|].
    destruct (if hf_faun cfg then vote_internal cfg st a None else Some (st, false)) as [[st1 b]|] eqn:E; [|discriminate].
    intros H. inv H.
    assert (B1 : Bal st st1).
    { destruct (hf_faun cfg); [apply (vote_internal_eff cfg _ _ _ _ _ Hwf Ha E)|inv E; apply Eff_refl]. }
    eapply Bal_trans; [exact B1|]. apply Eff_sameL. rewrite mark_dirty_L. reflexivity. }
  destruct (kind_of cfg a) eqn:Ek; try discriminate; apply Hgo; apply (Hk _ eq_refl); discriminate.
Qed.

Lemma unblock_account_bal st a st' r : unblock_account cfg st a = Some (st', r) -> Bal st st'.
Proof.
  unfold unblock_account, ok. destruct (negb (is_blocked st a)); intros H; inv H; [apply Eff_refl|].
  apply Eff_sameL. rewrite mark_dirty_L. reflexivity.
Qed.

Lemma policy_set_bal st key v st' r : policy_set cfg st key v = Some (st', r) -> Bal st st'.
Proof.
  unfold policy_set. destruct (negb (policy_in_range cfg key v)); intros H; inv H. apply Eff_withA.
Qed.

Lemma whitelist_set_bal st a fee st' r : whitelist_set cfg st a fee = Some (st', r) -> Bal st st'.
Proof.
  unfold whitelist_set. destruct (fee <? 0); [discriminate|].
  destruct (negb (mc_present (contract_of st a))); intros H; inv H. apply Eff_withA.
Qed.

Lemma whitelist_remove_bal st a st' r : whitelist_remove st a = Some (st', r) -> Bal st st'.
Proof.
  unfold whitelist_remove. destruct (negb (mc_present (contract_of st a))); [discriminate|].
  destruct (_ =? 0); intros H; inv H. apply Eff_withA.
Qed.

(* Designate and Management touch neither the ledger nor (except through Policy) the aux part *)
Lemma designate_as_role_bal st role ks st' r : designate_as_role st role ks = Some (st', r) -> Bal st st'.
Proof.
  unfold designate_as_role.
  repeat match goal with |- context [if ?c then None else _] => destruct c; [discriminate|] end.
  intros H; inv H. apply Eff_sameL. reflexivity.
Qed.

Lemma mg_deploy_bal st a m st' r : mg_deploy st a m = Some (st', r) -> Bal st st'.
Proof.
  unfold mg_deploy.
  repeat match goal with |- context [if ?c then None else _] => destruct c; [discriminate|] end.
  intros H; inv H. apply Eff_sameL. reflexivity.
Qed.

Lemma mg_update_bal st a m st' r : mg_update st a m = Some (st', r) -> Bal st st'.
Proof.
  unfold mg_update.
  repeat match goal with |- context [if ?c then None else _] => destruct c; [discriminate|] end.
  intros H; inv H. apply Eff_sameL. reflexivity.
Qed.

Lemma set_gas_per_block_bal st v st' r : set_gas_per_block st v = Some (st', r) -> Bal st st'.
Proof.
  unfold set_gas_per_block. destruct ((v <? 0) || (v >? 10 * 100000000)); intros H; inv H. apply Eff_withA.
Qed.

Lemma set_register_price_bal st v st' r : set_register_price st v = Some (st', r) -> Bal st st'.
Proof.
  unfold set_register_price. destruct (v <=? 0); intros H; inv H. apply Eff_withA.
Qed.

Lemma mg_destroy_bal st a st' r : WF (L st) -> mg_destroy cfg st a = Some (st', r) -> Bal st st'.
Proof.
  intros Hwf. unfold mg_destroy.
  destruct (negb (mc_present (contract_of st a))); [discriminate|].
  match goal with |- context [if ?c then None else _] => destruct c; [discriminate|] end.
  destruct (block_account cfg st (caddr a)) as [[st1 r1]|] eqn:E; [|discriminate].
  intros H; inv H. eapply Bal_trans; [apply (block_account_bal _ _ _ _ Hwf E)|].
  apply Eff_sameL. reflexivity.
Qed.

(* ---------- transactions ---------- *)
(* the witness a script sees is never the Notary contract's: a transaction sent by Notary has the NotaryAssisted
   attribute (Notary.verify refuses it otherwise), the contract signs with scope None, and the payer is another
   account (signers are distinct): stated as a hypothesis on the transaction *)
Definition tx_ok (t : tx) : Prop := t_wit cfg t <> a_notary cfg.

(* a wrapped operation either faults or is the operation itself *)
Lemma run_lim_some st pre post o nacct body st' r :
  run_lim cfg st pre post o nacct body = Some (st', r) -> body = Some (st', r).
Proof.
  unfold run_lim. destruct (add_notifs 0 pre); [|discriminate].
  destruct body as [[s1 r1]|]; [|discriminate].
  destruct (add_notifs z _); [|discriminate]. destruct (add_notifs z0 post); [|discriminate].
  intros H; inv H. reflexivity.
Qed.

Lemma run_op_bal st t st' r :
  WF (L st) -> tx_ok t -> run_op cfg st t = Some (st', r) -> Bal st st'.
Proof.
  intros Hwf Ht. unfold run_op, tx_ok in *.
  set (wt := t_wit cfg t) in *.
  destruct (t_op t).
  - intros H. apply run_lim_some in H. revert H. unfold run_lop. fold wt. destruct o.
    + apply neo_transfer_bal; auto. intros E. apply N.eqb_eq in E. congruence.
    + apply gas_transfer_bal; auto. intros E. apply N.eqb_eq in E. congruence.
    + apply vote_bal; auto. intros E. apply N.eqb_eq in E. congruence.
  - apply neo_transfer_bal; auto. intros E. apply N.eqb_eq in E. congruence.
  - apply gas_transfer_bal; auto. intros E. apply N.eqb_eq in E. congruence.
  - apply vote_bal; auto. intros E. apply N.eqb_eq in E. congruence.
  - apply register_candidate_bal; auto.
  - apply (unregister_candidate_bal cfg); auto.
  - apply notary_withdraw_bal; auto.
  - apply notary_lock_bal; auto.
  - destruct (committee_witness st t); [apply set_gas_per_block_bal|discriminate].
  - destruct (committee_witness st t); [apply set_register_price_bal|discriminate].
  - destruct (committee_witness st t); [apply block_account_bal; auto|discriminate].
  - destruct (committee_witness st t); [apply unblock_account_bal|discriminate].
  - destruct (committee_witness st t); [apply policy_set_bal|discriminate].
  - destruct (committee_witness st t && hf_faun cfg); [|discriminate].
    destruct fee; [apply whitelist_set_bal|apply whitelist_remove_bal].
  - destruct (committee_witness st t); [apply designate_as_role_bal|discriminate].
  - apply mg_deploy_bal.
  - apply mg_update_bal.
  - apply mg_destroy_bal; auto.
  - destruct (i_halt t); intros H; inv H. apply Eff_sameL. reflexivity.
  - discriminate.
  - destruct (i_halt t); intros H; inv H. apply Eff_refl.
Qed.

Lemma exec_tx_bal st t : WF (L st) -> tx_ok t -> Bal st (exec_tx cfg st t).
Proof.
  intros Hwf Ht. unfold exec_tx. destruct (run_op cfg st t) as [[st' r]|] eqn:E; [|apply Eff_refl].
  apply (run_op_bal _ _ _ _ Hwf Ht E).
Qed.

Lemma fold_exec_bal txs : forall st, WF (L st) -> Forall tx_ok txs -> Bal st (fold_left (exec_tx cfg) txs st).
Proof.
  induction txs as [|t r IH]; intros st Hwf Hok; simpl; [apply Eff_refl|].
  inv Hok. pose proof (exec_tx_bal st t Hwf H1) as B.
  eapply Bal_trans; [exact B|]. apply IH; auto. apply (e_wf _ _ _ _ _ _ _ B Hwf).
Qed.

(* ---------- block level ---------- *)
(* the fees of the transactions the Notary contract sends: burnt from its GAS, then charged to deposits *)
Definition notary_sent (txs : list tx) : Z :=
  fold_right (fun t s => (if N.eqb (t_signer t) (a_notary cfg) then t_sysfee t + t_netfee t else 0) + s) 0 txs.

Lemma gas_burn_eff_gen st a amt st' :
  gas_burn st a amt = Some st' -> WF (L st) -> Eff st st' 0 0 (at_notary cfg a (- amt)) zero_ev.
Proof.
  unfold gas_burn. intros H Hwf.
  destruct (amt =? 0) eqn:E0.
  { inv H. eapply Eff_ext; [apply Eff_refl|..]; auto. apply Z.eqb_eq in E0. subst amt.
    unfold at_notary. destruct (N.eqb a (a_notary cfg)); reflexivity. }
  destruct (gas_add_tokens st a (- amt)) as [st1|] eqn:E1; [|discriminate].
  destruct (gas_add_tokens_eff cfg _ _ _ _ E1 Hwf) as [He HA]. inv H.
  eapply Eff_ext; [exact (Eff_trans _ _ _ _ _ _ _ _ _ _ _ _ He (Eff_emit cfg st1 _))|..]; try lia.
  intros tk x. cbv beta. rewrite d_event_burn. reflexivity.
Qed.

Lemma burn_fees_eff txs : forall st st', WF (L st) -> burn_fees st txs = Some st' ->
  Eff st st' 0 0 (- notary_sent txs) zero_ev.
Proof.
  induction txs as [|t r IH]; intros st st' Hwf; simpl; [intros H; inv H; apply Eff_refl|].
  destruct (gas_burn st (t_signer t) (t_sysfee t + t_netfee t)) as [st1|] eqn:E; [|discriminate].
  pose proof (gas_burn_eff_gen _ _ _ _ E Hwf) as B.
  intros H. pose proof (IH st1 st' (e_wf _ _ _ _ _ _ _ B Hwf) H) as B'.
  eapply Eff_ext; [exact (Eff_trans _ _ _ _ _ _ _ _ _ _ _ _ B B')|..]; try lia.
  - unfold at_notary. destruct (N.eqb (t_signer t) (a_notary cfg)); lia.
  - intros tk x. unfold zero_ev. lia.
Qed.

Lemma gas_on_persist_eff st txs st' :
  WF (L st) -> gas_on_persist cfg st txs = Some st' -> Eff st st' 0 0 (- notary_sent txs) zero_ev.
Proof.
  intros Hwf. unfold gas_on_persist. destruct txs as [|t r]; [intros H; inv H; apply Eff_refl|].
  destruct (burn_fees st (t :: r)) as [st1|] eqn:E; [|discriminate].
  pose proof (burn_fees_eff _ _ _ Hwf E) as B1.
  intros H. destruct (gas_mint_eff cfg _ _ _ _ _ H (e_wf _ _ _ _ _ _ _ B1 Hwf) (cw_keys CW _)) as [B2 _].
  eapply Eff_ext; [exact (Eff_trans _ _ _ _ _ _ _ _ _ _ _ _ B1 B2)|..]; try lia.
  intros tk x. unfold zero_ev. lia.
Qed.

Lemma tx_ok_notary_sent t : tx_ok t -> N.eqb (t_signer t) (a_notary cfg) = true -> exists nk p, t_na t = Some (nk, p).
Proof.
  unfold tx_ok, t_wit. intros H E. rewrite E in H. destruct (t_na t) as [[nk p]|]; [eauto|].
  apply N.eqb_eq in E. contradiction.
Qed.

Lemma charge_deposits_eff txs : forall st st', WF (L st) -> Forall tx_ok txs -> charge_deposits cfg st txs = Some st' ->
  Eff st st' 0 0 (notary_sent txs) zero_ev.
Proof.
  induction txs as [|t r IH]; intros st st' Hwf Hok; simpl; [intros H; inv H; apply Eff_refl|].
  inv Hok. destruct (N.eqb (t_signer t) (a_notary cfg)) eqn:En.
  - destruct (tx_ok_notary_sent t H1 En) as (nk & p & Ena). rewrite Ena.
    destruct (negb (dpresent (dep_of st p))); [discriminate|].
    set (amt := damt (dep_of st p) - (t_sysfee t + t_netfee t)).
    destruct (amt <? 0) eqn:Elt; [discriminate|].
    set (d' := if amt =? 0 then dep0 else mkDep true amt (dtill (dep_of st p))).
    assert (Hd : damt d' = amt).
    { unfold d'. destruct (amt =? 0) eqn:E0; simpl; [apply Z.eqb_eq in E0; lia|reflexivity]. }
    assert (B : Eff st (dep_put st p d') 0 0 (t_sysfee t + t_netfee t) zero_ev).
    { eapply Eff_ext; [apply (Eff_dep_put st p d'); lia|..]; auto. unfold amt in Hd. lia. }
    intros H. pose proof (IH _ _ (e_wf _ _ _ _ _ _ _ B Hwf) H2 H) as B'.
    eapply Eff_ext; [exact (Eff_trans _ _ _ _ _ _ _ _ _ _ _ _ B B')|..]; try lia.
    intros tk x. unfold zero_ev. lia.
  - intros H. assert (H' : charge_deposits cfg st r = Some st') by (destruct (t_na t) as [[nk p]|]; exact H).
    pose proof (IH _ _ Hwf H2 H') as B'. eapply Eff_ext; [exact B'|..]; auto; try lia.
Qed.

Lemma mint_each_bal accts : forall st st' amount, WF (L st) -> Forall (fun a => a <> a_notary cfg) accts ->
  mint_each cfg st accts amount = Some st' -> Bal st st'.
Proof.
  induction accts as [|a r IH]; intros st st' amount Hwf Hn; simpl; [intros H; inv H; apply Eff_refl|].
  inv Hn. destruct (gas_mint cfg st a amount false) as [st1|] eqn:E; [|discriminate].
  destruct (gas_mint_eff cfg _ _ _ _ _ E Hwf H1) as [B _].
  intros H. eapply Bal_trans; [exact B|]. apply (IH st1 st' amount); auto. apply (e_wf _ _ _ _ _ _ _ B Hwf).
Qed.

Lemma notary_on_persist_eff st txs st' :
  WF (L st) -> Forall tx_ok txs -> notary_on_persist cfg st txs = Some st' -> Eff st st' 0 0 (notary_sent txs) zero_ev.
Proof.
  intros Hwf Hok. unfold notary_on_persist.
  destruct (charge_deposits cfg st txs) as [st1|] eqn:E1; [|discriminate].
  pose proof (charge_deposits_eff _ _ _ Hwf Hok E1) as B1.
  destruct (na_fees txs =? 0); [intros H; inv H; exact B1|].
  destruct (notary_nodes st1) as [|n ns] eqn:En; [intros H; inv H; exact B1|].
  intros H.
  assert (B2 : Bal st1 st').
  { eapply mint_each_bal; [apply (e_wf _ _ _ _ _ _ _ B1 Hwf)| |exact H].
    apply Forall_forall. intros a Ha. apply in_map_iff in Ha. destruct Ha as (k & <- & _). apply (cw_keys CW). }
  eapply Eff_ext; [exact (Eff_trans _ _ _ _ _ _ _ _ _ _ _ _ B1 B2)|..]; try lia.
  intros tk x. unfold zero_ev. lia.
Qed.

Lemma natives_on_persist_bal st txs st' :
  WF (L st) -> Forall tx_ok txs -> natives_on_persist cfg st txs = Some st' -> Bal st st'.
Proof.
  intros Hwf Hok. unfold natives_on_persist.
  destruct (gas_on_persist cfg st txs) as [st1|] eqn:E1; [|discriminate].
  pose proof (gas_on_persist_eff _ _ _ Hwf E1) as B1.
  intros E2. pose proof (notary_on_persist_eff _ _ _ (e_wf _ _ _ _ _ _ _ B1 Hwf) Hok E2) as B2.
  eapply Eff_ext; [exact (Eff_trans _ _ _ _ _ _ _ _ _ _ _ _ B1 B2)|..]; try lia. intros tk x. unfold zero_ev. lia.
Qed.

Lemma neo_on_persist_L st : L (neo_on_persist cfg st) = L st.
Proof. unfold neo_on_persist. destruct (height (A st) mod csize cfg =? 0); reflexivity. Qed.

Lemma reward_voters_L cm : forall st i vr, L (reward_voters cfg st cm i vr) = L st.
Proof.
  induction cm as [|[k v] t IH]; intros st i vr; simpl; [reflexivity|].
  rewrite IH. destruct ((if hf_gorgon cfg && votes_changed (A st) then storage_votes st k else v) >? 0); reflexivity.
Qed.

Lemma neo_post_persist_bal st st' : WF (L st) -> neo_post_persist cfg st = Some st' -> Bal st st'.
Proof.
  intros Hwf. unfold neo_post_persist.
  match goal with |- context [gas_mint cfg st ?a ?g false] => destruct (gas_mint cfg st a g false) as [st1|] eqn:E; [|discriminate] end.
  destruct (gas_mint_eff cfg _ _ _ _ _ E Hwf (cw_keys CW _)) as [B1 _].
  intros H. inv H. eapply Bal_trans; [exact B1|]. apply Eff_sameL.
  match goal with |- L (if ?c then _ else _) = _ => destruct c end; simpl;
    destruct (height (A st) mod csize cfg =? 0); simpl; rewrite ?reward_voters_L; reflexivity.
Qed.

Lemma run_block_bal st txs st' :
  WF (L st) -> Forall tx_ok txs -> run_block cfg st txs = Some st' -> Bal st st'.
Proof.
  intros Hwf Hok. unfold run_block.
  set (st0 := withA st (set_height (A st) (height (A st) + 1))).
  assert (B0 : Bal st (neo_on_persist cfg st0)) by (apply Eff_sameL; rewrite neo_on_persist_L; reflexivity).
  pose proof (e_wf _ _ _ _ _ _ _ B0 Hwf) as Hwf0.
  destruct (natives_on_persist cfg (neo_on_persist cfg st0) txs) as [st1|] eqn:E1; [|discriminate].
  pose proof (natives_on_persist_bal _ _ _ Hwf0 Hok E1) as B1.
  pose proof (e_wf _ _ _ _ _ _ _ B1 Hwf0) as Hwf1.
  pose proof (fold_exec_bal txs st1 Hwf1 Hok) as B2.
  pose proof (e_wf _ _ _ _ _ _ _ B2 Hwf1) as Hwf2.
  intros H. pose proof (neo_post_persist_bal _ _ Hwf2 H) as B3.
  eapply Bal_trans; [exact B0|]. eapply Bal_trans; [exact B1|]. eapply Bal_trans; [exact B2|exact B3].
Qed.

(* the step function over which the theorems quantify: a block the model considers invalid changes nothing *)
Definition step (st : state) (txs : list tx) : state :=
  match run_block cfg st txs with Some st' => st' | None => st end.

Lemma step_bal st txs : WF (L st) -> Forall tx_ok txs -> Bal st (step st txs).
Proof.
  intros Hwf Hok. unfold step. destruct (run_block cfg st txs) eqn:E; [|apply Eff_refl].
  apply (run_block_bal _ _ _ Hwf Hok E).
Qed.

Definition blocks_ok (bs : list (list tx)) : Prop := Forall (Forall tx_ok) bs.

Lemma steps_bal bs : forall st, WF (L st) -> blocks_ok bs -> Bal st (fold_left step bs st).
Proof.
  induction bs as [|b r IH]; intros st Hwf Hok; simpl; [apply Eff_refl|].
  inv Hok. pose proof (step_bal st b Hwf H1) as B.
  eapply Bal_trans; [exact B|]. apply IH; auto. apply (e_wf _ _ _ _ _ _ _ B Hwf).
Qed.

(* ---------- genesis ---------- *)
Lemma genesis_init_inv : Inv cfg (L (genesis_init cfg)).
Proof.
  constructor; simpl.
  - constructor; simpl.
    + intros k. reflexivity.
    + intros k _. reflexivity.
    + reflexivity.
    + constructor; [split; simpl; [lia|intros; lia]|constructor].
    + constructor; [simpl; apply (cw_gas_initial CW)|constructor].
    + constructor.
  - reflexivity.
  - reflexivity.
  - unfold P_gas, gas_sum; simpl. unfold idz. lia.
  - unfold P_not, dep_sum; simpl. destruct (N.eqb_spec (a_notary cfg) validators_acct) as [E|_]; [|reflexivity].
    exfalso. apply (cw_validators CW). symmetry. exact E.
Qed.

Lemma genesis_inv : Inv cfg (L (genesis cfg)).
Proof.
  unfold genesis. pose proof genesis_init_inv as I0.
  assert (I1 : Inv cfg (L (neo_on_persist cfg (genesis_init cfg)))) by (rewrite neo_on_persist_L; exact I0).
  destruct (neo_post_persist cfg (neo_on_persist cfg (genesis_init cfg))) as [st|] eqn:E; [|exact I0].
  apply (Bal_Inv cfg _ _ (neo_post_persist_bal _ _ (inv_wf _ _ I1) E) I1).
Qed.

(* ---------- the theorems ---------- *)
Definition reach (bs : list (list tx)) : state := fold_left step bs (genesis cfg).

Theorem invariants_hold bs : blocks_ok bs -> Inv cfg (L (reach bs)).
Proof.
  intros Hok. unfold reach.
  apply (Bal_Inv cfg _ _ (steps_bal bs _ (inv_wf _ _ genesis_inv) Hok) genesis_inv).
Qed.

Theorem events_match_deltas bs bs' tk a :
  blocks_ok bs -> blocks_ok bs' ->
  let st0 := reach bs in
  let st1 := fold_left step bs' st0 in
  bal tk (L st1) a - bal tk (L st0) a = ev_net tk a (l_events (L st1)) - ev_net tk a (l_events (L st0)).
Proof.
  intros Hok Hok' st0 st1.
  pose proof (invariants_hold bs Hok) as I0.
  pose proof (steps_bal bs' st0 (inv_wf _ _ I0) Hok') as B.
  pose proof (Bal_ev cfg _ _ B tk a) as E. unfold P_ev in E. fold st1 in E. lia.
Qed.

(* H3 on reachable states: inside any transaction of any block, crediting the receiver cannot fail *)
Theorem credit_cannot_fail_reachable bs a amount :
  blocks_ok bs -> 0 <= amount -> neo_upd_acc_balance cfg (reach bs) a amount None <> None.
Proof.
  intros Hok Ha. apply neo_credit_cannot_fail; [|exact Ha].
  apply (inv_wf _ _ (invariants_hold bs Hok)).
Qed.

Theorem transfer_false_changes_nothing bs w from to amount st' :
  blocks_ok bs -> neo_transfer cfg (reach bs) w from to amount = Some (st', Some false) -> st' = reach bs.
Proof.
  intros Hok. apply neo_transfer_false_unchanged. apply (inv_wf _ _ (invariants_hold bs Hok)).
Qed.

End OpProofs.
