(* Facts about the association maps of Tokens/Model.v: lookup after update, sums of a measure over a map. *)
From NG Require Import Common.Tactics Tokens.Model.
Open Scope Z_scope.

Lemma aget_aset {V} (d : V) k k' v m :
  aget d k' (aset k v m) = if N.eqb k' k then v else aget d k' m.
Proof.
  induction m as [|[k0 v0] m IH]; simpl.
  - destruct (N.eqb_spec k' k); reflexivity.
  - destruct (N.eqb_spec k k0) as [->|Hk]; simpl.
    + destruct (N.eqb_spec k' k0); reflexivity.
    + destruct (N.eqb_spec k' k0) as [->|Hk'].
      * destruct (N.eqb_spec k0 k); [congruence|reflexivity].
      * exact IH.
Qed.

Lemma aget_aset_same {V} (d : V) k v m : aget d k (aset k v m) = v.
Proof. rewrite aget_aset, N.eqb_refl. reflexivity. Qed.

Lemma aget_aset_other {V} (d : V) k k' v m : k' <> k -> aget d k' (aset k v m) = aget d k' m.
Proof. intros H. rewrite aget_aset. destruct (N.eqb_spec k' k); [contradiction|reflexivity]. Qed.

(* sum of a measure over all entries *)
Definition sumf {V} (f : V -> Z) (m : amap V) : Z := fold_right (fun kv s => f (snd kv) + s) 0 m.

Lemma sumf_aset {V} (f : V -> Z) (d : V) k v m :
  f d = 0 -> sumf f (aset k v m) = sumf f m - f (aget d k m) + f v.
Proof.
  intros Hd. induction m as [|[k0 v0] m IH]; simpl.
  - lia.
  - destruct (N.eqb_spec k k0) as [->|Hk]; simpl; lia.
Qed.

Definition all_entries {V} (P : V -> Prop) (m : amap V) : Prop := Forall (fun kv => P (snd kv)) m.

Lemma all_entries_aset {V} (P : V -> Prop) k v m : all_entries P m -> P v -> all_entries P (aset k v m).
Proof.
  intros H Hv. induction m as [|[k0 v0] m IH]; simpl.
  - constructor; [exact Hv|constructor].
  - inv H. destruct (N.eqb k k0); constructor; simpl; auto.
    apply IH; assumption.
Qed.

Lemma all_entries_aget {V} (P : V -> Prop) d k m : all_entries P m -> P d -> P (aget d k m).
Proof.
  intros H Hd. induction m as [|[k0 v0] m IH]; simpl; [exact Hd|].
  inv H. destruct (N.eqb k k0); auto.
Qed.

Lemma sumf_nonneg {V} (f : V -> Z) m : all_entries (fun v => 0 <= f v) m -> 0 <= sumf f m.
Proof. induction 1; simpl in *; lia. Qed.

(* one entry is bounded by the sum of a non-negative measure *)
Lemma sumf_ge_aget {V} (f : V -> Z) d k m :
  all_entries (fun v => 0 <= f v) m -> f d = 0 -> f (aget d k m) <= sumf f m.
Proof.
  intros H Hd. induction m as [|[k0 v0] m IH]; simpl; [lia|].
  inv H. simpl in *. specialize (IH H3). pose proof (sumf_nonneg f m H3).
  destruct (N.eqb k k0); lia.
Qed.

Lemma sumf_zero_aget {V} (f : V -> Z) d k m :
  all_entries (fun v => 0 <= f v) m -> f d = 0 -> sumf f m = 0 -> f (aget d k m) = 0.
Proof.
  intros H Hd Hs. pose proof (sumf_ge_aget f d k m H Hd).
  assert (0 <= f (aget d k m)) by (apply (all_entries_aget (fun v => 0 <= f v)); [exact H|lia]).
  lia.
Qed.

Lemma all_entries_impl {V} (P Q : V -> Prop) m : (forall v, P v -> Q v) -> all_entries P m -> all_entries Q m.
Proof. intros HPQ H. induction H; constructor; auto. Qed.
