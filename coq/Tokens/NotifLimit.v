(* C05: a native token movement whose POST-EFFECT fails.
   nep17TokenNative.postTransfer moves the balances first and then emits the Transfer event (and calls onNEP17Payment);
   NEO.vote / RegisterCandidateInternal emit their events after writing.  Since Echidna, AddNotification refuses the 513th
   notification of an execution; the natives PANIC on that error, so the execution FAULTs and everything it did is
   rolled back with the rest ([exec_tx]: a faulted transaction leaves the state as it was).
   Model: [OLim pre o post nacct] = a helper contract emits [pre] notifications, the native method [o] runs, the helper
   emits [post] more; [add_notifs] is the step that can fail.  Here: a failing notification, wherever it falls, leaves
   the whole state unchanged; otherwise the execution is exactly the native method's own (event included); and the
   reading "drop the event, keep the balances, answer false" is refuted. *)
From NG Require Import Common.Tactics Tokens.Model Tokens.MapLemmas Tokens.Inv Tokens.OpProofs Tokens.CfgCheck.
Open Scope Z_scope.

Section NotifLimit.
Variable cfg : config.

Lemma cb_notifs_nonneg nacct evs : 0 <= cb_notifs nacct evs.
Proof.
  induction evs as [|e t IH]; simpl; [lia|].
  destruct (opt_N_eqb (eto e) (Some nacct)); [|lia].
  pose proof (Z.mod_pos_bound (eamt e) 1000 ltac:(lia)). lia.
Qed.

Lemma lop_notifs_nonneg l l' o r nacct : 0 <= lop_notifs cfg l l' o r nacct.
Proof.
  unfold lop_notifs. pose proof (cb_notifs_nonneg nacct (new_events l l')).
  assert (0 <= own_notifs cfg l o r).
  { unfold own_notifs. destruct o as [| ? ? ? d |]; try lia.
    - destruct d; try lia. destruct r as [[|]|]; try lia. destruct (kind_of cfg to); try lia.
      destruct (cpresent _ && creg _); lia.
    - destruct r as [[|]|]; lia. }
  lia.
Qed.

(* a notification that fails -- the helper's own, the native's Transfer / Vote / CandidateStateChanged, one of the
   receiver's callback, or one emitted after the native call returned -- faults the execution: NOTHING of what the
   native method did (st' with balances moved, tallies changed, events appended) remains *)
Theorem notification_failure_faults st t pre o post nacct st' r :
  t_op t = OLim pre o post nacct ->
  run_lop cfg st t o = Some (st', r) ->
  notif_limit < pre + lop_notifs cfg (L st) (L st') o r nacct + post ->
  0 <= post ->
  run_op cfg st t = None /\ exec_tx cfg st t = st.
Proof.
  intros Ho Hb Hn Hp.
  assert (H : run_op cfg st t = None).
  { unfold run_op. rewrite Ho, Hb. unfold run_lim, add_notifs.
    destruct (0 + pre >? notif_limit) eqn:E1; [reflexivity|].
    destruct (0 + pre + lop_notifs cfg (L st) (L st') o r nacct >? notif_limit) eqn:E2; [reflexivity|].
    destruct (0 + pre + lop_notifs cfg (L st) (L st') o r nacct + post >? notif_limit) eqn:E3; [reflexivity|].
    lia. }
  split; [exact H|]. unfold exec_tx. rewrite H. reflexivity.
Qed.

(* below the limit the wrapping is invisible: the execution is the native method's own, its answer and events included *)
Theorem notifications_within_limit st t pre o post nacct :
  t_op t = OLim pre o post nacct -> 0 <= pre -> 0 <= post ->
  (forall st' r, run_lop cfg st t o = Some (st', r) -> pre + lop_notifs cfg (L st) (L st') o r nacct + post <= notif_limit) ->
  run_op cfg st t = run_lop cfg st t o.
Proof.
  intros Ho Hpre Hpost Hn. unfold run_op. rewrite Ho. unfold run_lim, add_notifs.
  destruct (run_lop cfg st t o) as [[st' r]|] eqn:Hb.
  - specialize (Hn st' r eq_refl). pose proof (lop_notifs_nonneg (L st) (L st') o r nacct).
    destruct (0 + pre >? notif_limit) eqn:E1; [lia|].
    destruct (0 + pre + lop_notifs cfg (L st) (L st') o r nacct >? notif_limit) eqn:E2; [lia|].
    destruct (0 + pre + lop_notifs cfg (L st) (L st') o r nacct + post >? notif_limit) eqn:E3; [lia|].
    reflexivity.
  - destruct (0 + pre >? notif_limit); reflexivity.
Qed.

(* there is nothing in between: an execution either faults leaving the state as it was, or it is the native method's own
   outcome -- never "balances moved, no event" and never "false although funds moved" *)
Theorem no_partial_post_effect st t pre o post nacct :
  t_op t = OLim pre o post nacct ->
  (run_op cfg st t = None /\ exec_tx cfg st t = st) \/ run_op cfg st t = run_lop cfg st t o.
Proof.
  intros Ho. destruct (run_op cfg st t) as [[st' r]|] eqn:E.
  - right. unfold run_op in E. rewrite Ho in E. apply (run_lim_some cfg) in E. symmetry. exact E.
  - left. split; [reflexivity|]. unfold exec_tx. rewrite E. reflexivity.
Qed.

(* "report false and continue": the buggy reading of the error branch of postTransfer -- when the native's own event
   does not fit, drop it, keep what was written, answer false *)
Definition run_lim_swallow (st : state) (pre : Z) (o : lop) (nacct : N) (body : result) : result :=
  match body with
  | Some (st', Some true) =>
      if pre + lop_notifs cfg (L st) (L st') o (Some true) nacct >? notif_limit
      then Some (withL st' (set_events (L st') (l_events (L st))), Some false)
      else body
  | _ => body
  end.

End NotifLimit.

(* ---------- a concrete history ---------- *)
Definition nl_cfg : config :=
  mkCfg [1;2;3]%N [0;1;2]%N 2 [KPlain;KPlain;KPlain;KPlain;KNotary;KNeo;KGas;KAcceptor] 4 5 6 5200000000000000 true true true true true.
(* block 1: account 0 (all NEO, all GAS) funds account 1; block 2: nothing (so that GAS is claimable) *)
Definition nl_blocks : list (list tx) :=
  [ [ mkTx 0 100000000 1000000 [] (OGasT 0 1 300000000000 DNone) true (Some true) ]; [] ].
Definition nl_st : state := reach nl_cfg nl_blocks.
Definition nl_tx (pre : Z) (o : lop) (post : Z) : tx := mkTx 0 2000000000 1000000 [] (OLim pre o post 7) true None.

(* a GAS transfer of 5 from account 0 to account 1 as the 513th notification: the model faults and nothing moves;
   the swallowing reading leaves account 1 five richer with no event to show for it, and answers false.
   The same transfer as the 512th notification succeeds; a NEO transfer as the 511th and 512th does not when the sender
   has GAS to claim (the mint's event is the 513th), and does as the 510th and 511th; the helper's own notification after
   a transfer that fitted faults everything too; a transfer of 600 to the helper makes its callback emit 600. *)
Theorem post_effect_examples :
  cfg_wf nl_cfg /\ blocks_ok nl_cfg nl_blocks
  /\ exec_tx nl_cfg nl_st (nl_tx 512 (LGasT 0 1 5 DNone) 0) = nl_st
  /\ run_op nl_cfg nl_st (nl_tx 511 (LGasT 0 1 5 DNone) 0) = run_lop nl_cfg nl_st (nl_tx 511 (LGasT 0 1 5 DNone) 0) (LGasT 0 1 5 DNone)
  /\ gas_bal (exec_tx nl_cfg nl_st (nl_tx 511 (LGasT 0 1 5 DNone) 0)) 1 = gas_bal nl_st 1 + 5
  /\ exec_tx nl_cfg nl_st (nl_tx 511 (LGasT 0 1 5 DNone) 1) = nl_st
  /\ length (new_events (L nl_st) (L (exec_tx nl_cfg nl_st (nl_tx 0 (LNeoT 0 1 10) 0)))) = 2%nat
  /\ exec_tx nl_cfg nl_st (nl_tx 511 (LNeoT 0 1 10) 0) = nl_st
  /\ nbal (neo_acc (exec_tx nl_cfg nl_st (nl_tx 510 (LNeoT 0 1 10) 0)) 1) = 10
  /\ exec_tx nl_cfg nl_st (nl_tx 0 (LGasT 0 7 600 DNone) 0) = nl_st
  /\ gas_bal (exec_tx nl_cfg nl_st (nl_tx 0 (LGasT 0 7 1511 DNone) 0)) 7 = 1511
  /\ exec_tx nl_cfg nl_st (nl_tx 1 (LGasT 0 7 1511 DNone) 0) = nl_st.
Proof.
  split; [apply cfg_wf_of_check; vm_compute; reflexivity|].
  split; [repeat constructor; vm_compute; discriminate|].
  vm_compute. repeat split; reflexivity.
Qed.

Theorem swallowed_post_effect_refuted :
  match run_lim_swallow nl_cfg nl_st 512 (LGasT 0 1 5 DNone) 7 (run_lop nl_cfg nl_st (nl_tx 512 (LGasT 0 1 5 DNone) 0) (LGasT 0 1 5 DNone)) with
  | Some (st', answer) =>
      answer = Some false
      /\ bal GAS (L st') 1 - bal GAS (L nl_st) 1 = 5
      /\ ev_net GAS 1 (l_events (L st')) - ev_net GAS 1 (l_events (L nl_st)) = 0
      /\ P_ev GAS 1 (L st') <> P_ev GAS 1 (L nl_st)
  | None => False
  end.
Proof. vm_compute. repeat split; try reflexivity. discriminate. Qed.
