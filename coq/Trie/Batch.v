(* PutBatch (batch.go) of Trie/Model.v: on a key-sorted duplicate-free batch the content changes like the fold
   of the batch's puts and deletions, and the normal form is preserved.  Mechanism: lcpMany / stripPrefix,
   newSubTrieMany, addToBranch + stripBranch, mergeExtension, putBatchIntoExtension(NoPrefix). *)
From Coq Require Import Sorted.
From NG Require Import Common.Tactics Trie.Model Trie.Lemmas Trie.PutDelete Trie.Unique Trie.Range.

(* ---- specification side ---- *)

Definition kv_lt (a b : path * option bytes) : Prop := lex_cmp (fst a) (fst b) = Lt.
Definition kv_ok (kv : kvs) : Prop := StronglySorted kv_lt kv /\ Forall (fun e => path_ok (fst e)) kv.

Fixpoint kv_get (kv : kvs) (q : path) : option (option bytes) :=
  match kv with
  | [] => None
  | (k, ov) :: r => if path_eqb q k then Some ov else kv_get r q
  end.

Definition upd_map (m : fmap) (kv : kvs) : fmap :=
  fun q => match kv_get kv q with Some ov => ov | None => m q end.

Lemma kv_ok_tail e kv : kv_ok (e :: kv) -> kv_ok kv.
Proof. intros [H1 H2]. inv H1. inv H2. split; auto. Qed.

Lemma kv_get_none_sorted k ov r : StronglySorted kv_lt ((k, ov) :: r) -> kv_get r k = None.
Proof.
  intros H. inv H. induction r as [|[k' ov'] r IH]; simpl; auto.
  inv H3. inv H2. unfold kv_lt in H1. simpl in H1.
  destruct (path_eqb k k') eqn:E.
  - apply path_eqb_eq in E. subst. rewrite lex_cmp_refl in H1. discriminate.
  - apply IH; auto.
Qed.

Lemma fbatch_upd kv : forall m, StronglySorted kv_lt kv -> forall q, fbatch m kv q = upd_map m kv q.
Proof.
  unfold fbatch, upd_map. induction kv as [|[k ov] r IH]; intros m Hs q; simpl; auto.
  rewrite IH by (inv Hs; auto).
  destruct (path_eqb q k) eqn:E.
  - apply path_eqb_eq in E. subst q. rewrite (kv_get_none_sorted k ov r Hs).
    destruct ov; unfold fput, fdel; now rewrite path_eqb_refl.
  - destruct (kv_get r q); auto. destruct ov; unfold fput, fdel; now rewrite E.
Qed.

(* ---- selections ---- *)

Lemma kv_get_sub c kv r : kv_get (sub_kv c kv) r = kv_get kv (c :: r).
Proof.
  induction kv as [|[[|x k'] ov] kv IH]; simpl; auto.
  rewrite (Nat.eqb_sym c x). destruct (Nat.eqb x c); simpl; rewrite ?IH; auto.
Qed.

Lemma kv_get_emp kv : kv_get (emp_kv kv) [] = kv_get kv [].
Proof. induction kv as [|[[|x k'] ov] kv IH]; simpl; auto. Qed.

Lemma sub_lt c k' ov kv : Forall (kv_lt (c :: k', ov)) kv -> Forall (kv_lt (k', ov)) (sub_kv c kv).
Proof.
  intros H. induction H as [|[[|x k''] ov''] kv Hx Hkv IH]; simpl; auto.
  destruct (Nat.eqb_spec x c); auto. subst. constructor; auto.
  unfold kv_lt in *. simpl in *. now rewrite Nat.compare_refl in Hx.
Qed.

Lemma sub_path_ok c kv : Forall (fun e => path_ok (fst e)) kv -> Forall (fun e => path_ok (fst e)) (sub_kv c kv).
Proof.
  intros H. induction H as [|[[|x k'] ov] kv Hx Hkv IH]; simpl; auto.
  destruct (Nat.eqb x c); auto. constructor; auto. simpl in *. inv Hx; auto.
Qed.

Lemma kv_ok_sub c kv : kv_ok kv -> kv_ok (sub_kv c kv).
Proof.
  intros [Hs Hp]. split; [|apply sub_path_ok; auto]. clear Hp.
  induction Hs as [|[[|x k'] ov] kv Hs IH Hall]; simpl; [constructor|auto|].
  destruct (Nat.eqb_spec x c); auto. subst. constructor; auto. apply sub_lt; auto.
Qed.

Lemma kv_get_emp_cons kv x r : kv_get (emp_kv kv) (x :: r) = None.
Proof. induction kv as [|[[|y k'] ov] kv IH]; simpl; auto. Qed.

(* in a sorted batch the empty key can only come first *)
Lemma sorted_no_empty_tail e kv : StronglySorted kv_lt (e :: kv) -> emp_kv kv = [].
Proof.
  intros H. inv H. induction kv as [|[[|y k'] ov] kv IH]; simpl; auto.
  - exfalso. inv H3. unfold kv_lt in H1. simpl in H1. destruct (fst e); discriminate.
  - inv H2. inv H3. auto.
Qed.

Lemma emp_kv_shape kv : StronglySorted kv_lt kv -> emp_kv kv = [] \/ exists ov, emp_kv kv = [([], ov)].
Proof.
  intros H. destruct kv as [|[[|y k'] ov] kv]; simpl; auto.
  - right. exists ov. now rewrite (sorted_no_empty_tail _ _ H).
  - left. eapply sorted_no_empty_tail; eauto.
Qed.

Lemma nth_mapi f l : forall j i, i < length l -> nth i (mapi j f l) Empty = f (j + i) (nth i l Empty).
Proof.
  induction l as [|c l IH]; intros j [|i] Hi; simpl in *; try lia.
  - now rewrite Nat.add_0_r.
  - rewrite IH by lia. f_equal. lia.
Qed.

Lemma length_mapi f l : forall j, length (mapi j f l) = length l.
Proof. induction l; intros j; simpl; auto. Qed.

Lemma Forall_mapi (P : node -> Prop) f l : forall j, (forall i c, In c l -> P (f i c)) -> Forall P (mapi j f l).
Proof.
  induction l as [|c l IH]; intros j H; simpl; constructor.
  - apply H. left; auto.
  - apply IH. intros. apply H. right; auto.
Qed.

(* ---- stripBranch / mergeExtension ---- *)

Lemma merge_ext_spec prefix sub : NF sub -> path_ok prefix ->
  NF (merge_ext prefix sub) /\
  forall q, content (merge_ext prefix sub) q = match strip prefix q with Some s => content sub s | None => None end.
Proof.
  intros [->|Hs] Hp.
  - split; [left; auto|]. intros q. simpl. destruct (strip prefix q); reflexivity.
  - destruct sub as [|w|k n|cs vc|h]; try (inv Hs; fail); simpl.
    + destruct prefix as [|x p]; [split; [right; auto|reflexivity]|].
      split; [right; constructor; auto; [discriminate|exact I]|reflexivity].
    + inv Hs. split.
      * right. constructor; auto; [destruct prefix; discriminate || (destruct k; [congruence|discriminate])|apply path_ok_app; auto].
      * intros q. ctn. rewrite strip_app_l. destruct (strip prefix q); reflexivity.
    + destruct prefix as [|x p]; [split; [right; auto|reflexivity]|].
      split; [right; constructor; auto; [discriminate|exact I]|reflexivity].
Qed.

Lemma strip_branch_spec cs vc :
  length cs = 16 -> Forall (fun c => c = Empty \/ NFne c) cs -> vc_ok vc ->
  NF (strip_branch cs vc) /\ forall q, content (strip_branch cs vc) q = content (Branch cs vc) q.
Proof.
  intros Hlen Hall Hvc.
  destruct (Nat.eq_dec (ne_count (cs ++ [vc])) 0) as [H0|H0].
  - (* nothing left *)
    unfold strip_branch. unfold ne_count in H0. destruct (ne_from 0 (cs ++ [vc])) eqn:E; [|simpl in H0; lia].
    split; [left; auto|].
    assert (Hemp : forall i, nth i (cs ++ [vc]) Empty = Empty).
    { intros i. destruct (is_empty (nth i (cs ++ [vc]) Empty)) eqn:Ei; [destruct (nth i (cs ++ [vc]) Empty); simpl in Ei; congruence|].
      assert (Hl : i < length (cs ++ [vc])).
      { destruct (Nat.lt_ge_cases i (length (cs ++ [vc]))); auto. rewrite nth_overflow in Ei by lia. discriminate. }
      assert (Hin : In (i, nth i (cs ++ [vc]) Empty) (ne_from 0 (cs ++ [vc]))) by (apply ne_from_In; rewrite Nat.sub_0_r; repeat split; auto; lia).
      rewrite E in Hin. destruct Hin. }
    intros q. destruct q as [|i r]; ctn.
    + specialize (Hemp 16). rewrite app_nth2 in Hemp by lia. rewrite Hlen, Nat.sub_diag in Hemp. simpl in Hemp. now rewrite Hemp.
    + destruct (Nat.lt_ge_cases i 16).
      * specialize (Hemp i). rewrite app_nth1 in Hemp by lia. now rewrite Hemp.
      * rewrite nth_overflow by lia. reflexivity.
  - destruct (after_delete_spec cs vc) as [Hn Hq]; auto; [lia|].
    assert (E : strip_branch cs vc = after_delete cs vc).
    { unfold strip_branch, after_delete. destruct (ne_from 0 (cs ++ [vc])) as [|[j c] [|e2 rest]] eqn:En; auto.
      - unfold ne_count in H0. rewrite En in H0. simpl in H0. lia.
      - destruct (Nat.eqb j 16) eqn:Ej; auto.
        apply ne_from_single in En. destruct En as (Hj & Hnth & Hne & _).
        assert (Hj' : j < 16).
        { rewrite app_length in Hj. simpl in Hj. apply Nat.eqb_neq in Ej. lia. }
        rewrite app_nth1 in Hnth by lia.
        destruct (NF_nth cs j Hall) as [Hc|Hc]; rewrite Hnth in Hc; [rewrite Hc in Hne; simpl in Hne; discriminate Hne|].
        destruct c; try (inv Hc; fail); reflexivity. }
    rewrite E. split; [right; auto|auto].
Qed.

(* a normal form that holds at most the empty key is a leaf or empty *)
Lemma only_root_vc_ok t : NF t -> (forall x r, content t (x :: r) = None) -> vc_ok t.
Proof.
  intros [->|Ht] Hc; [exact I|]. destruct t as [|w|k n|cs vc|h]; try (inv Ht; fail); try exact I.
  - exfalso. pose proof Ht as Ht0. inv Ht. destruct (NFne_has_key n H3) as (p & v & Hp).
    destruct k as [|x k]; [congruence|]. specialize (Hc x (k ++ p)).
    rewrite content_ext in Hc. change (x :: k ++ p) with ((x :: k) ++ p) in Hc. rewrite strip_app in Hc. congruence.
  - exfalso. destruct (branch_two_keys cs vc Ht) as [(v & i & r & w & _ & Hi)|(i & j & r & s & v & w & _ & Hi & _)];
      rewrite Hc in Hi; discriminate.
Qed.

(* ---- sizes ---- *)

Lemma maxlen_in e kv : In e kv -> length (fst e) <= maxlen kv.
Proof.
  induction kv; simpl; [tauto|]. intros [->|H]; [apply Nat.le_max_l|].
  specialize (IHkv H). etransitivity; [exact IHkv|apply Nat.le_max_r].
Qed.

Lemma maxlen_le n kv : Forall (fun e => length (fst e) <= n) kv -> maxlen kv <= n.
Proof. induction 1; simpl; [lia|]. apply Nat.max_lub; auto. Qed.

Lemma sub_kv_in c kv e : In e (sub_kv c kv) -> In (c :: fst e, snd e) kv.
Proof.
  induction kv as [|[[|x k'] ov] kv IH]; simpl; auto.
  destruct (Nat.eqb_spec x c); [|auto]. subst. intros [<-|H]; auto.
Qed.

Lemma maxlen_sub c kv : sub_kv c kv <> [] -> maxlen (sub_kv c kv) + 1 <= maxlen kv.
Proof.
  intros Hne. assert (H : maxlen (sub_kv c kv) <= maxlen kv - 1).
  { apply maxlen_le. apply Forall_forall. intros e He. apply sub_kv_in in He. apply maxlen_in in He. simpl in He. unfold path in *. lia. }
  destruct (sub_kv c kv) as [|e r] eqn:E; [congruence|].
  assert (He : In e (sub_kv c kv)) by (rewrite E; left; auto).
  apply sub_kv_in in He. apply maxlen_in in He. simpl in He. unfold path in *. lia.
Qed.

(* ---- keys outside the nibble alphabet are not in a batch ---- *)

Lemma kv_get_in kv q ov : kv_get kv q = Some ov -> In (q, ov) kv.
Proof.
  induction kv as [|[k o] kv IH]; simpl; [discriminate|].
  destruct (path_eqb q k) eqn:E; [apply path_eqb_eq in E; subst; intros [= <-]; auto|auto].
Qed.

Lemma kv_get_not_ok kv q : Forall (fun e => path_ok (fst e)) kv -> ~ path_ok q -> kv_get kv q = None.
Proof.
  intros H Hq. destruct (kv_get kv q) eqn:E; auto. apply kv_get_in in E.
  rewrite Forall_forall in H. apply H in E. contradiction.
Qed.

(* ---- addToBranch ---- *)

Definition rec_ok (rec : node -> kvs -> node) (f : nat) : Prop :=
  forall t kv, NF t -> kv_ok kv -> kv <> [] -> maxlen kv + 2 <= f ->
  NF (rec t kv) /\ forall q, content (rec t kv) q = upd_map (content t) kv q.

Definition of_ov (ov : option bytes) : node := match ov with Some w => Leaf w | None => Empty end.
Definition rec_root (rec : node -> kvs -> node) : Prop :=
  forall vc ov, vc_ok vc -> rec vc [([], ov)] = of_ov ov.

Lemma upd_map_nil m q : upd_map m [] q = m q.
Proof. reflexivity. Qed.

Lemma add_to_branch_spec rec f cs vc kv : rec_ok rec f -> rec_root rec ->
  length cs = 16 -> Forall (fun c => c = Empty \/ NFne c) cs -> vc_ok vc -> kv_ok kv -> maxlen kv + 1 <= f ->
  NF (add_to_branch rec cs vc kv) /\
  forall q, content (add_to_branch rec cs vc kv) q = upd_map (content (Branch cs vc)) kv q.
Proof.
  intros Hrec Hroot Hlen Hall Hvc Hkv Hf. unfold add_to_branch.
  set (cs' := mapi 0 (fun c child => on_kv rec (sub_kv c kv) child) cs).
  set (vc' := on_kv rec (emp_kv kv) vc).
  assert (Hkid : forall i, i < 16 -> NF (nth i cs' Empty) /\
                 forall r, content (nth i cs' Empty) r = upd_map (content (nth i cs Empty)) (sub_kv i kv) r).
  { intros i Hi. unfold cs'. rewrite nth_mapi by lia. simpl. unfold on_kv.
    destruct (sub_kv i kv) as [|e g] eqn:E; [split; [apply NF_nth; auto|reflexivity]|].
    rewrite <- E. apply Hrec; auto.
    - apply NF_nth; auto.
    - apply kv_ok_sub; auto.
    - rewrite E. discriminate.
    - pose proof (maxlen_sub i kv). rewrite E in *. assert (e :: g <> []) by discriminate. specialize (H H0). lia. }
  assert (Hv : vc_ok vc' /\ content vc' [] = upd_map (content vc) (emp_kv kv) []).
  { unfold vc', on_kv. destruct Hkv as [Hs _]. destruct (emp_kv_shape kv Hs) as [E|[ov E]]; rewrite E.
    - split; auto.
    - rewrite Hroot by auto. unfold upd_map. simpl. destruct ov; simpl; auto. }
  destruct Hv as [Hvc' Hcv].
  destruct (strip_branch_spec cs' vc') as [Hn Hq]; auto.
  - unfold cs'. now rewrite length_mapi.
  - apply Forall_forall. intros c Hc. destruct (In_nth _ _ Empty Hc) as (i & Hi & <-).
    unfold cs' in Hi. rewrite length_mapi in Hi. apply Hkid. lia.
  - split; auto. intros q. rewrite Hq. unfold upd_map. destruct q as [|i r]; ctn.
    + rewrite Hcv. unfold upd_map. rewrite kv_get_emp. destruct (kv_get kv []); auto.
    + destruct (Nat.lt_ge_cases i 16) as [Hi|Hi].
      * destruct (Hkid i Hi) as [_ Hc]. rewrite Hc. unfold upd_map. now rewrite kv_get_sub.
      * rewrite nth_overflow by (unfold cs'; rewrite length_mapi; lia).
        rewrite (nth_overflow cs) by lia. destruct Hkv as [_ Hp].
        rewrite kv_get_not_ok; auto. intros Hq'. inv Hq'. lia.
Qed.

(* ---- newSubTrieMany ---- *)

Definition root_map (value : option bytes) : fmap := fun q => match q with [] => value | _ => None end.

Lemma content_vc_root value q : content (Branch empties (of_ov value)) q = root_map value q.
Proof.
  destruct q as [|i r]; ctn.
  - destruct value; reflexivity.
  - now rewrite nth_empties.
Qed.

Lemma new_sub_many_spec rec f prefix kv value : rec_ok rec f -> rec_root rec ->
  kv_ok kv -> kv <> [] -> maxlen kv + 1 <= f -> path_ok prefix ->
  NF (new_sub_many rec prefix kv value) /\
  forall q, content (new_sub_many rec prefix kv value) q =
            match strip prefix q with Some s => upd_map (root_map value) kv s | None => None end.
Proof.
  intros Hrec Hroot Hkv Hne Hf Hp.
  assert (Hgo : forall kv' value', kv_ok kv' -> maxlen kv' + 1 <= f ->
            NF (merge_ext prefix (add_to_branch rec empties (of_ov value') kv')) /\
            forall q, content (merge_ext prefix (add_to_branch rec empties (of_ov value') kv')) q =
                      match strip prefix q with Some s => upd_map (root_map value') kv' s | None => None end).
  { intros kv' value' Hkv' Hf'.
    destruct (add_to_branch_spec rec f empties (of_ov value') kv') as [Hn Hc]; auto.
    - repeat constructor.
    - destruct value'; exact I.
    - destruct (merge_ext_spec prefix _ Hn Hp) as [Hn' Hc']. split; auto.
      intros q. rewrite Hc'. destruct (strip prefix q) as [s|]; auto. rewrite Hc. unfold upd_map.
      now rewrite content_vc_root. }
  unfold new_sub_many.
  destruct kv as [|[[|x k'] ov] kv']; [congruence| |].
  - (* first key empty *)
    assert (Hnoemp : forall q : path, kv_get kv' [] = None).
    { intros _. destruct Hkv as [Hs _]. pose proof (sorted_no_empty_tail _ _ Hs) as E.
      rewrite <- kv_get_emp, E. reflexivity. }
    destruct ov as [w|].
    + destruct kv' as [|e kv''].
      * split; [right; apply NFne_new_sub; auto; [constructor|exact I]|].
        intros q. rewrite content_new_sub. destruct (strip prefix q) as [[|y s]|]; reflexivity.
      * destruct (Hgo (([], Some w) :: e :: kv'') (Some w)) as [Hn Hc]; auto.
        split; [exact Hn|]. intros q. rewrite Hc. destruct (strip prefix q) as [s|]; auto.
        unfold upd_map. destruct s as [|y s]; reflexivity.
    + destruct kv' as [|e kv''].
      * split; [left; auto|]. intros q. simpl. destruct (strip prefix q) as [[|y s]|]; reflexivity.
      * destruct (Hgo (e :: kv'') None) as [Hn Hc].
        -- eapply kv_ok_tail; eauto.
        -- simpl in Hf. simpl. lia.
        -- split; auto. intros q. rewrite Hc. destruct (strip prefix q) as [s|]; auto.
           unfold upd_map. destruct s as [|y s]; [rewrite (Hnoemp []); reflexivity|]. reflexivity.
  - apply (Hgo ((x :: k', ov) :: kv') value); auto.
Qed.

(* ---- common prefixes ---- *)

Definition has_prefix (c : path) (kv : kvs) : Prop := forall e, In e kv -> exists r, fst e = c ++ r.

Lemma lcp_prefix_l a b : exists d, a = lcp a b ++ d.
Proof. unfold lcp. pose proof (common_spec a b) as H. destruct (common a b) as [[c at_] bt]. destruct H as (-> & _ & _). simpl. eauto. Qed.
Lemma lcp_prefix_r a b : exists d, b = lcp a b ++ d.
Proof. unfold lcp. pose proof (common_spec a b) as H. destruct (common a b) as [[c at_] bt]. destruct H as (_ & -> & _). simpl. eauto. Qed.

Lemma fold_lcp_prefix rest : forall p,
  (exists d, p = fold_left (fun p (e : path * option bytes) => lcp p (fst e)) rest p ++ d) /\
  has_prefix (fold_left (fun p (e : path * option bytes) => lcp p (fst e)) rest p) rest.
Proof.
  induction rest as [|e rest IH]; intros p; simpl.
  - split; [exists []; now rewrite app_nil_r|]. intros e [].
  - destruct (IH (lcp p (fst e))) as [[d Hd] Hr]. split.
    + destruct (lcp_prefix_l p (fst e)) as [d' Hd']. exists (d ++ d'). rewrite app_assoc, <- Hd. exact Hd'.
    + intros e' [<-|Hin]; auto. destruct (lcp_prefix_r p (fst e)) as [d' Hd'].
      exists (d ++ d'). rewrite app_assoc, <- Hd. exact Hd'.
Qed.

Lemma lcp_many_prefix kv : has_prefix (lcp_many kv) kv.
Proof.
  destruct kv as [|[k0 v0] [|[k1 v1] rest]]; simpl.
  - intros e [].
  - intros e [<-|[]]. exists []. simpl. now rewrite app_nil_r.
  - destruct (lcp k0 k1) as [|x p] eqn:E; [intros e _; exists (fst e); reflexivity|].
    destruct (fold_lcp_prefix rest (x :: p)) as [[d Hd] Hr].
    intros e [<-|[<-|Hin]]; auto; simpl.
    + destruct (lcp_prefix_l k0 k1) as [d' Hd']. rewrite E in Hd'. exists (d ++ d'). rewrite app_assoc, <- Hd. exact Hd'.
    + destruct (lcp_prefix_r k0 k1) as [d' Hd']. rewrite E in Hd'. exists (d ++ d'). rewrite app_assoc, <- Hd. exact Hd'.
Qed.

Lemma has_prefix_shorter c d kv : has_prefix (c ++ d) kv -> has_prefix c kv.
Proof. intros H e He. destruct (H e He) as [r Hr]. exists (d ++ r). now rewrite app_assoc. Qed.

(* ---- stripPrefix ---- *)

Lemma skipn_app_len {A} (a b : list A) : skipn (length a) (a ++ b) = b.
Proof. induction a; simpl; auto. Qed.

Lemma strip_prefix_cons c k ov kv r : k = c ++ r ->
  strip_prefix (length c) ((k, ov) :: kv) = (r, ov) :: strip_prefix (length c) kv.
Proof. intros ->. unfold strip_prefix. simpl. now rewrite skipn_app_len. Qed.

Lemma has_prefix_tail c e kv : has_prefix c (e :: kv) -> has_prefix c kv.
Proof. intros H x Hx. apply H. right; auto. Qed.

Lemma kv_get_strip c kv : has_prefix c kv -> forall s, kv_get (strip_prefix (length c) kv) s = kv_get kv (c ++ s).
Proof.
  induction kv as [|[k ov] kv IH]; intros Hc s; [reflexivity|].
  destruct (Hc (k, ov)) as [r Hr]; [left; auto|]. simpl in Hr.
  unfold strip_prefix. simpl. fold (strip_prefix (length c) kv). subst k. rewrite skipn_app_len, path_eqb_app.
  destruct (path_eqb s r); auto. apply IH. eapply has_prefix_tail; eauto.
Qed.

Lemma kv_get_off_prefix c kv q : has_prefix c kv -> strip c q = None -> kv_get kv q = None.
Proof.
  intros Hc Hq. destruct (kv_get kv q) eqn:E; auto. apply kv_get_in in E. destruct (Hc _ E) as [r Hr]. simpl in Hr.
  subst q. rewrite strip_app in Hq. discriminate.
Qed.

Lemma kv_ok_strip c kv : has_prefix c kv -> kv_ok kv -> kv_ok (strip_prefix (length c) kv).
Proof.
  intros Hc [Hs Hp]. split.
  - induction Hs as [|[k ov] kv Hs IH Hall]; [constructor|].
    destruct (Hc (k, ov)) as [r Hr]; [left; auto|]. simpl in Hr.
    unfold strip_prefix. simpl. fold (strip_prefix (length c) kv). constructor.
    + apply IH; [eapply has_prefix_tail; eauto|inv Hp; auto].
    + unfold strip_prefix. rewrite Forall_map. rewrite Forall_forall in *. intros [k2 ov2] Hin.
      specialize (Hall _ Hin). destruct (Hc (k2, ov2)) as [r2 Hr2]; [right; auto|]. simpl in Hr2.
      unfold kv_lt in *. simpl in *. subst k k2. rewrite !skipn_app_len. now rewrite lex_cmp_app in Hall.
  - unfold strip_prefix. rewrite Forall_map. rewrite Forall_forall in *. intros [k ov] Hin. simpl.
    specialize (Hp _ Hin). simpl in Hp. destruct (Hc _ Hin) as [r Hr]. simpl in Hr. subst k.
    rewrite skipn_app_len. apply path_ok_app in Hp. tauto.
Qed.

Lemma strip_prefix_nonempty n kv : kv <> [] -> strip_prefix n kv <> [].
Proof. destruct kv; simpl; congruence. Qed.

Lemma maxlen_strip c kv : has_prefix c kv -> kv <> [] -> maxlen (strip_prefix (length c) kv) + length c <= maxlen kv.
Proof.
  intros Hc Hne.
  assert (H : maxlen (strip_prefix (length c) kv) <= maxlen kv - length c).
  { apply maxlen_le. unfold strip_prefix. rewrite Forall_map. apply Forall_forall. intros [k ov] Hin. simpl.
    destruct (Hc _ Hin) as [r Hr]. simpl in Hr. subst k. rewrite skipn_app_len.
    apply maxlen_in in Hin. simpl in Hin. rewrite app_length in Hin. unfold path in *. lia. }
  destruct kv as [|[k ov] kv]; [congruence|].
  destruct (Hc (k, ov)) as [r Hr]; [left; auto|]. simpl in Hr.
  assert (Hk : length k <= maxlen ((k, ov) :: kv)) by (apply (maxlen_in (k, ov)); left; auto).
  subst k. rewrite app_length in Hk. unfold path in *. lia.
Qed.

(* ---- putBatchIntoNode ---- *)

Lemma strip_prefix_0 kv : strip_prefix 0 kv = kv.
Proof. unfold strip_prefix. induction kv as [|[k ov] kv IH]; [reflexivity|]. cbn [map]. rewrite IH. reflexivity. Qed.

Lemma put_batch_node_root f : rec_root (put_batch_node (S f)).
Proof.
  intros vc ov Hvc. destruct vc; simpl in Hvc; try tauto; simpl; destruct ov; reflexivity.
Qed.

Lemma has_prefix_path_ok c kv : has_prefix c kv -> kv <> [] -> Forall (fun e => path_ok (fst e)) kv -> path_ok c.
Proof.
  intros Hc Hne Hp. destruct kv as [|e kv]; [congruence|]. destruct (Hc e) as [r Hr]; [left; auto|].
  inv Hp. rewrite Hr in H1. apply path_ok_app in H1. tauto.
Qed.

Lemma content_ext_branch a kt n s : a < 16 ->
  content (Branch (upd a (new_sub kt n) empties) Empty) s = content (Ext (a :: kt) n) s.
Proof.
  intros Ha. destruct s as [|j s]; ctn; simpl; auto.
  destruct (Nat.eqb_spec a j).
  - subst. rewrite nth_upd_same by (rewrite length_empties; lia). apply content_new_sub.
  - rewrite nth_upd_other by auto. now rewrite nth_empties.
Qed.

Lemma noprefix_spec rec f a kt n kv : rec_ok rec f -> rec_root rec ->
  a < 16 -> path_ok kt -> NFne n -> leaf_or_branch n -> kv_ok kv -> maxlen kv + 1 <= f ->
  NF (put_batch_ext_noprefix rec (a :: kt) n kv) /\
  forall s, content (put_batch_ext_noprefix rec (a :: kt) n kv) s = upd_map (content (Ext (a :: kt) n)) kv s.
Proof.
  intros Hrec Hroot Ha Hkt Hn Hl Hkv Hf. unfold put_batch_ext_noprefix.
  destruct (add_to_branch_spec rec f (upd a (new_sub kt n) empties) Empty kv) as [HN HC]; auto.
  - now rewrite length_upd.
  - apply Forall_upd; [repeat constructor|]. right. apply NFne_new_sub; auto.
  - exact I.
  - split; auto. intros s. rewrite HC. unfold upd_map. now rewrite content_ext_branch.
Qed.

Theorem put_batch_node_spec : forall f, rec_ok (put_batch_node f) f.
Proof.
  induction f as [|f IH]; intros t kv Ht Hkv Hne Hf; [lia|].
  assert (Hf1 : maxlen kv + 1 <= f) by lia.
  assert (Hroot : rec_root (put_batch_node f)) by (destruct f; [lia|apply put_batch_node_root]).
  destruct t as [|w|k n|cs vc|h].
  - (* Empty *)
    cbn [put_batch_node]. pose proof (lcp_many_prefix kv) as Hc. set (c := lcp_many kv) in *.
    destruct (new_sub_many_spec (put_batch_node f) f c (strip_prefix (length c) kv) None) as [HN HC]; auto.
    + apply kv_ok_strip; auto.
    + apply strip_prefix_nonempty; auto.
    + pose proof (maxlen_strip c kv Hc Hne). lia.
    + destruct Hkv. eapply has_prefix_path_ok; eauto.
    + split; auto. intros q. rewrite HC. unfold upd_map.
      destruct (strip c q) as [s|] eqn:Es.
      * apply strip_some in Es. subst q. rewrite kv_get_strip by auto.
        destruct (kv_get kv (c ++ s)); auto. destruct s; reflexivity.
      * rewrite (kv_get_off_prefix c kv q) by auto. reflexivity.
  - (* Leaf *)
    cbn [put_batch_node]. assert (Hp0 : path_ok []) by constructor.
    destruct (new_sub_many_spec (put_batch_node f) f [] kv (Some w)) as [HN HC]; auto.
  - (* Ext *)
    destruct Ht as [Ht|Ht]; [discriminate|]. inv Ht. rename H1 into Hk, H2 into Hpk, H3 into Hn, H4 into Hl.
    cbn [put_batch_node]. pose proof (lcp_many_prefix kv) as Hc. set (c := lcp_many kv) in *.
    destruct (lcp_prefix_l c k) as [d Hd]. destruct (lcp_prefix_r c k) as [kt Hkt].
    set (pref := lcp c k) in *.
    assert (Hpref : has_prefix pref kv) by (rewrite Hd in Hc; eapply has_prefix_shorter; eauto).
    assert (Hppref : path_ok pref) by (rewrite Hkt in Hpk; apply path_ok_app in Hpk; tauto).
    destruct (Nat.eqb_spec (length pref) (length k)) as [El|El].
    + (* the whole key is shared *)
      assert (kt = []) by (rewrite Hkt, app_length in El; destruct kt; simpl in *; [auto|lia]). subst kt.
      rewrite app_nil_r in Hkt. rewrite <- Hkt in *. clear Hkt.
      destruct (IH n (strip_prefix (length k) kv)) as [HN HC]; auto.
      * right; auto.
      * apply kv_ok_strip; auto.
      * apply strip_prefix_nonempty; auto.
      * pose proof (maxlen_strip k kv Hpref Hne). destruct k; [congruence|]. simpl in *. lia.
      * destruct (merge_ext_spec k _ HN Hpk) as [HN' HC']. split; auto.
        intros q. rewrite HC'. unfold upd_map. ctn.
        destruct (strip k q) as [s|] eqn:Es.
        -- apply strip_some in Es. subst q. rewrite HC. unfold upd_map. now rewrite kv_get_strip by auto.
        -- now rewrite (kv_get_off_prefix k kv q) by auto.
    + (* the key is split *)
      destruct kt as [|a kt]; [rewrite app_nil_r in Hkt; rewrite <- Hkt in El; congruence|].
      rewrite Hkt in Hpk. apply path_ok_app in Hpk. destruct Hpk as [_ Hakt]. apply path_ok_cons in Hakt. destruct Hakt as [Ha Hkt'].
      destruct pref as [|x p] eqn:Ep.
      * simpl in Hkt. subst k.
        destruct (noprefix_spec (put_batch_node f) f a kt n kv) as [HN HC]; auto.
      * clear Ep. clearbody pref c. subst k. rewrite skipn_app_len.
        destruct (noprefix_spec (put_batch_node f) f a kt n (strip_prefix (length (x :: p)) kv)) as [HN HC]; auto.
        -- apply kv_ok_strip; auto.
        -- pose proof (maxlen_strip (x :: p) kv Hpref Hne). lia.
        -- destruct (merge_ext_spec (x :: p) _ HN Hppref) as [HN' HC']. split; auto.
           intros q. rewrite HC'. unfold upd_map. ctn. rewrite strip_app_l.
           destruct (strip (x :: p) q) as [s|] eqn:Es.
           ++ apply strip_some in Es. subst q. rewrite HC. unfold upd_map. rewrite kv_get_strip by auto. reflexivity.
           ++ now rewrite (kv_get_off_prefix (x :: p) kv q) by auto.
  - (* Branch *)
    destruct Ht as [Ht|Ht]; [discriminate|]. inv Ht. cbn [put_batch_node].
    apply (add_to_branch_spec (put_batch_node f) f); auto.
  - destruct Ht as [Ht|Ht]; [discriminate|inv Ht].
Qed.

Theorem put_batch_spec t kv : NF t -> kv_ok kv ->
  NF (put_batch t kv) /\ forall q, content (put_batch t kv) q = fbatch (content t) kv q.
Proof.
  intros Ht Hkv. destruct kv as [|e kv'] eqn:E; [split; auto|]. rewrite <- E in *.
  assert (Hne : kv <> []) by (rewrite E; discriminate).
  assert (E2 : put_batch t kv = put_batch_node (maxlen kv + 2) t kv) by (rewrite E; reflexivity).
  rewrite E2. destruct (put_batch_node_spec (maxlen kv + 2) t kv) as [HN HC]; auto.
  split; auto. intros q. rewrite HC. destruct Hkv. now rewrite fbatch_upd.
Qed.
